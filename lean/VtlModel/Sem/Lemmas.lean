import VtlModel.Sem.Eval
/-! Helper lemmas about `mapRows` (the row-wise combinator every row-preserving operator is built from):
membership, error characterisation and permutation invariance. -/
namespace VtlModel.Sem

open List

/-- outcomes equal up to the order of rows: both fail, or both succeed with permuted row lists. -/
def RowsEquiv (a b : R (List Row)) : Prop :=
  (∃ e e', a = .error e ∧ b = .error e') ∨ (∃ x y, a = .ok x ∧ b = .ok y ∧ x.Perm y)

theorem mapM_ok_cons {α β : Type} (f : α → R β) (a : α) (l : List α) (out : List β) :
    (a :: l).mapM f = .ok out ↔ ∃ b bs, f a = .ok b ∧ l.mapM f = .ok bs ∧ out = b :: bs := by
  simp only [List.mapM_cons]
  cases h : f a with
  | error e => simp [bind, Except.bind]
  | ok b =>
    cases h2 : l.mapM f with
    | error e => simp [bind, Except.bind]
    | ok bs =>
      simp [bind, Except.bind, pure, Except.pure]
      constructor
      · intro h; exact h.symm
      · intro h; exact h.symm

theorem mapM_ok_mem {α β : Type} (f : α → R β) :
    ∀ (l : List α) (out : List β), l.mapM f = .ok out →
      ∀ b, b ∈ out ↔ ∃ a ∈ l, f a = .ok b := by
  intro l
  induction l with
  | nil => intro out h b; simp [List.mapM_nil, pure, Except.pure] at h; subst h; simp
  | cons a l ih =>
    intro out h b
    obtain ⟨b0, bs, h1, h2, rfl⟩ := (mapM_ok_cons f a l out).1 h
    simp only [List.mem_cons]
    constructor
    · rintro (rfl | hb)
      · exact ⟨a, Or.inl rfl, h1⟩
      · obtain ⟨a', ha', hf⟩ := (ih bs h2 b).1 hb
        exact ⟨a', Or.inr ha', hf⟩
    · rintro ⟨a', (rfl | ha'), hf⟩
      · left; rw [h1] at hf; injection hf with hf; exact hf.symm
      · right; exact (ih bs h2 b).2 ⟨a', ha', hf⟩

theorem mapM_error_iff {α β : Type} (f : α → R β) :
    ∀ (l : List α), (∃ e, l.mapM f = .error e) ↔ ∃ a ∈ l, ∃ e, f a = .error e := by
  intro l
  induction l with
  | nil => simp [List.mapM_nil, pure, Except.pure]
  | cons a l ih =>
    simp only [List.mapM_cons, List.mem_cons]
    cases h : f a with
    | error e =>
      simp only [bind, Except.bind]
      constructor
      · intro _; exact ⟨a, Or.inl rfl, e, h⟩
      · intro _; exact ⟨e, rfl⟩
    | ok b =>
      cases h2 : l.mapM f with
      | error e =>
        simp only [bind, Except.bind]
        constructor
        · intro _
          obtain ⟨a', ha', e', he'⟩ := ih.1 ⟨e, h2⟩
          exact ⟨a', Or.inr ha', e', he'⟩
        · intro _; exact ⟨e, rfl⟩
      | ok bs =>
        simp only [bind, Except.bind, pure, Except.pure]
        constructor
        · rintro ⟨e, he⟩; cases he
        · rintro ⟨a', (rfl | ha'), e', he'⟩
          · rw [h] at he'; cases he'
          · obtain ⟨e'', he''⟩ := ih.2 ⟨a', ha', e', he'⟩
            rw [h2] at he''; cases he''

theorem mapM_ok_or_error {α β : Type} (f : α → R β) (l : List α) :
    (∃ out, l.mapM f = .ok out) ∨ (∃ e, l.mapM f = .error e) := by
  cases h : l.mapM f with
  | ok out => exact Or.inl ⟨out, rfl⟩
  | error e => exact Or.inr ⟨e, rfl⟩

/-- `mapM` over `Except` commutes with permutations (on success). -/
theorem mapM_perm {α β : Type} (f : α → R β) {l l' : List α} (hp : l.Perm l') :
    ∀ out, l.mapM f = .ok out → ∃ out', l'.mapM f = .ok out' ∧ out.Perm out' := by
  induction hp with
  | nil => intro out h; exact ⟨out, h, Perm.refl _⟩
  | cons a _ ih =>
    intro out h
    obtain ⟨b, bs, h1, h2, rfl⟩ := (mapM_ok_cons f a _ out).1 h
    obtain ⟨bs', h3, hp'⟩ := ih bs h2
    exact ⟨b :: bs', (mapM_ok_cons f a _ _).2 ⟨b, bs', h1, h3, rfl⟩, Perm.cons b hp'⟩
  | swap a a' l =>
    intro out h
    obtain ⟨b, bs, h1, h2, rfl⟩ := (mapM_ok_cons f a' _ out).1 h
    obtain ⟨b', bs', h1', h2', rfl⟩ := (mapM_ok_cons f a _ bs).1 h2
    refine ⟨b' :: b :: bs', ?_, Perm.swap _ _ _⟩
    exact (mapM_ok_cons f a _ _).2 ⟨b', b :: bs', h1', (mapM_ok_cons f a' _ _).2 ⟨b, bs', h1, h2', rfl⟩, rfl⟩
  | trans _ _ ih1 ih2 =>
    intro out h
    obtain ⟨o1, h1, p1⟩ := ih1 out h
    obtain ⟨o2, h2, p2⟩ := ih2 o1 h1
    exact ⟨o2, h2, p1.trans p2⟩

theorem mapRows_ok_iff (f : Row → R (Option Row)) (rows : List Row) (out : List Row) :
    mapRows f rows = .ok out ↔ ∃ xs, rows.mapM f = .ok xs ∧ out = xs.filterMap id := by
  unfold mapRows
  cases h : rows.mapM f with
  | error e => simp [bind, Except.bind]
  | ok xs =>
    simp [bind, Except.bind, pure, Except.pure]
    constructor <;> intro h' <;> exact h'.symm

/-- a row is in the result iff it is the image of some input row. -/
theorem mapRows_mem (f : Row → R (Option Row)) (rows out : List Row)
    (h : mapRows f rows = .ok out) (r' : Row) :
    r' ∈ out ↔ ∃ r ∈ rows, f r = .ok (some r') := by
  obtain ⟨xs, hx, rfl⟩ := (mapRows_ok_iff f rows out).1 h
  simp only [List.mem_filterMap, id]
  constructor
  · rintro ⟨o, ho, rfl⟩
    exact (mapM_ok_mem f rows xs hx (some r')).1 ho
  · intro h'
    exact ⟨some r', (mapM_ok_mem f rows xs hx (some r')).2 h', rfl⟩

/-- the operator fails iff it fails on some row. -/
theorem mapRows_error_iff (f : Row → R (Option Row)) (rows : List Row) :
    (∃ e, mapRows f rows = .error e) ↔ ∃ r ∈ rows, ∃ e, f r = .error e := by
  rw [← mapM_error_iff]
  unfold mapRows
  cases h : rows.mapM f with
  | error e => simp [bind, Except.bind]
  | ok xs => simp [bind, Except.bind, pure, Except.pure]

/-- permuting the input rows permutes the output rows (and preserves failure). -/
theorem mapRows_perm (f : Row → R (Option Row)) {rows rows' : List Row} (hp : rows.Perm rows') :
    RowsEquiv (mapRows f rows) (mapRows f rows') := by
  rcases mapM_ok_or_error f rows with ⟨xs, hx⟩ | ⟨e, he⟩
  · obtain ⟨xs', hx', hpx⟩ := mapM_perm f hp xs hx
    right
    refine ⟨xs.filterMap id, xs'.filterMap id, ?_, ?_, hpx.filterMap id⟩
    · exact (mapRows_ok_iff f rows _).2 ⟨xs, hx, rfl⟩
    · exact (mapRows_ok_iff f rows' _).2 ⟨xs', hx', rfl⟩
  · left
    obtain ⟨r, hr, e1, he1⟩ := (mapM_error_iff f rows).1 ⟨e, he⟩
    obtain ⟨e2, he2⟩ := (mapRows_error_iff f rows).2 ⟨r, hr, e1, he1⟩
    obtain ⟨e3, he3⟩ := (mapRows_error_iff f rows').2 ⟨r, hp.mem_iff.1 hr, e1, he1⟩
    exact ⟨e2, e3, he2, he3⟩

theorem mapRows_length_le (f : Row → R (Option Row)) (rows out : List Row)
    (h : mapRows f rows = .ok out) : out.length ≤ rows.length := by
  obtain ⟨xs, hx, rfl⟩ := (mapRows_ok_iff f rows out).1 h
  have hl : xs.length = rows.length := by
    clear h
    induction rows generalizing xs with
    | nil => simp [List.mapM_nil, pure, Except.pure] at hx; subst hx; rfl
    | cons a l ih =>
      obtain ⟨b, bs, _, h2, rfl⟩ := (mapM_ok_cons f a l xs).1 hx
      simp [ih bs h2]
  calc (xs.filterMap id).length ≤ xs.length := List.length_filterMap_le _ _
    _ = rows.length := hl

end VtlModel.Sem

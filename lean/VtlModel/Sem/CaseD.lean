import VtlModel.Sem.Cond
/-! Dataset-level `case when c₁ then A₁ … when cₙ then Aₙ else B`: the n-ary generalisation of `condD`.

The datapoints of the result are datapoints of the SOURCE dataset (the dataset the first condition refers to).
Every arm has its own condition dataset; its condition is evaluated on the datapoint of that dataset with the same
identifiers (no such datapoint: every component reads as null, so a comparison is NULL and `isnull` is TRUE).
The winning arm is the LAST one whose condition is TRUE (the priority the engine implements and its stored test
outputs endorse; /repo/docs do not describe `case`); when no condition is TRUE — FALSE or NULL — the `else`
operand is selected.  The selected operand contributes like a branch of `if`: a dataset its datapoint with the
same identifiers (none: the datapoint is absent from the result), a scalar the constant. -/
namespace VtlModel.Sem
open List

structure CaseArm where
  cond : SExpr
  cds : DS
  thn : Option DS
  tv : Value
  deriving Inhabited

/-- the arm's condition on the datapoint `rs` of the source: TRUE or not (FALSE and NULL are both "not"). -/
def armHolds (a : CaseArm) (rs : Row) : R Bool :=
  match evalS ((partner a.cds rs).getD []) .null .null a.cond with
  | .error e => .error e
  | .ok (.bool b) => .ok b
  | .ok .null => .ok false
  | .ok _ => .error .type

/-- `some row?` = the contribution of the last arm whose condition is TRUE; `none` = no arm is TRUE. -/
def caseArms (ids ms : List String) : List CaseArm → Row → R (Option (Option Row))
  | [], _ => .ok none
  | a :: rest, rs =>
    match caseArms ids ms rest rs with
    | .error e => .error e
    | .ok (some r) => .ok (some r)
    | .ok none =>
      match armHolds a rs with
      | .error e => .error e
      | .ok true => .ok (some (branchRow ids ms a.thn a.tv rs))
      | .ok false => .ok none

def caseRow (ids ms : List String) (arms : List CaseArm) (e : Option DS) (ev : Value) (rs : Row) : R (Option Row) :=
  match caseArms ids ms arms rs with
  | .error er => .error er
  | .ok (some r) => .ok r
  | .ok none => .ok (branchRow ids ms e ev rs)

/-- the measures of the result: those of the first dataset among the then-operands and the else-operand. -/
def caseMeas : List CaseArm → Option DS → List String
  | [], some d => d.meas
  | [], none => []
  | a :: rest, e => match a.thn with
                    | some d => d.meas
                    | none => caseMeas rest e

def armsOk (src : DS) (arms : List CaseArm) : Bool :=
  arms.all (fun a => a.cds.ids == src.ids && sameIds src a.thn)

def caseD (src : DS) (arms : List CaseArm) (e : Option DS) (ev : Value) : R DS :=
  if armsOk src arms && sameIds src e then
    (mapRows (caseRow src.ids (caseMeas arms e) arms e ev) src.rows).map
      (fun rows => { ids := src.ids, meas := caseMeas arms e, rows })
  else .error .unsupported

/-! ### keys, well-formedness -/

theorem caseArms_key (ids ms : List String) (arms : List CaseArm) (rs r' : Row)
    (h : caseArms ids ms arms rs = .ok (some (some r'))) : r'.key ids = rs.key ids := by
  induction arms with
  | nil => simp [caseArms] at h
  | cons a rest ih =>
    simp only [caseArms] at h
    cases hr : caseArms ids ms rest rs with
    | error e => simp [hr] at h
    | ok o =>
      cases o with
      | some r => simp [hr] at h; subst h; exact ih hr
      | none =>
        simp only [hr] at h
        cases ha : armHolds a rs with
        | error e => simp [ha] at h
        | ok b =>
          cases b with
          | false => simp [ha] at h
          | true =>
            simp [ha] at h
            exact branchRow_key ids ms _ _ rs r' h

theorem caseRow_key (ids ms : List String) (arms : List CaseArm) (e : Option DS) (ev : Value) (rs r' : Row)
    (h : caseRow ids ms arms e ev rs = .ok (some r')) : r'.key ids = rs.key ids := by
  unfold caseRow at h
  cases hr : caseArms ids ms arms rs with
  | error er => simp [hr] at h
  | ok o =>
    cases o with
    | some r => simp [hr] at h; subst h; exact caseArms_key ids ms arms rs r' hr
    | none => simp [hr] at h; exact branchRow_key ids ms _ _ rs r' h

/-- `case` preserves key uniqueness: its datapoints are datapoints of the source dataset. -/
theorem caseD_WF (src : DS) (arms : List CaseArm) (e : Option DS) (ev : Value) (r : DS)
    (ws : src.WF) (h : caseD src arms e ev = .ok r) : r.WF := by
  unfold caseD at h
  split at h
  · cases hm : mapRows (caseRow src.ids (caseMeas arms e) arms e ev) src.rows with
    | error er => simp [hm, Except.map] at h
    | ok rows =>
      simp [hm, Except.map] at h
      subst h
      exact mapRows_WF _ src.ids src.ids src.rows rows hm
        (fun rc r' _ hf => caseRow_key src.ids _ arms e ev rc r' hf) ws
  · cases h

/-! ### permutation of the operands' rows -/

def ArmEquiv (a b : CaseArm) : Prop :=
  a.cond = b.cond ∧ DSEquiv a.cds b.cds ∧ OptEquiv a.thn b.thn ∧ a.tv = b.tv

def ArmWF (a : CaseArm) : Prop := a.cds.WF ∧ OptWF a.thn

/-- the two arm lists agree arm by arm up to the order of the rows of their datasets. -/
inductive ArmsEquiv : List CaseArm → List CaseArm → Prop
  | nil : ArmsEquiv [] []
  | cons {a b : CaseArm} {l l' : List CaseArm} : ArmEquiv a b → ArmsEquiv l l' → ArmsEquiv (a :: l) (b :: l')

theorem armHolds_congr (a b : CaseArm) (w : ArmWF a) (h : ArmEquiv a b) : armHolds a = armHolds b := by
  funext rs
  simp only [armHolds, partner_congr a.cds b.cds w.1 h.2.1 rs, h.1]

theorem caseArms_congr (ids ms : List String) (arms arms' : List CaseArm)
    (h : ArmsEquiv arms arms') (w : ∀ a ∈ arms, ArmWF a) :
    caseArms ids ms arms = caseArms ids ms arms' := by
  induction h with
  | nil => rfl
  | @cons a b l l' hab _ ih =>
    funext rs
    have ih' := ih (fun x hx => w x (List.mem_cons_of_mem _ hx))
    have wa := w a List.mem_cons_self
    have hb := branchRow_congr ids ms a.thn b.thn a.tv wa.2 hab.2.2.1
    rw [hab.2.2.2] at hb
    simp only [caseArms, ih', armHolds_congr a b wa hab, hab.2.2.2, hb]

theorem caseMeas_congr (arms arms' : List CaseArm) (e e' : Option DS)
    (h : ArmsEquiv arms arms') (he : OptEquiv e e') : caseMeas arms e = caseMeas arms' e' := by
  induction h with
  | nil => cases e <;> cases e' <;> simp_all [OptEquiv, caseMeas, DSEquiv]
  | @cons a b l l' hab _ ih =>
    obtain ⟨_, _, ht, _⟩ := hab
    cases hta : a.thn <;> cases htb : b.thn <;> simp_all [OptEquiv, caseMeas, DSEquiv]

theorem armsOk_congr (src src' : DS) (arms arms' : List CaseArm) (hs : src.ids = src'.ids)
    (h : ArmsEquiv arms arms') : armsOk src arms = armsOk src' arms' := by
  unfold armsOk
  induction h with
  | nil => rfl
  | @cons a b l l' hab _ ih =>
    simp only [List.all_cons, ih]
    rw [sameIds_congr src src' a.thn b.thn hs hab.2.2.1, hab.2.1.1, hs]

/-- `case` respects permutation of the rows of all its operands (source, condition datasets, then/else datasets). -/
theorem caseD_perm (src src' : DS) (arms arms' : List CaseArm) (e e' : Option DS) (ev : Value)
    (wa : ∀ a ∈ arms, ArmWF a) (we : OptWF e) (hs : DSEquiv src src')
    (ha : ArmsEquiv arms arms') (he : OptEquiv e e') :
    Rel2 DSEquiv (caseD src arms e ev) (caseD src' arms' e' ev) := by
  unfold caseD
  rw [← armsOk_congr src src' arms arms' hs.1 ha, ← sameIds_congr src src' e e' hs.1 he]
  split
  · have hf : caseRow src'.ids (caseMeas arms' e') arms' e' ev = caseRow src.ids (caseMeas arms e) arms e ev := by
      funext rc
      simp only [caseRow, ← hs.1, ← caseMeas_congr arms arms' e e' ha he,
        ← caseArms_congr src.ids _ arms arms' ha wa, ← branchRow_congr src.ids _ e e' ev we he]
    rw [hf]
    rcases mapRows_perm (caseRow src.ids (caseMeas arms e) arms e ev) hs.2.2 with ⟨a, b, h1, h2⟩ | ⟨x, y, h1, h2, hp⟩
    · rw [h1, h2]; exact Or.inl ⟨a, b, rfl, rfl⟩
    · rw [h1, h2]
      refine Or.inr ⟨_, _, rfl, rfl, ?_⟩
      exact ⟨hs.1, caseMeas_congr arms arms' e e' ha he, hp⟩
  · exact Rel2.error _ _

end VtlModel.Sem

import VtlModel.Sem.Codec
import VtlModel.Sem.CaseD
import VtlModel.Sem.ExtOps
/-! Request language of `Drivers/C01Ext.lean`: the dataset expressions of `Codec.decD` plus `instr`, and
statement lists whose statements are dataset expressions or a dataset-level `case`:
`(evalx (<dataset>…) ((<name> <stmt>)…) <result-name>)`,
`<stmt> ::= <dexpr> | (cased <src> ((<cond> <cds> <branch>)…) <branch>)`, `<branch> ::= (sc <value>) | <dexpr>`. -/
namespace VtlModel.Sem
open VtlModel

def decDX : Nat → Sexp → Option DExpr
  | 0, _ => none
  | _+1, .list [.atom "ds", n] => (name? n).map .ds
  | k+1, .list [.atom "instr", d, pat, st, oc, out] => do
      pure (.app1 (instrD (← decValue pat) (← decValue st) (← decValue oc) (← decOut out)) (← decDX k d))
  | k+1, .list [.atom "mapm", d, body, out] => do
      pure (.mapm (← decDX k d) (← decS (depth body + 1) body) (← decOut out))
  | k+1, .list [.atom "zip", a, b, body, out] => do
      pure (.zip (← decDX k a) (← decDX k b) (← decS (depth body + 1) body) (← decOut out))
  | k+1, .list [.atom "filter", d, c] => do pure (.filter (← decDX k d) (← decS (depth c + 1) c))
  | k+1, .list [.atom "calc", d, .list items] => do
      let its ← items.mapM (fun it => match it with
        | .list [n, e] => do pure ((← name? n), (← decS (depth e + 1) e))
        | _ => none)
      pure (.calc (← decDX k d) its)
  | k+1, .list [.atom "keep", d, ns] => do pure (.keep (← decDX k d) (← decNames ns))
  | k+1, .list [.atom "drop", d, ns] => do pure (.drop (← decDX k d) (← decNames ns))
  | k+1, .list [.atom "rename", d, .list ps] => do
      let m ← ps.mapM (fun p => match p with
        | .list [a, b] => do pure ((← name? a), (← name? b))
        | _ => none)
      pure (.rename (← decDX k d) m)
  | _+1, _ => none

inductive XBranch where
  | sc (v : Value)
  | dset (e : DExpr)

def decBranch (k : Nat) : Sexp → Option XBranch
  | .list [.atom "sc", v] => (decValue v).map .sc
  | e => (decDX k e).map .dset

structure XArm where
  cond : SExpr
  cds : DExpr
  thn : XBranch

inductive XStmt where
  | expr (e : DExpr)
  | cased (src : DExpr) (arms : List XArm) (els : XBranch)

def decStmt : Sexp → Option XStmt
  | .list [.atom "cased", src, .list arms, els] => do
      let k := depth src + depth els + (arms.map depth).foldl max 0 + 2
      let as ← arms.mapM (fun a => match a with
        | .list [c, cds, t] => do
            pure (XArm.mk (← decS (depth c + 1) c) (← decDX k cds) (← decBranch k t))
        | _ => none)
      pure (.cased (← decDX k src) as (← decBranch k els))
  | e => (decDX (depth e + 1) e).map .expr

def evalBranch (env : Env) : XBranch → R (Option DS × Value)
  | .sc v => .ok (none, v)
  | .dset e => (evalD env e).map (fun d => (some d, .null))

def evalStmt (env : Env) : XStmt → R DS
  | .expr e => evalD env e
  | .cased src arms els => do
      let s ← evalD env src
      let as ← arms.mapM (fun a => do
        let c ← evalD env a.cds
        let (t, tv) ← evalBranch env a.thn
        pure (CaseArm.mk a.cond c t tv))
      let (e, ev) ← evalBranch env els
      caseD s as e ev

def evalStmts (env : Env) : List (String × XStmt) → R Env
  | [] => .ok env
  | (n, s) :: rest => do
      let d ← evalStmt env s
      evalStmts ((n, d) :: env) rest

def handleX (req : Sexp) : Sexp :=
  match req with
  | .list [.atom "evalx", .list dss, .list stmts, res] =>
      match dss.mapM decDS, stmts.mapM (fun s => match s with
              | .list [n, e] => do pure ((← name? n), (← decStmt e))
              | _ => none), name? res with
      | some env, some ss, some rn =>
          match evalStmts env ss with
          | .ok env' => match env'.lookup rn with
                        | some d => encDS d
                        | none => encErr .name
          | .error er => encErr er
      | _, _, _ => .list [.atom "bad-request"]
  | _ => handle req

def handleLineX (line : String) : String :=
  match Sexp.parse line with
  | some r => (handleX r).toString
  | none => "(bad-request)"

end VtlModel.Sem

import VtlModel.Sem.Codec
import VtlModel.Sem.CaseD
import VtlModel.Sem.ExtOps
/-! Request language of `Drivers/C01Ext.lean`: the dataset expressions of `Codec.decD` plus `instr`, and
statement lists whose statements are dataset expressions or a dataset-level `case`:
`(evalx (<dataset>…) ((<name> <stmt>)…) <result-name>)`,
`<stmt> ::= <dexpr> | (cased <src> ((<cond> <cds> <branch>)…) <branch>)`, `<branch> ::= (sc <value>) | <dexpr>`. -/
namespace VtlModel.Sem
open VtlModel

def decDC01 : Nat → Sexp → Option DExpr
  | 0, _ => none
  | _+1, .list [.atom "ds", n] => (name? n).map .ds
  | k+1, .list [.atom "instr", d, pat, st, oc, out] => do
      pure (.app1 (instrD (← decValue pat) (← decValue st) (← decValue oc) (← decOut out)) (← decDC01 k d))
  | k+1, .list [.atom "mapm", d, body, out] => do
      pure (.mapm (← decDC01 k d) (← decS (depth body + 1) body) (← decOut out))
  | k+1, .list [.atom "zip", a, b, body, out] => do
      pure (.zip (← decDC01 k a) (← decDC01 k b) (← decS (depth body + 1) body) (← decOut out))
  | k+1, .list [.atom "filter", d, c] => do pure (.filter (← decDC01 k d) (← decS (depth c + 1) c))
  | k+1, .list [.atom "calc", d, .list items] => do
      let its ← items.mapM (fun it => match it with
        | .list [n, e] => do pure ((← name? n), (← decS (depth e + 1) e))
        | _ => none)
      pure (.calc (← decDC01 k d) its)
  | k+1, .list [.atom "keep", d, ns] => do pure (.keep (← decDC01 k d) (← decNames ns))
  | k+1, .list [.atom "drop", d, ns] => do pure (.drop (← decDC01 k d) (← decNames ns))
  | k+1, .list [.atom "rename", d, .list ps] => do
      let m ← ps.mapM (fun p => match p with
        | .list [a, b] => do pure ((← name? a), (← name? b))
        | _ => none)
      pure (.rename (← decDC01 k d) m)
  | _+1, _ => none

inductive C01Branch where
  | sc (v : Value)
  | dset (e : DExpr)

def decC01Branch (k : Nat) : Sexp → Option C01Branch
  | .list [.atom "sc", v] => (decValue v).map .sc
  | e => (decDC01 k e).map .dset

structure C01Arm where
  cond : SExpr
  cds : DExpr
  thn : C01Branch

inductive C01Stmt where
  | expr (e : DExpr)
  | cased (src : DExpr) (arms : List C01Arm) (els : C01Branch)

def decC01Stmt : Sexp → Option C01Stmt
  | .list [.atom "cased", src, .list arms, els] => do
      let k := depth src + depth els + (arms.map depth).foldl max 0 + 2
      let as ← arms.mapM (fun a => match a with
        | .list [c, cds, t] => do
            pure (C01Arm.mk (← decS (depth c + 1) c) (← decDC01 k cds) (← decC01Branch k t))
        | _ => none)
      pure (.cased (← decDC01 k src) as (← decC01Branch k els))
  | e => (decDC01 (depth e + 1) e).map .expr

def evalC01Branch (env : Env) : C01Branch → R (Option DS × Value)
  | .sc v => .ok (none, v)
  | .dset e => (evalD env e).map (fun d => (some d, .null))

def evalC01Stmt (env : Env) : C01Stmt → R DS
  | .expr e => evalD env e
  | .cased src arms els => do
      let s ← evalD env src
      let as ← arms.mapM (fun a => do
        let c ← evalD env a.cds
        let (t, tv) ← evalC01Branch env a.thn
        pure (CaseArm.mk a.cond c t tv))
      let (e, ev) ← evalC01Branch env els
      caseD s as e ev

def evalC01Stmts (env : Env) : List (String × C01Stmt) → R Env
  | [] => .ok env
  | (n, s) :: rest => do
      let d ← evalC01Stmt env s
      evalC01Stmts ((n, d) :: env) rest

def handleC01X (req : Sexp) : Sexp :=
  match req with
  | .list [.atom "evalx", .list dss, .list stmts, res] =>
      match dss.mapM decDS, stmts.mapM (fun s => match s with
              | .list [n, e] => do pure ((← name? n), (← decC01Stmt e))
              | _ => none), name? res with
      | some env, some ss, some rn =>
          match evalC01Stmts env ss with
          | .ok env' => match env'.lookup rn with
                        | some d => encDS d
                        | none => encErr .name
          | .error er => encErr er
      | _, _, _ => .list [.atom "bad-request"]
  | _ => handle req

def handleLineC01X (line : String) : String :=
  match Sexp.parse line with
  | some r => (handleC01X r).toString
  | none => "(bad-request)"

end VtlModel.Sem

import VtlModel.Sem.Eval
/-! A type system for the row-level expressions and its soundness: a well-typed expression evaluated on
a row whose values conform to the declared component types yields a value of the predicted type (or
null), or a runtime error — never a value of another type and never a `type` error. -/
namespace VtlModel.Sem

inductive Ty where
  | nul | int | num | str | bool
  deriving DecidableEq, Repr, Inhabited

/-- `v` is a legal value of a component of type `τ` (null is legal everywhere; Integer ⊂ Number). -/
def Value.hasTy : Value → Ty → Bool
  | .null, _ => true
  | .int _, .int => true
  | .int _, .num => true
  | .num _, .num => true
  | .str _, .str => true
  | .bool _, .bool => true
  | _, _ => false

def Ty.numeric : Ty → Bool
  | .int | .num | .nul => true
  | _ => false

/-- least upper bound of two types, when they are compatible. -/
def Ty.join : Ty → Ty → Option Ty
  | .nul, t => some t
  | t, .nul => some t
  | .int, .int => some .int
  | .int, .num => some .num
  | .num, .int => some .num
  | .num, .num => some .num
  | .str, .str => some .str
  | .bool, .bool => some .bool
  | _, _ => none

def Ty.le (a b : Ty) : Bool := a == b || a == .nul || (a == .int && b == .num)

theorem hasTy_mono (v : Value) (a b : Ty) (h : Ty.le a b = true) (hv : v.hasTy a = true) : v.hasTy b = true := by
  cases v <;> cases a <;> cases b <;> simp_all [Value.hasTy, Ty.le]

theorem join_ub (a b c : Ty) (h : Ty.join a b = some c) : Ty.le a c = true ∧ Ty.le b c = true := by
  cases a <;> cases b <;> simp [Ty.join] at h <;> subst h <;> simp [Ty.le]

def typeOfValue : Value → Ty
  | .null => .nul
  | .int _ => .int
  | .num _ => .num
  | .str _ => .str
  | .bool _ => .bool

theorem hasTy_typeOfValue (v : Value) : v.hasTy (typeOfValue v) = true := by cases v <;> rfl

abbrev TEnv := List (String × Ty)

def tyUn : UnOp → Ty → Option Ty
  | .isnull, _ => some .bool
  | .neg, t | .plus, t | .abs, t => if t.numeric then some t else none
  | .ceil, t | .floor, t => if t.numeric then some .int else none
  | .not, t => if t == .bool || t == .nul then some .bool else none
  | .upper, t | .lower, t | .trim, t | .ltrim, t | .rtrim, t => if t == .str || t == .nul then some .str else none
  | .len, t => if t == .str || t == .nul then some .int else none

def tyBin : BinOp → Ty → Ty → Option Ty
  | .add, a, b | .sub, a, b | .mul, a, b | .mod, a, b =>
      if a.numeric && b.numeric then (if a == .num || b == .num then some .num else some .int) else none
  | .div, a, b => if a.numeric && b.numeric then some .num else none
  | .eq, a, b | .ne, a, b | .lt, a, b | .le, a, b | .gt, a, b | .ge, a, b => (Ty.join a b).map (fun _ => .bool)
  | .and, a, b | .or, a, b | .xor, a, b =>
      if (a == .bool || a == .nul) && (b == .bool || b == .nul) then some .bool else none
  | .concat, a, b => if (a == .str || a == .nul) && (b == .str || b == .nul) then some .str else none
  | .power, a, b => if a.numeric && (b == .int || b == .nul) then some .num else none
  | .log, _, _ => none
  | .nvl, a, b => Ty.join a b

def typeOfS (Γ : TEnv) (h1 h2 : Ty) : SExpr → Option Ty
  | .const v => some (typeOfValue v)
  | .col n => Γ.lookup n
  | .hole => some h1
  | .hole2 => some h2
  | .un op e => do tyUn op (← typeOfS Γ h1 h2 e)
  | .bin op a b => do tyBin op (← typeOfS Γ h1 h2 a) (← typeOfS Γ h1 h2 b)
  | .tern .ite c t e => do
      let tc ← typeOfS Γ h1 h2 c
      if tc == .bool || tc == .nul then Ty.join (← typeOfS Γ h1 h2 t) (← typeOfS Γ h1 h2 e) else none
  | .tern .between x lo hi => do
      let _ ← Ty.join (← typeOfS Γ h1 h2 lo) (← typeOfS Γ h1 h2 x)
      let _ ← Ty.join (← typeOfS Γ h1 h2 x) (← typeOfS Γ h1 h2 hi)
      some .bool
  | .tern .substr s a b => do
      let ts ← typeOfS Γ h1 h2 s
      let _ ← typeOfS Γ h1 h2 a
      let _ ← typeOfS Γ h1 h2 b
      if ts == .str || ts == .nul then some .str else none
  | .tern .replace s a b => do
      let ts ← typeOfS Γ h1 h2 s
      let ta ← typeOfS Γ h1 h2 a
      let tb ← typeOfS Γ h1 h2 b
      if (ts == .str || ts == .nul) && (ta == .str || ta == .nul) && (tb == .str || tb == .nul) then some .str else none
  | .isin _ x _ => do let _ ← typeOfS Γ h1 h2 x; some .bool
  | .round _ x n => do
      let tx ← typeOfS Γ h1 h2 x
      let _ ← typeOfS Γ h1 h2 n
      if tx.numeric then some .num else none

/-- the row conforms to the declared component types. -/
def RowTyped (Γ : TEnv) (r : Row) : Prop := ∀ n τ, Γ.lookup n = some τ → (r.get n).hasTy τ = true

end VtlModel.Sem

/-
  Dag/LemmasExtra — completeness of the Kahn elimination, validity of the layered order, and the
  order-independent denotation.
-/
import VtlModel.Dag.Lemmas
namespace VtlModel.Dag

/-! ### elimination only removes statements -/

theorem mem_of_mem_elimRound {rem : List Stmt} {st : Stmt} (h : st ∈ elimRound rem) : st ∈ rem :=
  (List.mem_filter.mp h).1

theorem mem_of_mem_elimIter : ∀ (n : Nat) {rem : List Stmt} {st : Stmt},
    st ∈ elimIter n rem → st ∈ rem
  | 0, _, _, h => h
  | n + 1, _, _, h => mem_of_mem_elimRound (mem_of_mem_elimIter n h)

theorem outs_elimRound_sub {rem : List Stmt} {x : Name} (h : x ∈ outs (elimRound rem)) :
    x ∈ outs rem := by
  obtain ⟨st, hst, rfl⟩ := mem_outs.mp h
  exact mem_outs.mpr ⟨st, mem_of_mem_elimRound hst, rfl⟩

theorem outs_elimIter_sub (n : Nat) {rem : List Stmt} {x : Name} (h : x ∈ outs (elimIter n rem)) :
    x ∈ outs rem := by
  obtain ⟨st, hst, rfl⟩ := mem_outs.mp h
  exact mem_outs.mpr ⟨st, mem_of_mem_elimIter n hst, rfl⟩

/-- with distinct output names, a statement is determined by its output -/
theorem eq_of_out_eq : ∀ {s : List Stmt}, (outs s).Nodup → ∀ {a b : Stmt}, a ∈ s → b ∈ s →
    a.out = b.out → a = b := by
  intro s
  induction s with
  | nil => intro _ a b ha; simp at ha
  | cons st rest ih =>
    intro hnd a b ha hb hab
    rw [outs_cons] at hnd
    obtain ⟨hnot, hnd'⟩ := List.nodup_cons.mp hnd
    rcases List.mem_cons.mp ha with rfl | ha'
    · rcases List.mem_cons.mp hb with rfl | hb'
      · rfl
      · exact absurd (mem_outs.mpr ⟨b, hb', hab.symm⟩) hnot
    · rcases List.mem_cons.mp hb with rfl | hb'
      · exact absurd (mem_outs.mpr ⟨a, ha', hab⟩) hnot
      · exact ih hnd' ha' hb' hab

theorem ready_iff {rem : List Stmt} {st : Stmt} :
    ready rem st = true ↔ ∀ x ∈ st.ins, x ∉ outs rem := by
  simp [ready]

/-- Invariant of the elimination along a valid order: after as many rounds as statements of the
    order have been scheduled, none of their outputs is left. -/
theorem elim_along_valid (s : List Stmt) (all : List Name) (hnd : (outs s).Nodup)
    (hall : ∀ x, x ∈ outs s → x ∈ all) :
    ∀ (l : List Stmt) (done : List Name) (rem : List Stmt), validFrom all done l = true →
      (∀ st ∈ l, st ∈ s) → (∀ st ∈ rem, st ∈ s) → (∀ x ∈ done, x ∉ outs rem) →
      ∀ x ∈ outs l, x ∉ outs (elimIter l.length rem) := by
  intro l
  induction l with
  | nil => intro _ _ _ _ _ _ x hx; simp [outs] at hx
  | cons st rest ih =>
    intro done rem hv hl hrem hdone x hx
    simp only [validFrom, Bool.and_eq_true, List.all_eq_true] at hv
    obtain ⟨hins, hrest⟩ := hv
    have hsub : ∀ y, y ∈ outs rem → y ∈ all := by
      intro y hy
      obtain ⟨st', hst', rfl⟩ := mem_outs.mp hy
      exact hall _ (mem_outs.mpr ⟨st', hrem st' hst', rfl⟩)
    have hready : ready rem st = true := by
      rw [ready_iff]
      intro y hy hyr
      have := hins y hy
      have hm : y ∈ all := hsub y hyr
      simp [hm] at this
      exact hdone y this hyr
    have hout : st.out ∉ outs (elimRound rem) := by
      intro hm
      obtain ⟨st', hst', he⟩ := mem_outs.mp hm
      have hst'rem := mem_of_mem_elimRound hst'
      have : st' = st := eq_of_out_eq hnd (hrem st' hst'rem) (hl st (by simp)) he
      subst this
      have := (List.mem_filter.mp hst').2
      simp [hready] at this
    have hdone' : ∀ y ∈ st.out :: done, y ∉ outs (elimRound rem) := by
      intro y hy
      rcases List.mem_cons.mp hy with rfl | hy'
      · exact hout
      · exact fun hm => hdone y hy' (outs_elimRound_sub hm)
    have hrem' : ∀ st' ∈ elimRound rem, st' ∈ s := fun st' h' => hrem st' (mem_of_mem_elimRound h')
    have hl' : ∀ st' ∈ rest, st' ∈ s := fun st' h' => hl st' (List.mem_cons_of_mem _ h')
    show x ∉ outs (elimIter rest.length (elimRound rem))
    rw [outs_cons] at hx
    rcases List.mem_cons.mp hx with rfl | hx'
    · exact fun hm => hout (outs_elimIter_sub _ hm)
    · exact ih (st.out :: done) (elimRound rem) hrest hl' hrem' hdone' x hx'

/-- **Cyclic scripts have no valid order** (the Kahn elimination is complete). -/
theorem no_cycle_of_valid (s o : List Stmt) (hnd : (outs s).Nodup) (h : IsValidOrderOf s o) :
    hasCycle s = false := by
  obtain ⟨hp, hv⟩ := h
  have hall : ∀ x, x ∈ outs s → x ∈ outs o := fun x hx => (outs_perm hp).mem_iff.mpr hx
  have key := elim_along_valid s (outs o) hnd hall o [] s hv
    (fun st hst => hp.mem_iff.mp hst) (fun _ h => h) (by simp)
  rw [hp.length_eq] at key
  have hempty : cycleCore s = [] := by
    cases hc : cycleCore s with
    | nil => rfl
    | cons st rest =>
      exfalso
      have hst : st ∈ elimIter s.length s := by
        show st ∈ cycleCore s
        rw [hc]; simp
      have hsts : st ∈ s := mem_of_mem_elimIter _ hst
      exact key st.out (hall _ (mem_outs.mpr ⟨st, hsts, rfl⟩)) (mem_outs.mpr ⟨st, hst, rfl⟩)
  simp [hasCycle, hempty]

/-! ### the layered order is a valid order -/

/-- the layers produced so far plus what is left is the original list -/
theorem topoLayers_perm : ∀ (n : Nat) (rem : List Stmt),
    (topoLayers n rem ++ elimIter n rem).Perm rem
  | 0, rem => by simp [topoLayers, elimIter]
  | n + 1, rem => by
    have ih := topoLayers_perm n (elimRound rem)
    have h1 : (topoLayers (n + 1) rem ++ elimIter (n + 1) rem).Perm
        (rem.filter (fun st => ready rem st) ++ elimRound rem) := by
      simp only [topoLayers, elimIter, List.append_assoc]
      exact ih.append_left _
    exact h1.trans (List.filter_append_perm _ rem)

theorem topo_perm (s : List Stmt) (h : hasCycle s = false) : (topo s).Perm s := by
  have hc : elimIter s.length s = [] := by
    have : cycleCore s = [] := by
      cases hcc : cycleCore s with
      | nil => rfl
      | cons a b => simp [hasCycle, hcc] at h
    exact this
  have := topoLayers_perm s.length s
  rw [hc, List.append_nil] at this
  exact this

/-- statements all of whose script-internal reads are already done may run in any order -/
theorem validFrom_of_all_ready (all : List Name) :
    ∀ (l : List Stmt) (done : List Name),
      (∀ st ∈ l, ∀ x ∈ st.ins, x ∈ all → x ∈ done) → validFrom all done l = true := by
  intro l
  induction l with
  | nil => intro _ _; rfl
  | cons st rest ih =>
    intro done h
    simp only [validFrom, Bool.and_eq_true, List.all_eq_true]
    refine ⟨?_, ?_⟩
    · intro x hx
      by_cases hm : x ∈ all
      · simp [h st (by simp) x hx hm]
      · simp [hm]
    · apply ih
      intro st' hst' x hx hm
      exact List.mem_cons_of_mem _ (h st' (List.mem_cons_of_mem _ hst') x hx hm)

theorem validFrom_append_of (all : List Name) (b : List Stmt) :
    ∀ (a : List Stmt) (done : List Name), validFrom all done a = true →
      (∀ done' : List Name, (∀ x ∈ done, x ∈ done') → (∀ x ∈ outs a, x ∈ done') →
        validFrom all done' b = true) →
      validFrom all done (a ++ b) = true := by
  intro a
  induction a with
  | nil =>
    intro done _ hb
    exact hb done (fun _ h => h) (by simp [outs])
  | cons st rest ih =>
    intro done ha hb
    simp only [validFrom, Bool.and_eq_true] at ha
    simp only [List.cons_append, validFrom, Bool.and_eq_true]
    refine ⟨ha.1, ih (st.out :: done) ha.2 ?_⟩
    intro done' h1 h2
    apply hb done' (fun x hx => h1 x (List.mem_cons_of_mem _ hx))
    intro x hx
    rw [outs_cons] at hx
    rcases List.mem_cons.mp hx with rfl | hx'
    · exact h1 _ (by simp)
    · exact h2 x hx'

theorem topoLayers_valid (all : List Name) :
    ∀ (n : Nat) (rem : List Stmt) (done : List Name),
      (∀ x ∈ all, x ∉ outs rem → x ∈ done) → validFrom all done (topoLayers n rem) = true := by
  intro n
  induction n with
  | zero => intro _ _ _; rfl
  | succ n ih =>
    intro rem done hd
    show validFrom all done (rem.filter (fun st => ready rem st) ++ topoLayers n (elimRound rem)) = true
    apply validFrom_append_of
    · apply validFrom_of_all_ready
      intro st hst x hx hm
      have hr := (List.mem_filter.mp hst).2
      exact hd x hm (ready_iff.mp hr x hx)
    · intro done' h1 h2
      apply ih
      intro x hm hx
      by_cases hxr : x ∈ outs rem
      · obtain ⟨st, hst, rfl⟩ := mem_outs.mp hxr
        apply h2
        apply mem_outs.mpr
        refine ⟨st, List.mem_filter.mpr ⟨hst, ?_⟩, rfl⟩
        cases hr : ready rem st with
        | true => rfl
        | false =>
          exfalso
          apply hx
          exact mem_outs.mpr ⟨st, List.mem_filter.mpr ⟨hst, by simp [hr]⟩, rfl⟩
      · exact h1 x (hd x hm hxr)

/-- **Acyclic scripts**: the layered order is a valid order of the script. -/
theorem topo_valid (s : List Stmt) (h : hasCycle s = false) : IsValidOrderOf s (topo s) := by
  have hp := topo_perm s h
  refine ⟨hp, ?_⟩
  apply topoLayers_valid
  intro x hx hnx
  exact absurd ((outs_perm hp).mem_iff.mp hx) hnx

/-! ### order-independent denotation -/

theorem findDef_eq_none {s : List Stmt} {x : Name} (h : x ∉ outs s) : findDef s x = none := by
  unfold findDef
  rw [List.find?_eq_none]
  intro st hst hc
  exact h (mem_outs.mpr ⟨st, hst, by simpa using hc⟩)

theorem findDef_of_mem : ∀ {s : List Stmt}, (outs s).Nodup → ∀ {st : Stmt}, st ∈ s →
    findDef s st.out = some st := by
  intro s
  induction s with
  | nil => intro _ st h; simp at h
  | cons a rest ih =>
    intro hnd st hst
    rw [outs_cons] at hnd
    obtain ⟨hnot, hnd'⟩ := List.nodup_cons.mp hnd
    rcases List.mem_cons.mp hst with rfl | hst'
    · simp [findDef]
    · have hne : a.out ≠ st.out := fun e => hnot (mem_outs.mpr ⟨st, hst', e.symm⟩)
      have := ih hnd' hst'
      unfold findDef at this ⊢
      rw [List.find?_cons_of_neg (by simpa using hne)]
      exact this

theorem findDef_perm {s s' : List Stmt} (h : s.Perm s') (hnd : (outs s).Nodup) (x : Name) :
    findDef s x = findDef s' x := by
  have hnd' : (outs s').Nodup := (outs_perm h).nodup_iff.mp hnd
  by_cases hx : x ∈ outs s
  · obtain ⟨st, hst, rfl⟩ := mem_outs.mp hx
    rw [findDef_of_mem hnd hst, findDef_of_mem hnd' (h.mem_iff.mp hst)]
  · have hx' : x ∉ outs s' := fun hm => hx ((outs_perm h).mem_iff.mpr hm)
    rw [findDef_eq_none hx, findDef_eq_none hx']

section
variable {V : Type}

/-- **The denotation does not depend on the textual order of the statements.** -/
theorem denote_perm (f : Stmt → List V → V) (g : Name → V) (s s' : List Stmt) (h : s.Perm s')
    (hnd : (outs s).Nodup) (n : Nat) (x : Name) : denote f g s n x = denote f g s' n x := by
  induction n generalizing x with
  | zero => rfl
  | succ n ih =>
    have hfun : denote f g s n = denote f g s' n := funext ih
    simp only [denote, findDef_perm h hnd x, hfun]

theorem readAll_eq_sequenceOpt (all : List Name) (g : Name → V) (env : Env V) (xs : List Name) :
    readAll all g env xs = sequenceOpt (xs.map (readIn all g env)) := by
  induction xs with
  | nil => rfl
  | cons x xs ih =>
    simp only [readAll, List.map_cons, ih]
    cases h1 : readIn all g env x with
    | none => simp [sequenceOpt]
    | some v =>
      cases h2 : sequenceOpt (xs.map (readIn all g env)) with
      | none => simp [sequenceOpt, h2]
      | some vs => simp [sequenceOpt, h2]

/-- along a valid order, once the fuel exceeds the position of the defining statement, the
    denotation of a name is its value in any environment satisfying all defining equations -/
theorem denote_along_valid (f : Stmt → List V → V) (g : Name → V) (o : List Stmt) (e : Env V)
    (hnd : (outs o).Nodup) (hsat : ∀ st ∈ o, SatEq (outs o) f g e st) :
    ∀ (l : List Stmt) (done : List Name) (k : Nat), validFrom (outs o) done l = true →
      (∀ st ∈ l, st ∈ o) → 1 ≤ k →
      (∀ x ∈ done, ∀ n, k ≤ n → denote f g o n x = e x) →
      ∀ x ∈ outs l, ∀ n, k + l.length ≤ n → denote f g o n x = e x := by
  intro l
  induction l with
  | nil => intro _ _ _ _ _ _ x hx; simp [outs] at hx
  | cons st rest ih =>
    intro done k hv hl hk hdone x hx n hn
    simp only [validFrom, Bool.and_eq_true, List.all_eq_true] at hv
    obtain ⟨hins, hrest⟩ := hv
    have hsto : st ∈ o := hl st (by simp)
    have hhead : ∀ m, k + 1 ≤ m → denote f g o m st.out = e st.out := by
      intro m hm
      obtain ⟨m', rfl⟩ : ∃ m', m = m' + 1 := ⟨m - 1, by omega⟩
      have hm' : k ≤ m' := by omega
      obtain ⟨vs, hr, ho⟩ := hsat st hsto
      have hargs : st.ins.map (denote f g o m') = st.ins.map (readIn (outs o) g e) := by
        apply List.map_congr_left
        intro y hy
        have hy' := hins y hy
        by_cases hmem : y ∈ outs o
        · simp [hmem] at hy'
          rw [hdone y hy' m' hm']
          simp [readIn, hmem]
        · obtain ⟨m'', rfl⟩ : ∃ m'', m' = m'' + 1 := ⟨m' - 1, by omega⟩
          simp [denote, findDef_eq_none hmem, readIn, hmem]
      simp only [denote, findDef_of_mem hnd hsto, hargs, ← readAll_eq_sequenceOpt, hr, ho,
        Option.map_some]
    have hdone' : ∀ y ∈ st.out :: done, ∀ m, k + 1 ≤ m → denote f g o m y = e y := by
      intro y hy m hm
      rcases List.mem_cons.mp hy with rfl | hy'
      · exact hhead m hm
      · exact hdone y hy' m (by omega)
    rw [outs_cons] at hx
    simp only [List.length_cons] at hn
    rcases List.mem_cons.mp hx with rfl | hx'
    · exact hhead n (by omega)
    · exact ih (st.out :: done) (k + 1) hrest (fun st' h' => hl st' (List.mem_cons_of_mem _ h'))
        (by omega) hdone' x hx' n (by omega)

/-- **Running in a valid order gives every name its order-independent denotation.** -/
theorem runSeq_denote (f : Stmt → List V → V) (g : Name → V) (o : List Stmt)
    (hnd : (outs o).Nodup) (hv : isValidOrder o = true) :
    ∃ e, runSeq f g o = some e ∧ ∀ x ∈ outs o, e x = denote f g o (o.length + 1) x := by
  obtain ⟨e, he⟩ := runFrom_of_valid (outs o) f g o [] Env.empty hv (by simp)
  have spec := runFrom_spec (outs o) f g o _ _ he (by simp [Env.empty]) hnd
  refine ⟨e, he, ?_⟩
  intro x hx
  exact (denote_along_valid f g o e hnd spec.2 o [] 1 hv (fun _ h => h) (Nat.le_refl _)
    (by simp) x hx (o.length + 1) (by omega)).symm

end

end VtlModel.Dag

/-
  Dag/StoreLemmas — generic facts about the table-store machine (independent of any schedule).
-/
import VtlModel.Dag.Store
namespace VtlModel.Dag

theorem run_append (a b : List Event) : ∀ (σ : Store),
    Store.run σ (a ++ b) = (Store.run σ a).bind (fun σ' => Store.run σ' b) := by
  induction a with
  | nil => intro σ; simp [Store.run]
  | cons e es ih =>
    intro σ
    simp only [List.cons_append, Store.run]
    cases h : σ.step e with
    | none => simp
    | some σ1 => simp [ih]

theorem run_append_some {a b : List Event} {σ σ1 σ2 : Store}
    (h1 : Store.run σ a = some σ1) (h2 : Store.run σ1 b = some σ2) : Store.run σ (a ++ b) = some σ2 := by
  rw [run_append, h1]; simpa using h2

/-- loading a duplicate-free list of names none of which is known to the store -/
theorem run_loads : ∀ (L : List Name) (σ : Store), L.Nodup →
    (∀ x ∈ L, x ∉ σ.loaded ∧ x ∉ σ.live ∧ x ∉ σ.created) →
    ∃ σ', Store.run σ (L.map Event.load) = some σ' ∧
      (∀ x, x ∈ σ'.live ↔ x ∈ L ∨ x ∈ σ.live) ∧ (∀ x, x ∈ σ'.loaded ↔ x ∈ L ∨ x ∈ σ.loaded) ∧
      σ'.created = σ.created ∧ σ'.fetched = σ.fetched := by
  intro L
  induction L with
  | nil => intro σ _ _; exact ⟨σ, rfl, by simp, by simp, rfl, rfl⟩
  | cons y ys ih =>
    intro σ hnd hfresh
    have hy := hfresh y (by simp)
    have hnd' := List.nodup_cons.mp hnd
    let σ1 : Store := { σ with live := y :: σ.live, loaded := y :: σ.loaded }
    have hstep : σ.step (Event.load y) = some σ1 := by
      simp [Store.step, hy.1, hy.2.1, hy.2.2, σ1]
    have hfresh1 : ∀ x ∈ ys, x ∉ σ1.loaded ∧ x ∉ σ1.live ∧ x ∉ σ1.created := by
      intro x hx
      have hne : x ≠ y := fun e => hnd'.1 (e ▸ hx)
      have := hfresh x (by simp [hx])
      simp [σ1, hne, this.1, this.2.1, this.2.2]
    obtain ⟨σ', hr, hl, hld, hc, hf⟩ := ih σ1 hnd'.2 hfresh1
    refine ⟨σ', by simp [Store.run, hstep, hr], ?_, ?_, by simp [hc, σ1], by simp [hf, σ1]⟩
    · intro x; rw [hl]; simp [σ1]; grind
    · intro x; rw [hld]; simp [σ1]; grind

theorem run_reads : ∀ (R : List Name) (σ : Store), (∀ x ∈ R, x ∈ σ.live) →
    Store.run σ (R.map Event.read) = some σ := by
  intro R
  induction R with
  | nil => intro σ _; rfl
  | cons y ys ih =>
    intro σ h
    have hy := h y (by simp)
    simp [Store.run, Store.step, hy]
    exact ih σ (fun x hx => h x (by simp [hx]))

theorem step_create {σ : Store} {x : Name} (h1 : x ∉ σ.live) (h2 : x ∉ σ.created) (h3 : x ∉ σ.loaded) :
    σ.step (Event.create x) = some { σ with live := x :: σ.live, created := x :: σ.created } := by
  simp [Store.step, h1, h2, h3]

/-- is `x` fetched (returned) when it is released? -/
def fetchCond (sc : Sched) (rop : Bool) (x : Name) : Bool :=
  !sc.globalInputs.contains x && (!rop || sc.persistent.contains x)

/-- cleanup of a duplicate-free list of live tables -/
theorem run_cleanup (sc : Sched) (rop : Bool) : ∀ (D : List Name) (σ : Store), D.Nodup →
    (∀ x ∈ D, x ∈ σ.live) → (∀ x ∈ D, x ∉ σ.fetched) →
    ∃ σ', Store.run σ (cleanupEvents sc rop D) = some σ' ∧
      (∀ x, x ∈ σ'.live ↔ x ∈ σ.live ∧ x ∉ D) ∧ σ'.loaded = σ.loaded ∧ σ'.created = σ.created ∧
      (∀ x, x ∈ σ'.fetched ↔ x ∈ σ.fetched ∨ (x ∈ D ∧ fetchCond sc rop x = true)) := by
  intro D
  induction D with
  | nil => intro σ _ _ _; exact ⟨σ, rfl, by simp, rfl, rfl, by simp⟩
  | cons y ys ih =>
    intro σ hnd hlive hnf
    have hnd' := List.nodup_cons.mp hnd
    have hy := hlive y (by simp)
    have hyf := hnf y (by simp)
    by_cases hc : fetchCond sc rop y = true
    · -- fetch then drop
      let σ1 : Store := { σ with fetched := σ.fetched ++ [y] }
      let σ2 : Store := { σ1 with live := σ1.live.filter (· != y), dropped := y :: σ1.dropped }
      have hev : cleanupEvents sc rop (y :: ys) = [Event.fetch y, Event.drop y] ++ cleanupEvents sc rop ys := by
        simp only [fetchCond, Bool.and_eq_true, Bool.not_eq_true'] at hc
        simp only [cleanupEvents, hc.1, hc.2]
        simp
      have hrun : Store.run σ [Event.fetch y, Event.drop y] = some σ2 := by
        simp [Store.run, Store.step, hy, hyf, σ1, σ2]
      have hl1 : ∀ x ∈ ys, x ∈ σ2.live := by
        intro x hx
        have hne : x ≠ y := fun e => hnd'.1 (e ▸ hx)
        simp [σ2, σ1, hne, hlive x (by simp [hx])]
      have hf1 : ∀ x ∈ ys, x ∉ σ2.fetched := by
        intro x hx
        have hne : x ≠ y := fun e => hnd'.1 (e ▸ hx)
        simp [σ2, σ1, hne, hnf x (by simp [hx])]
      obtain ⟨σ', hr, hl, hld, hcr, hf⟩ := ih σ2 hnd'.2 hl1 hf1
      refine ⟨σ', ?_, ?_, by simp [hld, σ2, σ1], by simp [hcr, σ2, σ1], ?_⟩
      · rw [hev]; exact run_append_some hrun hr
      · intro x; rw [hl]; simp [σ2, σ1]; grind
      · intro x; rw [hf]; simp [σ2, σ1]; grind
    · -- drop only
      let σ2 : Store := { σ with live := σ.live.filter (· != y), dropped := y :: σ.dropped }
      have hev : cleanupEvents sc rop (y :: ys) = [Event.drop y] ++ cleanupEvents sc rop ys := by
        simp only [fetchCond, Bool.and_eq_true, Bool.not_eq_true'] at hc
        simp only [cleanupEvents]
        by_cases hg : sc.globalInputs.contains y = true
        · have hm : y ∈ sc.globalInputs := by simpa using hg
          simp [hm]
        · have hg' : sc.globalInputs.contains y = false := by simpa using hg
          have : (!rop || sc.persistent.contains y) = false := by
            cases hh : (!rop || sc.persistent.contains y) with
            | false => rfl
            | true => exact absurd ⟨hg', hh⟩ hc
          simp only [hg', this]
          simp
      have hrun : Store.run σ [Event.drop y] = some σ2 := by
        simp [Store.run, Store.step, hy, σ2]
      have hl1 : ∀ x ∈ ys, x ∈ σ2.live := by
        intro x hx
        have hne : x ≠ y := fun e => hnd'.1 (e ▸ hx)
        simp [σ2, hne, hlive x (by simp [hx])]
      have hf1 : ∀ x ∈ ys, x ∉ σ2.fetched := by
        intro x hx
        simp [σ2, hnf x (by simp [hx])]
      obtain ⟨σ', hr, hl, hld, hcr, hf⟩ := ih σ2 hnd'.2 hl1 hf1
      refine ⟨σ', ?_, ?_, by simp [hld, σ2], by simp [hcr, σ2], ?_⟩
      · rw [hev]; exact run_append_some hrun hr
      · intro x; rw [hl]; simp [σ2]; grind
      · intro x; rw [hf]; simp [σ2]
        have : x = y → ¬ fetchCond sc rop x = true := fun e => e ▸ hc
        grind

/-- the store's `fetched` list is exactly the `fetch` events, in order -/
theorem run_fetched : ∀ (tr : List Event) (σ σ' : Store), Store.run σ tr = some σ' →
    σ'.fetched = σ.fetched ++ fetches tr := by
  intro tr
  induction tr with
  | nil => intro σ σ' h; simp [Store.run] at h; subst h; simp [fetches]
  | cons e es ih =>
    intro σ σ' h
    simp only [Store.run] at h
    split at h
    · rename_i σ1 hs
      have := ih σ1 σ' h
      cases e <;> simp only [Store.step] at hs <;> split at hs <;> simp at hs <;> subst hs <;>
        simp [this, fetches]
    · simp at h

theorem run_fetched_nodup : ∀ (tr : List Event) (σ σ' : Store), Store.run σ tr = some σ' →
    σ.fetched.Nodup → σ'.fetched.Nodup := by
  intro tr
  induction tr with
  | nil => intro σ σ' h hn; simp [Store.run] at h; subst h; exact hn
  | cons e es ih =>
    intro σ σ' h hn
    simp only [Store.run] at h
    split at h
    · rename_i σ1 hs
      apply ih σ1 σ' h
      cases e <;> simp only [Store.step] at hs <;> split at hs <;> simp at hs <;> subst hs <;>
        try exact hn
      rename_i x hc
      simp at hc
      simp only
      rw [List.nodup_append]
      refine ⟨hn, by simp, ?_⟩
      intro a ha b hb
      simp at hb
      subst hb
      exact fun e => hc.2 (e ▸ ha)
    · simp at h

end VtlModel.Dag

/-
  Dag/Lemmas — helper lemmas for C12 (statement order).
-/
import VtlModel.Dag.Basic
namespace VtlModel.Dag

theorem mem_outs {s : List Stmt} {x : Name} : x ∈ outs s ↔ ∃ st ∈ s, st.out = x := by
  simp [outs]

theorem outs_cons (st : Stmt) (s : List Stmt) : outs (st :: s) = st.out :: outs s := rfl

theorem outs_append (a b : List Stmt) : outs (a ++ b) = outs a ++ outs b := by simp [outs]

theorem outs_perm {a b : List Stmt} (h : a.Perm b) : (outs a).Perm (outs b) := h.map _

theorem contains_perm {a b : List Name} (h : a.Perm b) (x : Name) : a.contains x = b.contains x := by
  have := h.mem_iff (a := x)
  cases ha : a.contains x <;> cases hb : b.contains x <;> simp_all

/-! ### reading -/

section
variable {V : Type}

theorem readIn_all_congr {all all' : List Name} (h : ∀ x, all.contains x = all'.contains x)
    (g : Name → V) (env : Env V) (x : Name) : readIn all g env x = readIn all' g env x := by
  simp only [readIn, h]

theorem readAll_all_congr {all all' : List Name} (h : ∀ x, all.contains x = all'.contains x)
    (g : Name → V) (env : Env V) (xs : List Name) : readAll all g env xs = readAll all' g env xs := by
  induction xs with
  | nil => rfl
  | cons x xs ih => simp only [readAll, ih, readIn_all_congr h]

theorem readAll_congr (all : List Name) (g : Name → V) (env env' : Env V) (xs : List Name)
    (h : ∀ x ∈ xs, readIn all g env x = readIn all g env' x) :
    readAll all g env xs = readAll all g env' xs := by
  induction xs with
  | nil => rfl
  | cons x xs ih =>
    simp only [readAll]
    rw [h x (by simp), ih (fun y hy => h y (by simp [hy]))]

theorem readAll_some_mem {all : List Name} {g : Name → V} {env : Env V} :
    ∀ {xs : List Name} {vs : List V}, readAll all g env xs = some vs →
      ∀ x ∈ xs, all.contains x = true → env x ≠ none := by
  intro xs
  induction xs with
  | nil => intro vs _ x hx; simp at hx
  | cons y ys ih =>
    intro vs h x hx hc
    simp only [readAll] at h
    split at h
    · rename_i v vs' h1 h2
      rcases List.mem_cons.mp hx with rfl | hx'
      · have hm : x ∈ all := by simpa using hc
        simp [readIn, hm] at h1
        simp [h1]
      · exact ih h2 x hx' hc
    · simp at h

theorem readAll_isSome {all : List Name} {g : Name → V} {env : Env V} :
    ∀ {xs : List Name}, (∀ x ∈ xs, all.contains x = true → env x ≠ none) →
      ∃ vs, readAll all g env xs = some vs := by
  intro xs
  induction xs with
  | nil => intro _; exact ⟨[], rfl⟩
  | cons y ys ih =>
    intro h
    obtain ⟨vs, hvs⟩ := ih (fun x hx => h x (by simp [hx]))
    have hy : ∃ v, readIn all g env y = some v := by
      unfold readIn
      split
      · rename_i hc
        have := h y (by simp) hc
        cases hv : env y with
        | none => exact absurd hv this
        | some v => exact ⟨v, rfl⟩
      · exact ⟨_, rfl⟩
    obtain ⟨v, hv⟩ := hy
    exact ⟨v :: vs, by simp [readAll, hv, hvs]⟩

theorem set_same (env : Env V) (x : Name) (v : V) : env.set x v x = some v := by simp [Env.set]

theorem set_other (env : Env V) {x y : Name} (v : V) (h : y ≠ x) : env.set x v y = env y := by
  simp [Env.set, h]

/-! ### running in an order -/

/-- Specification of `runFrom`: names not assigned by `l` keep their value, and the final
    environment satisfies the defining equation of every statement of `l`. -/
theorem runFrom_spec (all : List Name) (f : Stmt → List V → V) (g : Name → V) :
    ∀ (l : List Stmt) (env env' : Env V), runFrom all f g env l = some env' →
      (∀ x, env x ≠ none → x ∉ outs l) → (outs l).Nodup →
      (∀ x, x ∉ outs l → env' x = env x) ∧ (∀ st ∈ l, SatEq all f g env' st) := by
  intro l
  induction l with
  | nil =>
    intro env env' h _ _
    simp [runFrom] at h
    subst h
    exact ⟨fun _ _ => rfl, fun st hst => by simp at hst⟩
  | cons st rest ih =>
    intro env env' h hdom hnd
    simp only [runFrom] at h
    split at h
    · rename_i vs hvs
      rw [outs_cons] at hnd
      have hnd' := List.nodup_cons.mp hnd
      have hdom1 : ∀ x, (env.set st.out (f st vs)) x ≠ none → x ∉ outs rest := by
        intro x hx
        by_cases hxe : x = st.out
        · subst hxe; exact hnd'.1
        · rw [set_other _ _ hxe] at hx
          have := hdom x hx
          rw [outs_cons] at this
          exact fun hm => this (List.mem_cons_of_mem _ hm)
      obtain ⟨frame, sat⟩ := ih _ _ h hdom1 hnd'.2
      have frame' : ∀ x, x ∉ outs (st :: rest) → env' x = env x := by
        intro x hx
        rw [outs_cons] at hx
        have h1 : x ≠ st.out := fun e => hx (by simp [e])
        have h2 : x ∉ outs rest := fun m => hx (List.mem_cons_of_mem _ m)
        rw [frame x h2, set_other _ _ h1]
      refine ⟨frame', ?_⟩
      intro st' hst'
      rcases List.mem_cons.mp hst' with rfl | hin
      · refine ⟨vs, ?_, ?_⟩
        · rw [← hvs]
          apply readAll_congr
          intro x hx
          unfold readIn
          split
          · rename_i hc
            have hne := readAll_some_mem hvs x hx hc
            exact frame' x (hdom x hne)
          · rfl
        · rw [frame _ hnd'.1, set_same]
      · exact sat st' hin
    · simp at h

/-- a valid order never reads a result before it is produced -/
theorem runFrom_of_valid (all : List Name) (f : Stmt → List V → V) (g : Name → V) :
    ∀ (l : List Stmt) (done : List Name) (env : Env V), validFrom all done l = true →
      (∀ x ∈ done, env x ≠ none) → ∃ env', runFrom all f g env l = some env' := by
  intro l
  induction l with
  | nil => intro done env _ _; exact ⟨env, rfl⟩
  | cons st rest ih =>
    intro done env hv hd
    simp only [validFrom, Bool.and_eq_true, List.all_eq_true] at hv
    obtain ⟨hins, hrest⟩ := hv
    have : ∃ vs, readAll all g env st.ins = some vs := by
      apply readAll_isSome
      intro x hx hc
      have := hins x hx
      have hm : x ∈ all := by simpa using hc
      simp [hm] at this
      exact hd x this
    obtain ⟨vs, hvs⟩ := this
    have hd' : ∀ x ∈ st.out :: done, (env.set st.out (f st vs)) x ≠ none := by
      intro x hx
      by_cases hxe : x = st.out
      · subst hxe; simp [set_same]
      · rw [set_other _ _ hxe]
        rcases List.mem_cons.mp hx with e | hm
        · exact absurd e hxe
        · exact hd x hm
    obtain ⟨env', he⟩ := ih (st.out :: done) _ hrest hd'
    exact ⟨env', by simp [runFrom, hvs, he]⟩

/-- an order that runs without reading an unproduced result is valid -/
theorem valid_of_runFrom (all : List Name) (f : Stmt → List V → V) (g : Name → V) :
    ∀ (l : List Stmt) (done : List Name) (env env' : Env V), runFrom all f g env l = some env' →
      (∀ x, env x ≠ none → x ∈ done) → validFrom all done l = true := by
  intro l
  induction l with
  | nil => intro _ _ _ _ _; rfl
  | cons st rest ih =>
    intro done env env' h hd
    simp only [runFrom] at h
    split at h
    · rename_i vs hvs
      simp only [validFrom, Bool.and_eq_true, List.all_eq_true]
      refine ⟨?_, ?_⟩
      · intro x hx
        cases hc : all.contains x with
        | false => simp
        | true =>
          have := hd x (readAll_some_mem hvs x hx hc)
          simp [this]
      · apply ih (st.out :: done) _ _ h
        intro x hx
        by_cases hxe : x = st.out
        · simp [hxe]
        · rw [set_other _ _ hxe] at hx
          exact List.mem_cons_of_mem _ (hd x hx)
    · simp at h

/-- two environments that satisfy the defining equations of all statements agree on every assigned
    name, provided *some* valid order exists (acyclicity) -/
theorem sat_unique (all : List Name) (f : Stmt → List V → V) (g : Name → V) (env1 env2 : Env V) :
    ∀ (l : List Stmt) (done : List Name), validFrom all done l = true →
      (∀ x ∈ done, env1 x = env2 x) →
      (∀ st ∈ l, SatEq all f g env1 st ∧ SatEq all f g env2 st) →
      ∀ x ∈ outs l, env1 x = env2 x := by
  intro l
  induction l with
  | nil => intro _ _ _ _ x hx; simp [outs] at hx
  | cons st rest ih =>
    intro done hv hd hsat x hx
    simp only [validFrom, Bool.and_eq_true, List.all_eq_true] at hv
    obtain ⟨hins, hrest⟩ := hv
    obtain ⟨⟨vs1, hr1, ho1⟩, ⟨vs2, hr2, ho2⟩⟩ := hsat st (by simp)
    have hread : readAll all g env1 st.ins = readAll all g env2 st.ins := by
      apply readAll_congr
      intro y hy
      unfold readIn
      split
      · rename_i hc
        have := hins y hy
        have hm : y ∈ all := by simpa using hc
        simp [hm] at this
        exact hd y this
      · rfl
    have hvs : vs1 = vs2 := by
      rw [hr1, hr2] at hread
      exact Option.some.inj hread
    have hout : env1 st.out = env2 st.out := by rw [ho1, ho2, hvs]
    rw [outs_cons] at hx
    rcases List.mem_cons.mp hx with rfl | hm
    · exact hout
    · apply ih (st.out :: done) hrest _ (fun st' h' => hsat st' (List.mem_cons_of_mem _ h')) x hm
      intro y hy
      rcases List.mem_cons.mp hy with rfl | hm'
      · exact hout
      · exact hd y hm'

end

/-! ### redefinition -/

theorem hasDupNames_iff (xs : List Name) : hasDupNames xs = true ↔ ¬ xs.Nodup := by
  induction xs with
  | nil => simp [hasDupNames]
  | cons x xs ih =>
    simp only [hasDupNames, Bool.or_eq_true, ih, List.nodup_cons]
    constructor
    · rintro (h | h)
      · simp at h; exact fun hh => hh.1 h
      · exact fun hh => h hh.2
    · intro h
      by_cases hx : x ∈ xs
      · left; simp [hx]
      · right; exact fun hn => h ⟨hx, hn⟩

theorem hasDupNames_perm {a b : List Name} (h : a.Perm b) : hasDupNames a = hasDupNames b := by
  have h1 := hasDupNames_iff a
  have h2 := hasDupNames_iff b
  have := h.nodup_iff
  cases ha : hasDupNames a <;> cases hb : hasDupNames b <;> simp_all

/-! ### cycles -/

theorem ready_perm {a b : List Stmt} (h : a.Perm b) (st : Stmt) : ready a st = ready b st := by
  unfold ready
  congr 1
  funext x
  rw [contains_perm (outs_perm h)]

theorem elimRound_perm {a b : List Stmt} (h : a.Perm b) : (elimRound a).Perm (elimRound b) := by
  unfold elimRound
  have : (fun st => !ready a st) = (fun st => !ready b st) := by
    funext st; rw [ready_perm h]
  rw [this]
  exact h.filter _

theorem elimIter_perm : ∀ (n : Nat) {a b : List Stmt}, a.Perm b → (elimIter n a).Perm (elimIter n b)
  | 0, _, _, h => h
  | n + 1, _, _, h => elimIter_perm n (elimRound_perm h)

theorem cycleCore_perm {a b : List Stmt} (h : a.Perm b) : (cycleCore a).Perm (cycleCore b) := by
  unfold cycleCore
  rw [h.length_eq]
  exact elimIter_perm _ h

end VtlModel.Dag

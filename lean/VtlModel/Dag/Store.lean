/-
  Dag/Store — abstract table store (the DuckDB catalog as `execute_queries` uses it) and the replay
  of `execute_queries`' loop (src/vtlengine/duckdb_transpiler/io/_execution.py) under a schedule.

      for k, stmt in enumerate(queries, 1):
          load_scheduled_datasets   : for x in insertion[k]: load x
          CREATE TABLE out AS sql   : reads stmt.ins, creates stmt.out
          cleanup_scheduled_datasets: for x in deletion[k]:
                                         global input            -> drop
                                         not rop or persistent   -> fetch (into results), drop
                                         otherwise               -> drop
      for stmt in queries: if out not in results and (not rop or persistent): fetch out
-/
import VtlModel.Dag.Schedule
namespace VtlModel.Dag

inductive Event where
  | load (x : Name)
  | create (x : Name)
  | read (x : Name)
  | fetch (x : Name)
  | drop (x : Name)
deriving DecidableEq, Repr

structure Store where
  live : List Name      -- tables currently in the catalog
  loaded : List Name    -- inputs loaded so far
  created : List Name   -- results created so far
  dropped : List Name   -- tables dropped so far
  fetched : List Name   -- results fetched so far (keys of the returned dict), in order
deriving Repr

def Store.init : Store := ⟨[], [], [], [], []⟩

/-- one event; `none` = the history is unsafe at this event -/
def Store.step (st : Store) : Event → Option Store
  | .load x =>
      -- an input is loaded at most once, and never over an existing table
      if st.loaded.contains x || st.live.contains x || st.created.contains x then none
      else some { st with live := x :: st.live, loaded := x :: st.loaded }
  | .create x =>
      -- CREATE TABLE fails on an existing table; a result is created once
      if st.live.contains x || st.created.contains x || st.loaded.contains x then none
      else some { st with live := x :: st.live, created := x :: st.created }
  | .read x => if st.live.contains x then some st else none
  | .fetch x =>
      if st.live.contains x && !st.fetched.contains x then some { st with fetched := st.fetched ++ [x] }
      else none
  | .drop x =>
      -- only live tables are released (so: at most once, and never before load/creation)
      if st.live.contains x then some { st with live := st.live.filter (· != x), dropped := x :: st.dropped }
      else none

def Store.run : Store → List Event → Option Store
  | st, [] => some st
  | st, e :: es => match st.step e with
    | some st' => Store.run st' es
    | none => none

/-- The history is safe: every read / fetch hits a live table, nothing is loaded or created twice,
    only live tables are dropped (hence each at most once and — because a dropped table can never
    come back — only after its last reader), and nothing is left in the catalog at the end (every
    loaded input and every created result has been released exactly once). -/
def Safe (tr : List Event) : Prop := ∃ st, Store.run Store.init tr = some st ∧ st.live = []

def safeB (tr : List Event) : Bool :=
  match Store.run Store.init tr with
  | some st => st.live.isEmpty
  | none => false

/-- position (0-based) of the first event the store rejects, for diagnostics -/
def firstBad : Store → List Event → Nat → Option Nat
  | _, [], _ => none
  | st, e :: es, i => match st.step e with
    | some st' => firstBad st' es (i + 1)
    | none => some i

/-- names fetched, in order = keys of the dict `run()` returns -/
def fetches : List Event → List Name
  | [] => []
  | .fetch x :: es => x :: fetches es
  | _ :: es => fetches es

/-! ### Replay of `execute_queries` -/

def cleanupEvents (sc : Sched) (rop : Bool) : List Name → List Event
  | [] => []
  | x :: xs =>
    (if sc.globalInputs.contains x then [Event.drop x]
     else if !rop || sc.persistent.contains x then [Event.fetch x, Event.drop x]
     else [Event.drop x]) ++ cleanupEvents sc rop xs

def stmtBlock (sc : Sched) (rop : Bool) (k : Nat) (st : Stmt) : List Event :=
  (sc.insertion k).map Event.load ++ st.ins.map Event.read ++ [Event.create st.out]
    ++ cleanupEvents sc rop (sc.deletion k)

def loopEvents (sc : Sched) (rop : Bool) : Nat → List Stmt → List Event
  | _, [] => []
  | k, st :: rest => stmtBlock sc rop k st ++ loopEvents sc rop (k + 1) rest

/-- "Handle final results not yet processed" -/
def finalFetches (rop : Bool) (already : List Name) : List Stmt → List Event
  | [] => []
  | st :: rest =>
    if !already.contains st.out && (!rop || st.persistent)
    then Event.fetch st.out :: finalFetches rop (st.out :: already) rest
    else finalFetches rop already rest

def replayWith (sc : Sched) (rop : Bool) (s : List Stmt) : List Event :=
  let body := loopEvents sc rop 1 s
  body ++ finalFetches rop (fetches body) s

/-- the history of `execute_queries` for the statements `s` (in execution order) under the schedule
    the engine computes for them -/
def replay (rop : Bool) (s : List Stmt) : List Event := replayWith (usage s) rop s

/-- what `run()` must return -/
def expectedResults (rop : Bool) (s : List Stmt) : List Name :=
  if rop then (s.filter (·.persistent)).map (·.out) else outs s

end VtlModel.Dag

/-
  Dag/Basic — statements, valid orders, evaluation in a given order, order-independent denotation,
  cycle / redefinition predicates.  Import-free, total, computable.

  A top-level VTL statement is abstracted to `(out, ins, persistent)`: the name it assigns, the names
  its right-hand side reads, and whether it is a persistent assignment (`<-`).  Names are `Nat`
  (the harness numbers the dataset names of a script).  What a statement *computes* is a parameter
  `f : Stmt → List V → V` (any function of the values it reads) and the global inputs are a
  parameter `g : Name → V`; every theorem holds for all `V`, `f`, `g`.
-/
namespace VtlModel.Dag

abbrev Name := Nat

structure Stmt where
  out : Name
  ins : List Name
  persistent : Bool
deriving DecidableEq, Repr

abbrev Script := List Stmt

/-- names assigned by the script, in order -/
def outs (s : List Stmt) : List Name := s.map (·.out)

/-- all names read by the script (with repetitions) -/
def insOf : List Stmt → List Name
  | [] => []
  | st :: rest => st.ins ++ insOf rest

/-! ### Valid orders -/

/-- `validFrom all done l`: every statement of `l` reads only global inputs (names outside `all`)
    or names produced earlier (`done`, then the outputs of the statements before it in `l`). -/
def validFrom (all : List Name) : List Name → List Stmt → Bool
  | _, [] => true
  | done, st :: rest =>
      st.ins.all (fun x => !all.contains x || done.contains x) && validFrom all (st.out :: done) rest

/-- `o` (a list of statements *in execution order*) runs every statement after the producers of
    everything it reads.  (A statement reading its own output is never valid.) -/
def isValidOrder (o : List Stmt) : Bool := validFrom (outs o) [] o

/-- `o` is a valid execution order of the script `s` -/
def IsValidOrderOf (s o : List Stmt) : Prop := o.Perm s ∧ isValidOrder o = true

/-! ### Redefinition -/

def hasDupNames : List Name → Bool
  | [] => false
  | x :: xs => xs.contains x || hasDupNames xs

/-- the script assigns some name twice (`check_overwriting`, error 1-2-2) -/
def hasDup (s : List Stmt) : Bool := hasDupNames (outs s)

/-! ### Cycles (Kahn elimination; independent of any order) -/

/-- a statement is ready w.r.t. the remaining statements when it reads none of their outputs -/
def ready (rem : List Stmt) (st : Stmt) : Bool := st.ins.all (fun x => !(outs rem).contains x)

/-- one elimination round: drop every ready statement -/
def elimRound (rem : List Stmt) : List Stmt := rem.filter (fun st => !ready rem st)

def elimIter : Nat → List Stmt → List Stmt
  | 0, rem => rem
  | n + 1, rem => elimIter n (elimRound rem)

/-- statements that can never become ready: they lie on, or depend on, a dependency cycle -/
def cycleCore (s : List Stmt) : List Stmt := elimIter s.length s

/-- the script has a dependency cycle (error 1-3-2-3) -/
def hasCycle (s : List Stmt) : Bool := !(cycleCore s).isEmpty

/-- layered topological order produced by the elimination (used by the driver / non-vacuity) -/
def topoLayers : Nat → List Stmt → List Stmt
  | 0, _ => []
  | n + 1, rem => rem.filter (fun st => ready rem st) ++ topoLayers n (elimRound rem)

def topo (s : List Stmt) : List Stmt := topoLayers s.length s

/-! ### Running the statements in a given order -/

abbrev Env (V : Type) := Name → Option V

def Env.empty {V : Type} : Env V := fun _ => none

def Env.set {V : Type} (env : Env V) (x : Name) (v : V) : Env V :=
  fun y => if y = x then some v else env y

/-- reading a name: a global input has its given value; a name assigned by the script has the value
    currently in the environment — `none` (use before definition) when it was not produced yet -/
def readIn {V : Type} (all : List Name) (g : Name → V) (env : Env V) (x : Name) : Option V :=
  if all.contains x then env x else some (g x)

def readAll {V : Type} (all : List Name) (g : Name → V) (env : Env V) : List Name → Option (List V)
  | [] => some []
  | x :: xs =>
    match readIn all g env x, readAll all g env xs with
    | some v, some vs => some (v :: vs)
    | _, _ => none

/-- execute the statements left to right; `none` = some statement read a result not yet computed -/
def runFrom {V : Type} (all : List Name) (f : Stmt → List V → V) (g : Name → V) :
    Env V → List Stmt → Option (Env V)
  | env, [] => some env
  | env, st :: rest =>
    match readAll all g env st.ins with
    | some vs => runFrom all f g (env.set st.out (f st vs)) rest
    | none => none

def runSeq {V : Type} (f : Stmt → List V → V) (g : Name → V) (o : List Stmt) : Option (Env V) :=
  runFrom (outs o) f g Env.empty o

/-- the environment satisfies the defining equation of statement `st` -/
def SatEq {V : Type} (all : List Name) (f : Stmt → List V → V) (g : Name → V) (env : Env V)
    (st : Stmt) : Prop :=
  ∃ vs, readAll all g env st.ins = some vs ∧ env st.out = some (f st vs)

/-! ### Order-independent denotation (fuel = nesting depth; `length s + 1` always suffices) -/

def findDef (s : List Stmt) (x : Name) : Option Stmt := s.find? (fun st => st.out == x)

def sequenceOpt {V : Type} : List (Option V) → Option (List V)
  | [] => some []
  | some v :: rest => (sequenceOpt rest).map (v :: ·)
  | none :: _ => none

/-- value of name `x` as determined by the *set* of statements: a global input denotes `g x`,
    an assigned name denotes `f` of the denotations of what its (first) defining statement reads. -/
def denote {V : Type} (f : Stmt → List V → V) (g : Name → V) (s : List Stmt) : Nat → Name → Option V
  | 0, _ => none
  | fuel + 1, x =>
    match findDef s x with
    | none => some (g x)
    | some st => (sequenceOpt (st.ins.map (denote f g s fuel))).map (f st)

/-- term trees over the global inputs: the free interpretation, rendered as a string -/
def termF (st : Stmt) (args : List String) : String :=
  "(" ++ toString st.out ++ (if st.persistent then "!" else "") ++ args.foldl (fun a b => a ++ " " ++ b) "" ++ ")"

def termG (x : Name) : String := "i" ++ toString x

end VtlModel.Dag

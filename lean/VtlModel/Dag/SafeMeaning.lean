/-
  Dag/SafeMeaning — what acceptance by the table store (`Safe`) means at the level of the event
  history: no use after release, at most one load / creation / release per table, everything that
  entered the catalog is released.
-/
import VtlModel.Dag.StoreLemmas
namespace VtlModel.Dag

theorem run_split {a b : List Event} {e : Event} {σ σ' : Store}
    (h : Store.run σ (a ++ e :: b) = some σ') :
    ∃ σ1 σ2, Store.run σ a = some σ1 ∧ σ1.step e = some σ2 ∧ Store.run σ2 b = some σ' := by
  rw [run_append] at h
  cases h1 : Store.run σ a with
  | none => simp [h1] at h
  | some σ1 =>
    simp [h1, Store.run] at h
    cases h2 : σ1.step e with
    | none => simp [h2] at h
    | some σ2 => simp [h2] at h; exact ⟨σ1, σ2, rfl, h2, h⟩

/-- every live table was loaded or created -/
def LiveKnown (σ : Store) : Prop := ∀ y ∈ σ.live, y ∈ σ.loaded ∨ y ∈ σ.created

/-- `x` was in the catalog once and is gone -/
def Dead (x : Name) (σ : Store) : Prop := x ∉ σ.live ∧ (x ∈ σ.loaded ∨ x ∈ σ.created)

theorem liveKnown_step {σ σ' : Store} {e : Event} (hk : LiveKnown σ) (h : σ.step e = some σ') :
    LiveKnown σ' := by
  unfold LiveKnown at *
  cases e <;> simp only [Store.step] at h <;> split at h <;> simp at h <;> subst h <;> first | grind | (simp <;> grind)

theorem liveKnown_run : ∀ (tr : List Event) (σ σ' : Store), LiveKnown σ → Store.run σ tr = some σ' →
    LiveKnown σ' := by
  intro tr
  induction tr with
  | nil => intro σ σ' hk h; simp [Store.run] at h; subst h; exact hk
  | cons e es ih =>
    intro σ σ' hk h
    simp only [Store.run] at h
    split at h
    · rename_i σ1 hs; exact ih σ1 σ' (liveKnown_step hk hs) h
    · simp at h

def touches (x : Name) : List Event := [.read x, .fetch x, .drop x, .load x, .create x]

theorem dead_step {x : Name} {σ σ' : Store} {e : Event} (hd : Dead x σ) (h : σ.step e = some σ') :
    Dead x σ' ∧ e ∉ touches x := by
  unfold Dead touches at *
  cases e <;> simp only [Store.step] at h <;> split at h <;> simp at h <;> subst h <;> first | grind | (simp <;> grind)

theorem dead_run {x : Name} : ∀ (tr : List Event) (σ σ' : Store), Dead x σ → Store.run σ tr = some σ' →
    ∀ e ∈ tr, e ∉ touches x := by
  intro tr
  induction tr with
  | nil => intro _ _ _ _ e he; simp at he
  | cons e es ih =>
    intro σ σ' hd h e' he'
    simp only [Store.run] at h
    split at h
    · rename_i σ1 hs
      have := dead_step hd hs
      rcases List.mem_cons.mp he' with rfl | hm
      · exact this.2
      · exact ih σ1 σ' this.1 h e' hm
    · simp at h

theorem live_stays {x : Name} : ∀ (tr : List Event) (σ σ' : Store), x ∈ σ.live → Store.run σ tr = some σ' →
    Event.drop x ∉ tr → x ∈ σ'.live := by
  intro tr
  induction tr with
  | nil => intro σ σ' hl h _; simp [Store.run] at h; subst h; exact hl
  | cons e es ih =>
    intro σ σ' hl h hnd
    simp only [Store.run] at h
    split at h
    · rename_i σ1 hs
      apply ih σ1 σ' _ h (fun hm => hnd (List.mem_cons_of_mem _ hm))
      have hne : e ≠ Event.drop x := fun he => hnd (by simp [he])
      cases e <;> simp only [Store.step] at hs <;> split at hs <;> simp at hs <;> subst hs <;> first | grind | (simp <;> grind)
    · simp at h

theorem known_stays {x : Name} : ∀ (tr : List Event) (σ σ' : Store), (x ∈ σ.loaded ∨ x ∈ σ.created) →
    Store.run σ tr = some σ' → Event.load x ∉ tr ∧ Event.create x ∉ tr := by
  intro tr
  induction tr with
  | nil => intro _ _ _ _; simp
  | cons e es ih =>
    intro σ σ' hk h
    simp only [Store.run] at h
    split at h
    · rename_i σ1 hs
      have hk1 : x ∈ σ1.loaded ∨ x ∈ σ1.created := by
        cases e <;> simp only [Store.step] at hs <;> split at hs <;> simp at hs <;> subst hs <;> first | grind | (simp <;> grind)
      have := ih σ1 σ' hk1 h
      have hne : e ≠ Event.load x ∧ e ≠ Event.create x := by
        cases e <;> simp only [Store.step] at hs <;> split at hs <;> simp at hs <;> first | grind | (simp <;> grind)
      simp only [List.mem_cons, not_or]
      exact ⟨⟨fun he => hne.1 he.symm, this.1⟩, ⟨fun he => hne.2 he.symm, this.2⟩⟩
    · simp at h

end VtlModel.Dag

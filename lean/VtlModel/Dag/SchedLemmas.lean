/-
  Dag/SchedLemmas — what `usage` schedules at statement number `pre.length + 1` of
  `s = pre ++ st :: post`, in terms of the statements before / after it.
-/
import VtlModel.Dag.Lemmas
import VtlModel.Dag.StoreLemmas
namespace VtlModel.Dag

theorem insOf_append (a b : List Stmt) : insOf (a ++ b) = insOf a ++ insOf b := by
  induction a with
  | nil => rfl
  | cons st rest ih => simp [insOf, ih]

theorem mem_insOf {l : List Stmt} {x : Name} : x ∈ insOf l ↔ ∃ st ∈ l, x ∈ st.ins := by
  induction l with
  | nil => simp [insOf]
  | cons st rest ih => simp [insOf, ih]

/-! ### last consumer -/

theorem lastC_none_iff : ∀ (l : List Stmt) (k : Nat) (x : Name), lastC k l x = none ↔ x ∉ insOf l := by
  intro l
  induction l with
  | nil => intro k x; simp [lastC, insOf]
  | cons st rest ih =>
    intro k x
    simp only [lastC, insOf, List.mem_append, not_or]
    cases h : lastC (k + 1) rest x with
    | some j =>
      have := (not_congr (ih (k + 1) x)).mp (by simp [h])
      simp; intro _; simpa using this
    | none =>
      have := (ih (k + 1) x).mp h
      simp [this]

theorem lastC_ge : ∀ (l : List Stmt) (k j : Nat) (x : Name), lastC k l x = some j → k ≤ j := by
  intro l
  induction l with
  | nil => intro k j x h; simp [lastC] at h
  | cons st rest ih =>
    intro k j x h
    simp only [lastC] at h
    cases h1 : lastC (k + 1) rest x with
    | some j' =>
      rw [h1] at h; simp at h; subst h
      have := ih _ _ _ h1; omega
    | none =>
      rw [h1] at h
      simp at h
      omega

theorem lastC_split : ∀ (pre : List Stmt) (k : Nat) (st : Stmt) (post : List Stmt) (x : Name),
    lastC k (pre ++ st :: post) x = some (k + pre.length) ↔ x ∈ st.ins ∧ x ∉ insOf post := by
  intro pre
  induction pre with
  | nil =>
    intro k st post x
    simp only [List.nil_append, lastC, List.length_nil, Nat.add_zero]
    cases h1 : lastC (k + 1) post x with
    | some j =>
      have hge := lastC_ge _ _ _ _ h1
      have hin := (not_congr (lastC_none_iff post (k + 1) x)).mp (by simp [h1])
      simp at hin
      simp [hin]; omega
    | none =>
      have := (lastC_none_iff post (k + 1) x).mp h1
      simp [this]
  | cons q pre ih =>
    intro k st post x
    simp only [List.cons_append, lastC, List.length_cons]
    have ih' := ih (k + 1) st post x
    have e : k + 1 + pre.length = k + (pre.length + 1) := by omega
    rw [e] at ih'
    cases h1 : lastC (k + 1) (pre ++ st :: post) x with
    | some j => rw [h1] at ih'; simpa using ih'
    | none =>
      rw [h1] at ih'
      simp at ih'
      have hne : (if q.ins.contains x = true then some k else none) ≠ some (k + (pre.length + 1)) := by
        split
        · simp
        · simp
      constructor
      · intro h; exact absurd h hne
      · intro h; exact absurd h.2 (by simpa using ih' h.1)

/-! ### global inputs in first-use order -/

theorem mem_newIns (all : List Name) : ∀ (xs seen : List Name) (x : Name),
    x ∈ newIns all seen xs ↔ x ∈ xs ∧ x ∉ all ∧ x ∉ seen := by
  intro xs
  induction xs with
  | nil => simp [newIns]
  | cons y ys ih =>
    intro seen x
    simp only [newIns]
    split
    · rename_i hc
      simp at hc
      rw [ih]; grind
    · rename_i hc
      simp at hc
      simp only [List.mem_cons, ih]; grind

theorem nodup_newIns (all : List Name) : ∀ (xs seen : List Name), (newIns all seen xs).Nodup := by
  intro xs
  induction xs with
  | nil => simp [newIns]
  | cons y ys ih =>
    intro seen
    simp only [newIns]
    split
    · exact ih seen
    · rw [List.nodup_cons]
      refine ⟨?_, ih _⟩
      rw [mem_newIns]; simp

/-- names already recorded as global inputs after the statements `pre` -/
def seenAcc (all : List Name) : List Name → List Stmt → List Name
  | seen, [] => seen
  | seen, st :: rest => seenAcc all ((newIns all seen st.ins).reverse ++ seen) rest

theorem mem_seenAcc (all : List Name) : ∀ (pre : List Stmt) (seen : List Name) (x : Name),
    x ∈ seenAcc all seen pre ↔ x ∈ seen ∨ (x ∈ insOf pre ∧ x ∉ all) := by
  intro pre
  induction pre with
  | nil => simp [seenAcc, insOf]
  | cons st rest ih =>
    intro seen x
    simp only [seenAcc, ih, insOf, List.mem_append, List.mem_reverse, mem_newIns]
    grind

theorem firstUses_ge (all : List Name) : ∀ (l : List Stmt) (seen : List Name) (k : Nat) (p : Nat × Name),
    p ∈ firstUses all seen k l → k ≤ p.1 := by
  intro l
  induction l with
  | nil => intro _ _ p h; simp [firstUses] at h
  | cons st rest ih =>
    intro seen k p h
    simp only [firstUses, List.mem_append, List.mem_map] at h
    rcases h with ⟨x, _, rfl⟩ | h
    · simp
    · have := ih _ _ _ h; omega

theorem firstUses_at (all : List Name) : ∀ (pre : List Stmt) (seen : List Name) (k : Nat)
    (st : Stmt) (post : List Stmt),
    ((firstUses all seen k (pre ++ st :: post)).filter (fun p => p.1 == k + pre.length)).map (·.2)
      = newIns all (seenAcc all seen pre) st.ins := by
  intro pre
  induction pre with
  | nil =>
    intro seen k st post
    simp only [List.nil_append, firstUses, List.length_nil, Nat.add_zero, seenAcc, List.filter_append,
      List.map_append]
    have h1 : (firstUses all ((newIns all seen st.ins).reverse ++ seen) (k + 1) post).filter
        (fun p => p.1 == k) = [] := by
      rw [List.filter_eq_nil_iff]
      intro p hp
      have := firstUses_ge _ _ _ _ _ hp
      simp; omega
    rw [h1]
    simp [List.filter_map, Function.comp_def]
  | cons q pre ih =>
    intro seen k st post
    simp only [List.cons_append, firstUses, List.length_cons, seenAcc, List.filter_append, List.map_append]
    have h1 : ((newIns all seen q.ins).map (fun x => (k, x))).filter
        (fun p => p.1 == k + (pre.length + 1)) = [] := by
      rw [List.filter_eq_nil_iff]
      intro p hp
      simp only [List.mem_map] at hp
      obtain ⟨x, _, rfl⟩ := hp
      simp
    rw [h1]
    have e : k + (pre.length + 1) = k + 1 + pre.length := by omega
    rw [e]
    simpa using ih _ (k + 1) st post

theorem firstUses_names (all : List Name) : ∀ (l : List Stmt) (seen : List Name) (k : Nat) (x : Name),
    x ∈ (firstUses all seen k l).map (·.2) ↔ x ∈ insOf l ∧ x ∉ all ∧ x ∉ seen := by
  intro l
  induction l with
  | nil => simp [firstUses, insOf]
  | cons st rest ih =>
    intro seen k x
    simp only [firstUses, List.map_append, List.mem_append, ih, insOf, List.map_map]
    have : x ∈ List.map ((fun p : Nat × Name => p.2) ∘ fun x => (k, x)) (newIns all seen st.ins)
        ↔ x ∈ newIns all seen st.ins := by simp [Function.comp_def]
    rw [this, mem_newIns]
    simp only [List.mem_reverse, mem_newIns]
    grind

theorem firstUses_nodup (all : List Name) : ∀ (l : List Stmt) (seen : List Name) (k : Nat),
    ((firstUses all seen k l).map (·.2)).Nodup := by
  intro l
  induction l with
  | nil => simp [firstUses]
  | cons st rest ih =>
    intro seen k
    simp only [firstUses, List.map_append, List.map_map]
    have e : List.map ((fun p : Nat × Name => p.2) ∘ fun x => (k, x)) (newIns all seen st.ins)
        = newIns all seen st.ins := by simp [Function.comp_def]
    rw [e, List.nodup_append]
    refine ⟨nodup_newIns _ _ _, ih _ _, ?_⟩
    intro a ha b hb
    rw [firstUses_names] at hb
    intro hab
    subst hab
    exact hb.2.2 (by simp [ha])

/-! ### deletion slots of the outputs -/

theorem outSlots_names (s : List Stmt) : ∀ (l : List Stmt) (k : Nat), (outSlots s k l).map (·.2) = outs l := by
  intro l
  induction l with
  | nil => intro _; rfl
  | cons st rest ih => intro k; simp [outSlots, outs_cons, ih]

theorem mem_outSlots (s : List Stmt) : ∀ (l : List Stmt) (k : Nat) (p : Nat × Name),
    p ∈ outSlots s k l ↔ ∃ pre st post, l = pre ++ st :: post ∧
      p = ((lastConsumer s st.out).getD (k + pre.length), st.out) := by
  intro l
  induction l with
  | nil => intro k p; simp [outSlots]
  | cons q rest ih =>
    intro k p
    simp only [outSlots, List.mem_cons, ih]
    constructor
    · rintro (rfl | ⟨pre, st, post, rfl, rfl⟩)
      · exact ⟨[], q, rest, rfl, by simp⟩
      · exact ⟨q :: pre, st, post, rfl, by
          simp only [List.length_cons]
          rw [show k + (pre.length + 1) = k + 1 + pre.length by omega]⟩
    · rintro ⟨pre, st, post, hl, rfl⟩
      cases pre with
      | nil =>
        simp at hl
        obtain ⟨rfl, rfl⟩ := hl
        left; simp
      | cons q' pre' =>
        simp at hl
        obtain ⟨rfl, rfl⟩ := hl
        right
        exact ⟨pre', st, post, rfl, by
          simp only [List.length_cons]
          rw [show k + (pre'.length + 1) = k + 1 + pre'.length by omega]⟩

theorem mem_dedup : ∀ (l seen : List Name) (x : Name), x ∈ dedup seen l ↔ x ∈ l ∧ x ∉ seen := by
  intro l
  induction l with
  | nil => simp [dedup]
  | cons y ys ih =>
    intro seen x
    simp only [dedup]
    split
    · rename_i hc; simp at hc; rw [ih]; grind
    · rename_i hc; simp at hc; simp only [List.mem_cons, ih]; grind

/-! ### consequences of validity -/

theorem validFrom_split (all : List Name) : ∀ (pre : List Stmt) (done : List Name) (st : Stmt)
    (post : List Stmt), validFrom all done (pre ++ st :: post) = true →
    ∀ x ∈ st.ins, x ∈ all → x ∈ done ∨ x ∈ outs pre := by
  intro pre
  induction pre with
  | nil =>
    intro done st post h x hx hall
    simp only [List.nil_append, validFrom, Bool.and_eq_true, List.all_eq_true] at h
    have := h.1 x hx
    simp [hall] at this
    exact Or.inl this
  | cons q pre ih =>
    intro done st post h x hx hall
    simp only [List.cons_append, validFrom, Bool.and_eq_true] at h
    have := ih (q.out :: done) st post h.2 x hx hall
    simp [outs_cons] at this ⊢
    grind

/-- in a valid order with distinct outputs a statement's inputs that are results come from earlier
    statements, and its own output is read neither by itself nor by an earlier statement -/
theorem valid_facts (pre : List Stmt) (st : Stmt) (post : List Stmt)
    (hnd : (outs (pre ++ st :: post)).Nodup) (hv : isValidOrder (pre ++ st :: post) = true) :
    (∀ x ∈ st.ins, x ∈ outs (pre ++ st :: post) → x ∈ outs pre) ∧
    st.out ∉ st.ins ∧ st.out ∉ insOf pre ∧ st.out ∉ outs pre ∧ st.out ∉ outs post := by
  have hnd0 := hnd
  rw [outs_append, outs_cons, List.nodup_append] at hnd
  obtain ⟨_, hnd2, hdisj⟩ := hnd
  have hnd2' := List.nodup_cons.mp hnd2
  have hop : st.out ∉ outs pre := fun h => hdisj _ h _ (by simp) rfl
  have h1 : ∀ x ∈ st.ins, x ∈ outs (pre ++ st :: post) → x ∈ outs pre := by
    intro x hx hall
    have := validFrom_split _ pre [] st post hv x hx hall
    simpa using this
  refine ⟨h1, ?_, ?_, hop, hnd2'.1⟩
  · intro h
    exact hop (h1 _ h (by simp [outs_append, outs_cons]))
  · intro h
    obtain ⟨q, hq, hin⟩ := mem_insOf.mp h
    obtain ⟨p1, p2, rfl⟩ := List.append_of_mem hq
    have hv' : validFrom (outs ((p1 ++ q :: p2) ++ st :: post)) [] (p1 ++ q :: (p2 ++ st :: post)) = true := by
      have : (p1 ++ q :: p2) ++ st :: post = p1 ++ q :: (p2 ++ st :: post) := by simp
      rw [← this]; exact hv
    have := validFrom_split _ p1 [] q (p2 ++ st :: post) hv' st.out hin (by simp [outs_append, outs_cons])
    simp at this
    -- st.out ∈ outs p1, but p1 is part of pre
    exact hop (by simp [outs_append, this])

end VtlModel.Dag

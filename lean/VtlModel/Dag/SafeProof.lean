/-
  Dag/SafeProof — the schedule computed by `usage` is safe for `execute_queries`' loop:
  induction over the statement list with an invariant on the table store.
-/
import VtlModel.Dag.SchedLemmas
namespace VtlModel.Dag

theorem lastConsumer_at (pre : List Stmt) (st : Stmt) (post : List Stmt) (x : Name) :
    lastConsumer (pre ++ st :: post) x = some (pre.length + 1) ↔ x ∈ st.ins ∧ x ∉ insOf post := by
  have := lastC_split pre 1 st post x
  rw [Nat.add_comm 1 pre.length] at this
  exact this

theorem usage_insertion (pre : List Stmt) (st : Stmt) (post : List Stmt) :
    (usage (pre ++ st :: post)).insertion (pre.length + 1)
      = newIns (outs (pre ++ st :: post)) (seenAcc (outs (pre ++ st :: post)) [] pre) st.ins := by
  have := firstUses_at (outs (pre ++ st :: post)) pre [] 1 st post
  rw [Nat.add_comm 1 pre.length] at this
  simpa [Sched.insertion, usage] using this

theorem mem_globalInputs (s : List Stmt) (x : Name) :
    x ∈ (usage s).globalInputs ↔ x ∈ insOf s ∧ x ∉ outs s := by
  have := firstUses_names (outs s) s [] 1 x
  simpa [usage] using this

theorem nodup_globalInputs (s : List Stmt) : (usage s).globalInputs.Nodup := by
  have := firstUses_nodup (outs s) s [] 1
  simpa [usage] using this

theorem mem_persistent (s : List Stmt) (x : Name) :
    x ∈ (usage s).persistent ↔ ∃ st ∈ s, st.persistent = true ∧ st.out = x := by
  simp [usage, mem_dedup]
  constructor
  · rintro ⟨st, ⟨h1, h2⟩, h3⟩; exact ⟨st, h1, h2, h3⟩
  · rintro ⟨st, h1, h2, h3⟩; exact ⟨st, ⟨h1, h2⟩, h3⟩

/-- the deletion list of a statement, as lists -/
theorem deletion_eq (s : List Stmt) (k : Nat) :
    (usage s).deletion k =
      ((outSlots s 1 s).filter (fun p => p.1 == k)).map (·.2) ++
      (((firstUses (outs s) [] 1 s).map (fun p => ((lastConsumer s p.2).getD p.1, p.2))).filter
        (fun p => p.1 == k)).map (·.2) := by
  simp [Sched.deletion, usage, List.filter_append]

theorem nodup_deletion (s : List Stmt) (hnd : (outs s).Nodup) (k : Nat) : ((usage s).deletion k).Nodup := by
  rw [deletion_eq, List.nodup_append]
  refine ⟨?_, ?_, ?_⟩
  · have hsub : List.Sublist (((outSlots s 1 s).filter (fun p => p.1 == k)).map (·.2)) ((outSlots s 1 s).map (·.2)) :=
      (List.filter_sublist).map _
    rw [outSlots_names] at hsub
    exact hnd.sublist hsub
  · have hsub := (List.filter_sublist (p := fun p : Nat × Name => p.1 == k)
      (l := (firstUses (outs s) [] 1 s).map (fun p => ((lastConsumer s p.2).getD p.1, p.2)))).map (·.2)
    have e : ((firstUses (outs s) [] 1 s).map (fun p => ((lastConsumer s p.2).getD p.1, p.2))).map (·.2)
        = (firstUses (outs s) [] 1 s).map (·.2) := by simp [Function.comp_def]
    rw [e] at hsub
    exact (firstUses_nodup (outs s) s [] 1).sublist hsub
  · intro a ha b hb hab
    subst hab
    have h1 : a ∈ outs s := by
      simp only [List.mem_map, List.mem_filter] at ha
      obtain ⟨p, ⟨hp, _⟩, rfl⟩ := ha
      rw [← outSlots_names s s 1]
      exact List.mem_map.mpr ⟨p, hp, rfl⟩
    have h2 : a ∈ (firstUses (outs s) [] 1 s).map (·.2) := by
      simp only [List.mem_map, List.mem_filter] at hb
      obtain ⟨p, ⟨⟨q, hq, rfl⟩, _⟩, rfl⟩ := hb
      exact List.mem_map.mpr ⟨q, hq, rfl⟩
    rw [firstUses_names] at h2
    exact h2.2.1 h1

/-- what is released after statement `st` of a valid order: exactly the names it touches (its inputs
    and its own result) that no later statement reads -/
theorem mem_deletion (pre : List Stmt) (st : Stmt) (post : List Stmt)
    (hnd : (outs (pre ++ st :: post)).Nodup) (hv : isValidOrder (pre ++ st :: post) = true) (x : Name) :
    x ∈ (usage (pre ++ st :: post)).deletion (pre.length + 1) ↔
      (x ∈ st.ins ∨ x = st.out) ∧ x ∉ insOf post := by
  generalize hs : pre ++ st :: post = s at hnd hv ⊢
  have F1 : ∀ y, lastConsumer s y = some (pre.length + 1) ↔ y ∈ st.ins ∧ y ∉ insOf post := by
    intro y; rw [← hs]; exact lastConsumer_at pre st post y
  have F2 : ∀ y, lastConsumer s y = none ↔ y ∉ insOf s := fun y => lastC_none_iff s 1 y
  have hins : ∀ y, y ∈ insOf s ↔ y ∈ insOf pre ∨ y ∈ st.ins ∨ y ∈ insOf post := by
    intro y; rw [← hs, insOf_append]; simp [insOf]
  obtain ⟨_, V2, V3, _, _⟩ := valid_facts pre st post (hs ▸ hnd) (hs ▸ hv)
  rw [deletion_eq]
  simp only [List.mem_append, List.mem_map, List.mem_filter]
  constructor
  · rintro (⟨p, ⟨hp, hk⟩, rfl⟩ | ⟨p, ⟨⟨q, hq, rfl⟩, hk⟩, rfl⟩)
    · obtain ⟨pre', st', post', hs', rfl⟩ := (mem_outSlots s s 1 p).mp hp
      simp only [beq_iff_eq] at hk ⊢
      cases hlc : lastConsumer s st'.out with
      | none =>
        rw [hlc] at hk
        simp at hk
        have hlen : pre'.length = pre.length := by omega
        have := List.append_inj (hs'.symm.trans hs.symm) hlen
        obtain ⟨rfl, h2⟩ := this
        simp at h2
        obtain ⟨rfl, rfl⟩ := h2
        refine ⟨Or.inr rfl, ?_⟩
        have := (F2 _).mp hlc
        rw [hins] at this
        exact fun h => this (Or.inr (Or.inr h))
      | some j =>
        rw [hlc] at hk
        simp at hk
        subst hk
        have := (F1 _).mp hlc
        exact ⟨Or.inl this.1, this.2⟩
    · simp only [beq_iff_eq] at hk ⊢
      have hq' : q.2 ∈ (firstUses (outs s) [] 1 s).map (·.2) := List.mem_map.mpr ⟨q, hq, rfl⟩
      rw [firstUses_names] at hq'
      cases hlc : lastConsumer s q.2 with
      | none => exact absurd hq'.1 ((F2 _).mp hlc)
      | some j =>
        rw [hlc] at hk
        simp at hk
        subst hk
        have := (F1 _).mp hlc
        exact ⟨Or.inl this.1, this.2⟩
  · rintro ⟨hx | hx, hpost⟩
    · have hlc := (F1 x).mpr ⟨hx, hpost⟩
      by_cases hout : x ∈ outs s
      · left
        obtain ⟨st', hst', rfl⟩ := mem_outs.mp hout
        obtain ⟨pre', post', rfl⟩ := List.append_of_mem hst'
        refine ⟨((lastConsumer (pre' ++ st' :: post') st'.out).getD (1 + pre'.length), st'.out), ⟨?_, ?_⟩, rfl⟩
        · exact (mem_outSlots _ _ 1 _).mpr ⟨pre', st', post', rfl, rfl⟩
        · simp [hlc]
      · right
        have : x ∈ (firstUses (outs s) [] 1 s).map (·.2) := by
          rw [firstUses_names]
          exact ⟨(hins x).mpr (Or.inr (Or.inl hx)), hout, by simp⟩
        obtain ⟨q, hq, rfl⟩ := List.mem_map.mp this
        exact ⟨_, ⟨⟨q, hq, rfl⟩, by simp [hlc]⟩, rfl⟩
    · subst hx
      left
      have hno : st.out ∉ insOf s := by
        rw [hins]; rintro (h | h | h)
        · exact V3 h
        · exact V2 h
        · exact hpost h
      have hlc := (F2 _).mpr hno
      refine ⟨((lastConsumer s st.out).getD (1 + pre.length), st.out), ⟨?_, ?_⟩, rfl⟩
      · exact (mem_outSlots s s 1 _).mpr ⟨pre, st, post, hs.symm, rfl⟩
      · simp [hlc]; omega

/-! ### the invariant of `execute_queries`' loop -/

/-- state of the catalog after the statements `pre`, with `post` still to run -/
structure Inv (s pre post : List Stmt) (rop : Bool) (σ : Store) : Prop where
  live : ∀ x, x ∈ σ.live ↔ (x ∈ outs pre ∨ (x ∈ insOf pre ∧ x ∉ outs s)) ∧ x ∈ insOf post
  loaded : ∀ x, x ∈ σ.loaded ↔ x ∈ insOf pre ∧ x ∉ outs s
  created : ∀ x, x ∈ σ.created ↔ x ∈ outs pre
  fetched : ∀ x, x ∈ σ.fetched ↔ x ∈ outs pre ∧ x ∉ insOf post ∧ fetchCond (usage s) rop x = true

theorem inv_init (s : List Stmt) (rop : Bool) : Inv s [] s rop Store.init := by
  constructor <;> intro x <;> simp [Store.init, outs, insOf]

/-- one iteration of the loop preserves the invariant and never hits an unsafe event -/
theorem step_block (pre : List Stmt) (st : Stmt) (post : List Stmt) (rop : Bool) (σ : Store)
    (hnd : (outs (pre ++ st :: post)).Nodup) (hv : isValidOrder (pre ++ st :: post) = true)
    (inv : Inv (pre ++ st :: post) pre (st :: post) rop σ) :
    ∃ σ', Store.run σ (stmtBlock (usage (pre ++ st :: post)) rop (pre.length + 1) st) = some σ' ∧
      Inv (pre ++ st :: post) (pre ++ [st]) post rop σ' := by
  have hdel := mem_deletion pre st post hnd hv
  have hdelnd := nodup_deletion (pre ++ st :: post) hnd (pre.length + 1)
  have hinsq := usage_insertion pre st post
  obtain ⟨V1, V2, V3, V4, V5⟩ := valid_facts pre st post hnd hv
  generalize hs : pre ++ st :: post = s at *
  have houts : ∀ y, y ∈ outs s ↔ y ∈ outs pre ∨ y = st.out ∨ y ∈ outs post := by
    intro y; rw [← hs, outs_append, outs_cons]; simp
  have hL : ∀ y, y ∈ (usage s).insertion (pre.length + 1) ↔ y ∈ st.ins ∧ y ∉ outs s ∧ y ∉ insOf pre := by
    intro y
    rw [hinsq, mem_newIns, mem_seenAcc]
    simp; grind
  -- 1. loads
  obtain ⟨σ1, hr1, hl1, hld1, hc1, hf1⟩ := run_loads ((usage s).insertion (pre.length + 1)) σ
    (by rw [hinsq]; exact nodup_newIns _ _ _)
    (by
      intro y hy
      have := (hL y).mp hy
      refine ⟨?_, ?_, ?_⟩
      · rw [inv.loaded]; exact fun h => this.2.2 h.1
      · rw [inv.live]; rintro ⟨h | h, _⟩
        · exact this.2.1 ((houts y).mpr (Or.inl h))
        · exact this.2.2 h.1
      · rw [inv.created]; exact fun h => this.2.1 ((houts y).mpr (Or.inl h)))
  -- 2. reads
  have hreads : ∀ y ∈ st.ins, y ∈ σ1.live := by
    intro y hy
    rw [hl1, hL, inv.live]
    by_cases ho : y ∈ outs s
    · right
      exact ⟨Or.inl (V1 y hy ho), by simp [insOf, hy]⟩
    · by_cases hp : y ∈ insOf pre
      · right; exact ⟨Or.inr ⟨hp, ho⟩, by simp [insOf, hy]⟩
      · left; exact ⟨hy, ho, hp⟩
  have hr2 := run_reads st.ins σ1 hreads
  -- 3. create
  have hout_s : st.out ∈ outs s := (houts _).mpr (Or.inr (Or.inl rfl))
  have hnl : st.out ∉ σ1.live := by
    rw [hl1, hL, inv.live]
    rintro (h | ⟨h | h, _⟩)
    · exact h.2.1 hout_s
    · exact V4 h
    · exact h.2 hout_s
  have hncr : st.out ∉ σ1.created := by rw [hc1, inv.created]; exact V4
  have hnld : st.out ∉ σ1.loaded := by
    rw [hld1, hL, inv.loaded]
    rintro (h | h)
    · exact h.2.1 hout_s
    · exact h.2 hout_s
  have hr3 := step_create hnl hncr hnld
  generalize hσ2 : ({ σ1 with live := st.out :: σ1.live, created := st.out :: σ1.created } : Store) = σ2 at hr3
  have hl2 : ∀ y, y ∈ σ2.live ↔ y = st.out ∨ y ∈ σ1.live := by intro y; rw [← hσ2]; simp
  have hf2 : σ2.fetched = σ.fetched := by rw [← hσ2]; simpa using hf1
  -- live after creation: touched by pre ++ [st] and (needed later or touched by st)
  have hl2' : ∀ y, y ∈ σ2.live ↔
      ((y ∈ outs pre ∨ (y ∈ insOf pre ∧ y ∉ outs s)) ∧ (y ∈ st.ins ∨ y ∈ insOf post)) ∨
      y = st.out ∨ (y ∈ st.ins ∧ y ∉ outs s ∧ y ∉ insOf pre) := by
    intro y
    rw [hl2, hl1, hL, inv.live]
    simp [insOf]; grind
  -- 4. cleanup
  obtain ⟨σ3, hr4, hl3, hld3, hc3, hf3⟩ := run_cleanup (usage s) rop ((usage s).deletion (pre.length + 1)) σ2
    hdelnd
    (by
      intro y hy
      have := (hdel y).mp hy
      rw [hl2']
      rcases this.1 with h | h
      · by_cases ho : y ∈ outs s
        · left; exact ⟨Or.inl (V1 y h ho), Or.inl h⟩
        · by_cases hp : y ∈ insOf pre
          · left; exact ⟨Or.inr ⟨hp, ho⟩, Or.inl h⟩
          · right; right; exact ⟨h, ho, hp⟩
      · right; left; exact h)
    (by
      intro y hy
      rw [hf2, inv.fetched]
      have := (hdel y).mp hy
      rintro ⟨h1, h2, _⟩
      rcases this.1 with h | h
      · exact h2 (by simp [insOf, h])
      · exact V4 (h ▸ h1))
  refine ⟨σ3, ?_, ?_⟩
  · unfold stmtBlock
    apply run_append_some _ hr4
    apply run_append_some _ (by simp [Store.run, hr3] : Store.run σ1 [Event.create st.out] = some σ2)
    exact run_append_some hr1 hr2
  · have hoa : ∀ y, y ∈ outs (pre ++ [st]) ↔ y ∈ outs pre ∨ y = st.out := by
      intro y; rw [outs_append]; simp [outs]
    have hia : ∀ y, y ∈ insOf (pre ++ [st]) ↔ y ∈ insOf pre ∨ y ∈ st.ins := by
      intro y; rw [insOf_append]; simp [insOf]
    constructor
    · intro y
      rw [hl3, hl2', hdel, hoa, hia]
      have := V1 y
      have := houts y
      grind
    · intro y
      rw [hld3, ← hσ2]
      simp only
      rw [hld1, hL, inv.loaded, hia]
      grind
    · intro y
      rw [hc3, ← hσ2]
      simp only [List.mem_cons]
      rw [hc1, inv.created, hoa]
      grind
    · intro y
      rw [hf3, hf2, inv.fetched, hdel, hoa]
      simp only [insOf, List.mem_append]
      have := V1 y
      have := houts y
      have hg : y ∉ outs s → fetchCond (usage s) rop y = true → y ∉ st.ins := by
        intro h1 h2 h3
        simp only [fetchCond, Bool.and_eq_true, Bool.not_eq_true'] at h2
        have : y ∈ (usage s).globalInputs := by
          rw [mem_globalInputs, ← hs, insOf_append]
          exact ⟨by simp [insOf, h3], hs ▸ h1⟩
        simp [this] at h2
      grind

theorem loop_ok (s : List Stmt) (rop : Bool) (hnd : (outs s).Nodup) (hv : isValidOrder s = true) :
    ∀ (post pre : List Stmt) (σ : Store), s = pre ++ post → Inv s pre post rop σ →
      ∃ σ', Store.run σ (loopEvents (usage s) rop (pre.length + 1) post) = some σ' ∧ Inv s s [] rop σ' := by
  intro post
  induction post with
  | nil =>
    intro pre σ hs inv
    simp at hs
    subst hs
    exact ⟨σ, rfl, inv⟩
  | cons st post ih =>
    intro pre σ hs inv
    subst hs
    obtain ⟨σ1, hr1, inv1⟩ := step_block pre st post rop σ hnd hv inv
    have e : pre ++ st :: post = (pre ++ [st]) ++ post := by simp
    obtain ⟨σ2, hr2, inv2⟩ := ih (pre ++ [st]) σ1 e inv1
    refine ⟨σ2, ?_, inv2⟩
    simp only [loopEvents]
    apply run_append_some hr1
    simpa using hr2

theorem finalFetches_nil (rop : Bool) : ∀ (l : List Stmt) (already : List Name),
    (∀ st ∈ l, (!rop || st.persistent) = true → st.out ∈ already) → finalFetches rop already l = [] := by
  intro l
  induction l with
  | nil => intro _ _; rfl
  | cons st rest ih =>
    intro already h
    simp only [finalFetches]
    by_cases hc : (!rop || st.persistent) = true
    · have := h st (by simp) hc
      simp [this]
      exact ih already (fun st' h' => h st' (by simp [h']))
    · simp at hc
      obtain ⟨h1, h2⟩ := hc
      subst h1
      simp [h2]
      exact ih already (fun st' h' => h st' (by simp [h']))

/-- summary of the whole replay: the store accepts every event, ends empty, and has fetched exactly
    the results that are to be returned -/
theorem replay_spec (s : List Stmt) (rop : Bool) (hnd : (outs s).Nodup) (hv : isValidOrder s = true) :
    ∃ σ, Store.run Store.init (replay rop s) = some σ ∧ σ.live = [] ∧ σ.fetched = fetches (replay rop s) ∧
      σ.fetched.Nodup ∧ (∀ x, x ∈ σ.fetched ↔ x ∈ expectedResults rop s) ∧
      replay rop s = loopEvents (usage s) rop 1 s := by
  obtain ⟨σ, hr, inv⟩ := loop_ok s rop hnd hv s [] Store.init rfl (inv_init s rop)
  simp only [List.length_nil, Nat.zero_add] at hr
  have hfe : σ.fetched = fetches (loopEvents (usage s) rop 1 s) := by
    have := run_fetched _ _ _ hr
    simpa [Store.init] using this
  have hfc : ∀ x, x ∈ outs s → (fetchCond (usage s) rop x = true ↔ (rop = false ∨ x ∈ (usage s).persistent)) := by
    intro x hx
    have : x ∉ (usage s).globalInputs := by rw [mem_globalInputs]; exact fun h => h.2 hx
    simp [fetchCond, this]
  have hfin : finalFetches rop (fetches (loopEvents (usage s) rop 1 s)) s = [] := by
    apply finalFetches_nil
    intro st hst hc
    rw [← hfe, inv.fetched]
    have hx : st.out ∈ outs s := mem_outs.mpr ⟨st, hst, rfl⟩
    refine ⟨hx, by simp [insOf], (hfc _ hx).mpr ?_⟩
    cases hr : rop with
    | false => exact Or.inl rfl
    | true =>
      right
      rw [mem_persistent]
      simp [hr] at hc
      exact ⟨st, hst, hc, rfl⟩
  have hrep : replay rop s = loopEvents (usage s) rop 1 s := by
    simp [replay, replayWith, hfin]
  refine ⟨σ, by rw [hrep]; exact hr, ?_, by rw [hrep]; exact hfe, ?_, ?_, hrep⟩
  · apply List.eq_nil_iff_forall_not_mem.mpr
    intro x hx
    have := (inv.live x).mp hx
    simp [insOf] at this
  · exact run_fetched_nodup _ _ _ hr (by simp [Store.init])
  · intro x
    rw [inv.fetched]
    simp only [insOf, List.not_mem_nil, not_false_eq_true, true_and]
    unfold expectedResults
    cases hr : rop with
    | false =>
      simp only [Bool.false_eq_true, if_false]
      constructor
      · exact fun h => h.1
      · intro h
        have := (hfc x h).mpr (Or.inl hr)
        rw [hr] at this
        exact ⟨h, this⟩
    | true =>
      simp only [if_true, List.mem_map, List.mem_filter]
      constructor
      · rintro ⟨h1, h2⟩
        have := (hfc x h1).mp (hr ▸ h2)
        rcases this with h | h
        · simp [hr] at h
        · obtain ⟨st, a, b, c⟩ := (mem_persistent s x).mp h
          exact ⟨st, ⟨a, b⟩, c⟩
      · rintro ⟨st, ⟨a, b⟩, c⟩
        have hx : x ∈ outs s := mem_outs.mpr ⟨st, a, c⟩
        refine ⟨hx, ?_⟩
        have := (hfc x hx).mpr (Or.inr ((mem_persistent s x).mpr ⟨st, a, b, c⟩))
        rw [hr] at this
        exact this

end VtlModel.Dag

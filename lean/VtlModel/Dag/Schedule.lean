/-
  Dag/Schedule — hand transcription of `DAGAnalyzer._ds_usage_analysis`
  (src/vtlengine/AST/DAG/__init__.py) applied to the statement list *after* `sort_ast`, i.e. in
  execution order; statement numbers are 1-based positions, exactly the keys of `dependencies`.

      last_consumer[name]  = last statement number that has `name` among its inputs
      deletion[last_consumer.get(out_j, j)] += out_j          (loop over statements j, in order)
      for j, for element in inputs_j (in order):              (global inputs, first-use order)
          if element not in all_outputs and element not seen:
              global_inputs += element ; deletion[last_consumer[element]] += element
              insertion[j] += element
      persistent = persistent outputs in statement order (deduplicated)
-/
import VtlModel.Dag.Basic
namespace VtlModel.Dag

/-- `lastC k l x`: number of the last statement of `l` (numbered from `k`) that reads `x` -/
def lastC : Nat → List Stmt → Name → Option Nat
  | _, [], _ => none
  | k, st :: rest, x =>
    match lastC (k + 1) rest x with
    | some j => some j
    | none => if st.ins.contains x then some k else none

/-- `last_consumer` of the Python code -/
def lastConsumer (s : List Stmt) (x : Name) : Option Nat := lastC 1 s x

/-- inputs of one statement that are global (not assigned anywhere) and not seen before, in order,
    without repetition -/
def newIns (all : List Name) : List Name → List Name → List Name
  | _, [] => []
  | seen, x :: xs =>
    if all.contains x || seen.contains x then newIns all seen xs
    else x :: newIns all (x :: seen) xs

/-- `(statement number, element)` in the order the Python loop appends to `global_inputs` -/
def firstUses (all : List Name) : List Name → Nat → List Stmt → List (Nat × Name)
  | _, _, [] => []
  | seen, k, st :: rest =>
    let nw := newIns all seen st.ins
    nw.map (fun x => (k, x)) ++ firstUses all (nw.reverse ++ seen) (k + 1) rest

/-- `(deletion slot, out_j)` for every statement j in order: `last_consumer.get(out_j, j)` -/
def outSlots (s : List Stmt) : Nat → List Stmt → List (Nat × Name)
  | _, [] => []
  | k, st :: rest => ((lastConsumer s st.out).getD k, st.out) :: outSlots s (k + 1) rest

def dedup : List Name → List Name → List Name
  | _, [] => []
  | seen, x :: xs => if seen.contains x then dedup seen xs else x :: dedup (x :: seen) xs

structure Sched where
  /-- (statement number, global input) in first-use order -/
  firsts : List (Nat × Name)
  /-- (deletion slot, name): outputs in statement order, then global inputs in first-use order -/
  slots : List (Nat × Name)
  globalInputs : List Name
  persistent : List Name
deriving Repr

def usage (s : List Stmt) : Sched :=
  let fu := firstUses (outs s) [] 1 s
  { firsts := fu
    slots := outSlots s 1 s ++ fu.map (fun p => ((lastConsumer s p.2).getD p.1, p.2))
    globalInputs := fu.map (·.2)
    persistent := dedup [] ((s.filter (·.persistent)).map (·.out)) }

/-- `ds_analysis.insertion.get(k, [])` -/
def Sched.insertion (sc : Sched) (k : Nat) : List Name :=
  (sc.firsts.filter (fun p => p.1 == k)).map (·.2)

/-- `ds_analysis.deletion.get(k, [])` -/
def Sched.deletion (sc : Sched) (k : Nat) : List Name :=
  (sc.slots.filter (fun p => p.1 == k)).map (·.2)

end VtlModel.Dag

-- GENERATED from /repo by harness/translate on every run. Do not edit.
import VtlModel.Types.Ty
namespace VtlModel.Gen.Operators
open VtlModel

/-- every subclass of `vtlengine.Operators.Operator`, named <module>_<QualName> -/
inductive Cls where
  | Operators_Binary | Operators_Unary | Aggregation_Aggregation | Aggregation_Avg | Aggregation_Count | Aggregation_Max
  | Aggregation_Median | Aggregation_Min | Aggregation_PopulationStandardDeviation | Aggregation_PopulationVariance | Aggregation_SampleStandardDeviation | Aggregation_SampleVariance
  | Aggregation_Sum | Analytic_Analytic | Analytic_Avg | Analytic_Count | Analytic_FirstValue | Analytic_Lag
  | Analytic_LastValue | Analytic_Lead | Analytic_Max | Analytic_Median | Analytic_Min | Analytic_PopulationStandardDeviation
  | Analytic_PopulationVariance | Analytic_Rank | Analytic_RatioToReport | Analytic_SampleStandardDeviation | Analytic_SampleVariance | Analytic_Sum
  | Assignment_Assignment | Boolean_And | Boolean_Binary | Boolean_Not | Boolean_Or | Boolean_Unary
  | Boolean_Xor | CastOperator_Cast | Clause_Aggregate | Clause_Calc | Clause_Drop | Clause_Filter
  | Clause_Keep | Clause_Pivot | Clause_Rename | Clause_Sub | Clause_Unpivot | Comparison_Between
  | Comparison_Binary | Comparison_Equal | Comparison_ExistIn | Comparison_Greater | Comparison_GreaterEqual | Comparison_In
  | Comparison_IsNull | Comparison_Less | Comparison_LessEqual | Comparison_Match | Comparison_NotEqual | Comparison_NotIn
  | Comparison_Unary | Conditional_Case | Conditional_If | Conditional_Nvl | General_Alias | General_Eval
  | General_Membership | HROperators_HAAssignment | HROperators_HRBinMinus | HROperators_HRBinNumeric | HROperators_HRBinOp | HROperators_HRBinPlus
  | HROperators_HRComparison | HROperators_HREqual | HROperators_HRGreater | HROperators_HRGreaterEqual | HROperators_HRLess | HROperators_HRLessEqual
  | HROperators_HRUnMinus | HROperators_HRUnNumeric | HROperators_HRUnPlus | HROperators_Hierarchy | Join_Apply | Join_CrossJoin
  | Join_FullJoin | Join_InnerJoin | Join_Join | Join_LeftJoin | Numeric_AbsoluteValue | Numeric_BinMinus
  | Numeric_BinPlus | Numeric_Binary | Numeric_Ceil | Numeric_Div | Numeric_Exponential | Numeric_Floor
  | Numeric_Logarithm | Numeric_Modulo | Numeric_Mult | Numeric_NaturalLogarithm | Numeric_Parameterized | Numeric_Power
  | Numeric_Random | Numeric_Round | Numeric_SquareRoot | Numeric_Trunc | Numeric_UnMinus | Numeric_UnPlus
  | Numeric_Unary | RoleSetter_Attribute | RoleSetter_Identifier | RoleSetter_Measure | RoleSetter_RoleSetter | RoleSetter_ViralAttribute
  | Set_Intersection | Set_Set | Set_Setdiff | Set_Symdiff | Set_Union | String_Binary
  | String_Concatenate | String_DamerauLevenshtein | String_Hamming | String_Instr | String_JaroWinkler | String_Length
  | String_Levenshtein | String_Lower | String_Ltrim | String_Parameterized | String_Replace | String_Rtrim
  | String_StringDistance | String_Substr | String_Trim | String_Unary | String_Upper | Time_Binary
  | Time_Current_Date | Time_Date_Add | Time_Date_Diff | Time_Day_of_Month | Time_Day_of_Year | Time_Day_to_Month
  | Time_Day_to_Year | Time_Fill_time_series | Time_Flow_to_stock | Time_Month | Time_Month_to_Day | Time_Parameterized
  | Time_Parametrized | Time_Period_indicator | Time_SimpleBinaryTime | Time_SimpleUnaryTime | Time_Stock_to_flow | Time_Time
  | Time_Time_Aggregation | Time_Time_Shift | Time_Unary | Time_Year | Time_Year_to_Day | Validation_Check
  | Validation_Check_Datapoint | Validation_Check_Hierarchy | Validation_Validation
  deriving DecidableEq, Repr

/-- the distinct `op` attributes (tokens); classes refer to them by index (`opIx`) -/
def ops : List String := ["", "*", "+", "-", "/", "<", "<=", "<>", "=", ">", ">=", "abs", "aggr", "and", "avg", "calc", "cast", "ceil", "check", "check_hierarchy", "count", "cross_join", "dateadd", "datediff", "dayofmonth", "dayofyear", "daytomonth", "daytoyear", "drop", "exp", "fill_time_series", "first_value", "floor", "flow_to_stock", "full_join", "getmonth", "getyear", "hierarchy", "in", "inner_join", "instr", "isnull", "keep", "lag", "last_value", "lead", "left_join", "length", "ln", "log", "lower", "ltrim", "match_characters", "max", "median", "min", "mod", "monthtoday", "not", "not_in", "or", "period_indicator", "power", "random", "rank", "ratio_to_report", "rename", "replace", "round", "rtrim", "sqrt", "stddev_pop", "stddev_samp", "string_distance", "sub", "substr", "sum", "time_agg", "timeshift", "trim", "trunc", "unpivot", "upper", "var_pop", "var_samp", "xor", "yeartoday", "||"]

/-- one operator class: kind 2 = Binary, 1 = Unary, 0 = other;
    `ttc`/`rt` = `type_to_check`/`return_type` resolved through the MRO -/
structure OpClass where
  id : Cls
  module : String
  name : String
  opIx : Nat
  kind : Nat
  ttc : Option Ty
  rt : Option Ty
  deriving Repr

def classes : List OpClass := [
  ⟨.Operators_Binary, "Operators", "Binary", 0, 2, none, none⟩,
  ⟨.Operators_Unary, "Operators", "Unary", 0, 1, none, none⟩,
  ⟨.Aggregation_Aggregation, "Aggregation", "Aggregation", 0, 1, none, none⟩,
  ⟨.Aggregation_Avg, "Aggregation", "Avg", 14, 1, (some Ty.number), (some Ty.number)⟩,
  ⟨.Aggregation_Count, "Aggregation", "Count", 20, 1, none, (some Ty.integer)⟩,
  ⟨.Aggregation_Max, "Aggregation", "Max", 53, 1, none, none⟩,
  ⟨.Aggregation_Median, "Aggregation", "Median", 54, 1, (some Ty.number), (some Ty.number)⟩,
  ⟨.Aggregation_Min, "Aggregation", "Min", 55, 1, none, none⟩,
  ⟨.Aggregation_PopulationStandardDeviation, "Aggregation", "PopulationStandardDeviation", 71, 1, (some Ty.number), (some Ty.number)⟩,
  ⟨.Aggregation_PopulationVariance, "Aggregation", "PopulationVariance", 83, 1, (some Ty.number), (some Ty.number)⟩,
  ⟨.Aggregation_SampleStandardDeviation, "Aggregation", "SampleStandardDeviation", 72, 1, (some Ty.number), (some Ty.number)⟩,
  ⟨.Aggregation_SampleVariance, "Aggregation", "SampleVariance", 84, 1, (some Ty.number), (some Ty.number)⟩,
  ⟨.Aggregation_Sum, "Aggregation", "Sum", 76, 1, (some Ty.number), none⟩,
  ⟨.Analytic_Analytic, "Analytic", "Analytic", 0, 1, none, none⟩,
  ⟨.Analytic_Avg, "Analytic", "Avg", 14, 1, (some Ty.number), (some Ty.number)⟩,
  ⟨.Analytic_Count, "Analytic", "Count", 20, 1, none, (some Ty.integer)⟩,
  ⟨.Analytic_FirstValue, "Analytic", "FirstValue", 31, 1, none, none⟩,
  ⟨.Analytic_Lag, "Analytic", "Lag", 43, 1, none, none⟩,
  ⟨.Analytic_LastValue, "Analytic", "LastValue", 44, 1, none, none⟩,
  ⟨.Analytic_Lead, "Analytic", "Lead", 45, 1, none, none⟩,
  ⟨.Analytic_Max, "Analytic", "Max", 53, 1, none, none⟩,
  ⟨.Analytic_Median, "Analytic", "Median", 54, 1, (some Ty.number), (some Ty.number)⟩,
  ⟨.Analytic_Min, "Analytic", "Min", 55, 1, none, none⟩,
  ⟨.Analytic_PopulationStandardDeviation, "Analytic", "PopulationStandardDeviation", 71, 1, (some Ty.number), (some Ty.number)⟩,
  ⟨.Analytic_PopulationVariance, "Analytic", "PopulationVariance", 83, 1, (some Ty.number), (some Ty.number)⟩,
  ⟨.Analytic_Rank, "Analytic", "Rank", 64, 1, none, (some Ty.integer)⟩,
  ⟨.Analytic_RatioToReport, "Analytic", "RatioToReport", 65, 1, (some Ty.number), (some Ty.number)⟩,
  ⟨.Analytic_SampleStandardDeviation, "Analytic", "SampleStandardDeviation", 72, 1, (some Ty.number), (some Ty.number)⟩,
  ⟨.Analytic_SampleVariance, "Analytic", "SampleVariance", 84, 1, (some Ty.number), (some Ty.number)⟩,
  ⟨.Analytic_Sum, "Analytic", "Sum", 76, 1, none, none⟩,
  ⟨.Assignment_Assignment, "Assignment", "Assignment", 0, 2, none, none⟩,
  ⟨.Boolean_And, "Boolean", "And", 13, 2, (some Ty.boolean), (some Ty.boolean)⟩,
  ⟨.Boolean_Binary, "Boolean", "Binary", 0, 2, (some Ty.boolean), (some Ty.boolean)⟩,
  ⟨.Boolean_Not, "Boolean", "Not", 58, 1, (some Ty.boolean), (some Ty.boolean)⟩,
  ⟨.Boolean_Or, "Boolean", "Or", 60, 2, (some Ty.boolean), (some Ty.boolean)⟩,
  ⟨.Boolean_Unary, "Boolean", "Unary", 0, 1, (some Ty.boolean), (some Ty.boolean)⟩,
  ⟨.Boolean_Xor, "Boolean", "Xor", 85, 2, (some Ty.boolean), (some Ty.boolean)⟩,
  ⟨.CastOperator_Cast, "CastOperator", "Cast", 16, 1, none, none⟩,
  ⟨.Clause_Aggregate, "Clause", "Aggregate", 12, 0, none, none⟩,
  ⟨.Clause_Calc, "Clause", "Calc", 15, 0, none, none⟩,
  ⟨.Clause_Drop, "Clause", "Drop", 28, 0, none, none⟩,
  ⟨.Clause_Filter, "Clause", "Filter", 0, 0, none, none⟩,
  ⟨.Clause_Keep, "Clause", "Keep", 42, 0, none, none⟩,
  ⟨.Clause_Pivot, "Clause", "Pivot", 0, 0, none, none⟩,
  ⟨.Clause_Rename, "Clause", "Rename", 66, 0, none, none⟩,
  ⟨.Clause_Sub, "Clause", "Sub", 74, 0, none, none⟩,
  ⟨.Clause_Unpivot, "Clause", "Unpivot", 81, 0, none, none⟩,
  ⟨.Comparison_Between, "Comparison", "Between", 0, 0, none, (some Ty.boolean)⟩,
  ⟨.Comparison_Binary, "Comparison", "Binary", 0, 2, none, (some Ty.boolean)⟩,
  ⟨.Comparison_Equal, "Comparison", "Equal", 8, 2, none, (some Ty.boolean)⟩,
  ⟨.Comparison_ExistIn, "Comparison", "ExistIn", 38, 0, none, none⟩,
  ⟨.Comparison_Greater, "Comparison", "Greater", 9, 2, none, (some Ty.boolean)⟩,
  ⟨.Comparison_GreaterEqual, "Comparison", "GreaterEqual", 10, 2, none, (some Ty.boolean)⟩,
  ⟨.Comparison_In, "Comparison", "In", 38, 2, none, (some Ty.boolean)⟩,
  ⟨.Comparison_IsNull, "Comparison", "IsNull", 41, 1, none, (some Ty.boolean)⟩,
  ⟨.Comparison_Less, "Comparison", "Less", 5, 2, none, (some Ty.boolean)⟩,
  ⟨.Comparison_LessEqual, "Comparison", "LessEqual", 6, 2, none, (some Ty.boolean)⟩,
  ⟨.Comparison_Match, "Comparison", "Match", 52, 2, (some Ty.string), (some Ty.boolean)⟩,
  ⟨.Comparison_NotEqual, "Comparison", "NotEqual", 7, 2, none, (some Ty.boolean)⟩,
  ⟨.Comparison_NotIn, "Comparison", "NotIn", 59, 2, none, (some Ty.boolean)⟩,
  ⟨.Comparison_Unary, "Comparison", "Unary", 0, 1, none, (some Ty.boolean)⟩,
  ⟨.Conditional_Case, "Conditional", "Case", 0, 0, none, none⟩,
  ⟨.Conditional_If, "Conditional", "If", 0, 0, none, none⟩,
  ⟨.Conditional_Nvl, "Conditional", "Nvl", 0, 2, none, none⟩,
  ⟨.General_Alias, "General", "Alias", 0, 2, none, none⟩,
  ⟨.General_Eval, "General", "Eval", 0, 1, none, none⟩,
  ⟨.General_Membership, "General", "Membership", 0, 2, none, none⟩,
  ⟨.HROperators_HAAssignment, "HROperators", "HAAssignment", 0, 2, none, none⟩,
  ⟨.HROperators_HRBinMinus, "HROperators", "HRBinMinus", 3, 2, none, none⟩,
  ⟨.HROperators_HRBinNumeric, "HROperators", "HRBinNumeric", 0, 2, none, none⟩,
  ⟨.HROperators_HRBinOp, "HROperators", "HRBinOp", 0, 2, none, none⟩,
  ⟨.HROperators_HRBinPlus, "HROperators", "HRBinPlus", 2, 2, none, none⟩,
  ⟨.HROperators_HRComparison, "HROperators", "HRComparison", 0, 2, none, none⟩,
  ⟨.HROperators_HREqual, "HROperators", "HREqual", 8, 2, none, none⟩,
  ⟨.HROperators_HRGreater, "HROperators", "HRGreater", 9, 2, none, none⟩,
  ⟨.HROperators_HRGreaterEqual, "HROperators", "HRGreaterEqual", 10, 2, none, none⟩,
  ⟨.HROperators_HRLess, "HROperators", "HRLess", 5, 2, none, none⟩,
  ⟨.HROperators_HRLessEqual, "HROperators", "HRLessEqual", 6, 2, none, none⟩,
  ⟨.HROperators_HRUnMinus, "HROperators", "HRUnMinus", 3, 1, none, none⟩,
  ⟨.HROperators_HRUnNumeric, "HROperators", "HRUnNumeric", 0, 1, none, none⟩,
  ⟨.HROperators_HRUnPlus, "HROperators", "HRUnPlus", 2, 1, none, none⟩,
  ⟨.HROperators_Hierarchy, "HROperators", "Hierarchy", 37, 0, none, none⟩,
  ⟨.Join_Apply, "Join", "Apply", 0, 0, none, none⟩,
  ⟨.Join_CrossJoin, "Join", "CrossJoin", 21, 0, none, none⟩,
  ⟨.Join_FullJoin, "Join", "FullJoin", 34, 0, none, none⟩,
  ⟨.Join_InnerJoin, "Join", "InnerJoin", 39, 0, none, none⟩,
  ⟨.Join_Join, "Join", "Join", 0, 0, none, none⟩,
  ⟨.Join_LeftJoin, "Join", "LeftJoin", 46, 0, none, none⟩,
  ⟨.Numeric_AbsoluteValue, "Numeric", "AbsoluteValue", 11, 1, (some Ty.number), none⟩,
  ⟨.Numeric_BinMinus, "Numeric", "BinMinus", 3, 2, (some Ty.number), none⟩,
  ⟨.Numeric_BinPlus, "Numeric", "BinPlus", 2, 2, (some Ty.number), none⟩,
  ⟨.Numeric_Binary, "Numeric", "Binary", 0, 2, (some Ty.number), none⟩,
  ⟨.Numeric_Ceil, "Numeric", "Ceil", 17, 1, (some Ty.number), (some Ty.integer)⟩,
  ⟨.Numeric_Div, "Numeric", "Div", 4, 2, (some Ty.number), (some Ty.number)⟩,
  ⟨.Numeric_Exponential, "Numeric", "Exponential", 29, 1, (some Ty.number), (some Ty.number)⟩,
  ⟨.Numeric_Floor, "Numeric", "Floor", 32, 1, (some Ty.number), (some Ty.integer)⟩,
  ⟨.Numeric_Logarithm, "Numeric", "Logarithm", 49, 2, (some Ty.number), (some Ty.number)⟩,
  ⟨.Numeric_Modulo, "Numeric", "Modulo", 56, 2, (some Ty.number), none⟩,
  ⟨.Numeric_Mult, "Numeric", "Mult", 1, 2, (some Ty.number), none⟩,
  ⟨.Numeric_NaturalLogarithm, "Numeric", "NaturalLogarithm", 48, 1, (some Ty.number), (some Ty.number)⟩,
  ⟨.Numeric_Parameterized, "Numeric", "Parameterized", 0, 1, (some Ty.number), none⟩,
  ⟨.Numeric_Power, "Numeric", "Power", 62, 2, (some Ty.number), (some Ty.number)⟩,
  ⟨.Numeric_Random, "Numeric", "Random", 63, 1, (some Ty.number), (some Ty.number)⟩,
  ⟨.Numeric_Round, "Numeric", "Round", 68, 1, (some Ty.number), (some Ty.integer)⟩,
  ⟨.Numeric_SquareRoot, "Numeric", "SquareRoot", 70, 1, (some Ty.number), (some Ty.number)⟩,
  ⟨.Numeric_Trunc, "Numeric", "Trunc", 80, 1, (some Ty.number), none⟩,
  ⟨.Numeric_UnMinus, "Numeric", "UnMinus", 3, 1, (some Ty.number), none⟩,
  ⟨.Numeric_UnPlus, "Numeric", "UnPlus", 2, 1, (some Ty.number), none⟩,
  ⟨.Numeric_Unary, "Numeric", "Unary", 0, 1, (some Ty.number), none⟩,
  ⟨.RoleSetter_Attribute, "RoleSetter", "Attribute", 0, 1, none, none⟩,
  ⟨.RoleSetter_Identifier, "RoleSetter", "Identifier", 0, 1, none, none⟩,
  ⟨.RoleSetter_Measure, "RoleSetter", "Measure", 0, 1, none, none⟩,
  ⟨.RoleSetter_RoleSetter, "RoleSetter", "RoleSetter", 0, 1, none, none⟩,
  ⟨.RoleSetter_ViralAttribute, "RoleSetter", "ViralAttribute", 0, 1, none, none⟩,
  ⟨.Set_Intersection, "Set", "Intersection", 0, 0, none, none⟩,
  ⟨.Set_Set, "Set", "Set", 0, 0, none, none⟩,
  ⟨.Set_Setdiff, "Set", "Setdiff", 0, 0, none, none⟩,
  ⟨.Set_Symdiff, "Set", "Symdiff", 0, 0, none, none⟩,
  ⟨.Set_Union, "Set", "Union", 0, 0, none, none⟩,
  ⟨.String_Binary, "String", "Binary", 0, 2, (some Ty.string), none⟩,
  ⟨.String_Concatenate, "String", "Concatenate", 87, 2, (some Ty.string), (some Ty.string)⟩,
  ⟨.String_DamerauLevenshtein, "String", "DamerauLevenshtein", 73, 2, (some Ty.string), (some Ty.number)⟩,
  ⟨.String_Hamming, "String", "Hamming", 73, 2, (some Ty.string), (some Ty.number)⟩,
  ⟨.String_Instr, "String", "Instr", 40, 1, (some Ty.string), (some Ty.integer)⟩,
  ⟨.String_JaroWinkler, "String", "JaroWinkler", 73, 2, (some Ty.string), (some Ty.number)⟩,
  ⟨.String_Length, "String", "Length", 47, 1, (some Ty.string), (some Ty.integer)⟩,
  ⟨.String_Levenshtein, "String", "Levenshtein", 73, 2, (some Ty.string), (some Ty.number)⟩,
  ⟨.String_Lower, "String", "Lower", 50, 1, (some Ty.string), (some Ty.string)⟩,
  ⟨.String_Ltrim, "String", "Ltrim", 51, 1, (some Ty.string), (some Ty.string)⟩,
  ⟨.String_Parameterized, "String", "Parameterized", 0, 1, (some Ty.string), none⟩,
  ⟨.String_Replace, "String", "Replace", 67, 1, (some Ty.string), (some Ty.string)⟩,
  ⟨.String_Rtrim, "String", "Rtrim", 69, 1, (some Ty.string), (some Ty.string)⟩,
  ⟨.String_StringDistance, "String", "StringDistance", 73, 2, (some Ty.string), (some Ty.number)⟩,
  ⟨.String_Substr, "String", "Substr", 75, 1, (some Ty.string), (some Ty.string)⟩,
  ⟨.String_Trim, "String", "Trim", 79, 1, (some Ty.string), (some Ty.string)⟩,
  ⟨.String_Unary, "String", "Unary", 0, 1, (some Ty.string), none⟩,
  ⟨.String_Upper, "String", "Upper", 82, 1, (some Ty.string), (some Ty.string)⟩,
  ⟨.Time_Binary, "Time", "Binary", 33, 0, none, none⟩,
  ⟨.Time_Current_Date, "Time", "Current_Date", 33, 0, none, none⟩,
  ⟨.Time_Date_Add, "Time", "Date_Add", 22, 0, none, none⟩,
  ⟨.Time_Date_Diff, "Time", "Date_Diff", 23, 2, (some Ty.time), (some Ty.integer)⟩,
  ⟨.Time_Day_of_Month, "Time", "Day_of_Month", 24, 1, none, (some Ty.integer)⟩,
  ⟨.Time_Day_of_Year, "Time", "Day_of_Year", 25, 1, none, (some Ty.integer)⟩,
  ⟨.Time_Day_to_Month, "Time", "Day_to_Month", 26, 1, none, (some Ty.string)⟩,
  ⟨.Time_Day_to_Year, "Time", "Day_to_Year", 27, 1, none, (some Ty.string)⟩,
  ⟨.Time_Fill_time_series, "Time", "Fill_time_series", 30, 0, none, none⟩,
  ⟨.Time_Flow_to_stock, "Time", "Flow_to_stock", 33, 0, none, none⟩,
  ⟨.Time_Month, "Time", "Month", 35, 1, none, (some Ty.integer)⟩,
  ⟨.Time_Month_to_Day, "Time", "Month_to_Day", 57, 1, none, (some Ty.integer)⟩,
  ⟨.Time_Parameterized, "Time", "Parameterized", 33, 0, none, none⟩,
  ⟨.Time_Parametrized, "Time", "Parametrized", 33, 0, none, none⟩,
  ⟨.Time_Period_indicator, "Time", "Period_indicator", 61, 0, none, none⟩,
  ⟨.Time_SimpleBinaryTime, "Time", "SimpleBinaryTime", 0, 2, none, none⟩,
  ⟨.Time_SimpleUnaryTime, "Time", "SimpleUnaryTime", 0, 1, none, none⟩,
  ⟨.Time_Stock_to_flow, "Time", "Stock_to_flow", 33, 0, none, none⟩,
  ⟨.Time_Time, "Time", "Time", 33, 0, none, none⟩,
  ⟨.Time_Time_Aggregation, "Time", "Time_Aggregation", 77, 0, none, none⟩,
  ⟨.Time_Time_Shift, "Time", "Time_Shift", 78, 0, none, none⟩,
  ⟨.Time_Unary, "Time", "Unary", 33, 0, none, none⟩,
  ⟨.Time_Year, "Time", "Year", 36, 1, none, (some Ty.integer)⟩,
  ⟨.Time_Year_to_Day, "Time", "Year_to_Day", 86, 1, none, (some Ty.integer)⟩,
  ⟨.Validation_Check, "Validation", "Check", 18, 0, none, none⟩,
  ⟨.Validation_Check_Datapoint, "Validation", "Check_Datapoint", 0, 0, none, none⟩,
  ⟨.Validation_Check_Hierarchy, "Validation", "Check_Hierarchy", 19, 0, none, none⟩,
  ⟨.Validation_Validation, "Validation", "Validation", 0, 0, none, none⟩]

/-- a direct call of a promotion function inside an operator method, resolved for one class that inherits
    the method (`cls = none`: the call is not inside an operator class);
    `fn` 0 = binary_implicit_promotion, 1 = check_binary…, 2 = unary_implicit_promotion, 3 = check_unary…;
    `ttc`/`rt` = `none` when the argument is not a constant of the class (the theorems then quantify over it) -/
structure Site where
  cls : Option Cls
  func : String
  fn : Nat
  ttc : Option (Option Ty)
  rt : Option (Option Ty)
  deriving Repr

def sites : List Site := [
  ⟨none, "InterpreterAnalyzer.visit_UDOCall", 3, none, (some none)⟩,
  ⟨(some .Aggregation_Aggregation), "Aggregation.validate", 2, (some none), (some none)⟩,
  ⟨(some .Aggregation_Avg), "Aggregation.validate", 2, (some (some Ty.number)), (some none)⟩,
  ⟨(some .Aggregation_Count), "Aggregation.validate", 2, (some none), (some none)⟩,
  ⟨(some .Aggregation_Max), "Aggregation.validate", 2, (some none), (some none)⟩,
  ⟨(some .Aggregation_Median), "Aggregation.validate", 2, (some (some Ty.number)), (some none)⟩,
  ⟨(some .Aggregation_Min), "Aggregation.validate", 2, (some none), (some none)⟩,
  ⟨(some .Aggregation_PopulationStandardDeviation), "Aggregation.validate", 2, (some (some Ty.number)), (some none)⟩,
  ⟨(some .Aggregation_PopulationVariance), "Aggregation.validate", 2, (some (some Ty.number)), (some none)⟩,
  ⟨(some .Aggregation_SampleStandardDeviation), "Aggregation.validate", 2, (some (some Ty.number)), (some none)⟩,
  ⟨(some .Aggregation_SampleVariance), "Aggregation.validate", 2, (some (some Ty.number)), (some none)⟩,
  ⟨(some .Aggregation_Sum), "Aggregation.validate", 2, (some (some Ty.number)), (some none)⟩,
  ⟨(some .Analytic_Analytic), "Analytic.validate", 2, (some none), (some none)⟩,
  ⟨(some .Analytic_Avg), "Analytic.validate", 2, (some (some Ty.number)), (some none)⟩,
  ⟨(some .Analytic_Count), "Analytic.validate", 2, (some none), (some none)⟩,
  ⟨(some .Analytic_FirstValue), "Analytic.validate", 2, (some none), (some none)⟩,
  ⟨(some .Analytic_Lag), "Analytic.validate", 2, (some none), (some none)⟩,
  ⟨(some .Analytic_LastValue), "Analytic.validate", 2, (some none), (some none)⟩,
  ⟨(some .Analytic_Lead), "Analytic.validate", 2, (some none), (some none)⟩,
  ⟨(some .Analytic_Max), "Analytic.validate", 2, (some none), (some none)⟩,
  ⟨(some .Analytic_Median), "Analytic.validate", 2, (some (some Ty.number)), (some none)⟩,
  ⟨(some .Analytic_Min), "Analytic.validate", 2, (some none), (some none)⟩,
  ⟨(some .Analytic_PopulationStandardDeviation), "Analytic.validate", 2, (some (some Ty.number)), (some none)⟩,
  ⟨(some .Analytic_PopulationVariance), "Analytic.validate", 2, (some (some Ty.number)), (some none)⟩,
  ⟨(some .Analytic_Rank), "Analytic.validate", 2, (some none), (some none)⟩,
  ⟨(some .Analytic_RatioToReport), "Analytic.validate", 2, (some (some Ty.number)), (some none)⟩,
  ⟨(some .Analytic_SampleStandardDeviation), "Analytic.validate", 2, (some (some Ty.number)), (some none)⟩,
  ⟨(some .Analytic_SampleVariance), "Analytic.validate", 2, (some (some Ty.number)), (some none)⟩,
  ⟨(some .Analytic_Sum), "Analytic.validate", 2, (some none), (some none)⟩,
  ⟨(some .Analytic_Analytic), "Analytic.validate", 2, (some none), (some none)⟩,
  ⟨(some .Analytic_Avg), "Analytic.validate", 2, (some (some Ty.number)), (some none)⟩,
  ⟨(some .Analytic_Count), "Analytic.validate", 2, (some none), (some none)⟩,
  ⟨(some .Analytic_FirstValue), "Analytic.validate", 2, (some none), (some none)⟩,
  ⟨(some .Analytic_Lag), "Analytic.validate", 2, (some none), (some none)⟩,
  ⟨(some .Analytic_LastValue), "Analytic.validate", 2, (some none), (some none)⟩,
  ⟨(some .Analytic_Lead), "Analytic.validate", 2, (some none), (some none)⟩,
  ⟨(some .Analytic_Max), "Analytic.validate", 2, (some none), (some none)⟩,
  ⟨(some .Analytic_Median), "Analytic.validate", 2, (some (some Ty.number)), (some none)⟩,
  ⟨(some .Analytic_Min), "Analytic.validate", 2, (some none), (some none)⟩,
  ⟨(some .Analytic_PopulationStandardDeviation), "Analytic.validate", 2, (some (some Ty.number)), (some none)⟩,
  ⟨(some .Analytic_PopulationVariance), "Analytic.validate", 2, (some (some Ty.number)), (some none)⟩,
  ⟨(some .Analytic_Rank), "Analytic.validate", 2, (some none), (some none)⟩,
  ⟨(some .Analytic_RatioToReport), "Analytic.validate", 2, (some (some Ty.number)), (some none)⟩,
  ⟨(some .Analytic_SampleStandardDeviation), "Analytic.validate", 2, (some (some Ty.number)), (some none)⟩,
  ⟨(some .Analytic_SampleVariance), "Analytic.validate", 2, (some (some Ty.number)), (some none)⟩,
  ⟨(some .Analytic_Sum), "Analytic.validate", 2, (some none), (some none)⟩,
  ⟨(some .Clause_Unpivot), "Unpivot.validate", 3, none, (some none)⟩,
  ⟨(some .Clause_Unpivot), "Unpivot.validate", 0, (some none), (some none)⟩,
  ⟨(some .Conditional_If), "If.validate", 0, (some none), (some none)⟩,
  ⟨(some .Conditional_If), "If.validate", 0, (some none), (some none)⟩,
  ⟨(some .Conditional_If), "If.validate", 0, (some none), (some none)⟩,
  ⟨(some .Conditional_If), "If.validate", 0, (some none), (some none)⟩,
  ⟨(some .Conditional_Case), "Case.validate", 0, (some none), (some none)⟩,
  ⟨(some .Join_CrossJoin), "Join.merge_components", 0, (some none), (some none)⟩,
  ⟨(some .Join_FullJoin), "Join.merge_components", 0, (some none), (some none)⟩,
  ⟨(some .Join_InnerJoin), "Join.merge_components", 0, (some none), (some none)⟩,
  ⟨(some .Join_Join), "Join.merge_components", 0, (some none), (some none)⟩,
  ⟨(some .Join_LeftJoin), "Join.merge_components", 0, (some none), (some none)⟩,
  ⟨(some .Join_CrossJoin), "Join._validate_join_key_types", 0, (some none), (some none)⟩,
  ⟨(some .Join_FullJoin), "Join._validate_join_key_types", 0, (some none), (some none)⟩,
  ⟨(some .Join_InnerJoin), "Join._validate_join_key_types", 0, (some none), (some none)⟩,
  ⟨(some .Join_Join), "Join._validate_join_key_types", 0, (some none), (some none)⟩,
  ⟨(some .Join_LeftJoin), "Join._validate_join_key_types", 0, (some none), (some none)⟩,
  ⟨(some .Numeric_Random), "Random.validate", 0, (some none), (some none)⟩,
  ⟨(some .Set_Intersection), "Set.check_same_structure", 0, (some none), (some none)⟩,
  ⟨(some .Set_Set), "Set.check_same_structure", 0, (some none), (some none)⟩,
  ⟨(some .Set_Setdiff), "Set.check_same_structure", 0, (some none), (some none)⟩,
  ⟨(some .Set_Symdiff), "Set.check_same_structure", 0, (some none), (some none)⟩,
  ⟨(some .Set_Union), "Set.check_same_structure", 0, (some none), (some none)⟩,
  ⟨(some .Set_Intersection), "Set.validate", 0, (some none), (some none)⟩,
  ⟨(some .Set_Set), "Set.validate", 0, (some none), (some none)⟩,
  ⟨(some .Set_Setdiff), "Set.validate", 0, (some none), (some none)⟩,
  ⟨(some .Set_Symdiff), "Set.validate", 0, (some none), (some none)⟩,
  ⟨(some .Set_Union), "Set.validate", 0, (some none), (some none)⟩,
  ⟨(some .String_Substr), "Substr.check_param", 3, (some (some Ty.integer)), (some none)⟩,
  ⟨(some .String_Replace), "Replace.check_param", 3, (some (some Ty.string)), (some none)⟩,
  ⟨(some .String_Instr), "Instr.check_param", 3, (some (some Ty.string)), (some none)⟩,
  ⟨(some .String_Instr), "Instr.check_param", 3, (some (some Ty.integer)), (some none)⟩,
  ⟨(some .String_Instr), "Instr.check_param", 3, (some (some Ty.integer)), (some none)⟩,
  ⟨(some .Time_Date_Add), "Date_Add.validate", 2, (some (some Ty.date)), (some none)⟩,
  ⟨(some .Validation_Check_Hierarchy), "Check_Hierarchy.validate_hr_dataset", 3, (some (some Ty.number)), (some none)⟩,
  ⟨none, "StructureVisitor._build_unpivot_structure", 0, (some none), (some none)⟩]

def monomeasureChangedAllowed : List String := ["ceil", "floor", "round"]

end VtlModel.Gen.Operators

-- GENERATED from /repo by harness/translate on every run. Do not edit.
namespace VtlModel.Gen.Sdmx

/-- values of the installed `pysdmx.model.DataType` enum (a `str` enum: this is what the dict lookup sees) -/
def pysdmxDataTypes : List String := ["Alpha", "AlphaNumeric", "BasicTimePeriod", "BigInteger", "Boolean", "Count", "GregorianDay", "DateTime", "Day", "Decimal", "Double", "Duration", "ExclusiveValueRange", "Float", "GeospatialInformation", "GregorianTimePeriod", "InclusiveValueRange", "Incremental", "Integer", "Long", "Month", "MonthDay", "Numeric", "ObservationalTimePeriod", "ReportingDay", "ReportingMonth", "ReportingQuarter", "ReportingSemester", "ReportingTimePeriod", "ReportingTrimester", "ReportingWeek", "ReportingYear", "Short", "StandardTimePeriod", "String", "Time", "TimeRange", "URI", "XHTML", "GregorianYear", "GregorianYearMonth"]
/-- member names of the installed `pysdmx.model.dataflow.Role` enum -/
def pysdmxRoles : List String := ["DIMENSION", "MEASURE", "ATTRIBUTE"]
/-- `VTL_DTYPES_MAPPING` (Utils/__init__.py), in source order -/
def codeDtypeMap : List (String × String) := [("String", "String"), ("Alpha", "String"), ("AlphaNumeric", "String"), ("Numeric", "String"), ("BigInteger", "Integer"), ("Integer", "Integer"), ("Long", "Integer"), ("Short", "Integer"), ("Decimal", "Number"), ("Float", "Number"), ("Double", "Number"), ("Boolean", "Boolean"), ("URI", "String"), ("Count", "Integer"), ("InclusiveValueRange", "Number"), ("ExclusiveValueRange", "Number"), ("Incremental", "Number"), ("ObservationalTimePeriod", "Time_Period"), ("StandardTimePeriod", "Time_Period"), ("BasicTimePeriod", "Date"), ("GregorianTimePeriod", "Date"), ("GregorianYear", "Date"), ("GregorianYearMonth", "Date"), ("GregorianMonth", "Date"), ("GregorianDay", "Date"), ("ReportingTimePeriod", "Time_Period"), ("ReportingYear", "Time_Period"), ("ReportingSemester", "Time_Period"), ("ReportingTrimester", "Time_Period"), ("ReportingQuarter", "Time_Period"), ("ReportingMonth", "Time_Period"), ("ReportingWeek", "Time_Period"), ("ReportingDay", "Time_Period"), ("DateTime", "Date"), ("TimeRange", "Time"), ("Month", "String"), ("MonthDay", "String"), ("Day", "String"), ("Time", "String"), ("Duration", "Duration")]
/-- `VTL_ROLE_MAPPING` (Utils/__init__.py); keys are `Role.<name>` -/
def codeRoleMap : List (String × String) := [("DIMENSION", "Identifier"), ("MEASURE", "Measure"), ("ATTRIBUTE", "Attribute")]
/-- docs/data_structures.rst, table "SDMX data type | VTL type" -/
def docDtypeMap : List (String × String) := [("String", "String"), ("Alpha", "String"), ("AlphaNumeric", "String"), ("Numeric", "String"), ("URI", "String"), ("Month", "String"), ("MonthDay", "String"), ("Day", "String"), ("Time", "String"), ("BigInteger", "Integer"), ("Integer", "Integer"), ("Long", "Integer"), ("Short", "Integer"), ("Count", "Integer"), ("Decimal", "Number"), ("Float", "Number"), ("Double", "Number"), ("InclusiveValueRange", "Number"), ("ExclusiveValueRange", "Number"), ("Incremental", "Number"), ("Boolean", "Boolean"), ("BasicTimePeriod", "Date"), ("GregorianTimePeriod", "Date"), ("GregorianYear", "Date"), ("GregorianYearMonth", "Date"), ("GregorianMonth", "Date"), ("GregorianDay", "Date"), ("DateTime", "Date"), ("ObservationalTimePeriod", "Time_Period"), ("StandardTimePeriod", "Time_Period"), ("ReportingTimePeriod", "Time_Period"), ("ReportingYear", "Time_Period"), ("ReportingSemester", "Time_Period"), ("ReportingTrimester", "Time_Period"), ("ReportingQuarter", "Time_Period"), ("ReportingMonth", "Time_Period"), ("ReportingWeek", "Time_Period"), ("ReportingDay", "Time_Period"), ("TimeRange", "Time"), ("Duration", "Duration")]
/-- docs/data_structures.rst, table "SDMX role | VTL role | Nullable?" -/
def docRoleMap : List (String × String × Bool) := [("DIMENSION", "Identifier", false), ("MEASURE", "Measure", true), ("ATTRIBUTE", "Attribute", true)]
/-- keys of `SCALAR_TYPES` (DataTypes/__init__.py): the type names a VTL JSON structure may use -/
def vtlTypeNames : List String := ["String", "Number", "Integer", "Time", "Date", "Time_Period", "Duration", "Boolean", "Null"]
/-- `to_vtl_json`: order of the `_components.extend(structure.components.<group>)` calls -/
def componentGroups : List String := ["DIMENSION", "MEASURE", "ATTRIBUTE"]
/-- `_nullability = c.role != SDMX_Role.<nullRole>` (`true` = operator `!=`, `false` = `==`) -/
def nullNeq : Bool := true
def nullRole : String := "DIMENSION"
/-- does a guard turn a dtype / role missing from the mapping into an InputValidationException? (plain subscript = KeyError) -/
def dtypeMissIV : Bool := true
def roleMissIV : Bool := false
/-- is the dtype looked up before the role inside the loop body? -/
def dtypeFirst : Bool := true

end VtlModel.Gen.Sdmx

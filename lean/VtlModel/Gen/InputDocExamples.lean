-- GENERATED from /repo by harness/translate on every run. Do not edit.
import VtlModel.Input.Spec

namespace VtlModel.Input.Gen
open VtlModel.Input VtlModel.Time

/-- quoted example strings of the "Input (CSV…)" cells of docs/data_types.rst -/
def docExamples : List (Ty × List Char) := [
  (Ty.integer, [Char.ofNat 52, Char.ofNat 50]) /- 42 -/,
  (Ty.integer, [Char.ofNat 48]) /- 0 -/,
  (Ty.integer, [Char.ofNat 45, Char.ofNat 55]) /- -7 -/,
  (Ty.number, [Char.ofNat 51, Char.ofNat 46, Char.ofNat 49, Char.ofNat 52]) /- 3.14 -/,
  (Ty.number, [Char.ofNat 49, Char.ofNat 101, Char.ofNat 53]) /- 1e5 -/,
  (Ty.number, [Char.ofNat 52, Char.ofNat 50]) /- 42 -/,
  (Ty.boolean, [Char.ofNat 116, Char.ofNat 114, Char.ofNat 117, Char.ofNat 101]) /- true -/,
  (Ty.boolean, [Char.ofNat 102, Char.ofNat 97, Char.ofNat 108, Char.ofNat 115, Char.ofNat 101]) /- false -/,
  (Ty.boolean, [Char.ofNat 49]) /- 1 -/,
  (Ty.boolean, [Char.ofNat 48]) /- 0 -/,
  (Ty.date, [Char.ofNat 50, Char.ofNat 48, Char.ofNat 50, Char.ofNat 48, Char.ofNat 45, Char.ofNat 48, Char.ofNat 49, Char.ofNat 45, Char.ofNat 49, Char.ofNat 53]) /- 2020-01-15 -/,
  (Ty.date, [Char.ofNat 50, Char.ofNat 48, Char.ofNat 50, Char.ofNat 48, Char.ofNat 45, Char.ofNat 48, Char.ofNat 49, Char.ofNat 45, Char.ofNat 49, Char.ofNat 53, Char.ofNat 32, Char.ofNat 49, Char.ofNat 48, Char.ofNat 58, Char.ofNat 51, Char.ofNat 48, Char.ofNat 58, Char.ofNat 48, Char.ofNat 48]) /- 2020-01-15 10:30:00 -/,
  (Ty.date, [Char.ofNat 50, Char.ofNat 48, Char.ofNat 50, Char.ofNat 48, Char.ofNat 45, Char.ofNat 48, Char.ofNat 49, Char.ofNat 45, Char.ofNat 49, Char.ofNat 53, Char.ofNat 84, Char.ofNat 49, Char.ofNat 48, Char.ofNat 58, Char.ofNat 51, Char.ofNat 48, Char.ofNat 58, Char.ofNat 48, Char.ofNat 48]) /- 2020-01-15T10:30:00 -/,
  (Ty.interval, [Char.ofNat 50, Char.ofNat 48, Char.ofNat 50, Char.ofNat 48, Char.ofNat 45, Char.ofNat 48, Char.ofNat 49, Char.ofNat 45, Char.ofNat 48, Char.ofNat 49, Char.ofNat 47, Char.ofNat 50, Char.ofNat 48, Char.ofNat 50, Char.ofNat 48, Char.ofNat 45, Char.ofNat 49, Char.ofNat 50, Char.ofNat 45, Char.ofNat 51, Char.ofNat 49]) /- 2020-01-01/2020-12-31 -/,
  (Ty.duration, [Char.ofNat 65]) /- A -/,
  (Ty.duration, [Char.ofNat 83]) /- S -/,
  (Ty.duration, [Char.ofNat 81]) /- Q -/,
  (Ty.duration, [Char.ofNat 77]) /- M -/,
  (Ty.duration, [Char.ofNat 87]) /- W -/,
  (Ty.duration, [Char.ofNat 68]) /- D -/]

/-- Examples column of the "Accepted input formats" table (indicator of the row, example text) -/
def docPeriodExamples : List (Ind × List Char) := [
  (Ind.A, [Char.ofNat 50, Char.ofNat 48, Char.ofNat 50, Char.ofNat 48]) /- 2020 -/,
  (Ind.A, [Char.ofNat 50, Char.ofNat 48, Char.ofNat 50, Char.ofNat 48, Char.ofNat 65]) /- 2020A -/,
  (Ind.A, [Char.ofNat 50, Char.ofNat 48, Char.ofNat 50, Char.ofNat 48, Char.ofNat 45, Char.ofNat 65, Char.ofNat 49]) /- 2020-A1 -/,
  (Ind.S, [Char.ofNat 50, Char.ofNat 48, Char.ofNat 50, Char.ofNat 48, Char.ofNat 83, Char.ofNat 49]) /- 2020S1 -/,
  (Ind.S, [Char.ofNat 50, Char.ofNat 48, Char.ofNat 50, Char.ofNat 48, Char.ofNat 45, Char.ofNat 83, Char.ofNat 49]) /- 2020-S1 -/,
  (Ind.Q, [Char.ofNat 50, Char.ofNat 48, Char.ofNat 50, Char.ofNat 48, Char.ofNat 81, Char.ofNat 49]) /- 2020Q1 -/,
  (Ind.Q, [Char.ofNat 50, Char.ofNat 48, Char.ofNat 50, Char.ofNat 48, Char.ofNat 45, Char.ofNat 81, Char.ofNat 49]) /- 2020-Q1 -/,
  (Ind.M, [Char.ofNat 50, Char.ofNat 48, Char.ofNat 50, Char.ofNat 48, Char.ofNat 77, Char.ofNat 49]) /- 2020M1 -/,
  (Ind.M, [Char.ofNat 50, Char.ofNat 48, Char.ofNat 50, Char.ofNat 48, Char.ofNat 77, Char.ofNat 48, Char.ofNat 49]) /- 2020M01 -/,
  (Ind.M, [Char.ofNat 50, Char.ofNat 48, Char.ofNat 50, Char.ofNat 48, Char.ofNat 45, Char.ofNat 48, Char.ofNat 49]) /- 2020-01 -/,
  (Ind.M, [Char.ofNat 50, Char.ofNat 48, Char.ofNat 50, Char.ofNat 48, Char.ofNat 45, Char.ofNat 49]) /- 2020-1 -/,
  (Ind.M, [Char.ofNat 50, Char.ofNat 48, Char.ofNat 50, Char.ofNat 48, Char.ofNat 45, Char.ofNat 77, Char.ofNat 48, Char.ofNat 49]) /- 2020-M01 -/,
  (Ind.M, [Char.ofNat 50, Char.ofNat 48, Char.ofNat 50, Char.ofNat 48, Char.ofNat 45, Char.ofNat 77, Char.ofNat 49]) /- 2020-M1 -/,
  (Ind.W, [Char.ofNat 50, Char.ofNat 48, Char.ofNat 50, Char.ofNat 48, Char.ofNat 87, Char.ofNat 49]) /- 2020W1 -/,
  (Ind.W, [Char.ofNat 50, Char.ofNat 48, Char.ofNat 50, Char.ofNat 48, Char.ofNat 87, Char.ofNat 48, Char.ofNat 49]) /- 2020W01 -/,
  (Ind.W, [Char.ofNat 50, Char.ofNat 48, Char.ofNat 50, Char.ofNat 48, Char.ofNat 45, Char.ofNat 87, Char.ofNat 48, Char.ofNat 49]) /- 2020-W01 -/,
  (Ind.D, [Char.ofNat 50, Char.ofNat 48, Char.ofNat 50, Char.ofNat 48, Char.ofNat 68, Char.ofNat 49]) /- 2020D1 -/,
  (Ind.D, [Char.ofNat 50, Char.ofNat 48, Char.ofNat 50, Char.ofNat 48, Char.ofNat 68, Char.ofNat 48, Char.ofNat 49]) /- 2020D01 -/,
  (Ind.D, [Char.ofNat 50, Char.ofNat 48, Char.ofNat 50, Char.ofNat 48, Char.ofNat 68, Char.ofNat 48, Char.ofNat 48, Char.ofNat 49]) /- 2020D001 -/,
  (Ind.D, [Char.ofNat 50, Char.ofNat 48, Char.ofNat 50, Char.ofNat 48, Char.ofNat 68, Char.ofNat 45, Char.ofNat 49]) /- 2020D-1 -/,
  (Ind.D, [Char.ofNat 50, Char.ofNat 48, Char.ofNat 50, Char.ofNat 48, Char.ofNat 68, Char.ofNat 45, Char.ofNat 48, Char.ofNat 49]) /- 2020D-01 -/,
  (Ind.D, [Char.ofNat 50, Char.ofNat 48, Char.ofNat 50, Char.ofNat 48, Char.ofNat 68, Char.ofNat 45, Char.ofNat 48, Char.ofNat 48, Char.ofNat 49]) /- 2020D-001 -/,
  (Ind.D, [Char.ofNat 50, Char.ofNat 48, Char.ofNat 50, Char.ofNat 48, Char.ofNat 45, Char.ofNat 48, Char.ofNat 49, Char.ofNat 45, Char.ofNat 48, Char.ofNat 49]) /- 2020-01-01 -/]

/-- Formats column of the same table -/
def docPeriodFormats : List (Ind × List Char) := [
  (Ind.A, [Char.ofNat 89, Char.ofNat 89, Char.ofNat 89, Char.ofNat 89]) /- YYYY -/,
  (Ind.A, [Char.ofNat 89, Char.ofNat 89, Char.ofNat 89, Char.ofNat 89, Char.ofNat 65]) /- YYYYA -/,
  (Ind.A, [Char.ofNat 89, Char.ofNat 89, Char.ofNat 89, Char.ofNat 89, Char.ofNat 45, Char.ofNat 65, Char.ofNat 49]) /- YYYY-A1 -/,
  (Ind.S, [Char.ofNat 89, Char.ofNat 89, Char.ofNat 89, Char.ofNat 89, Char.ofNat 83, Char.ofNat 120]) /- YYYYSx -/,
  (Ind.S, [Char.ofNat 89, Char.ofNat 89, Char.ofNat 89, Char.ofNat 89, Char.ofNat 45, Char.ofNat 83, Char.ofNat 120]) /- YYYY-Sx -/,
  (Ind.Q, [Char.ofNat 89, Char.ofNat 89, Char.ofNat 89, Char.ofNat 89, Char.ofNat 81, Char.ofNat 120]) /- YYYYQx -/,
  (Ind.Q, [Char.ofNat 89, Char.ofNat 89, Char.ofNat 89, Char.ofNat 89, Char.ofNat 45, Char.ofNat 81, Char.ofNat 120]) /- YYYY-Qx -/,
  (Ind.M, [Char.ofNat 89, Char.ofNat 89, Char.ofNat 89, Char.ofNat 89, Char.ofNat 77, Char.ofNat 109]) /- YYYYMm -/,
  (Ind.M, [Char.ofNat 89, Char.ofNat 89, Char.ofNat 89, Char.ofNat 89, Char.ofNat 77, Char.ofNat 109, Char.ofNat 109]) /- YYYYMmm -/,
  (Ind.M, [Char.ofNat 89, Char.ofNat 89, Char.ofNat 89, Char.ofNat 89, Char.ofNat 45, Char.ofNat 77, Char.ofNat 77]) /- YYYY-MM -/,
  (Ind.M, [Char.ofNat 89, Char.ofNat 89, Char.ofNat 89, Char.ofNat 89, Char.ofNat 45, Char.ofNat 77]) /- YYYY-M -/,
  (Ind.M, [Char.ofNat 89, Char.ofNat 89, Char.ofNat 89, Char.ofNat 89, Char.ofNat 45, Char.ofNat 77, Char.ofNat 120, Char.ofNat 120]) /- YYYY-Mxx -/,
  (Ind.M, [Char.ofNat 89, Char.ofNat 89, Char.ofNat 89, Char.ofNat 89, Char.ofNat 45, Char.ofNat 77, Char.ofNat 120]) /- YYYY-Mx -/,
  (Ind.W, [Char.ofNat 89, Char.ofNat 89, Char.ofNat 89, Char.ofNat 89, Char.ofNat 87, Char.ofNat 119]) /- YYYYWw -/,
  (Ind.W, [Char.ofNat 89, Char.ofNat 89, Char.ofNat 89, Char.ofNat 89, Char.ofNat 87, Char.ofNat 119, Char.ofNat 119]) /- YYYYWww -/,
  (Ind.W, [Char.ofNat 89, Char.ofNat 89, Char.ofNat 89, Char.ofNat 89, Char.ofNat 45, Char.ofNat 87, Char.ofNat 120, Char.ofNat 120]) /- YYYY-Wxx -/,
  (Ind.D, [Char.ofNat 89, Char.ofNat 89, Char.ofNat 89, Char.ofNat 89, Char.ofNat 68, Char.ofNat 91, Char.ofNat 100, Char.ofNat 100, Char.ofNat 93, Char.ofNat 100]) /- YYYYD[dd]d -/,
  (Ind.D, [Char.ofNat 89, Char.ofNat 89, Char.ofNat 89, Char.ofNat 89, Char.ofNat 45, Char.ofNat 68, Char.ofNat 91, Char.ofNat 120, Char.ofNat 120, Char.ofNat 93, Char.ofNat 120]) /- YYYY-D[xx]x -/,
  (Ind.D, [Char.ofNat 89, Char.ofNat 89, Char.ofNat 89, Char.ofNat 89, Char.ofNat 45, Char.ofNat 77, Char.ofNat 77, Char.ofNat 45, Char.ofNat 68, Char.ofNat 68]) /- YYYY-MM-DD -/]

end VtlModel.Input.Gen

-- GENERATED from /repo by harness/translate on every run. Do not edit.
import VtlModel.Text.ParserState
namespace VtlModel.Gen.ParserState
open VtlModel.Text.ParserState

/-- data members of `struct ParserState` (bindings.cpp), in declaration order -/
def stateFields : List String := ["input", "lexer", "tokens", "parser", "input_text", "comments", "syntax_error"]
/-- file-scope `static` variables of bindings.cpp -/
def fileStatics : List String := ["g_type_map", "g_state", "g_collecting_listener"]
/-- the statements of `do_parse`, in order -/
def doParseSteps : List Step := [
  .other "init_type_map",
  .assignText "input_text",
  .clear "comments",
  .reset "syntax_error",
  .make "input" "antlr4::ANTLRInputStream" true [],
  .make "lexer" "VtlTokens" false ["input"],
  .make "tokens" "antlr4::CommonTokenStream" false ["lexer"],
  .make "parser" "Vtl" false ["tokens"],
  .call "parser" "getInterpreter.setPredictionMode" none,
  .call "lexer" "removeErrorListeners" none,
  .call "lexer" "addErrorListener" none,
  .call "parser" "removeErrorListeners" none,
  .call "parser" "addErrorListener" none,
  .call "parser" "start" (some "%tree"),
  .call "tokens" "fill" none,
  .push "comments" ["tokens"],
  .ret "%tree"]
/-- `CollectingErrorListener::syntaxError`: guard present?, the slot it writes, the slots it reads -/
def listener : Listener := { guarded := true, errSlot := "syntax_error", reads := ["input_text"] }
/-- objects that get `addErrorListener(&g_collecting_listener)` in `do_parse` -/
def listenerAttached : List String := ["lexer", "parser"]
/-- `init_type_map` starts with `if (!g_type_map.empty()) return;` -/
def typeMapInitGuarded : Bool := true
/-- g_state members read by get_input_text / get_syntax_error / get_comments -/
def getterReads : List String := ["comments", "input_text", "syntax_error"]
def tabWidth : Nat := 4
/-- `column_1based = charPositionInLine + listenerColIn`; stored column = `column_1based + listenerColOut` -/
def listenerColIn : Int := 1
def listenerColOut : Int := (-1)
/-- `create_ast`: `column=error["column"] + columnOffset` -/
def columnOffset : Int := 1
/-- `create_ast` parses `text + "\n"` -/
def appendsNewline : Bool := true

end VtlModel.Gen.ParserState

-- GENERATED from /repo by harness/translate on every run. Do not edit.
/-! Literal tables of sql/time_operators.sql and sql/init.sql, transcribed. -/
namespace VtlModel.Gen.TimeMacros

def periodLimit_A : Int := 1
def periodLimit_S : Int := 2
def periodLimit_Q : Int := 4
def periodLimit_M : Int := 12
def periodLimit_W : Int := 52
def periodLimit_D : Int := 365
def periodRank_A : Int := 6
def periodRank_S : Int := 5
def periodRank_Q : Int := 4
def periodRank_M : Int := 3
def periodRank_W : Int := 2
def periodRank_D : Int := 1
def durationToInt_A : Int := 6
def durationToInt_D : Int := 1
def durationToInt_M : Int := 3
def durationToInt_Q : Int := 4
def durationToInt_S : Int := 5
def durationToInt_W : Int := 2
def toStringWidth_A : Nat := 1
def toStringWidth_S : Nat := 1
def toStringWidth_Q : Nat := 1
def toStringWidth_M : Nat := 2
def toStringWidth_W : Nat := 2
def toStringWidth_D : Nat := 3
/-- vtl_tp_shift has the calendar-aware body (weeks/days through dates) instead of the fixed-limit formula. -/
def shiftIsCalendar : Bool := true
/-- _TP_NEXT_PERIOD (fill_time_series) steps with vtl_period_limit. -/
def nextUsesFixedLimit : Bool := false

end VtlModel.Gen.TimeMacros

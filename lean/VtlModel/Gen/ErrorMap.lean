-- GENERATED from /repo by harness/translate on every run. Do not edit.
import VtlModel.Errors.Model
namespace VtlModel.Gen.ErrorMap
open VtlModel.Errors

/-- _map_query_error (io/_execution.py) — falls through to the raw error -/
def mapper0 : List Rule := [
  -- line 79: 'vtl error 2-1-19-20' -> 2-1-19-20
  ⟨(.has [118, 116, 108, 32, 101, 114, 114, 111, 114, 32, 50, 45, 49, 45, 49, 57, 45, 50, 48]), [⟨2, 712, [164], false⟩]⟩,
  -- line 84: 'vtl error 2-1-19-19' -> 2-1-19-19
  ⟨(.has [118, 116, 108, 32, 101, 114, 114, 111, 114, 32, 50, 45, 49, 45, 49, 57, 45, 49, 57]), [⟨2, 710, [164, 708, 709], false⟩]⟩,
  -- line 94: 'vtl error 2-1-19-16' -> 2-1-19-16
  ⟨(.has [118, 116, 108, 32, 101, 114, 114, 111, 114, 32, 50, 45, 49, 45, 49, 57, 45, 49, 54]), [⟨2, 702, [164], false⟩]⟩,
  -- line 99: 'vtl error 2-1-19-21' -> 2-1-19-21
  ⟨(.has [118, 116, 108, 32, 101, 114, 114, 111, 114, 32, 50, 45, 49, 45, 49, 57, 45, 50, 49]), [⟨2, 715, [655], false⟩]⟩,
  -- line 103: 'vtl error 2-1-19-1' -> 2-1-19-1
  ⟨(.has [118, 116, 108, 32, 101, 114, 114, 111, 114, 32, 50, 45, 49, 45, 49, 57, 45, 49]), [⟨2, 653, [651, 44], false⟩]⟩,
  -- line 107: 'cannot cast non-daily timeperiod to date' -> 2-1-5-1
  ⟨(.has [99, 97, 110, 110, 111, 116, 32, 99, 97, 115, 116, 32, 110, 111, 110, 45, 100, 97, 105, 108, 121, 32, 116, 105, 109, 101, 112, 101, 114, 105, 111, 100, 32, 116, 111, 32, 100, 97, 116, 101]), [⟨2, 235, [158, 159, 44], false⟩]⟩,
  -- line 112: 'cannot cast timeinterval to date' -> 2-1-5-1
  ⟨(.has [99, 97, 110, 110, 111, 116, 32, 99, 97, 115, 116, 32, 116, 105, 109, 101, 105, 110, 116, 101, 114, 118, 97, 108, 32, 116, 111, 32, 100, 97, 116, 101]), [⟨2, 235, [158, 159, 44], false⟩]⟩,
  -- line 117: 'cannot determine period for interval' -> 2-1-5-1
  ⟨(.has [99, 97, 110, 110, 111, 116, 32, 100, 101, 116, 101, 114, 109, 105, 110, 101, 32, 112, 101, 114, 105, 111, 100, 32, 102, 111, 114, 32, 105, 110, 116, 101, 114, 118, 97, 108]), [⟨2, 235, [158, 159, 44], false⟩]⟩,
  -- line 122: ('conversion' and ('timestamp' or 'date')) -> 2-1-19-8
  ⟨(.and (.has [99, 111, 110, 118, 101, 114, 115, 105, 111, 110]) (.or (.has [116, 105, 109, 101, 115, 116, 97, 109, 112]) (.has [100, 97, 116, 101]))), [⟨2, 680, [665], false⟩]⟩,
  -- line 131: 'vtl 2-1-15-6' -> 2-1-15-6
  ⟨(.has [118, 116, 108, 32, 50, 45, 49, 45, 49, 53, 45, 54]), [⟨2, 456, [164], false⟩]⟩,
  -- line 135: 'vtl 1-1-18-11' -> 1-1-18-11
  ⟨(.has [118, 116, 108, 32, 49, 45, 49, 45, 49, 56, 45, 49, 49]), [⟨3, 494, [492, 493, 164], false⟩]⟩,
  -- line 141: ('division by zero' or 'divide by zero') -> 2-1-3-1
  ⟨(.or (.has [100, 105, 118, 105, 115, 105, 111, 110, 32, 98, 121, 32, 122, 101, 114, 111]) (.has [100, 105, 118, 105, 100, 101, 32, 98, 121, 32, 122, 101, 114, 111])), [⟨2, 220, [164], false⟩]⟩,
  -- line 143: 'vtl error 2-1-3-1' -> 2-1-3-1
  ⟨(.has [118, 116, 108, 32, 101, 114, 114, 111, 114, 32, 50, 45, 49, 45, 51, 45, 49]), [⟨2, 220, [164], false⟩]⟩,
  -- line 147: ('logarithm of zero' or 'logarithm of negative') -> 2-1-15-8
  ⟨(.or (.has [108, 111, 103, 97, 114, 105, 116, 104, 109, 32, 111, 102, 32, 122, 101, 114, 111]) (.has [108, 111, 103, 97, 114, 105, 116, 104, 109, 32, 111, 102, 32, 110, 101, 103, 97, 116, 105, 118, 101])), [⟨2, 460, [164, 44], false⟩]⟩,
  -- line 151: 'cannot take logarithm of a negative number' -> 2-1-15-3
  ⟨(.has [99, 97, 110, 110, 111, 116, 32, 116, 97, 107, 101, 32, 108, 111, 103, 97, 114, 105, 116, 104, 109, 32, 111, 102, 32, 97, 32, 110, 101, 103, 97, 116, 105, 118, 101, 32, 110, 117, 109, 98, 101, 114]), [⟨2, 450, [164, 44], false⟩]⟩
]

/-- map_duckdb_error (io/_validation.py) -/
def mapper1 : List Rule := [
  -- line 92: ('magic bytes' or 'no magic bytes') -> 0-3-1-16
  ⟨(.or (.has [109, 97, 103, 105, 99, 32, 98, 121, 116, 101, 115]) (.has [110, 111, 32, 109, 97, 103, 105, 99, 32, 98, 121, 116, 101, 115])), [⟨0, 144, [91, 29], false⟩]⟩,
  -- line 100: ('duplicate' or 'primary key') -> 0-3-1-7
  ⟨(.or (.has [100, 117, 112, 108, 105, 99, 97, 116, 101]) (.has [112, 114, 105, 109, 97, 114, 121, 32, 107, 101, 121])), [⟨0, 120, [29, 119], false⟩]⟩,
  -- line 104: ('null' and 'constraint') -> 0-3-1-3 | 0-3-1-3
  ⟨(.and (.has [110, 117, 108, 108]) (.has [99, 111, 110, 115, 116, 114, 97, 105, 110, 116])), [⟨0, 104, [29, 103], false⟩, ⟨0, 104, [29, 103], false⟩]⟩,
  -- line 113: 'timestamp field value out of range' -> 0-3-1-6 | 0-3-1-6
  ⟨(.has [116, 105, 109, 101, 115, 116, 97, 109, 112, 32, 102, 105, 101, 108, 100, 32, 118, 97, 108, 117, 101, 32, 111, 117, 116, 32, 111, 102, 32, 114, 97, 110, 103, 101]), [⟨0, 117, [112, 91, 29, 114], false⟩, ⟨0, 117, [112, 91, 29, 114], false⟩]⟩,
  -- line 138: ('convert' or ('conversion' or 'cast')) -> 0-3-1-6 | 0-3-1-6
  ⟨(.or (.has [99, 111, 110, 118, 101, 114, 116]) (.or (.has [99, 111, 110, 118, 101, 114, 115, 105, 111, 110]) (.has [99, 97, 115, 116]))), [⟨0, 117, [112, 91, 29, 114], false⟩, ⟨0, 117, [112, 91, 29, 114], false⟩]⟩,
  -- line 163: otherwise -> 0-3-1-6
  ⟨.tt, [⟨0, 117, [112, 91, 29, 114], false⟩]⟩
]

/-- <raise 0-3-1-6> (io/_io.py) -/
def mapper2 : List Rule := [
  -- line 103: otherwise -> 0-3-1-6
  ⟨.tt, [⟨0, 117, [112, 91, 29, 114], false⟩]⟩
]

def mappers : List (List Rule) := [mapper0, mapper1, mapper2]

def dbSites : List DbSite := [
  ⟨984, 985, 241, 3, 0⟩,  -- io/_execution.py:_build_dataset_fetch_select:241 .execute phase=fetch UNWRAPPED
  ⟨984, 985, 266, 3, 0⟩,  -- io/_execution.py:_build_dataset_fetch_select:266 .fetchone phase=fetch UNWRAPPED
  ⟨984, 986, 387, 5, 0⟩,  -- io/_execution.py:cleanup_scheduled_datasets:387 .execute phase=other UNWRAPPED
  ⟨984, 986, 398, 5, 0⟩,  -- io/_execution.py:cleanup_scheduled_datasets:398 .execute phase=other UNWRAPPED
  ⟨984, 986, 401, 5, 0⟩,  -- io/_execution.py:cleanup_scheduled_datasets:401 .execute phase=other UNWRAPPED
  ⟨984, 987, 442, 3, 0⟩,  -- io/_execution.py:fetch_result:442 .execute phase=fetch UNWRAPPED
  ⟨984, 987, 443, 3, 0⟩,  -- io/_execution.py:fetch_result:443 .fetchdf phase=fetch UNWRAPPED
  ⟨984, 987, 475, 3, 0⟩,  -- io/_execution.py:fetch_result:475 .fetchdf phase=fetch UNWRAPPED
  ⟨984, 988, 551, 1, 2⟩,  -- io/_execution.py:execute_queries:551 .execute phase=stmt _map_query_error
  ⟨981, 940, 70, 0, 0⟩,  -- io/_io.py:_validate_loaded_table:70 .fetchone phase=load UNWRAPPED
  ⟨981, 940, 81, 0, 0⟩,  -- io/_io.py:_validate_loaded_table:81 .execute phase=load UNWRAPPED
  ⟨981, 941, 98, 0, 4⟩,  -- io/_io.py:_normalize_time_period_columns:98 .execute phase=load <raise 0-3-1-6>
  ⟨981, 989, 140, 0, 1⟩,  -- io/_io.py:_detect_csv_format:140 .fetchone phase=load swallowed
  ⟨981, 989, 155, 0, 1⟩,  -- io/_io.py:_detect_csv_format:155 .sql phase=load swallowed
  ⟨981, 989, 160, 0, 1⟩,  -- io/_io.py:_detect_csv_format:160 .sql phase=load swallowed
  ⟨981, 990, 186, 0, 3⟩,  -- io/_io.py:_read_parquet_columns:186 .sql phase=load map_duckdb_error
  ⟨981, 942, 238, 0, 0⟩,  -- io/_io.py:load_datapoints_duckdb:238 .execute phase=load UNWRAPPED
  ⟨981, 942, 304, 0, 3⟩,  -- io/_io.py:load_datapoints_duckdb:304 .execute phase=load map_duckdb_error
  ⟨981, 942, 307, 0, 0⟩,  -- io/_io.py:load_datapoints_duckdb:307 .execute phase=load UNWRAPPED
  ⟨981, 942, 310, 0, 0⟩,  -- io/_io.py:load_datapoints_duckdb:310 .execute phase=load UNWRAPPED
  ⟨981, 942, 316, 0, 0⟩,  -- io/_io.py:load_datapoints_duckdb:316 .table phase=load UNWRAPPED
  ⟨981, 991, 325, 0, 0⟩,  -- io/_io.py:_create_empty_table:325 .execute phase=load UNWRAPPED
  ⟨981, 991, 326, 0, 0⟩,  -- io/_io.py:_create_empty_table:326 .table phase=load UNWRAPPED
  ⟨981, 943, 338, 0, 0⟩,  -- io/_io.py:_load_parquet:338 .execute phase=load UNWRAPPED
  ⟨981, 943, 369, 0, 3⟩,  -- io/_io.py:_load_parquet:369 .execute phase=load map_duckdb_error
  ⟨981, 943, 372, 0, 0⟩,  -- io/_io.py:_load_parquet:372 .execute phase=load UNWRAPPED
  ⟨981, 943, 375, 0, 0⟩,  -- io/_io.py:_load_parquet:375 .execute phase=load UNWRAPPED
  ⟨981, 943, 379, 0, 0⟩,  -- io/_io.py:_load_parquet:379 .table phase=load UNWRAPPED
  ⟨981, 944, 419, 4, 0⟩,  -- io/_io.py:save_datapoints_duckdb:419 .execute phase=write UNWRAPPED
  ⟨981, 944, 422, 4, 0⟩,  -- io/_io.py:save_datapoints_duckdb:422 .execute phase=write UNWRAPPED
  ⟨981, 992, 650, 0, 0⟩,  -- io/_io.py:register_dataframes:650 .execute phase=load UNWRAPPED
  ⟨981, 992, 654, 0, 0⟩,  -- io/_io.py:register_dataframes:654 .register phase=load UNWRAPPED
  ⟨981, 992, 658, 0, 3⟩,  -- io/_io.py:register_dataframes:658 .fetchall phase=load map_duckdb_error
  ⟨981, 992, 664, 0, 3⟩,  -- io/_io.py:register_dataframes:664 .execute phase=load map_duckdb_error
  ⟨981, 992, 669, 0, 0⟩,  -- io/_io.py:register_dataframes:669 .execute phase=load UNWRAPPED
  ⟨981, 992, 672, 0, 0⟩,  -- io/_io.py:register_dataframes:672 .unregister phase=load UNWRAPPED
  ⟨993, 994, 62, 2, 2⟩,  -- io/_time_handling.py:apply_time_period_representation:62 .execute phase=repr _map_query_error
  ⟨993, 994, 74, 2, 2⟩,  -- io/_time_handling.py:apply_time_period_representation:74 .execute phase=repr _map_query_error
  ⟨983, 947, 280, 0, 0⟩,  -- io/_validation.py:validate_no_duplicates:280 .fetchone phase=load UNWRAPPED
  ⟨983, 949, 389, 0, 0⟩  -- io/_validation.py:validate_temporal_columns:389 .fetchone phase=load UNWRAPPED
]

/-- certificate (recomputed by the kernel in Props/C32): phases with an unwrapped DuckDB call -/
def claimedUnwrapped : List Nat := [0, 3, 4]

end VtlModel.Gen.ErrorMap

-- GENERATED from /repo by harness/translate on every run. Do not edit.
import VtlModel.Gen.Promotion
namespace VtlModel.Gen.CastCode
open VtlModel VtlModel.Gen.Promotion

/-- transcribed from `Cast.check_without_mask` (src/vtlengine/Operators/CastOperator.py) -/
def checkWithoutMask (from_type : Ty) (to_type : Ty) : PyRes Unit :=
  let explicit_promotion : TySet := (explicitNoMask from_type)
  let implicit_promotion : TySet := (implicit from_type)
  (if (!((TySet.mem to_type explicit_promotion) || (TySet.mem to_type implicit_promotion))) then
    (.error [1, 1, 5, 4])
  else
    (.ok ()))

/-- transcribed from the `measure_name` branch of `Cast.dataset_validation`:
    `some n` = the measure is renamed to `n`, `none` = it keeps its name -/
def renameTo (from_type to_type : Ty) : Option String :=
  if (!(TySet.mem to_type (implicit from_type))) then (some (compName to_type)) else none

end VtlModel.Gen.CastCode

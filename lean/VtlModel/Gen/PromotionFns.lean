-- GENERATED from /repo by harness/translate on every run. Do not edit.
import VtlModel.Gen.Promotion
set_option linter.unusedVariables false
namespace VtlModel.Gen.PromotionFns
open VtlModel VtlModel.Gen.Promotion

/-- transcribed from `binary_implicit_promotion` (src/vtlengine/DataTypes/__init__.py) -/
def binaryPromotion (left_type : Ty) (right_type : Ty) (type_to_check : Option Ty) (return_type : Option Ty) : PyRes Ty :=
  let left_implicities : TySet := (implicit left_type)
  let right_implicities : TySet := (implicit right_type)
  (match type_to_check with
  | some type_to_check =>
    (if (TySet.mem type_to_check (TySet.inter left_implicities right_implicities)) then
      (match return_type with
      | some return_type =>
        (.ok return_type)
      | none =>
        (if (TySet.mem left_type right_implicities) then
          (if (isSubclass left_type right_type) then
            (.ok right_type)
          else
            (if (isSubclass right_type left_type) then
              (.ok left_type)
            else
              (.ok left_type)))
        else
          (if (TySet.mem right_type left_implicities) then
            (.ok right_type)
          else
            (.ok type_to_check))))
    else
      (.error [1, 1, 1, 2]))
  | none =>
    (match return_type with
    | some return_type =>
      (if ((TySet.mem left_type right_implicities) || (TySet.mem right_type left_implicities)) then
      (.ok return_type)
      else
      (if (TySet.mem left_type right_implicities) then
        (if (isSubclass left_type right_type) then
          (.ok right_type)
        else
          (.ok left_type))
      else
        (if (TySet.mem right_type left_implicities) then
          (.ok right_type)
        else
          let common : TySet := (TySet.inter left_implicities right_implicities)
          (if (TySet.truthy common) then
            (if true then
              (.ok return_type)
            else
              let common : TySet := TySet.discard common Ty.null
              (match common with
              | [the_only] => (.ok the_only)
              | _ =>
                (.error [1, 1, 1, 1])))
          else
            (.error [1, 1, 1, 1])))))
    | none =>
      (if (TySet.mem left_type right_implicities) then
        (if (isSubclass left_type right_type) then
          (.ok right_type)
        else
          (.ok left_type))
      else
        (if (TySet.mem right_type left_implicities) then
          (.ok right_type)
        else
          let common : TySet := (TySet.inter left_implicities right_implicities)
          (if (TySet.truthy common) then
            (match return_type with
            | some return_type =>
              (.ok return_type)
            | none =>
              let common : TySet := TySet.discard common Ty.null
              (match common with
              | [the_only] => (.ok the_only)
              | _ =>
                (.error [1, 1, 1, 1])))
          else
            (.error [1, 1, 1, 1]))))))

/-- transcribed from `check_binary_implicit_promotion` (src/vtlengine/DataTypes/__init__.py) -/
def checkBinary (left : Ty) (right : Ty) (type_to_check : Option Ty) (return_type : Option Ty) : PyRes Bool :=
  let left_implicities : TySet := (implicit left)
  let right_implicities : TySet := (implicit right)
  (match type_to_check with
  | some type_to_check =>
    (.ok (TySet.mem type_to_check (TySet.inter left_implicities right_implicities)))
  | none =>
    (.ok ((TySet.mem left right_implicities) || (TySet.mem right left_implicities) || (TySet.truthy (TySet.inter left_implicities right_implicities)))))

/-- transcribed from `unary_implicit_promotion` (src/vtlengine/DataTypes/__init__.py) -/
def unaryPromotion (operand_type : Ty) (type_to_check : Option Ty) (return_type : Option Ty) : PyRes Ty :=
  let operand_implicities : TySet := (implicit operand_type)
  (match type_to_check with
  | some type_to_check =>
    (if (!(TySet.mem type_to_check operand_implicities)) then
    (.error [1, 1, 1, 1])
    else
    (match return_type with
    | some return_type =>
      (.ok return_type)
    | none =>
      (if (true && ((!(isSubclass operand_type type_to_check)) && (!(isSubclass type_to_check operand_type)))) then
        (.ok type_to_check)
      else
        (.ok operand_type))))
  | none =>
    (match return_type with
    | some return_type =>
      (.ok return_type)
    | none =>
      (match type_to_check with
      | some type_to_check =>
        (if ((!(isSubclass operand_type type_to_check)) && (!(isSubclass type_to_check operand_type))) then
        (.ok type_to_check)
        else
        (.ok operand_type))
      | none =>
        (.ok operand_type))))

/-- transcribed from `check_unary_implicit_promotion` (src/vtlengine/DataTypes/__init__.py) -/
def checkUnary (operand_type : Ty) (type_to_check : Option Ty) (return_type : Option Ty) : PyRes Bool :=
  let operand_implicities : TySet := (implicit operand_type)
  (.ok (!(match type_to_check with | some type_to_check => (!(TySet.mem type_to_check operand_implicities)) | none => false)))

end VtlModel.Gen.PromotionFns

-- GENERATED from /repo by harness/translate on every run. Do not edit.
import VtlModel.Input.Regex

namespace VtlModel.Input.Gen
open VtlModel.Input

/-- io/_validation.py TIME_PERIOD_PATTERN = ^\d{4}$|^\d{4}[A]\d?$|^\d{4}[S][1-2]$|^\d{4}[Q][1-4]$|^\d{4}[M]\d{1,2}$|^\d{4}[W]\d{1,2}$|^\d{4}[D]\d{1,3}$|^\d{4}-\d{1,2}$|^\d{4}-A\d?$|^\d{4}-S[1-2]$|^\d{4}-Q[1-4]$|^\d{4}-M\d{1,2}$|^\d{4}-W\d{1,2}$|^\d{4}-D\d{1,3}$|^\d{4}-(0[1-9]|1[0-2])-(0[1-9]|[1-2][0-9]|3[0-1])$ -/
def sql_TIME_PERIOD_PATTERN : Re :=
  Re.alts [(Re.rep (Re.cls [(48, 57)]) 4 4),
    (Re.seqs [(Re.rep (Re.cls [(48, 57)]) 4 4), (Re.cls [(65, 65)]), (Re.rep (Re.cls [(48, 57)]) 0 1)]),
    (Re.seqs [(Re.rep (Re.cls [(48, 57)]) 4 4), (Re.cls [(83, 83)]), (Re.cls [(49, 50)])]),
    (Re.seqs [(Re.rep (Re.cls [(48, 57)]) 4 4), (Re.cls [(81, 81)]), (Re.cls [(49, 52)])]),
    (Re.seqs [(Re.rep (Re.cls [(48, 57)]) 4 4), (Re.cls [(77, 77)]), (Re.rep (Re.cls [(48, 57)]) 1 2)]),
    (Re.seqs [(Re.rep (Re.cls [(48, 57)]) 4 4), (Re.cls [(87, 87)]), (Re.rep (Re.cls [(48, 57)]) 1 2)]),
    (Re.seqs [(Re.rep (Re.cls [(48, 57)]) 4 4), (Re.cls [(68, 68)]), (Re.rep (Re.cls [(48, 57)]) 1 3)]),
    (Re.seqs [(Re.rep (Re.cls [(48, 57)]) 4 4), (Re.cls [(45, 45)]), (Re.rep (Re.cls [(48, 57)]) 1 2)]),
    (Re.seqs [(Re.rep (Re.cls [(48, 57)]) 4 4), (Re.cls [(45, 45)]), (Re.cls [(65, 65)]), (Re.rep (Re.cls [(48, 57)]) 0 1)]),
    (Re.seqs [(Re.rep (Re.cls [(48, 57)]) 4 4), (Re.cls [(45, 45)]), (Re.cls [(83, 83)]), (Re.cls [(49, 50)])]),
    (Re.seqs [(Re.rep (Re.cls [(48, 57)]) 4 4), (Re.cls [(45, 45)]), (Re.cls [(81, 81)]), (Re.cls [(49, 52)])]),
    (Re.seqs [(Re.rep (Re.cls [(48, 57)]) 4 4), (Re.cls [(45, 45)]), (Re.cls [(77, 77)]), (Re.rep (Re.cls [(48, 57)]) 1 2)]),
    (Re.seqs [(Re.rep (Re.cls [(48, 57)]) 4 4), (Re.cls [(45, 45)]), (Re.cls [(87, 87)]), (Re.rep (Re.cls [(48, 57)]) 1 2)]),
    (Re.seqs [(Re.rep (Re.cls [(48, 57)]) 4 4), (Re.cls [(45, 45)]), (Re.cls [(68, 68)]), (Re.rep (Re.cls [(48, 57)]) 1 3)]),
    (Re.seqs [(Re.rep (Re.cls [(48, 57)]) 4 4), (Re.cls [(45, 45)]), ((Re.alts [(Re.seqs [(Re.cls [(48, 48)]), (Re.cls [(49, 57)])]), (Re.seqs [(Re.cls [(49, 49)]), (Re.cls [(48, 50)])])])), (Re.cls [(45, 45)]), ((Re.alts [(Re.seqs [(Re.cls [(48, 48)]), (Re.cls [(49, 57)])]), (Re.seqs [(Re.cls [(49, 50)]), (Re.cls [(48, 57)])]), (Re.seqs [(Re.cls [(51, 51)]), (Re.cls [(48, 49)])])]))])]

/-- io/_validation.py TIME_INTERVAL_PATTERN = ^\d{4}-\d{2}-\d{2}(T\d{2}:\d{2}:\d{2})?/\d{4}-\d{2}-\d{2}(T\d{2}:\d{2}:\d{2})?$ -/
def sql_TIME_INTERVAL_PATTERN : Re :=
  (Re.seqs [(Re.rep (Re.cls [(48, 57)]) 4 4), (Re.cls [(45, 45)]), (Re.rep (Re.cls [(48, 57)]) 2 2), (Re.cls [(45, 45)]), (Re.rep (Re.cls [(48, 57)]) 2 2), (Re.rep ((Re.seqs [(Re.cls [(84, 84)]), (Re.rep (Re.cls [(48, 57)]) 2 2), (Re.cls [(58, 58)]), (Re.rep (Re.cls [(48, 57)]) 2 2), (Re.cls [(58, 58)]), (Re.rep (Re.cls [(48, 57)]) 2 2)])) 0 1), (Re.cls [(47, 47)]), (Re.rep (Re.cls [(48, 57)]) 4 4), (Re.cls [(45, 45)]), (Re.rep (Re.cls [(48, 57)]) 2 2), (Re.cls [(45, 45)]), (Re.rep (Re.cls [(48, 57)]) 2 2), (Re.rep ((Re.seqs [(Re.cls [(84, 84)]), (Re.rep (Re.cls [(48, 57)]) 2 2), (Re.cls [(58, 58)]), (Re.rep (Re.cls [(48, 57)]) 2 2), (Re.cls [(58, 58)]), (Re.rep (Re.cls [(48, 57)]) 2 2)])) 0 1)])

/-- io/_validation.py DURATION_PATTERN = ^(A|S|Q|M|W|D)$ -/
def sql_DURATION_PATTERN : Re :=
  ((Re.cls [(65, 65), (83, 83), (81, 81), (77, 77), (87, 87), (68, 68)]))

/-- io/_validation.py VALID_DATE_REGEX = ^\d{4}-\d{1,2}-\d{1,2}([ T]([01]\d|2[0-3]):[0-5]\d:[0-5]\d(\.\d+)?([+-]\d{2}:\d{2}|Z)?)?$ -/
def sql_VALID_DATE_REGEX : Re :=
  (Re.seqs [(Re.rep (Re.cls [(48, 57)]) 4 4), (Re.cls [(45, 45)]), (Re.rep (Re.cls [(48, 57)]) 1 2), (Re.cls [(45, 45)]), (Re.rep (Re.cls [(48, 57)]) 1 2), (Re.rep ((Re.seqs [(Re.cls [(32, 32), (84, 84)]), ((Re.alts [(Re.seqs [(Re.cls [(48, 48), (49, 49)]), (Re.cls [(48, 57)])]), (Re.seqs [(Re.cls [(50, 50)]), (Re.cls [(48, 51)])])])), (Re.cls [(58, 58)]), (Re.cls [(48, 53)]), (Re.cls [(48, 57)]), (Re.cls [(58, 58)]), (Re.cls [(48, 53)]), (Re.cls [(48, 57)]), (Re.rep ((Re.seqs [(Re.cls [(46, 46)]), (Re.plus (Re.cls [(48, 57)]))])) 0 1), (Re.rep ((Re.alts [(Re.seqs [(Re.cls [(43, 43), (45, 45)]), (Re.rep (Re.cls [(48, 57)]) 2 2), (Re.cls [(58, 58)]), (Re.rep (Re.cls [(48, 57)]) 2 2)]), (Re.cls [(90, 90)])])) 0 1)])) 0 1)])

/-- DataTypes/_time_checking.py _STRICT_DATETIME_RE = ^\d{4}-\d{2}-\d{2}[T ]\d{2}:\d{2}:\d{2}(\.\d+)?([+-]\d{2}:\d{2}|Z)?$ -/
def pandas_STRICT_DATETIME_RE : Re :=
  (Re.seqs [(Re.rep (Re.cls [(48, 57)]) 4 4), (Re.cls [(45, 45)]), (Re.rep (Re.cls [(48, 57)]) 2 2), (Re.cls [(45, 45)]), (Re.rep (Re.cls [(48, 57)]) 2 2), (Re.cls [(84, 84), (32, 32)]), (Re.rep (Re.cls [(48, 57)]) 2 2), (Re.cls [(58, 58)]), (Re.rep (Re.cls [(48, 57)]) 2 2), (Re.cls [(58, 58)]), (Re.rep (Re.cls [(48, 57)]) 2 2), (Re.rep ((Re.seqs [(Re.cls [(46, 46)]), (Re.plus (Re.cls [(48, 57)]))])) 0 1), (Re.rep ((Re.alts [(Re.seqs [(Re.cls [(43, 43), (45, 45)]), (Re.rep (Re.cls [(48, 57)]) 2 2), (Re.cls [(58, 58)]), (Re.rep (Re.cls [(48, 57)]) 2 2)]), (Re.cls [(90, 90)])])) 0 1)])

/-- DataTypes/_time_checking.py time_pattern = ^\d{4}[-][0-1]?\d[-][0-3]?\d([T ]\d{2}:\d{2}:\d{2}(\.\d+)?)?/\d{4}[-][0-1]?\d[-][0-3]?\d([T ]\d{2}:\d{2}:\d{2}(\.\d+)?)?$ -/
def pandas_time_pattern : Re :=
  (Re.seqs [(Re.rep (Re.cls [(48, 57)]) 4 4), (Re.cls [(45, 45)]), (Re.rep (Re.cls [(48, 49)]) 0 1), (Re.cls [(48, 57)]), (Re.cls [(45, 45)]), (Re.rep (Re.cls [(48, 51)]) 0 1), (Re.cls [(48, 57)]), (Re.rep ((Re.seqs [(Re.cls [(84, 84), (32, 32)]), (Re.rep (Re.cls [(48, 57)]) 2 2), (Re.cls [(58, 58)]), (Re.rep (Re.cls [(48, 57)]) 2 2), (Re.cls [(58, 58)]), (Re.rep (Re.cls [(48, 57)]) 2 2), (Re.rep ((Re.seqs [(Re.cls [(46, 46)]), (Re.plus (Re.cls [(48, 57)]))])) 0 1)])) 0 1), (Re.cls [(47, 47)]), (Re.rep (Re.cls [(48, 57)]) 4 4), (Re.cls [(45, 45)]), (Re.rep (Re.cls [(48, 49)]) 0 1), (Re.cls [(48, 57)]), (Re.cls [(45, 45)]), (Re.rep (Re.cls [(48, 51)]) 0 1), (Re.cls [(48, 57)]), (Re.rep ((Re.seqs [(Re.cls [(84, 84), (32, 32)]), (Re.rep (Re.cls [(48, 57)]) 2 2), (Re.cls [(58, 58)]), (Re.rep (Re.cls [(48, 57)]) 2 2), (Re.cls [(58, 58)]), (Re.rep (Re.cls [(48, 57)]) 2 2), (Re.rep ((Re.seqs [(Re.cls [(46, 46)]), (Re.plus (Re.cls [(48, 57)]))])) 0 1)])) 0 1)])

/-- DataTypes/_time_checking.py year_pattern = \d{4} -/
def pandas_year_pattern : Re :=
  (Re.rep (Re.cls [(48, 57)]) 4 4)

/-- DataTypes/_time_checking.py month_pattern = \d{4}[-][0-1]?\d -/
def pandas_month_pattern : Re :=
  (Re.seqs [(Re.rep (Re.cls [(48, 57)]) 4 4), (Re.cls [(45, 45)]), (Re.rep (Re.cls [(48, 49)]) 0 1), (Re.cls [(48, 57)])])

/-- DataTypes/_time_checking.py _vtl_period_re = ^\d{4}$|^\d{4}A$|^\d{4}S[1-2]$|^\d{4}Q[1-4]$|^\d{4}M[0-1]?\d$|^\d{4}W[0-5]?\d$|^\d{4}D[0-3]?\d{1,2}$ -/
def pandas_vtl_period_re : Re :=
  Re.alts [(Re.rep (Re.cls [(48, 57)]) 4 4),
    (Re.seqs [(Re.rep (Re.cls [(48, 57)]) 4 4), (Re.cls [(65, 65)])]),
    (Re.seqs [(Re.rep (Re.cls [(48, 57)]) 4 4), (Re.cls [(83, 83)]), (Re.cls [(49, 50)])]),
    (Re.seqs [(Re.rep (Re.cls [(48, 57)]) 4 4), (Re.cls [(81, 81)]), (Re.cls [(49, 52)])]),
    (Re.seqs [(Re.rep (Re.cls [(48, 57)]) 4 4), (Re.cls [(77, 77)]), (Re.rep (Re.cls [(48, 49)]) 0 1), (Re.cls [(48, 57)])]),
    (Re.seqs [(Re.rep (Re.cls [(48, 57)]) 4 4), (Re.cls [(87, 87)]), (Re.rep (Re.cls [(48, 53)]) 0 1), (Re.cls [(48, 57)])]),
    (Re.seqs [(Re.rep (Re.cls [(48, 57)]) 4 4), (Re.cls [(68, 68)]), (Re.rep (Re.cls [(48, 51)]) 0 1), (Re.rep (Re.cls [(48, 57)]) 1 2)])]

/-- DataTypes/_time_checking.py _sdmx_period_re = ^\d{4}-\d{1,2}$|^\d{4}-\d{2}-\d{2}$|^\d{4}-M(0[1-9]|1[0-2]|[1-9])$|^\d{4}-Q[1-4]$|^\d{4}-S[1-2]$|^\d{4}-W([0-4]\d|5[0-3]|[1-9])$|^\d{4}-D[0-3]?\d{1,2}$|^\d{4}-A1$ -/
def pandas_sdmx_period_re : Re :=
  Re.alts [(Re.seqs [(Re.rep (Re.cls [(48, 57)]) 4 4), (Re.cls [(45, 45)]), (Re.rep (Re.cls [(48, 57)]) 1 2)]),
    (Re.seqs [(Re.rep (Re.cls [(48, 57)]) 4 4), (Re.cls [(45, 45)]), (Re.rep (Re.cls [(48, 57)]) 2 2), (Re.cls [(45, 45)]), (Re.rep (Re.cls [(48, 57)]) 2 2)]),
    (Re.seqs [(Re.rep (Re.cls [(48, 57)]) 4 4), (Re.cls [(45, 45)]), (Re.cls [(77, 77)]), ((Re.alts [(Re.seqs [(Re.cls [(48, 48)]), (Re.cls [(49, 57)])]), (Re.seqs [(Re.cls [(49, 49)]), (Re.cls [(48, 50)])]), (Re.cls [(49, 57)])]))]),
    (Re.seqs [(Re.rep (Re.cls [(48, 57)]) 4 4), (Re.cls [(45, 45)]), (Re.cls [(81, 81)]), (Re.cls [(49, 52)])]),
    (Re.seqs [(Re.rep (Re.cls [(48, 57)]) 4 4), (Re.cls [(45, 45)]), (Re.cls [(83, 83)]), (Re.cls [(49, 50)])]),
    (Re.seqs [(Re.rep (Re.cls [(48, 57)]) 4 4), (Re.cls [(45, 45)]), (Re.cls [(87, 87)]), ((Re.alts [(Re.seqs [(Re.cls [(48, 52)]), (Re.cls [(48, 57)])]), (Re.seqs [(Re.cls [(53, 53)]), (Re.cls [(48, 51)])]), (Re.cls [(49, 57)])]))]),
    (Re.seqs [(Re.rep (Re.cls [(48, 57)]) 4 4), (Re.cls [(45, 45)]), (Re.cls [(68, 68)]), (Re.rep (Re.cls [(48, 51)]) 0 1), (Re.rep (Re.cls [(48, 57)]) 1 2)]),
    (Re.seqs [(Re.rep (Re.cls [(48, 57)]) 4 4), (Re.cls [(45, 45)]), (Re.cls [(65, 65)]), (Re.cls [(49, 49)])])]

/-- DataTypes/_time_checking.py _iso_date_re = ^(\d{4})-(\d{1,2})-(\d{1,2})$ -/
def pandas_iso_date_re : Re :=
  (Re.seqs [((Re.rep (Re.cls [(48, 57)]) 4 4)), (Re.cls [(45, 45)]), ((Re.rep (Re.cls [(48, 57)]) 1 2)), (Re.cls [(45, 45)]), ((Re.rep (Re.cls [(48, 57)]) 1 2))])

/-- DataTypes/_time_checking.py _iso_month_re = ^(\d{4})-(\d{1,2})$ -/
def pandas_iso_month_re : Re :=
  (Re.seqs [((Re.rep (Re.cls [(48, 57)]) 4 4)), (Re.cls [(45, 45)]), ((Re.rep (Re.cls [(48, 57)]) 1 2))])

/-- Config/config.py DEFAULT_DECIMAL_WIDTH / DEFAULT_DECIMAL_SCALE -/
def decimalWidth : Int := 28
def decimalScale : Int := 10

def patternByName (n : String) : Option Re :=
  if n = "sql_TIME_PERIOD_PATTERN" then some sql_TIME_PERIOD_PATTERN else
  if n = "sql_TIME_INTERVAL_PATTERN" then some sql_TIME_INTERVAL_PATTERN else
  if n = "sql_DURATION_PATTERN" then some sql_DURATION_PATTERN else
  if n = "sql_VALID_DATE_REGEX" then some sql_VALID_DATE_REGEX else
  if n = "pandas_STRICT_DATETIME_RE" then some pandas_STRICT_DATETIME_RE else
  if n = "pandas_time_pattern" then some pandas_time_pattern else
  if n = "pandas_year_pattern" then some pandas_year_pattern else
  if n = "pandas_month_pattern" then some pandas_month_pattern else
  if n = "pandas_vtl_period_re" then some pandas_vtl_period_re else
  if n = "pandas_sdmx_period_re" then some pandas_sdmx_period_re else
  if n = "pandas_iso_date_re" then some pandas_iso_date_re else
  if n = "pandas_iso_month_re" then some pandas_iso_month_re else
  none

end VtlModel.Input.Gen

-- GENERATED from /repo by harness/translate on every run. Do not edit.
namespace VtlModel.Gen.ExprGrammar

/-- alternatives of `expr` in grammar order: (label, flattened symbols) -/
def exprAlts : List (String × List String) := [
    ("parenthesisExpr", ["LPAREN", "expr", "RPAREN"]),
    ("functionsExpression", ["functions"]),
    ("clauseExpr", ["expr", "QLPAREN", "datasetClause", "QRPAREN"]),
    ("membershipExpr", ["expr", "MEMBERSHIP", "IDENTIFIER"]),
    ("unaryExpr", ["PLUS", "MINUS", "NOT", "expr"]),
    ("arithmeticExpr", ["expr", "MUL", "DIV", "expr"]),
    ("arithmeticExprOrConcat", ["expr", "PLUS", "MINUS", "CONCAT", "expr"]),
    ("comparisonExpr", ["expr", "MT", "ME", "LE", "LT", "EQ", "NEQ", "expr"]),
    ("inNotInExpr", ["expr", "IN", "NOT_IN", "lists", "IDENTIFIER"]),
    ("booleanExpr", ["expr", "AND", "expr"]),
    ("booleanExpr", ["expr", "OR", "XOR", "expr"]),
    ("ifExpr", ["IF", "expr", "THEN", "expr", "ELSE", "expr"]),
    ("caseExpr", ["CASE", "WHEN", "expr", "THEN", "expr", "ELSE", "expr"]),
    ("constantExpr", ["constant"]),
    ("varIdExpr", ["IDENTIFIER"])]

/-- alternatives of `exprComponent` in grammar order -/
def exprCompAlts : List (String × List String) := [
    ("parenthesisExprComp", ["LPAREN", "exprComponent", "RPAREN"]),
    ("functionsExpressionComp", ["functionsComponents"]),
    ("unaryExprComp", ["PLUS", "MINUS", "NOT", "exprComponent"]),
    ("arithmeticExprComp", ["exprComponent", "MUL", "DIV", "exprComponent"]),
    ("arithmeticExprOrConcatComp", ["exprComponent", "PLUS", "MINUS", "CONCAT", "exprComponent"]),
    ("comparisonExprComp", ["exprComponent", "MT", "ME", "LE", "LT", "EQ", "NEQ", "exprComponent"]),
    ("inNotInExprComp", ["exprComponent", "IN", "NOT_IN", "lists", "IDENTIFIER"]),
    ("booleanExprComp", ["exprComponent", "AND", "exprComponent"]),
    ("booleanExprComp", ["exprComponent", "OR", "XOR", "exprComponent"]),
    ("ifExprComp", ["IF", "exprComponent", "THEN", "exprComponent", "ELSE", "exprComponent"]),
    ("caseExprComp", ["CASE", "WHEN", "exprComponent", "THEN", "exprComponent", "ELSE", "exprComponent"]),
    ("constantExprComp", ["constant"]),
    ("compId", ["componentID"])]

end VtlModel.Gen.ExprGrammar

-- GENERATED from /repo by harness/translate on every run. Do not edit.
import VtlModel.Tables.Decimal
namespace VtlModel.Gen.ConfigBounds
open VtlModel.Tables.Decimal

def DECIMAL_WIDTH_ENV_VAR : String := "VTL_DUCKDB_DECIMAL_WIDTH"
def DECIMAL_SCALE_ENV_VAR : String := "OUTPUT_NUMBER_SIGNIFICANT_DIGITS"
def DEFAULT_DECIMAL_WIDTH : Int := 28
def DEFAULT_DECIMAL_SCALE : Int := 10
def MAX_DECIMAL_WIDTH : Int := 38
def MIN_DECIMAL_WIDTH : Int := 6
def MAX_DECIMAL_SCALE : Int := 15
def MIN_DECIMAL_SCALE : Int := 6
def DISABLE_VALUE : Int := -1
/-- module-level initial values of DECIMAL_WIDTH / DECIMAL_SCALE -/
def initial : St := ⟨DEFAULT_DECIMAL_WIDTH, DEFAULT_DECIMAL_SCALE⟩

/-- `set_decimal_config`, statement by statement; `g` = (DECIMAL_WIDTH, DECIMAL_SCALE) before the call,
    `env` = the integer value of an environment variable when it is set.  Returns the globals after the call
    (also after a failing one: the assignments happen before the checks) and the raised error, if any. -/
def setDecimalConfig (env : String → Option Int) (g : St) : St × Option ConfigError :=
  let l_width : Int := (env DECIMAL_WIDTH_ENV_VAR).getD DEFAULT_DECIMAL_WIDTH
  let l_scale : Int := (env DECIMAL_SCALE_ENV_VAR).getD DEFAULT_DECIMAL_SCALE
  let l_width : Int := if (l_width = DISABLE_VALUE) then MAX_DECIMAL_WIDTH else l_width
  let l_scale : Int := if (l_scale = DISABLE_VALUE) then MAX_DECIMAL_SCALE else l_scale
  if ((l_scale < MIN_DECIMAL_SCALE) ∨ (l_scale > MAX_DECIMAL_SCALE)) then (g, some ⟨"0-4-1-1", DECIMAL_SCALE_ENV_VAR, l_scale, MIN_DECIMAL_SCALE, MAX_DECIMAL_SCALE, DISABLE_VALUE⟩) else
  if ((l_width < MIN_DECIMAL_WIDTH) ∨ (l_width > MAX_DECIMAL_WIDTH)) then (g, some ⟨"0-4-1-1", DECIMAL_WIDTH_ENV_VAR, l_width, MIN_DECIMAL_WIDTH, MAX_DECIMAL_WIDTH, DISABLE_VALUE⟩) else
  let t_121_0 : Int := l_width
  let t_121_1 : Int := l_scale
  let g : St := { g with w := t_121_0 }
  let g : St := { g with s := t_121_1 }
  (g, none)

/-- `get_decimal_type` -/
def decimalType (g : St) : String := "DECIMAL(" ++ toString g.w ++ "," ++ toString g.s ++ ")"

/-- docs/environment_variables.rst -/
def docWidthMin : Int := 6
def docWidthMax : Int := 38
def docWidthDisable : Int := -1
def docWidthDisableMeans : Int := 38
def docWidthDefault : Int := 28
def docScaleMin : Int := 6
def docScaleMax : Int := 15
def docScaleDisable : Int := -1
def docScaleDisableMeans : Int := 15
def docScaleDefault : Int := 10

end VtlModel.Gen.ConfigBounds

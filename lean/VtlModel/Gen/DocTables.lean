-- GENERATED from /repo by harness/translate on every run. Do not edit.
import VtlModel.Types.Ty
namespace VtlModel.Gen.DocTables
open VtlModel

/-- docs/data_types.rst, "Implicit Casting (Automatic)": cells marked implemented (rows/columns: the 8 basic types) -/
def implicitCell : Ty → Ty → Bool
  | Ty.string, Ty.string => true
  | Ty.number, Ty.number => true
  | Ty.number, Ty.integer => true
  | Ty.integer, Ty.number => true
  | Ty.integer, Ty.integer => true
  | Ty.time, Ty.time => true
  | Ty.date, Ty.time => true
  | Ty.date, Ty.date => true
  | Ty.timePeriod, Ty.time => true
  | Ty.timePeriod, Ty.timePeriod => true
  | Ty.duration, Ty.duration => true
  | Ty.boolean, Ty.string => true
  | Ty.boolean, Ty.boolean => true
  | _, _ => false

/-- docs/data_types.rst, "Supported conversions without mask": cells marked implemented -/
def explicitCell : Ty → Ty → Bool
  | Ty.string, Ty.string => true
  | Ty.string, Ty.number => true
  | Ty.string, Ty.integer => true
  | Ty.string, Ty.time => true
  | Ty.string, Ty.date => true
  | Ty.string, Ty.timePeriod => true
  | Ty.string, Ty.duration => true
  | Ty.number, Ty.string => true
  | Ty.number, Ty.number => true
  | Ty.number, Ty.integer => true
  | Ty.number, Ty.boolean => true
  | Ty.integer, Ty.string => true
  | Ty.integer, Ty.number => true
  | Ty.integer, Ty.integer => true
  | Ty.integer, Ty.boolean => true
  | Ty.time, Ty.string => true
  | Ty.time, Ty.time => true
  | Ty.date, Ty.string => true
  | Ty.date, Ty.date => true
  | Ty.date, Ty.timePeriod => true
  | Ty.timePeriod, Ty.string => true
  | Ty.timePeriod, Ty.timePeriod => true
  | Ty.duration, Ty.string => true
  | Ty.duration, Ty.duration => true
  | Ty.boolean, Ty.string => true
  | Ty.boolean, Ty.number => true
  | Ty.boolean, Ty.integer => true
  | Ty.boolean, Ty.boolean => true
  | _, _ => false

/-- "Supported conversions with mask": cells marked "defined in VTL 2.2 but not yet implemented" -/
def withMaskPending : List (Ty × Ty) := [(Ty.string, Ty.number), (Ty.string, Ty.time), (Ty.string, Ty.date), (Ty.string, Ty.timePeriod), (Ty.string, Ty.duration), (Ty.time, Ty.string), (Ty.date, Ty.string), (Ty.timePeriod, Ty.date), (Ty.duration, Ty.string)]

/-- "Cast on datasets": target type -> renamed measure -/
def renameCell : Ty → Option String
  | Ty.string => some "str_var"
  | Ty.number => some "num_var"
  | Ty.integer => some "int_var"
  | Ty.time => some "time_var"
  | Ty.date => some "date_var"
  | Ty.timePeriod => some "time_period_var"
  | Ty.duration => some "duration_var"
  | Ty.boolean => some "bool_var"
  | _ => none

/-- "Type Hierarchy": the `(subtype of X)` annotations (strict, direct) -/
def subtypeOf : Ty → Ty → Bool
  | Ty.date, Ty.time => true
  | Ty.integer, Ty.number => true
  | Ty.timePeriod, Ty.time => true
  | _, _ => false

/-- sentence present in the docs: "Null is compatible with every type" / "compatible with all other types for implicit promotion" -/
def nullRule : Bool := true

/-- sentence present in the docs: note: when the source type can be implicitly promoted to the target type the measure is not renamed -/
def norenameNote : Bool := true

/-- sentence present in the docs: "String to Integer: Must be a valid integer string (rejects "3.5")" -/
def strIntRule : Bool := true

/-- sentence present in the docs: "Boolean to String: true becomes "True", false becomes "False"" -/
def boolStrRule : Bool := true

/-- sentence present in the docs: "Date to Time: "2020-01-15" becomes "2020-01-15/2020-01-15"" -/
def dateTimeRule : Bool := true

end VtlModel.Gen.DocTables

-- GENERATED from /repo by harness/translate on every run. Do not edit.
import VtlModel.Errors.Model
import VtlModel.Gen.Catalogue
namespace VtlModel.Gen.RaiseSites
open VtlModel.Errors

-- exception classes: 0=DataLoadError, 1=InputValidationException, 2=RunTimeError, 3=SemanticError
def raiseSites0 : List Site := [
  ⟨740, 741, 106, 1, [92], true, true, [52, 91], false⟩,  -- 0 API/_InternalApi.py:106
  ⟨740, 742, 191, 1, [11], true, true, [9], false⟩,  -- 1 API/_InternalApi.py:191
  ⟨740, 742, 197, 1, [11], true, true, [9], false⟩,  -- 2 API/_InternalApi.py:197
  ⟨740, 742, 206, 1, [11], true, true, [9], false⟩,  -- 3 API/_InternalApi.py:206
  ⟨740, 742, 211, 0, [96], true, true, [24], false⟩,  -- 4 API/_InternalApi.py:211
  ⟨740, 743, 263, 1, [11], true, true, [9], false⟩,  -- 5 API/_InternalApi.py:263
  ⟨740, 743, 269, 1, [11], true, true, [9], false⟩,  -- 6 API/_InternalApi.py:269
  ⟨740, 743, 277, 1, [11], true, true, [9], false⟩,  -- 7 API/_InternalApi.py:277
  ⟨740, 743, 287, 0, [96], true, true, [24], false⟩,  -- 8 API/_InternalApi.py:287
  ⟨740, 744, 339, 1, [11], true, true, [9], false⟩,  -- 9 API/_InternalApi.py:339
  ⟨740, 744, 345, 0, [96], true, true, [24], false⟩,  -- 10 API/_InternalApi.py:345
  ⟨740, 744, 374, 1, [16], true, true, [13, 15], false⟩,  -- 11 API/_InternalApi.py:374
  ⟨740, 745, 426, 1, [57], true, true, [29], false⟩,  -- 12 API/_InternalApi.py:426
  ⟨740, 745, 429, 1, [63], true, true, [29, 62, 60, 44], false⟩,  -- 13 API/_InternalApi.py:429
  ⟨740, 746, 528, 1, [146], true, true, [], false⟩,  -- 14 API/_InternalApi.py:528
  ⟨740, 747, 577, 1, [11], true, true, [9], false⟩,  -- 15 API/_InternalApi.py:577
  ⟨740, 747, 581, 0, [96], true, true, [24], false⟩,  -- 16 API/_InternalApi.py:581
  ⟨740, 747, 583, 1, [16], true, true, [13, 15], false⟩,  -- 17 API/_InternalApi.py:583
  ⟨740, 748, 612, 1, [92], true, true, [52, 91], false⟩,  -- 18 API/_InternalApi.py:612
  ⟨740, 749, 617, 1, [16], true, true, [13, 15], false⟩,  -- 19 API/_InternalApi.py:617
  ⟨740, 750, 653, 1, [11], true, true, [9], false⟩,  -- 20 API/_InternalApi.py:653
  ⟨740, 750, 657, 0, [96], true, true, [24], false⟩,  -- 21 API/_InternalApi.py:657
  ⟨740, 750, 665, 1, [16], true, true, [13, 15], false⟩,  -- 22 API/_InternalApi.py:665
  ⟨740, 751, 701, 1, [11], true, true, [9], false⟩,  -- 23 API/_InternalApi.py:701
  ⟨740, 751, 705, 0, [96], true, true, [24], false⟩,  -- 24 API/_InternalApi.py:705
  ⟨740, 752, 729, 1, [11], true, true, [9], false⟩,  -- 25 API/_InternalApi.py:729
  ⟨740, 752, 731, 0, [96], true, true, [24], false⟩,  -- 26 API/_InternalApi.py:731
  ⟨740, 752, 733, 1, [16], true, true, [13, 15], false⟩,  -- 27 API/_InternalApi.py:733
  ⟨740, 753, 751, 1, [11], true, true, [9], false⟩,  -- 28 API/_InternalApi.py:751
  ⟨740, 753, 759, 0, [100], true, true, [98], false⟩,  -- 29 API/_InternalApi.py:759
  ⟨740, 753, 762, 0, [100], true, true, [98], false⟩,  -- 30 API/_InternalApi.py:762
  ⟨740, 753, 765, 0, [100], true, true, [98], false⟩,  -- 31 API/_InternalApi.py:765
  ⟨740, 754, 981, 0, [137], true, true, [91, 136], false⟩,  -- 32 API/_InternalApi.py:981
  ⟨740, 754, 984, 0, [137], true, true, [91, 136], false⟩,  -- 33 API/_InternalApi.py:984
  ⟨740, 754, 994, 0, [137], true, true, [91, 136], false⟩,  -- 34 API/_InternalApi.py:994
  ⟨740, 755, 1010, 1, [7], true, true, [5], false⟩,  -- 35 API/_InternalApi.py:1010
  ⟨756, 757, 580, 1, [88], true, true, [60], false⟩,  -- 36 API/__init__.py:580
  ⟨756, 757, 589, 1, [82], true, true, [80], false⟩,  -- 37 API/__init__.py:589
  ⟨756, 757, 597, 1, [73], true, true, [71], false⟩,  -- 38 API/__init__.py:597
  ⟨756, 757, 599, 1, [79], true, true, [77], false⟩,  -- 39 API/__init__.py:599
  ⟨756, 757, 608, 1, [85], true, true, [84], false⟩,  -- 40 API/__init__.py:608
  ⟨758, 759, 103, 1, [75], true, true, [], false⟩,  -- 41 API/_sdmx_utils.py:103
  ⟨758, 759, 105, 1, [69], true, true, [68], false⟩,  -- 42 API/_sdmx_utils.py:105
  ⟨758, 759, 108, 1, [73], true, true, [71], false⟩,  -- 43 API/_sdmx_utils.py:108
  ⟨760, 761, 287, 3, [619], true, true, [164], false⟩,  -- 44 AST/ASTConstructor.py:287
  ⟨760, 762, 475, 3, [362], true, true, [360], false⟩,  -- 45 AST/ASTConstructor.py:475
  ⟨763, 764, 535, 3, [617], true, true, [581], false⟩,  -- 46 AST/ASTConstructorModules/Expr.py:535
  ⟨763, 764, 544, 3, [617], true, true, [581], false⟩,  -- 47 AST/ASTConstructorModules/Expr.py:544
  ⟨763, 765, 1047, 3, [624], true, true, [], false⟩,  -- 48 AST/ASTConstructorModules/Expr.py:1047
  ⟨763, 766, 1234, 3, [348], true, true, [164], false⟩  -- 49 AST/ASTConstructorModules/Expr.py:1234
]
def raiseSites1 : List Site := [
  ⟨763, 767, 1354, 3, [348], true, true, [164], false⟩,  -- 50 AST/ASTConstructorModules/Expr.py:1354
  ⟨768, 769, 338, 3, [617], true, true, [581], false⟩,  -- 51 AST/ASTConstructorModules/ExprComponents.py:338
  ⟨768, 769, 347, 3, [617], true, true, [581], false⟩,  -- 52 AST/ASTConstructorModules/ExprComponents.py:347
  ⟨768, 770, 630, 3, [517], true, true, [164], false⟩,  -- 53 AST/ASTConstructorModules/ExprComponents.py:630
  ⟨771, 772, 147, 3, [614], true, true, [], false⟩,  -- 54 AST/DAG/__init__.py:147
  ⟨771, 773, 173, 3, [622], true, true, [621, 164], false⟩,  -- 55 AST/DAG/__init__.py:173
  ⟨771, 774, 204, 3, [539], true, true, [538], false⟩,  -- 56 AST/DAG/__init__.py:204
  ⟨775, 776, 79, 2, [656], true, true, [655], false⟩,  -- 57 DataTypes/TimeHandling.py:79
  ⟨775, 777, 125, 2, [673], true, true, [672], false⟩,  -- 58 DataTypes/TimeHandling.py:125
  ⟨775, 778, 202, 2, [688], true, true, [684], false⟩,  -- 59 DataTypes/TimeHandling.py:202
  ⟨775, 779, 221, 2, [656], true, true, [655], false⟩,  -- 60 DataTypes/TimeHandling.py:221
  ⟨775, 780, 235, 2, [678], true, true, [677, 675], false⟩,  -- 61 DataTypes/TimeHandling.py:235
  ⟨775, 780, 244, 2, [685], true, true, [682, 684], false⟩,  -- 62 DataTypes/TimeHandling.py:244
  ⟨775, 780, 247, 2, [685], true, true, [682, 684], false⟩,  -- 63 DataTypes/TimeHandling.py:247
  ⟨775, 781, 273, 2, [710], true, true, [164, 708, 709], false⟩,  -- 64 DataTypes/TimeHandling.py:273
  ⟨775, 782, 342, 2, [653], true, true, [651, 44], false⟩,  -- 65 DataTypes/TimeHandling.py:342
  ⟨775, 783, 372, 2, [715], true, true, [655], false⟩,  -- 66 DataTypes/TimeHandling.py:372
  ⟨775, 784, 448, 2, [667], true, true, [665, 44], false⟩,  -- 67 DataTypes/TimeHandling.py:448
  ⟨775, 785, 456, 2, [670], true, true, [665, 44], false⟩,  -- 68 DataTypes/TimeHandling.py:456
  ⟨775, 786, 490, 2, [704], true, true, [164, 114], false⟩,  -- 69 DataTypes/TimeHandling.py:490
  ⟨775, 787, 493, 2, [704], true, true, [164, 114], false⟩,  -- 70 DataTypes/TimeHandling.py:493
  ⟨775, 788, 496, 2, [704], true, true, [164, 114], false⟩,  -- 71 DataTypes/TimeHandling.py:496
  ⟨775, 789, 499, 2, [704], true, true, [164, 114], false⟩,  -- 72 DataTypes/TimeHandling.py:499
  ⟨775, 790, 585, 2, [662], true, true, [658, 660], false⟩,  -- 73 DataTypes/TimeHandling.py:585
  ⟨775, 791, 612, 2, [680], true, true, [665], false⟩,  -- 74 DataTypes/TimeHandling.py:612
  ⟨775, 791, 616, 2, [680], true, true, [665], false⟩,  -- 75 DataTypes/TimeHandling.py:616
  ⟨792, 793, 132, 3, [235], true, true, [158, 159, 44], false⟩,  -- 76 DataTypes/__init__.py:132
  ⟨792, 794, 155, 2, [235], true, true, [158, 159, 44], false⟩,  -- 77 DataTypes/__init__.py:155
  ⟨792, 795, 186, 2, [235], true, true, [158, 159, 44], false⟩,  -- 78 DataTypes/__init__.py:186
  ⟨792, 796, 206, 2, [235], true, true, [158, 159, 44], false⟩,  -- 79 DataTypes/__init__.py:206
  ⟨792, 797, 269, 2, [235], true, true, [158, 159, 44], false⟩,  -- 80 DataTypes/__init__.py:269
  ⟨792, 798, 286, 2, [235], true, true, [158, 159, 44], false⟩,  -- 81 DataTypes/__init__.py:286
  ⟨792, 798, 293, 2, [235], true, true, [158, 159, 44], false⟩,  -- 82 DataTypes/__init__.py:293
  ⟨792, 798, 301, 2, [235], true, true, [158, 159, 44], false⟩,  -- 83 DataTypes/__init__.py:301
  ⟨792, 799, 360, 2, [235], true, true, [158, 159, 44], false⟩,  -- 84 DataTypes/__init__.py:360
  ⟨792, 800, 371, 2, [235], true, true, [158, 159, 44], false⟩,  -- 85 DataTypes/__init__.py:371
  ⟨792, 801, 399, 2, [235], true, true, [158, 159, 44], false⟩,  -- 86 DataTypes/__init__.py:399
  ⟨792, 802, 414, 2, [235], true, true, [158, 159, 44], false⟩,  -- 87 DataTypes/__init__.py:414
  ⟨792, 802, 424, 2, [235], true, true, [158, 159, 44], false⟩,  -- 88 DataTypes/__init__.py:424
  ⟨792, 802, 431, 2, [235], true, true, [158, 159, 44], false⟩,  -- 89 DataTypes/__init__.py:431
  ⟨792, 803, 459, 2, [235], true, true, [158, 159, 44], false⟩,  -- 90 DataTypes/__init__.py:459
  ⟨792, 804, 472, 2, [235], true, true, [158, 159, 44], false⟩,  -- 91 DataTypes/__init__.py:472
  ⟨792, 804, 485, 2, [235], true, true, [158, 159, 44], false⟩,  -- 92 DataTypes/__init__.py:485
  ⟨792, 804, 496, 2, [235], true, true, [158, 159, 44], false⟩,  -- 93 DataTypes/__init__.py:496
  ⟨792, 804, 503, 2, [235], true, true, [158, 159, 44], false⟩,  -- 94 DataTypes/__init__.py:503
  ⟨792, 805, 548, 1, [235], true, true, [158, 159, 44], false⟩,  -- 95 DataTypes/__init__.py:548
  ⟨792, 806, 558, 2, [235], true, true, [158, 159, 44], false⟩,  -- 96 DataTypes/__init__.py:558
  ⟨792, 807, 574, 2, [235], true, true, [158, 159, 44], false⟩,  -- 97 DataTypes/__init__.py:574
  ⟨792, 807, 583, 2, [235], true, true, [158, 159, 44], false⟩,  -- 98 DataTypes/__init__.py:583
  ⟨792, 808, 634, 2, [235], true, true, [158, 159, 44], false⟩  -- 99 DataTypes/__init__.py:634
]
def raiseSites2 : List Site := [
  ⟨792, 809, 648, 2, [235], true, true, [158, 159, 44], false⟩,  -- 100 DataTypes/__init__.py:648
  ⟨792, 810, 817, 3, [162], true, true, [158, 159, 161], false⟩,  -- 101 DataTypes/__init__.py:817
  ⟨792, 810, 848, 3, [160], true, true, [158, 159], false⟩,  -- 102 DataTypes/__init__.py:848
  ⟨792, 811, 896, 3, [160], true, true, [158, 159], false⟩,  -- 103 DataTypes/__init__.py:896
  ⟨812, 813, 127, 3, [36], true, true, [35, 32, 34], false⟩,  -- 104 Exceptions/__init__.py:127
  ⟨814, 815, 159, 3, [548], true, true, [], false⟩,  -- 105 Interpreter/__init__.py:159
  ⟨814, 815, 177, 3, [643], true, true, [29], false⟩,  -- 106 Interpreter/__init__.py:177
  ⟨814, 815, 188, 3, [66], true, true, [65], false⟩,  -- 107 Interpreter/__init__.py:188
  ⟨814, 815, 190, 3, [66], true, true, [65], false⟩,  -- 108 Interpreter/__init__.py:190
  ⟨814, 816, 219, 3, [612], true, true, [], false⟩,  -- 109 Interpreter/__init__.py:219
  ⟨814, 817, 233, 3, [605], true, true, [29, 114], false⟩,  -- 110 Interpreter/__init__.py:233
  ⟨814, 817, 240, 3, [597], true, true, [65, 596, 114], false⟩,  -- 111 Interpreter/__init__.py:240
  ⟨814, 818, 311, 3, [630], true, true, [29], false⟩,  -- 112 Interpreter/__init__.py:311
  ⟨814, 818, 318, 3, [634], true, true, [29, 632], false⟩,  -- 113 Interpreter/__init__.py:318
  ⟨814, 818, 325, 3, [626, 628], false, true, [29], false⟩,  -- 114 Interpreter/__init__.py:325
  ⟨814, 818, 361, 3, [640], true, true, [637, 29, 114], false⟩,  -- 115 Interpreter/__init__.py:361
  ⟨814, 819, 419, 3, [254], true, true, [108, 80], false⟩,  -- 116 Interpreter/__init__.py:419
  ⟨814, 820, 490, 3, [720], true, true, [498, 164], false⟩,  -- 117 Interpreter/__init__.py:490
  ⟨814, 820, 494, 3, [368], true, true, [164], false⟩,  -- 118 Interpreter/__init__.py:494
  ⟨814, 820, 497, 3, [571], true, true, [], false⟩,  -- 119 Interpreter/__init__.py:497
  ⟨814, 821, 544, 3, [265], true, true, [80, 164, 263], false⟩,  -- 120 Interpreter/__init__.py:544
  ⟨814, 821, 598, 3, [735], true, true, [108, 432, 503], false⟩,  -- 121 Interpreter/__init__.py:598
  ⟨814, 821, 609, 3, [735], true, true, [108, 432, 503], false⟩,  -- 122 Interpreter/__init__.py:609
  ⟨814, 821, 621, 3, [720], true, true, [498, 164], false⟩,  -- 123 Interpreter/__init__.py:621
  ⟨814, 822, 698, 3, [739], true, true, [470], false⟩,  -- 124 Interpreter/__init__.py:698
  ⟨814, 822, 701, 3, [739], true, true, [470], false⟩,  -- 125 Interpreter/__init__.py:701
  ⟨814, 822, 728, 3, [644], true, true, [540, 62], false⟩,  -- 126 Interpreter/__init__.py:728
  ⟨814, 823, 742, 3, [180], true, true, [108, 80, 164], false⟩,  -- 127 Interpreter/__init__.py:742
  ⟨814, 823, 761, 3, [268], true, true, [108], false⟩,  -- 128 Interpreter/__init__.py:761
  ⟨814, 823, 779, 3, [180], true, true, [108, 80], false⟩,  -- 129 Interpreter/__init__.py:779
  ⟨814, 823, 785, 3, [393], true, true, [108], false⟩,  -- 130 Interpreter/__init__.py:785
  ⟨814, 823, 788, 3, [180], true, true, [108, 80], false⟩,  -- 131 Interpreter/__init__.py:788
  ⟨814, 823, 806, 3, [356], true, true, [108], false⟩,  -- 132 Interpreter/__init__.py:806
  ⟨814, 823, 809, 3, [180], true, true, [108, 80], false⟩,  -- 133 Interpreter/__init__.py:809
  ⟨814, 823, 824, 3, [729], true, true, [80], false⟩,  -- 134 Interpreter/__init__.py:824
  ⟨814, 824, 842, 3, [548], true, true, [370], false⟩,  -- 135 Interpreter/__init__.py:842
  ⟨814, 824, 854, 3, [737], true, true, [432], false⟩,  -- 136 Interpreter/__init__.py:854
  ⟨814, 824, 856, 3, [558], true, true, [29], false⟩,  -- 137 Interpreter/__init__.py:856
  ⟨814, 824, 860, 3, [560], true, true, [29], false⟩,  -- 138 Interpreter/__init__.py:860
  ⟨814, 825, 866, 3, [199], true, true, [164], false⟩,  -- 139 Interpreter/__init__.py:866
  ⟨814, 825, 880, 3, [573], true, true, [164], false⟩,  -- 140 Interpreter/__init__.py:880
  ⟨814, 826, 973, 3, [290], true, true, [288, 164, 286], false⟩,  -- 141 Interpreter/__init__.py:973
  ⟨814, 827, 1014, 3, [170], true, true, [164], false⟩,  -- 142 Interpreter/__init__.py:1014
  ⟨814, 827, 1016, 3, [331], true, true, [29, 164], false⟩,  -- 143 Interpreter/__init__.py:1016
  ⟨814, 827, 1018, 3, [328], true, true, [29, 164], false⟩,  -- 144 Interpreter/__init__.py:1018
  ⟨814, 828, 1052, 3, [393], true, true, [108], false⟩,  -- 145 Interpreter/__init__.py:1052
  ⟨814, 829, 1125, 3, [214], true, true, [206, 164], false⟩,  -- 146 Interpreter/__init__.py:1125
  ⟨814, 829, 1138, 3, [211], true, true, [114], false⟩,  -- 147 Interpreter/__init__.py:1138
  ⟨814, 829, 1154, 3, [644], true, true, [540, 62], false⟩,  -- 148 Interpreter/__init__.py:1154
  ⟨814, 830, 1180, 3, [551], true, true, [550, 544], false⟩  -- 149 Interpreter/__init__.py:1180
]
def raiseSites3 : List Site := [
  ⟨814, 830, 1182, 3, [551], true, true, [550, 544], false⟩,  -- 150 Interpreter/__init__.py:1182
  ⟨814, 830, 1185, 3, [199], true, true, [164], false⟩,  -- 151 Interpreter/__init__.py:1185
  ⟨814, 830, 1191, 3, [341], true, true, [164], false⟩,  -- 152 Interpreter/__init__.py:1191
  ⟨814, 830, 1194, 3, [346], true, true, [345, 343, 164], false⟩,  -- 153 Interpreter/__init__.py:1194
  ⟨814, 830, 1201, 3, [348], true, true, [164], false⟩,  -- 154 Interpreter/__init__.py:1201
  ⟨814, 830, 1211, 3, [353], true, true, [345, 343, 164], false⟩,  -- 155 Interpreter/__init__.py:1211
  ⟨814, 830, 1226, 3, [350], true, true, [], false⟩,  -- 156 Interpreter/__init__.py:1226
  ⟨814, 830, 1232, 3, [366], true, true, [365, 360], false⟩,  -- 157 Interpreter/__init__.py:1232
  ⟨814, 830, 1287, 3, [644], true, true, [540, 62], false⟩,  -- 158 Interpreter/__init__.py:1287
  ⟨814, 831, 1292, 3, [551], true, true, [550, 544], false⟩,  -- 159 Interpreter/__init__.py:1292
  ⟨814, 831, 1296, 3, [551], true, true, [550, 544], false⟩,  -- 160 Interpreter/__init__.py:1296
  ⟨814, 831, 1302, 3, [199], true, true, [164], false⟩,  -- 161 Interpreter/__init__.py:1302
  ⟨814, 831, 1308, 3, [180], true, true, [108, 80], false⟩,  -- 162 Interpreter/__init__.py:1308
  ⟨814, 831, 1320, 3, [346], true, true, [345, 343, 164], false⟩,  -- 163 Interpreter/__init__.py:1320
  ⟨814, 832, 1434, 3, [648], true, true, [646], false⟩,  -- 164 Interpreter/__init__.py:1434
  ⟨814, 832, 1437, 3, [737], true, true, [432], false⟩,  -- 165 Interpreter/__init__.py:1437
  ⟨814, 832, 1440, 3, [644], true, true, [540, 62], false⟩,  -- 166 Interpreter/__init__.py:1440
  ⟨814, 833, 1467, 3, [731], true, true, [], false⟩,  -- 167 Interpreter/__init__.py:1467
  ⟨814, 834, 1477, 3, [737], true, true, [432], false⟩,  -- 168 Interpreter/__init__.py:1477
  ⟨814, 834, 1479, 3, [542], true, true, [540, 62], false⟩,  -- 169 Interpreter/__init__.py:1479
  ⟨814, 834, 1487, 3, [542], true, true, [540, 62], false⟩,  -- 170 Interpreter/__init__.py:1487
  ⟨814, 834, 1491, 3, [569], true, true, [164], false⟩,  -- 171 Interpreter/__init__.py:1491
  ⟨814, 834, 1504, 3, [567], true, true, [345, 164, 565], false⟩,  -- 172 Interpreter/__init__.py:1504
  ⟨814, 834, 1521, 3, [583], true, true, [164, 581, 158, 159], false⟩,  -- 173 Interpreter/__init__.py:1521
  ⟨814, 834, 1532, 3, [583], true, true, [164, 581, 158, 159], false⟩,  -- 174 Interpreter/__init__.py:1532
  ⟨814, 834, 1549, 3, [583], true, true, [164, 581, 158, 159], false⟩,  -- 175 Interpreter/__init__.py:1549
  ⟨814, 834, 1558, 3, [726], true, true, [164, 725, 472, 722], false⟩,  -- 176 Interpreter/__init__.py:1558
  ⟨814, 834, 1596, 3, [583], true, true, [164, 581, 158, 159], false⟩,  -- 177 Interpreter/__init__.py:1596
  ⟨814, 835, 1640, 3, [624], true, true, [], false⟩,  -- 178 Interpreter/__init__.py:1640
  ⟨814, 835, 1642, 3, [624], true, true, [], false⟩,  -- 179 Interpreter/__init__.py:1642
  ⟨836, 837, 53, 1, [63], true, true, [29, 62, 60, 44], false⟩,  -- 180 Model/__init__.py:53
  ⟨836, 838, 279, 3, [42], true, true, [38, 40], false⟩,  -- 181 Model/__init__.py:279
  ⟨836, 839, 452, 1, [63], true, true, [29, 62, 60, 44], false⟩,  -- 182 Model/__init__.py:452
  ⟨840, 841, 51, 3, [175], true, true, [29, 164], false⟩,  -- 183 Operators/Aggregation.py:51
  ⟨840, 841, 55, 3, [180], true, true, [108, 80, 164], false⟩,  -- 184 Operators/Aggregation.py:55
  ⟨840, 841, 62, 3, [209], true, true, [206, 208, 164], false⟩,  -- 185 Operators/Aggregation.py:62
  ⟨840, 841, 88, 3, [529], true, true, [527, 164], false⟩,  -- 186 Operators/Aggregation.py:88
  ⟨842, 843, 80, 3, [180], true, true, [108, 80, 164], false⟩,  -- 187 Operators/Analytic.py:80
  ⟨842, 843, 87, 3, [216], true, true, [206, 208, 164], false⟩,  -- 188 Operators/Analytic.py:87
  ⟨842, 843, 95, 3, [180], true, true, [108, 80, 164], false⟩,  -- 189 Operators/Analytic.py:95
  ⟨842, 843, 103, 3, [529], true, true, [527, 164], false⟩,  -- 190 Operators/Analytic.py:103
  ⟨842, 843, 115, 3, [532], true, true, [108, 496, 164], false⟩,  -- 191 Operators/Analytic.py:115
  ⟨842, 843, 125, 3, [529], true, true, [527, 164], false⟩,  -- 192 Operators/Analytic.py:125
  ⟨842, 843, 134, 3, [529], true, true, [527, 164], false⟩,  -- 193 Operators/Analytic.py:134
  ⟨842, 843, 169, 3, [175], true, true, [29, 164], false⟩,  -- 194 Operators/Analytic.py:169
  ⟨844, 845, 17, 3, [272], true, true, [108, 164], false⟩,  -- 195 Operators/Assignment.py:17
  ⟨846, 847, 50, 3, [228], true, true, [164, 158, 159], false⟩,  -- 196 Operators/CastOperator.py:50
  ⟨848, 849, 32, 3, [272], true, true, [108, 164], false⟩,  -- 197 Operators/Clause.py:32
  ⟨848, 850, 70, 3, [272], true, true, [108, 164], false⟩,  -- 198 Operators/Clause.py:70
  ⟨848, 851, 114, 3, [180], true, true, [108, 80, 164], false⟩  -- 199 Operators/Clause.py:114
]
def raiseSites4 : List Site := [
  ⟨848, 851, 118, 3, [246], true, true, [1, 29, 164], false⟩,  -- 200 Operators/Clause.py:118
  ⟨848, 852, 138, 3, [180], true, true, [108, 80], false⟩,  -- 201 Operators/Clause.py:138
  ⟨848, 852, 140, 3, [246], true, true, [1, 29, 164], false⟩,  -- 202 Operators/Clause.py:140
  ⟨848, 852, 142, 3, [270], true, true, [164], false⟩,  -- 203 Operators/Clause.py:142
  ⟨848, 853, 158, 3, [262], true, true, [261, 164], false⟩,  -- 204 Operators/Clause.py:158
  ⟨848, 853, 163, 3, [536], true, true, [534], false⟩,  -- 205 Operators/Clause.py:163
  ⟨848, 853, 168, 3, [180], true, true, [108, 80, 164], false⟩,  -- 206 Operators/Clause.py:168
  ⟨848, 853, 175, 3, [259], true, true, [108, 80, 164], false⟩,  -- 207 Operators/Clause.py:175
  ⟨848, 854, 215, 3, [563], true, true, [164], false⟩,  -- 208 Operators/Clause.py:215
  ⟨848, 854, 217, 3, [246], true, true, [1, 29, 164], false⟩,  -- 209 Operators/Clause.py:217
  ⟨848, 854, 222, 3, [274], true, true, [1, 29, 164], false⟩,  -- 210 Operators/Clause.py:222
  ⟨848, 855, 258, 3, [563], true, true, [164], false⟩,  -- 211 Operators/Clause.py:258
  ⟨848, 855, 262, 3, [183], true, true, [80, 164], false⟩,  -- 212 Operators/Clause.py:262
  ⟨848, 855, 267, 3, [180], true, true, [108, 80, 164], false⟩,  -- 213 Operators/Clause.py:267
  ⟨848, 855, 274, 3, [265], true, true, [80, 164, 263], false⟩,  -- 214 Operators/Clause.py:274
  ⟨848, 855, 281, 3, [251], true, true, [29, 164], false⟩,  -- 215 Operators/Clause.py:281
  ⟨856, 857, 167, 3, [170], true, true, [164], false⟩,  -- 216 Operators/Comparison.py:167
  ⟨856, 858, 181, 3, [175], true, true, [29, 164], false⟩,  -- 217 Operators/Comparison.py:181
  ⟨856, 859, 244, 3, [576], true, true, [418, 276, 164, 419, 280], false⟩,  -- 218 Operators/Comparison.py:244
  ⟨860, 861, 40, 3, [308], true, true, [29, 164, 114], false⟩,  -- 219 Operators/Conditional.py:40
  ⟨860, 861, 62, 3, [313], true, true, [311, 164, 310], false⟩,  -- 220 Operators/Conditional.py:62
  ⟨860, 861, 66, 3, [313], true, true, [311, 164, 310], false⟩,  -- 221 Operators/Conditional.py:66
  ⟨860, 861, 75, 3, [305], true, true, [298, 164], false⟩,  -- 222 Operators/Conditional.py:75
  ⟨860, 861, 84, 3, [305], true, true, [298, 164], false⟩,  -- 223 Operators/Conditional.py:84
  ⟨860, 861, 86, 3, [319], true, true, [317, 164, 315], false⟩,  -- 224 Operators/Conditional.py:86
  ⟨860, 861, 97, 3, [293], true, true, [29, 164], false⟩,  -- 225 Operators/Conditional.py:97
  ⟨860, 861, 99, 3, [295], true, true, [164, 114], false⟩,  -- 226 Operators/Conditional.py:99
  ⟨860, 861, 105, 3, [297], true, true, [164], false⟩,  -- 227 Operators/Conditional.py:105
  ⟨860, 862, 196, 3, [321], true, true, [164], false⟩,  -- 228 Operators/Conditional.py:196
  ⟨860, 862, 205, 3, [324], true, true, [29, 164], false⟩,  -- 229 Operators/Conditional.py:205
  ⟨860, 862, 207, 3, [326], true, true, [164], false⟩,  -- 230 Operators/Conditional.py:207
  ⟨860, 862, 227, 3, [328], true, true, [29, 164], false⟩,  -- 231 Operators/Conditional.py:227
  ⟨860, 862, 249, 3, [170], true, true, [164], false⟩,  -- 232 Operators/Conditional.py:249
  ⟨860, 862, 251, 3, [331], true, true, [29, 164], false⟩,  -- 233 Operators/Conditional.py:251
  ⟨860, 862, 254, 3, [333], true, true, [164], false⟩,  -- 234 Operators/Conditional.py:254
  ⟨860, 862, 260, 3, [335], true, true, [164], false⟩,  -- 235 Operators/Conditional.py:260
  ⟨863, 864, 27, 3, [180], true, true, [108, 80, 164], false⟩,  -- 236 Operators/General.py:27
  ⟨863, 865, 70, 3, [579], true, true, [534], false⟩,  -- 237 Operators/General.py:70
  ⟨863, 866, 100, 3, [202], true, true, [201], false⟩,  -- 238 Operators/General.py:100
  ⟨863, 866, 102, 3, [204], true, true, [], false⟩,  -- 239 Operators/General.py:102
  ⟨863, 866, 124, 2, [218], true, true, [91, 164], false⟩,  -- 240 Operators/General.py:124
  ⟨863, 866, 128, 2, [218], true, true, [91, 164], false⟩,  -- 241 Operators/General.py:128
  ⟨863, 867, 151, 3, [180], true, true, [108, 80, 164], false⟩,  -- 242 Operators/General.py:151
  ⟨868, 869, 130, 3, [393], true, true, [108], false⟩,  -- 243 Operators/Join.py:130
  ⟨868, 870, 171, 3, [180], true, true, [108, 80], false⟩,  -- 244 Operators/Join.py:171
  ⟨868, 871, 186, 3, [395], true, true, [], false⟩,  -- 245 Operators/Join.py:186
  ⟨868, 871, 191, 3, [563], true, true, [164], false⟩,  -- 246 Operators/Join.py:191
  ⟨868, 871, 200, 3, [393], true, true, [108], false⟩,  -- 247 Operators/Join.py:200
  ⟨868, 872, 220, 3, [416], true, true, [206, 164, 158, 159], false⟩,  -- 248 Operators/Join.py:220
  ⟨868, 873, 234, 3, [407], true, true, [29, 164], false⟩  -- 249 Operators/Join.py:234
]
def raiseSites5 : List Site := [
  ⟨868, 873, 243, 3, [401], true, true, [399, 397, 164], false⟩,  -- 250 Operators/Join.py:243
  ⟨868, 873, 259, 3, [380], true, true, [1, 164, 378], false⟩,  -- 251 Operators/Join.py:259
  ⟨868, 873, 262, 3, [387], true, true, [164, 386, 384], false⟩,  -- 252 Operators/Join.py:262
  ⟨868, 873, 273, 3, [382], true, true, [164, 378], false⟩,  -- 253 Operators/Join.py:273
  ⟨868, 873, 279, 3, [180], true, true, [108, 80, 164], false⟩,  -- 254 Operators/Join.py:279
  ⟨868, 874, 323, 3, [391], true, true, [164], false⟩,  -- 255 Operators/Join.py:323
  ⟨868, 874, 330, 3, [405], true, true, [164], false⟩,  -- 256 Operators/Join.py:330
  ⟨868, 874, 332, 3, [403], true, true, [164], false⟩,  -- 257 Operators/Join.py:332
  ⟨868, 875, 344, 3, [391], true, true, [164], false⟩,  -- 258 Operators/Join.py:344
  ⟨876, 877, 207, 3, [441], true, true, [432, 164], false⟩,  -- 259 Operators/Numeric.py:207
  ⟨876, 877, 210, 3, [441], true, true, [432, 164], false⟩,  -- 260 Operators/Numeric.py:210
  ⟨876, 878, 252, 3, [447], true, true, [164, 44], false⟩,  -- 261 Operators/Numeric.py:252
  ⟨879, 880, 36, 3, [197], true, true, [], false⟩,  -- 262 Operators/RoleSetter.py:36
  ⟨881, 882, 13, 3, [464], true, true, [461, 462, 164], false⟩,  -- 263 Operators/Set.py:13
  ⟨883, 884, 40, 3, [466], true, true, [29, 164], false⟩,  -- 264 Operators/String.py:40
  ⟨883, 885, 124, 3, [482], true, true, [345, 479, 164], false⟩,  -- 265 Operators/String.py:124
  ⟨883, 886, 131, 3, [471], true, true, [164, 470], false⟩,  -- 266 Operators/String.py:131
  ⟨883, 886, 135, 3, [475], true, true, [474, 164, 472], false⟩,  -- 267 Operators/String.py:135
  ⟨883, 887, 145, 3, [475], true, true, [474, 164, 472], false⟩,  -- 268 Operators/String.py:145
  ⟨883, 887, 147, 3, [475], true, true, [474, 164, 472], false⟩,  -- 269 Operators/String.py:147
  ⟨883, 888, 159, 3, [471], true, true, [164, 470], false⟩,  -- 270 Operators/String.py:159
  ⟨883, 888, 163, 3, [475], true, true, [474, 164, 472], false⟩,  -- 271 Operators/String.py:163
  ⟨883, 889, 168, 3, [482], true, true, [345, 479, 164], false⟩,  -- 272 Operators/String.py:168
  ⟨883, 890, 243, 3, [494], true, true, [492, 493, 164], false⟩,  -- 273 Operators/String.py:243
  ⟨883, 891, 319, 3, [490], true, true, [164], false⟩,  -- 274 Operators/String.py:319
  ⟨883, 892, 332, 3, [482], true, true, [345, 479, 164], false⟩,  -- 275 Operators/String.py:332
  ⟨883, 893, 339, 3, [488], true, true, [164], false⟩,  -- 276 Operators/String.py:339
  ⟨883, 893, 344, 3, [475], true, true, [474, 164, 472], false⟩,  -- 277 Operators/String.py:344
  ⟨883, 893, 349, 3, [475], true, true, [474, 164, 472], false⟩,  -- 278 Operators/String.py:349
  ⟨883, 893, 354, 3, [475], true, true, [474, 164, 472], false⟩,  -- 279 Operators/String.py:354
  ⟨883, 894, 367, 3, [475], true, true, [474, 164, 472], false⟩,  -- 280 Operators/String.py:367
  ⟨883, 894, 369, 3, [475], true, true, [474, 164, 472], false⟩,  -- 281 Operators/String.py:369
  ⟨895, 896, 63, 3, [519], true, true, [432, 164], false⟩,  -- 282 Operators/Time.py:63
  ⟨895, 896, 67, 3, [519], true, true, [432, 164], false⟩,  -- 283 Operators/Time.py:67
  ⟨895, 896, 70, 3, [499], true, true, [498, 496, 164], false⟩,  -- 284 Operators/Time.py:70
  ⟨895, 897, 129, 3, [519], true, true, [432, 164], false⟩,  -- 285 Operators/Time.py:129
  ⟨895, 897, 131, 3, [519], true, true, [432, 164], false⟩,  -- 286 Operators/Time.py:131
  ⟨895, 898, 152, 3, [519], true, true, [432, 164], false⟩,  -- 287 Operators/Time.py:152
  ⟨895, 898, 167, 3, [519], true, true, [432, 164], false⟩,  -- 288 Operators/Time.py:167
  ⟨895, 899, 196, 3, [519], true, true, [432, 164], false⟩,  -- 289 Operators/Time.py:196
  ⟨895, 899, 201, 3, [519], true, true, [432, 164], false⟩,  -- 290 Operators/Time.py:201
  ⟨895, 900, 214, 3, [519], true, true, [432, 164], false⟩,  -- 291 Operators/Time.py:214
  ⟨895, 901, 232, 3, [512], true, true, [164], false⟩,  -- 292 Operators/Time.py:232
  ⟨895, 901, 234, 3, [515], true, true, [498, 164], false⟩,  -- 293 Operators/Time.py:234
  ⟨895, 901, 236, 3, [525], true, true, [], false⟩,  -- 294 Operators/Time.py:236
  ⟨895, 902, 251, 3, [505], true, true, [164, 503], false⟩,  -- 295 Operators/Time.py:251
  ⟨895, 903, 260, 3, [510], true, true, [164, 507, 508], false⟩,  -- 296 Operators/Time.py:260
  ⟨895, 904, 273, 3, [512], true, true, [164], false⟩,  -- 297 Operators/Time.py:273
  ⟨895, 904, 275, 3, [515], true, true, [498, 164], false⟩,  -- 298 Operators/Time.py:275
  ⟨895, 904, 277, 3, [525], true, true, [], false⟩  -- 299 Operators/Time.py:277
]
def raiseSites6 : List Site := [
  ⟨895, 904, 280, 3, [521], true, true, [432, 164, 503], false⟩,  -- 300 Operators/Time.py:280
  ⟨895, 905, 301, 3, [519], true, true, [432, 164], false⟩,  -- 301 Operators/Time.py:301
  ⟨895, 905, 303, 3, [512], true, true, [164], false⟩,  -- 302 Operators/Time.py:303
  ⟨895, 905, 305, 3, [515], true, true, [498, 164], false⟩,  -- 303 Operators/Time.py:305
  ⟨895, 905, 307, 3, [525], true, true, [], false⟩,  -- 304 Operators/Time.py:307
  ⟨895, 906, 318, 3, [519], true, true, [432, 164], false⟩,  -- 305 Operators/Time.py:318
  ⟨895, 906, 320, 3, [512], true, true, [164], false⟩,  -- 306 Operators/Time.py:320
  ⟨895, 906, 322, 3, [515], true, true, [498, 164], false⟩,  -- 307 Operators/Time.py:322
  ⟨895, 906, 324, 3, [525], true, true, [], false⟩,  -- 308 Operators/Time.py:324
  ⟨895, 907, 371, 3, [519], true, true, [432, 164], false⟩,  -- 309 Operators/Time.py:371
  ⟨895, 907, 373, 3, [162], true, true, [158, 159, 161], false⟩,  -- 310 Operators/Time.py:373
  ⟨895, 908, 406, 3, [694, 696], false, true, [345, 29, 164, 114], false⟩,  -- 311 Operators/Time.py:406
  ⟨895, 908, 433, 3, [698], true, true, [29, 164], false⟩,  -- 312 Operators/Time.py:433
  ⟨895, 909, 443, 3, [519], true, true, [432, 164], false⟩,  -- 313 Operators/Time.py:443
  ⟨895, 909, 451, 3, [523], true, true, [164], false⟩,  -- 314 Operators/Time.py:451
  ⟨895, 910, 494, 2, [718], true, true, [345, 164, 44], false⟩,  -- 315 Operators/Time.py:494
  ⟨895, 911, 506, 2, [718], true, true, [345, 164, 44], false⟩,  -- 316 Operators/Time.py:506
  ⟨912, 913, 34, 3, [339], true, true, [338, 164, 62], false⟩,  -- 317 Operators/Validation.py:34
  ⟨912, 913, 37, 3, [339], true, true, [338, 164, 62], false⟩,  -- 318 Operators/Validation.py:37
  ⟨912, 913, 57, 3, [339], true, true, [338, 164, 62], false⟩,  -- 319 Operators/Validation.py:57
  ⟨912, 913, 61, 3, [339], true, true, [338, 164, 62], false⟩,  -- 320 Operators/Validation.py:61
  ⟨912, 914, 188, 3, [339], true, true, [338, 164, 62], false⟩,  -- 321 Operators/Validation.py:188
  ⟨912, 914, 193, 3, [339], true, true, [338, 164, 62], false⟩,  -- 322 Operators/Validation.py:193
  ⟨912, 914, 197, 3, [180], true, true, [108, 80, 164], false⟩,  -- 323 Operators/Validation.py:197
  ⟨912, 914, 204, 3, [555], true, true, [29, 554], false⟩,  -- 324 Operators/Validation.py:204
  ⟨915, 916, 129, 3, [420], true, true, [418, 164, 419], false⟩,  -- 325 Operators/__init__.py:129
  ⟨915, 916, 136, 3, [175], true, true, [29, 164], false⟩,  -- 326 Operators/__init__.py:136
  ⟨915, 916, 149, 3, [563], true, true, [164], false⟩,  -- 327 Operators/__init__.py:149
  ⟨915, 916, 151, 3, [576], true, true, [418, 276, 164, 419, 280], false⟩,  -- 328 Operators/__init__.py:151
  ⟨915, 917, 188, 3, [175], true, true, [29, 164], false⟩,  -- 329 Operators/__init__.py:188
  ⟨915, 918, 202, 3, [162], true, true, [158, 159, 161], false⟩,  -- 330 Operators/__init__.py:202
  ⟨915, 919, 253, 3, [175], true, true, [29, 164], false⟩,  -- 331 Operators/__init__.py:253
  ⟨915, 920, 356, 3, [170], true, true, [164], false⟩,  -- 332 Operators/__init__.py:356
  ⟨915, 921, 382, 3, [175], true, true, [29, 164], false⟩,  -- 333 Operators/__init__.py:382
  ⟨915, 922, 427, 3, [168], true, true, [165, 29, 164, 167], false⟩,  -- 334 Operators/__init__.py:427
  ⟨915, 923, 438, 3, [172], true, true, [29, 164, 114], false⟩,  -- 335 Operators/__init__.py:438
  ⟨915, 924, 467, 3, [170], true, true, [164], false⟩,  -- 336 Operators/__init__.py:467
  ⟨925, 926, 51, 2, [156], true, true, [154, 148, 152, 151, 44], false⟩,  -- 337 Utils/_number_config.py:51
  ⟨925, 926, 64, 2, [156], true, true, [154, 148, 152, 151, 44], false⟩,  -- 338 Utils/_number_config.py:64
  ⟨927, 928, 102, 2, [156], true, true, [154, 148, 152, 151, 44], false⟩,  -- 339 duckdb_transpiler/Config/config.py:102
  ⟨927, 928, 112, 2, [156], true, true, [154, 148, 152, 151, 44], false⟩,  -- 340 duckdb_transpiler/Config/config.py:112
  ⟨929, 930, 732, 2, [704], true, true, [164], false⟩,  -- 341 duckdb_transpiler/Transpiler/__init__.py:732
  ⟨929, 931, 1619, 3, [447], true, true, [164, 44], false⟩,  -- 342 duckdb_transpiler/Transpiler/__init__.py:1619
  ⟨929, 932, 3671, 3, [180], true, true, [108, 80, 164], false⟩,  -- 343 duckdb_transpiler/Transpiler/__init__.py:3671
  ⟨929, 933, 3860, 3, [624], true, true, [], false⟩,  -- 344 duckdb_transpiler/Transpiler/__init__.py:3860
  ⟨934, 935, 140, 3, [475], true, true, [474, 164, 472], false⟩,  -- 345 duckdb_transpiler/Transpiler/operators.py:140
  ⟨936, 937, 64, 2, [653], true, true, [651, 44], false⟩,  -- 346 duckdb_transpiler/io/_execution.py:64
  ⟨936, 938, 81, 2, [712], true, true, [164], false⟩,  -- 347 duckdb_transpiler/io/_execution.py:81
  ⟨936, 938, 89, 2, [710], true, true, [164, 708, 709], false⟩,  -- 348 duckdb_transpiler/io/_execution.py:89
  ⟨936, 938, 96, 2, [702], true, true, [164], false⟩  -- 349 duckdb_transpiler/io/_execution.py:96
]
def raiseSites7 : List Site := [
  ⟨936, 938, 100, 2, [715], true, true, [655], false⟩,  -- 350 duckdb_transpiler/io/_execution.py:100
  ⟨936, 938, 109, 2, [235], true, true, [158, 159, 44], false⟩,  -- 351 duckdb_transpiler/io/_execution.py:109
  ⟨936, 938, 114, 2, [235], true, true, [158, 159, 44], false⟩,  -- 352 duckdb_transpiler/io/_execution.py:114
  ⟨936, 938, 119, 2, [235], true, true, [158, 159, 44], false⟩,  -- 353 duckdb_transpiler/io/_execution.py:119
  ⟨936, 938, 128, 2, [680], true, true, [665], false⟩,  -- 354 duckdb_transpiler/io/_execution.py:128
  ⟨936, 938, 132, 2, [456], true, true, [164], false⟩,  -- 355 duckdb_transpiler/io/_execution.py:132
  ⟨936, 938, 138, 3, [494], true, true, [492, 493, 164], false⟩,  -- 356 duckdb_transpiler/io/_execution.py:138
  ⟨936, 938, 142, 2, [220], true, true, [164], false⟩,  -- 357 duckdb_transpiler/io/_execution.py:142
  ⟨936, 938, 144, 2, [220], true, true, [164], false⟩,  -- 358 duckdb_transpiler/io/_execution.py:144
  ⟨936, 938, 148, 2, [460], true, true, [164, 44], false⟩,  -- 359 duckdb_transpiler/io/_execution.py:148
  ⟨936, 938, 152, 2, [450], true, true, [164, 44], false⟩,  -- 360 duckdb_transpiler/io/_execution.py:152
  ⟨939, 940, 72, 0, [106], true, true, [29], false⟩,  -- 361 duckdb_transpiler/io/_io.py:72
  ⟨939, 941, 104, 0, [117], true, true, [112, 91, 29, 114], false⟩,  -- 362 duckdb_transpiler/io/_io.py:104
  ⟨939, 942, 254, 1, [54], true, true, [52, 50], false⟩,  -- 363 duckdb_transpiler/io/_io.py:254
  ⟨939, 943, 345, 1, [54], true, true, [52, 50], false⟩,  -- 364 duckdb_transpiler/io/_io.py:345
  ⟨939, 944, 403, 1, [49], true, true, [46, 44], false⟩,  -- 365 duckdb_transpiler/io/_io.py:403
  ⟨945, 946, 93, 0, [144], true, true, [91, 29], false⟩,  -- 366 duckdb_transpiler/io/_validation.py:93
  ⟨945, 946, 101, 0, [120], true, true, [29, 119], false⟩,  -- 367 duckdb_transpiler/io/_validation.py:101
  ⟨945, 946, 108, 0, [104], true, true, [29, 103], false⟩,  -- 368 duckdb_transpiler/io/_validation.py:108
  ⟨945, 946, 110, 0, [104], true, true, [29, 103], false⟩,  -- 369 duckdb_transpiler/io/_validation.py:110
  ⟨945, 946, 122, 0, [117], true, true, [112, 91, 29, 114], false⟩,  -- 370 duckdb_transpiler/io/_validation.py:122
  ⟨945, 946, 129, 0, [117], true, true, [112, 91, 29, 114], false⟩,  -- 371 duckdb_transpiler/io/_validation.py:129
  ⟨945, 946, 147, 0, [117], true, true, [112, 91, 29, 114], false⟩,  -- 372 duckdb_transpiler/io/_validation.py:147
  ⟨945, 946, 154, 0, [117], true, true, [112, 91, 29, 114], false⟩,  -- 373 duckdb_transpiler/io/_validation.py:154
  ⟨945, 946, 163, 0, [117], true, true, [112, 91, 29, 114], false⟩,  -- 374 duckdb_transpiler/io/_validation.py:163
  ⟨945, 947, 282, 0, [120], true, true, [29, 119], false⟩,  -- 375 duckdb_transpiler/io/_validation.py:282
  ⟨945, 948, 293, 0, [96], true, true, [24], false⟩,  -- 376 duckdb_transpiler/io/_validation.py:293
  ⟨945, 949, 394, 0, [117], true, true, [112, 91, 29, 114], false⟩,  -- 377 duckdb_transpiler/io/_validation.py:394
  ⟨945, 950, 480, 0, [110], true, true, [108, 29], false⟩,  -- 378 duckdb_transpiler/io/_validation.py:480
  ⟨945, 951, 493, 1, [25], true, true, [24, 22], false⟩,  -- 379 duckdb_transpiler/io/_validation.py:493
  ⟨952, 953, 21, 1, [47], true, true, [46, 44], false⟩,  -- 380 files/output/_time_period_representation.py:21
  ⟨954, 955, 62, 0, [96], true, true, [24], false⟩,  -- 381 files/parser/__init__.py:62
  ⟨954, 955, 64, 0, [96], true, true, [24], false⟩,  -- 382 files/parser/__init__.py:64
  ⟨954, 955, 79, 1, [18], true, true, [24], false⟩,  -- 383 files/parser/__init__.py:79
  ⟨954, 955, 83, 1, [54], true, true, [52, 50], false⟩,  -- 384 files/parser/__init__.py:83
  ⟨954, 955, 93, 1, [25], true, true, [24, 22], false⟩,  -- 385 files/parser/__init__.py:93
  ⟨954, 956, 121, 1, [20], true, true, [24, 22], false⟩,  -- 386 files/parser/__init__.py:121
  ⟨954, 956, 128, 1, [110], true, true, [108, 29], false⟩,  -- 387 files/parser/__init__.py:128
  ⟨954, 957, 177, 0, [142], true, true, [141, 29], false⟩,  -- 388 files/parser/__init__.py:177
  ⟨954, 958, 199, 0, [110], true, true, [108, 29], false⟩,  -- 389 files/parser/__init__.py:199
  ⟨954, 958, 206, 0, [104], true, true, [29, 103], false⟩,  -- 390 files/parser/__init__.py:206
  ⟨954, 958, 209, 0, [106], true, true, [29], false⟩,  -- 391 files/parser/__init__.py:209
  ⟨954, 958, 269, 0, [117], true, true, [112, 91, 29, 114], false⟩,  -- 392 files/parser/__init__.py:269
  ⟨954, 959, 283, 0, [120], true, true, [29, 119], false⟩,  -- 393 files/parser/__init__.py:283
  ⟨954, 960, 326, 1, [11], true, true, [9], false⟩,  -- 394 files/parser/__init__.py:326
  ⟨961, 962, 105, 0, [123], true, true, [91, 24], false⟩,  -- 395 files/sdmx_handler.py:105
  ⟨961, 962, 112, 0, [126], true, true, [24], false⟩,  -- 396 files/sdmx_handler.py:112
  ⟨961, 963, 148, 0, [123], true, true, [91, 24], false⟩,  -- 397 files/sdmx_handler.py:148
  ⟨961, 963, 155, 0, [126], true, true, [24], false⟩,  -- 398 files/sdmx_handler.py:155
  ⟨961, 964, 215, 1, [20], true, true, [24, 22], false⟩  -- 399 files/sdmx_handler.py:215
]
def raiseSites8 : List Site := [
  ⟨961, 964, 224, 1, [110], true, true, [108, 29], false⟩,  -- 400 files/sdmx_handler.py:224
  ⟨961, 965, 252, 0, [132], true, true, [91, 24], false⟩,  -- 401 files/sdmx_handler.py:252
  ⟨961, 965, 257, 0, [134], true, true, [24], false⟩,  -- 402 files/sdmx_handler.py:257
  ⟨961, 965, 262, 0, [134], true, true, [24], false⟩  -- 403 files/sdmx_handler.py:262
]
def raiseSites : List Site := raiseSites0 ++ raiseSites1 ++ raiseSites2 ++ raiseSites3 ++ raiseSites4 ++ raiseSites5 ++ raiseSites6 ++ raiseSites7 ++ raiseSites8

/-- Certificate computed by the translator with the Python twin of `siteOkB`; `Props/C26.bad_sites_exact`
    makes the kernel re-compute it, so nothing about it is trusted. -/
def claimedBad : List Nat := []
def uncodedSites : Nat := 20

end VtlModel.Gen.RaiseSites

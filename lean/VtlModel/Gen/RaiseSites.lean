-- GENERATED from /repo by harness/translate on every run. Do not edit.
import VtlModel.Errors.Model
import VtlModel.Gen.Catalogue
namespace VtlModel.Gen.RaiseSites
open VtlModel.Errors

-- exception classes: 0=DataLoadError, 1=InputValidationException, 2=RunTimeError, 3=SemanticError
def raiseSites0 : List Site := [
  ⟨732, 733, 106, 1, [92], true, true, [52, 91], false⟩,  -- 0 API/_InternalApi.py:106
  ⟨732, 734, 191, 1, [11], true, true, [9], false⟩,  -- 1 API/_InternalApi.py:191
  ⟨732, 734, 197, 1, [11], true, true, [9], false⟩,  -- 2 API/_InternalApi.py:197
  ⟨732, 734, 206, 1, [11], true, true, [9], false⟩,  -- 3 API/_InternalApi.py:206
  ⟨732, 734, 211, 0, [96], true, true, [24], false⟩,  -- 4 API/_InternalApi.py:211
  ⟨732, 735, 263, 1, [11], true, true, [9], false⟩,  -- 5 API/_InternalApi.py:263
  ⟨732, 735, 269, 1, [11], true, true, [9], false⟩,  -- 6 API/_InternalApi.py:269
  ⟨732, 735, 277, 1, [11], true, true, [9], false⟩,  -- 7 API/_InternalApi.py:277
  ⟨732, 735, 287, 0, [96], true, true, [24], false⟩,  -- 8 API/_InternalApi.py:287
  ⟨732, 736, 339, 1, [11], true, true, [9], false⟩,  -- 9 API/_InternalApi.py:339
  ⟨732, 736, 345, 0, [96], true, true, [24], false⟩,  -- 10 API/_InternalApi.py:345
  ⟨732, 736, 374, 1, [16], true, true, [13, 15], false⟩,  -- 11 API/_InternalApi.py:374
  ⟨732, 737, 426, 1, [57], true, true, [29], false⟩,  -- 12 API/_InternalApi.py:426
  ⟨732, 737, 429, 1, [63], true, true, [29, 62, 60, 44], false⟩,  -- 13 API/_InternalApi.py:429
  ⟨732, 738, 528, 1, [146], true, true, [], false⟩,  -- 14 API/_InternalApi.py:528
  ⟨732, 739, 577, 1, [11], true, true, [9], false⟩,  -- 15 API/_InternalApi.py:577
  ⟨732, 739, 581, 0, [96], true, true, [24], false⟩,  -- 16 API/_InternalApi.py:581
  ⟨732, 739, 583, 1, [16], true, true, [13, 15], false⟩,  -- 17 API/_InternalApi.py:583
  ⟨732, 740, 612, 1, [92], true, true, [52, 91], false⟩,  -- 18 API/_InternalApi.py:612
  ⟨732, 741, 617, 1, [16], true, true, [13, 15], false⟩,  -- 19 API/_InternalApi.py:617
  ⟨732, 742, 653, 1, [11], true, true, [9], false⟩,  -- 20 API/_InternalApi.py:653
  ⟨732, 742, 657, 0, [96], true, true, [24], false⟩,  -- 21 API/_InternalApi.py:657
  ⟨732, 742, 665, 1, [16], true, true, [13, 15], false⟩,  -- 22 API/_InternalApi.py:665
  ⟨732, 743, 701, 1, [11], true, true, [9], false⟩,  -- 23 API/_InternalApi.py:701
  ⟨732, 743, 705, 0, [96], true, true, [24], false⟩,  -- 24 API/_InternalApi.py:705
  ⟨732, 744, 729, 1, [11], true, true, [9], false⟩,  -- 25 API/_InternalApi.py:729
  ⟨732, 744, 731, 0, [96], true, true, [24], false⟩,  -- 26 API/_InternalApi.py:731
  ⟨732, 744, 733, 1, [16], true, true, [13, 15], false⟩,  -- 27 API/_InternalApi.py:733
  ⟨732, 745, 751, 1, [11], true, true, [9], false⟩,  -- 28 API/_InternalApi.py:751
  ⟨732, 745, 759, 0, [100], true, true, [98], false⟩,  -- 29 API/_InternalApi.py:759
  ⟨732, 745, 762, 0, [100], true, true, [98], false⟩,  -- 30 API/_InternalApi.py:762
  ⟨732, 745, 765, 0, [100], true, true, [98], false⟩,  -- 31 API/_InternalApi.py:765
  ⟨732, 746, 981, 0, [137], true, true, [91, 136], false⟩,  -- 32 API/_InternalApi.py:981
  ⟨732, 746, 984, 0, [137], true, true, [91, 136], false⟩,  -- 33 API/_InternalApi.py:984
  ⟨732, 746, 994, 0, [137], true, true, [91, 136], false⟩,  -- 34 API/_InternalApi.py:994
  ⟨732, 747, 1010, 1, [7], true, true, [5], false⟩,  -- 35 API/_InternalApi.py:1010
  ⟨748, 749, 579, 1, [88], true, true, [60], false⟩,  -- 36 API/__init__.py:579
  ⟨748, 749, 588, 1, [82], true, true, [80], false⟩,  -- 37 API/__init__.py:588
  ⟨748, 749, 596, 1, [73], true, true, [71], false⟩,  -- 38 API/__init__.py:596
  ⟨748, 749, 598, 1, [79], true, true, [77], false⟩,  -- 39 API/__init__.py:598
  ⟨748, 749, 607, 1, [85], true, true, [84], false⟩,  -- 40 API/__init__.py:607
  ⟨750, 751, 103, 1, [75], true, true, [], false⟩,  -- 41 API/_sdmx_utils.py:103
  ⟨750, 751, 105, 1, [69], true, true, [68], false⟩,  -- 42 API/_sdmx_utils.py:105
  ⟨750, 751, 108, 1, [73], true, true, [71], false⟩,  -- 43 API/_sdmx_utils.py:108
  ⟨752, 753, 287, 3, [611], true, true, [164], false⟩,  -- 44 AST/ASTConstructor.py:287
  ⟨752, 754, 475, 3, [359], true, true, [357], false⟩,  -- 45 AST/ASTConstructor.py:475
  ⟨755, 756, 535, 3, [609], true, true, [573], false⟩,  -- 46 AST/ASTConstructorModules/Expr.py:535
  ⟨755, 756, 544, 3, [609], true, true, [573], false⟩,  -- 47 AST/ASTConstructorModules/Expr.py:544
  ⟨755, 757, 1047, 3, [616], true, true, [], false⟩,  -- 48 AST/ASTConstructorModules/Expr.py:1047
  ⟨755, 758, 1234, 3, [345], true, true, [164], false⟩  -- 49 AST/ASTConstructorModules/Expr.py:1234
]
def raiseSites1 : List Site := [
  ⟨755, 759, 1354, 3, [345], true, true, [164], false⟩,  -- 50 AST/ASTConstructorModules/Expr.py:1354
  ⟨760, 761, 338, 3, [609], true, true, [573], false⟩,  -- 51 AST/ASTConstructorModules/ExprComponents.py:338
  ⟨760, 761, 347, 3, [609], true, true, [573], false⟩,  -- 52 AST/ASTConstructorModules/ExprComponents.py:347
  ⟨760, 762, 630, 3, [512], true, true, [164], false⟩,  -- 53 AST/ASTConstructorModules/ExprComponents.py:630
  ⟨763, 764, 137, 3, [606], true, true, [], false⟩,  -- 54 AST/DAG/__init__.py:137
  ⟨763, 765, 163, 3, [614], true, true, [613, 164], false⟩,  -- 55 AST/DAG/__init__.py:163
  ⟨763, 766, 194, 3, [534], true, true, [533], false⟩,  -- 56 AST/DAG/__init__.py:194
  ⟨767, 768, 79, 2, [648], true, true, [647], false⟩,  -- 57 DataTypes/TimeHandling.py:79
  ⟨767, 769, 125, 2, [665], true, true, [664], false⟩,  -- 58 DataTypes/TimeHandling.py:125
  ⟨767, 770, 202, 2, [680], true, true, [676], false⟩,  -- 59 DataTypes/TimeHandling.py:202
  ⟨767, 771, 221, 2, [648], true, true, [647], false⟩,  -- 60 DataTypes/TimeHandling.py:221
  ⟨767, 772, 235, 2, [670], true, true, [669, 667], false⟩,  -- 61 DataTypes/TimeHandling.py:235
  ⟨767, 772, 244, 2, [677], true, true, [674, 676], false⟩,  -- 62 DataTypes/TimeHandling.py:244
  ⟨767, 772, 247, 2, [677], true, true, [674, 676], false⟩,  -- 63 DataTypes/TimeHandling.py:247
  ⟨767, 773, 273, 2, [702], true, true, [164, 700, 701], false⟩,  -- 64 DataTypes/TimeHandling.py:273
  ⟨767, 774, 342, 2, [645], true, true, [643, 44], false⟩,  -- 65 DataTypes/TimeHandling.py:342
  ⟨767, 775, 372, 2, [707], true, true, [647], false⟩,  -- 66 DataTypes/TimeHandling.py:372
  ⟨767, 776, 448, 2, [659], true, true, [657, 44], false⟩,  -- 67 DataTypes/TimeHandling.py:448
  ⟨767, 777, 456, 2, [662], true, true, [657, 44], false⟩,  -- 68 DataTypes/TimeHandling.py:456
  ⟨767, 778, 490, 2, [696], true, true, [164, 114], false⟩,  -- 69 DataTypes/TimeHandling.py:490
  ⟨767, 779, 493, 2, [696], true, true, [164, 114], false⟩,  -- 70 DataTypes/TimeHandling.py:493
  ⟨767, 780, 496, 2, [696], true, true, [164, 114], false⟩,  -- 71 DataTypes/TimeHandling.py:496
  ⟨767, 781, 499, 2, [696], true, true, [164, 114], false⟩,  -- 72 DataTypes/TimeHandling.py:499
  ⟨767, 782, 585, 2, [654], true, true, [650, 652], false⟩,  -- 73 DataTypes/TimeHandling.py:585
  ⟨767, 783, 612, 2, [672], true, true, [657], false⟩,  -- 74 DataTypes/TimeHandling.py:612
  ⟨767, 783, 616, 2, [672], true, true, [657], false⟩,  -- 75 DataTypes/TimeHandling.py:616
  ⟨784, 785, 132, 3, [232], true, true, [158, 159, 44], false⟩,  -- 76 DataTypes/__init__.py:132
  ⟨784, 786, 155, 2, [232], true, true, [158, 159, 44], false⟩,  -- 77 DataTypes/__init__.py:155
  ⟨784, 787, 186, 2, [232], true, true, [158, 159, 44], false⟩,  -- 78 DataTypes/__init__.py:186
  ⟨784, 788, 206, 2, [232], true, true, [158, 159, 44], false⟩,  -- 79 DataTypes/__init__.py:206
  ⟨784, 789, 269, 2, [232], true, true, [158, 159, 44], false⟩,  -- 80 DataTypes/__init__.py:269
  ⟨784, 790, 286, 2, [232], true, true, [158, 159, 44], false⟩,  -- 81 DataTypes/__init__.py:286
  ⟨784, 790, 293, 2, [232], true, true, [158, 159, 44], false⟩,  -- 82 DataTypes/__init__.py:293
  ⟨784, 790, 301, 2, [232], true, true, [158, 159, 44], false⟩,  -- 83 DataTypes/__init__.py:301
  ⟨784, 791, 360, 2, [232], true, true, [158, 159, 44], false⟩,  -- 84 DataTypes/__init__.py:360
  ⟨784, 792, 371, 2, [232], true, true, [158, 159, 44], false⟩,  -- 85 DataTypes/__init__.py:371
  ⟨784, 793, 399, 2, [232], true, true, [158, 159, 44], false⟩,  -- 86 DataTypes/__init__.py:399
  ⟨784, 794, 414, 2, [232], true, true, [158, 159, 44], false⟩,  -- 87 DataTypes/__init__.py:414
  ⟨784, 794, 424, 2, [232], true, true, [158, 159, 44], false⟩,  -- 88 DataTypes/__init__.py:424
  ⟨784, 794, 431, 2, [232], true, true, [158, 159, 44], false⟩,  -- 89 DataTypes/__init__.py:431
  ⟨784, 795, 459, 2, [232], true, true, [158, 159, 44], false⟩,  -- 90 DataTypes/__init__.py:459
  ⟨784, 796, 472, 2, [232], true, true, [158, 159, 44], false⟩,  -- 91 DataTypes/__init__.py:472
  ⟨784, 796, 485, 2, [232], true, true, [158, 159, 44], false⟩,  -- 92 DataTypes/__init__.py:485
  ⟨784, 796, 496, 2, [232], true, true, [158, 159, 44], false⟩,  -- 93 DataTypes/__init__.py:496
  ⟨784, 796, 503, 2, [232], true, true, [158, 159, 44], false⟩,  -- 94 DataTypes/__init__.py:503
  ⟨784, 797, 548, 1, [232], true, true, [158, 159, 44], false⟩,  -- 95 DataTypes/__init__.py:548
  ⟨784, 798, 558, 2, [232], true, true, [158, 159, 44], false⟩,  -- 96 DataTypes/__init__.py:558
  ⟨784, 799, 574, 2, [232], true, true, [158, 159, 44], false⟩,  -- 97 DataTypes/__init__.py:574
  ⟨784, 799, 583, 2, [232], true, true, [158, 159, 44], false⟩,  -- 98 DataTypes/__init__.py:583
  ⟨784, 800, 634, 2, [232], true, true, [158, 159, 44], false⟩  -- 99 DataTypes/__init__.py:634
]
def raiseSites2 : List Site := [
  ⟨784, 801, 648, 2, [232], true, true, [158, 159, 44], false⟩,  -- 100 DataTypes/__init__.py:648
  ⟨784, 802, 817, 3, [162], true, true, [158, 159, 161], false⟩,  -- 101 DataTypes/__init__.py:817
  ⟨784, 802, 846, 3, [160], true, true, [158, 159], false⟩,  -- 102 DataTypes/__init__.py:846
  ⟨784, 803, 894, 3, [160], true, true, [158, 159], false⟩,  -- 103 DataTypes/__init__.py:894
  ⟨804, 805, 127, 3, [36], true, true, [35, 32, 34], false⟩,  -- 104 Exceptions/__init__.py:127
  ⟨806, 807, 159, 3, [543], true, true, [], false⟩,  -- 105 Interpreter/__init__.py:159
  ⟨806, 807, 177, 3, [635], true, true, [29], false⟩,  -- 106 Interpreter/__init__.py:177
  ⟨806, 807, 188, 3, [66], true, true, [65], false⟩,  -- 107 Interpreter/__init__.py:188
  ⟨806, 807, 190, 3, [66], true, true, [65], false⟩,  -- 108 Interpreter/__init__.py:190
  ⟨806, 808, 219, 3, [604], true, true, [], false⟩,  -- 109 Interpreter/__init__.py:219
  ⟨806, 809, 233, 3, [597], true, true, [29, 114], false⟩,  -- 110 Interpreter/__init__.py:233
  ⟨806, 809, 240, 3, [589], true, true, [65, 588, 114], false⟩,  -- 111 Interpreter/__init__.py:240
  ⟨806, 810, 311, 3, [622], true, true, [29], false⟩,  -- 112 Interpreter/__init__.py:311
  ⟨806, 810, 318, 3, [626], true, true, [29, 624], false⟩,  -- 113 Interpreter/__init__.py:318
  ⟨806, 810, 325, 3, [618, 620], false, true, [29], false⟩,  -- 114 Interpreter/__init__.py:325
  ⟨806, 810, 361, 3, [632], true, true, [629, 29, 114], false⟩,  -- 115 Interpreter/__init__.py:361
  ⟨806, 811, 419, 3, [251], true, true, [108, 80], false⟩,  -- 116 Interpreter/__init__.py:419
  ⟨806, 812, 490, 3, [712], true, true, [493, 164], false⟩,  -- 117 Interpreter/__init__.py:490
  ⟨806, 812, 494, 3, [365], true, true, [164], false⟩,  -- 118 Interpreter/__init__.py:494
  ⟨806, 812, 497, 3, [566], true, true, [], false⟩,  -- 119 Interpreter/__init__.py:497
  ⟨806, 813, 544, 3, [262], true, true, [], false⟩,  -- 120 Interpreter/__init__.py:544
  ⟨806, 813, 593, 3, [727], true, true, [108, 429, 498], false⟩,  -- 121 Interpreter/__init__.py:593
  ⟨806, 813, 604, 3, [727], true, true, [108, 429, 498], false⟩,  -- 122 Interpreter/__init__.py:604
  ⟨806, 813, 616, 3, [712], true, true, [493, 164], false⟩,  -- 123 Interpreter/__init__.py:616
  ⟨806, 814, 693, 3, [731], true, true, [467], false⟩,  -- 124 Interpreter/__init__.py:693
  ⟨806, 814, 696, 3, [731], true, true, [467], false⟩,  -- 125 Interpreter/__init__.py:696
  ⟨806, 814, 723, 3, [636], true, true, [535, 62], false⟩,  -- 126 Interpreter/__init__.py:723
  ⟨806, 815, 737, 3, [180], true, true, [108, 80, 164], false⟩,  -- 127 Interpreter/__init__.py:737
  ⟨806, 815, 756, 3, [265], true, true, [108], false⟩,  -- 128 Interpreter/__init__.py:756
  ⟨806, 815, 774, 3, [180], true, true, [108, 80], false⟩,  -- 129 Interpreter/__init__.py:774
  ⟨806, 815, 780, 3, [390], true, true, [108], false⟩,  -- 130 Interpreter/__init__.py:780
  ⟨806, 815, 783, 3, [180], true, true, [108, 80], false⟩,  -- 131 Interpreter/__init__.py:783
  ⟨806, 815, 801, 3, [353], true, true, [108], false⟩,  -- 132 Interpreter/__init__.py:801
  ⟨806, 815, 804, 3, [180], true, true, [108, 80], false⟩,  -- 133 Interpreter/__init__.py:804
  ⟨806, 815, 819, 3, [721], true, true, [80], false⟩,  -- 134 Interpreter/__init__.py:819
  ⟨806, 816, 837, 3, [543], true, true, [367], false⟩,  -- 135 Interpreter/__init__.py:837
  ⟨806, 816, 849, 3, [729], true, true, [429], false⟩,  -- 136 Interpreter/__init__.py:849
  ⟨806, 816, 851, 3, [553], true, true, [29], false⟩,  -- 137 Interpreter/__init__.py:851
  ⟨806, 816, 855, 3, [555], true, true, [29], false⟩,  -- 138 Interpreter/__init__.py:855
  ⟨806, 817, 861, 3, [199], true, true, [164], false⟩,  -- 139 Interpreter/__init__.py:861
  ⟨806, 817, 875, 3, [568], true, true, [164], false⟩,  -- 140 Interpreter/__init__.py:875
  ⟨806, 818, 968, 3, [287], true, true, [285, 164, 283], false⟩,  -- 141 Interpreter/__init__.py:968
  ⟨806, 819, 1009, 3, [170], true, true, [164], false⟩,  -- 142 Interpreter/__init__.py:1009
  ⟨806, 819, 1011, 3, [328], true, true, [29, 164], false⟩,  -- 143 Interpreter/__init__.py:1011
  ⟨806, 819, 1013, 3, [325], true, true, [29, 164], false⟩,  -- 144 Interpreter/__init__.py:1013
  ⟨806, 820, 1047, 3, [390], true, true, [108], false⟩,  -- 145 Interpreter/__init__.py:1047
  ⟨806, 821, 1120, 3, [822], true, true, [206, 164], false⟩,  -- 146 Interpreter/__init__.py:1120
  ⟨806, 821, 1133, 3, [211], true, true, [114], false⟩,  -- 147 Interpreter/__init__.py:1133
  ⟨806, 821, 1149, 3, [636], true, true, [535, 62], false⟩,  -- 148 Interpreter/__init__.py:1149
  ⟨806, 823, 1175, 3, [546], true, true, [545, 539], false⟩  -- 149 Interpreter/__init__.py:1175
]
def raiseSites3 : List Site := [
  ⟨806, 823, 1177, 3, [546], true, true, [545, 539], false⟩,  -- 150 Interpreter/__init__.py:1177
  ⟨806, 823, 1180, 3, [199], true, true, [164], false⟩,  -- 151 Interpreter/__init__.py:1180
  ⟨806, 823, 1186, 3, [338], true, true, [164], false⟩,  -- 152 Interpreter/__init__.py:1186
  ⟨806, 823, 1189, 3, [343], true, true, [342, 340, 164], false⟩,  -- 153 Interpreter/__init__.py:1189
  ⟨806, 823, 1196, 3, [345], true, true, [164], false⟩,  -- 154 Interpreter/__init__.py:1196
  ⟨806, 823, 1206, 3, [350], true, true, [342, 340, 164], false⟩,  -- 155 Interpreter/__init__.py:1206
  ⟨806, 823, 1221, 3, [347], true, true, [], false⟩,  -- 156 Interpreter/__init__.py:1221
  ⟨806, 823, 1227, 3, [363], true, true, [362, 357], false⟩,  -- 157 Interpreter/__init__.py:1227
  ⟨806, 823, 1282, 3, [636], true, true, [535, 62], false⟩,  -- 158 Interpreter/__init__.py:1282
  ⟨806, 824, 1287, 3, [546], true, true, [545, 539], false⟩,  -- 159 Interpreter/__init__.py:1287
  ⟨806, 824, 1291, 3, [546], true, true, [545, 539], false⟩,  -- 160 Interpreter/__init__.py:1291
  ⟨806, 824, 1297, 3, [199], true, true, [164], false⟩,  -- 161 Interpreter/__init__.py:1297
  ⟨806, 824, 1303, 3, [180], true, true, [108, 80], false⟩,  -- 162 Interpreter/__init__.py:1303
  ⟨806, 824, 1315, 3, [343], true, true, [342, 340, 164], false⟩,  -- 163 Interpreter/__init__.py:1315
  ⟨806, 825, 1429, 3, [640], true, true, [638], false⟩,  -- 164 Interpreter/__init__.py:1429
  ⟨806, 825, 1432, 3, [729], true, true, [429], false⟩,  -- 165 Interpreter/__init__.py:1432
  ⟨806, 825, 1435, 3, [636], true, true, [535, 62], false⟩,  -- 166 Interpreter/__init__.py:1435
  ⟨806, 826, 1462, 3, [723], true, true, [], false⟩,  -- 167 Interpreter/__init__.py:1462
  ⟨806, 827, 1472, 3, [729], true, true, [429], false⟩,  -- 168 Interpreter/__init__.py:1472
  ⟨806, 827, 1474, 3, [537], true, true, [535, 62], false⟩,  -- 169 Interpreter/__init__.py:1474
  ⟨806, 827, 1482, 3, [537], true, true, [535, 62], false⟩,  -- 170 Interpreter/__init__.py:1482
  ⟨806, 827, 1486, 3, [564], true, true, [164], false⟩,  -- 171 Interpreter/__init__.py:1486
  ⟨806, 827, 1499, 3, [562], true, true, [342, 164, 560], false⟩,  -- 172 Interpreter/__init__.py:1499
  ⟨806, 827, 1516, 3, [575], true, true, [164, 573, 158, 159], false⟩,  -- 173 Interpreter/__init__.py:1516
  ⟨806, 827, 1527, 3, [575], true, true, [164, 573, 158, 159], false⟩,  -- 174 Interpreter/__init__.py:1527
  ⟨806, 827, 1544, 3, [575], true, true, [164, 573, 158, 159], false⟩,  -- 175 Interpreter/__init__.py:1544
  ⟨806, 827, 1553, 3, [718], true, true, [164, 717, 469, 714], false⟩,  -- 176 Interpreter/__init__.py:1553
  ⟨806, 827, 1591, 3, [575], true, true, [164, 573, 158, 159], false⟩,  -- 177 Interpreter/__init__.py:1591
  ⟨806, 828, 1635, 3, [616], true, true, [], false⟩,  -- 178 Interpreter/__init__.py:1635
  ⟨806, 828, 1637, 3, [616], true, true, [], false⟩,  -- 179 Interpreter/__init__.py:1637
  ⟨829, 830, 53, 1, [63], true, true, [29, 62, 60, 44], false⟩,  -- 180 Model/__init__.py:53
  ⟨829, 831, 279, 3, [42], true, true, [38, 40], false⟩,  -- 181 Model/__init__.py:279
  ⟨829, 832, 452, 1, [63], true, true, [29, 62, 60, 44], false⟩,  -- 182 Model/__init__.py:452
  ⟨833, 834, 51, 3, [175], true, true, [29, 164], false⟩,  -- 183 Operators/Aggregation.py:51
  ⟨833, 834, 55, 3, [180], true, true, [108, 80, 164], false⟩,  -- 184 Operators/Aggregation.py:55
  ⟨833, 834, 62, 3, [209], true, true, [206, 208, 164], false⟩,  -- 185 Operators/Aggregation.py:62
  ⟨833, 834, 88, 3, [524], true, true, [522, 164], false⟩,  -- 186 Operators/Aggregation.py:88
  ⟨835, 836, 80, 3, [180], true, true, [108, 80, 164], false⟩,  -- 187 Operators/Analytic.py:80
  ⟨835, 836, 87, 3, [213], true, true, [206, 208, 164], false⟩,  -- 188 Operators/Analytic.py:87
  ⟨835, 836, 95, 3, [180], true, true, [108, 80, 164], false⟩,  -- 189 Operators/Analytic.py:95
  ⟨835, 836, 103, 3, [524], true, true, [522, 164], false⟩,  -- 190 Operators/Analytic.py:103
  ⟨835, 836, 115, 3, [527], true, true, [108, 491, 164], false⟩,  -- 191 Operators/Analytic.py:115
  ⟨835, 836, 125, 3, [524], true, true, [522, 164], false⟩,  -- 192 Operators/Analytic.py:125
  ⟨835, 836, 134, 3, [524], true, true, [522, 164], false⟩,  -- 193 Operators/Analytic.py:134
  ⟨835, 836, 169, 3, [175], true, true, [29, 164], false⟩,  -- 194 Operators/Analytic.py:169
  ⟨837, 838, 17, 3, [269], true, true, [108, 164], false⟩,  -- 195 Operators/Assignment.py:17
  ⟨839, 840, 50, 3, [225], true, true, [164, 158, 159], false⟩,  -- 196 Operators/CastOperator.py:50
  ⟨841, 842, 32, 3, [269], true, true, [108, 164], false⟩,  -- 197 Operators/Clause.py:32
  ⟨841, 843, 70, 3, [269], true, true, [108, 164], false⟩,  -- 198 Operators/Clause.py:70
  ⟨841, 844, 114, 3, [180], true, true, [108, 80, 164], false⟩  -- 199 Operators/Clause.py:114
]
def raiseSites4 : List Site := [
  ⟨841, 844, 118, 3, [243], true, true, [1, 29, 164], false⟩,  -- 200 Operators/Clause.py:118
  ⟨841, 845, 138, 3, [180], true, true, [108, 80], false⟩,  -- 201 Operators/Clause.py:138
  ⟨841, 845, 140, 3, [243], true, true, [1, 29, 164], false⟩,  -- 202 Operators/Clause.py:140
  ⟨841, 845, 142, 3, [267], true, true, [164], false⟩,  -- 203 Operators/Clause.py:142
  ⟨841, 846, 158, 3, [259], true, true, [258, 164], false⟩,  -- 204 Operators/Clause.py:158
  ⟨841, 846, 163, 3, [531], true, true, [529], false⟩,  -- 205 Operators/Clause.py:163
  ⟨841, 846, 168, 3, [180], true, true, [108, 80, 164], false⟩,  -- 206 Operators/Clause.py:168
  ⟨841, 846, 175, 3, [256], true, true, [108, 80, 164], false⟩,  -- 207 Operators/Clause.py:175
  ⟨841, 847, 215, 3, [558], true, true, [164], false⟩,  -- 208 Operators/Clause.py:215
  ⟨841, 847, 217, 3, [243], true, true, [1, 29, 164], false⟩,  -- 209 Operators/Clause.py:217
  ⟨841, 847, 222, 3, [271], true, true, [1, 29, 164], false⟩,  -- 210 Operators/Clause.py:222
  ⟨841, 848, 256, 3, [558], true, true, [164], false⟩,  -- 211 Operators/Clause.py:256
  ⟨841, 848, 260, 3, [183], true, true, [80, 164], false⟩,  -- 212 Operators/Clause.py:260
  ⟨841, 848, 265, 3, [180], true, true, [108, 80, 164], false⟩,  -- 213 Operators/Clause.py:265
  ⟨841, 848, 272, 3, [262], true, true, [80, 164, 260], false⟩,  -- 214 Operators/Clause.py:272
  ⟨841, 848, 279, 3, [248], true, true, [29, 164], false⟩,  -- 215 Operators/Clause.py:279
  ⟨849, 850, 167, 3, [170], true, true, [164], false⟩,  -- 216 Operators/Comparison.py:167
  ⟨849, 851, 181, 3, [175], true, true, [29, 164], false⟩,  -- 217 Operators/Comparison.py:181
  ⟨849, 852, 244, 3, [571], true, true, [415, 273, 164, 416, 277], false⟩,  -- 218 Operators/Comparison.py:244
  ⟨853, 854, 40, 3, [305], true, true, [164, 114], false⟩,  -- 219 Operators/Conditional.py:40
  ⟨853, 854, 61, 3, [310], true, true, [308, 164, 307], false⟩,  -- 220 Operators/Conditional.py:61
  ⟨853, 854, 65, 3, [310], true, true, [308, 164, 307], false⟩,  -- 221 Operators/Conditional.py:65
  ⟨853, 854, 74, 3, [302], true, true, [295, 164], false⟩,  -- 222 Operators/Conditional.py:74
  ⟨853, 854, 83, 3, [302], true, true, [295, 164], false⟩,  -- 223 Operators/Conditional.py:83
  ⟨853, 854, 85, 3, [316], true, true, [314, 164, 312], false⟩,  -- 224 Operators/Conditional.py:85
  ⟨853, 854, 96, 3, [290], true, true, [29, 164], false⟩,  -- 225 Operators/Conditional.py:96
  ⟨853, 854, 98, 3, [292], true, true, [164, 114], false⟩,  -- 226 Operators/Conditional.py:98
  ⟨853, 854, 104, 3, [294], true, true, [164], false⟩,  -- 227 Operators/Conditional.py:104
  ⟨853, 855, 180, 3, [318], true, true, [164], false⟩,  -- 228 Operators/Conditional.py:180
  ⟨853, 855, 189, 3, [321], true, true, [29, 164], false⟩,  -- 229 Operators/Conditional.py:189
  ⟨853, 855, 191, 3, [323], true, true, [164], false⟩,  -- 230 Operators/Conditional.py:191
  ⟨853, 855, 211, 3, [325], true, true, [29, 164], false⟩,  -- 231 Operators/Conditional.py:211
  ⟨853, 855, 233, 3, [170], true, true, [164], false⟩,  -- 232 Operators/Conditional.py:233
  ⟨853, 855, 235, 3, [328], true, true, [29, 164], false⟩,  -- 233 Operators/Conditional.py:235
  ⟨853, 855, 238, 3, [330], true, true, [164], false⟩,  -- 234 Operators/Conditional.py:238
  ⟨853, 855, 244, 3, [332], true, true, [164], false⟩,  -- 235 Operators/Conditional.py:244
  ⟨856, 857, 27, 3, [180], true, true, [108, 80, 164], false⟩,  -- 236 Operators/General.py:27
  ⟨856, 858, 70, 3, [859], true, true, [529], false⟩,  -- 237 Operators/General.py:70
  ⟨856, 860, 100, 3, [202], true, true, [201], false⟩,  -- 238 Operators/General.py:100
  ⟨856, 860, 102, 3, [204], true, true, [], false⟩,  -- 239 Operators/General.py:102
  ⟨856, 860, 124, 2, [215], true, true, [91, 164], false⟩,  -- 240 Operators/General.py:124
  ⟨856, 860, 128, 2, [215], true, true, [91, 164], false⟩,  -- 241 Operators/General.py:128
  ⟨856, 861, 151, 3, [180], true, true, [108, 80, 164], false⟩,  -- 242 Operators/General.py:151
  ⟨862, 863, 130, 3, [390], true, true, [108], false⟩,  -- 243 Operators/Join.py:130
  ⟨862, 864, 171, 3, [180], true, true, [108, 80], false⟩,  -- 244 Operators/Join.py:171
  ⟨862, 865, 186, 3, [392], true, true, [], false⟩,  -- 245 Operators/Join.py:186
  ⟨862, 865, 191, 3, [558], true, true, [164], false⟩,  -- 246 Operators/Join.py:191
  ⟨862, 865, 200, 3, [390], true, true, [108], false⟩,  -- 247 Operators/Join.py:200
  ⟨862, 866, 220, 3, [413], true, true, [206, 164, 158, 159], false⟩,  -- 248 Operators/Join.py:220
  ⟨862, 867, 234, 3, [404], true, true, [29, 164], false⟩  -- 249 Operators/Join.py:234
]
def raiseSites5 : List Site := [
  ⟨862, 867, 243, 3, [398], true, true, [396, 394, 164], false⟩,  -- 250 Operators/Join.py:243
  ⟨862, 867, 259, 3, [377], true, true, [1, 164, 375], false⟩,  -- 251 Operators/Join.py:259
  ⟨862, 867, 262, 3, [384], true, true, [164, 383, 381], false⟩,  -- 252 Operators/Join.py:262
  ⟨862, 867, 273, 3, [379], true, true, [164, 375], false⟩,  -- 253 Operators/Join.py:273
  ⟨862, 867, 279, 3, [180], true, true, [108, 80, 164], false⟩,  -- 254 Operators/Join.py:279
  ⟨862, 868, 323, 3, [388], true, true, [164], false⟩,  -- 255 Operators/Join.py:323
  ⟨862, 868, 330, 3, [402], true, true, [164], false⟩,  -- 256 Operators/Join.py:330
  ⟨862, 868, 332, 3, [400], true, true, [164], false⟩,  -- 257 Operators/Join.py:332
  ⟨862, 869, 344, 3, [388], true, true, [164], false⟩,  -- 258 Operators/Join.py:344
  ⟨870, 871, 207, 3, [438], true, true, [429, 164], false⟩,  -- 259 Operators/Numeric.py:207
  ⟨870, 871, 210, 3, [438], true, true, [429, 164], false⟩,  -- 260 Operators/Numeric.py:210
  ⟨870, 872, 252, 3, [444], true, true, [164, 44], false⟩,  -- 261 Operators/Numeric.py:252
  ⟨873, 874, 36, 3, [197], true, true, [], false⟩,  -- 262 Operators/RoleSetter.py:36
  ⟨875, 876, 13, 3, [461], true, true, [458, 459, 164], false⟩,  -- 263 Operators/Set.py:13
  ⟨877, 878, 40, 3, [463], true, true, [29, 164], false⟩,  -- 264 Operators/String.py:40
  ⟨877, 879, 124, 3, [479], true, true, [342, 476, 164], false⟩,  -- 265 Operators/String.py:124
  ⟨877, 880, 131, 3, [468], true, true, [164, 467], false⟩,  -- 266 Operators/String.py:131
  ⟨877, 880, 135, 3, [472], true, true, [471, 164, 469], false⟩,  -- 267 Operators/String.py:135
  ⟨877, 881, 145, 3, [472], true, true, [471, 164, 469], false⟩,  -- 268 Operators/String.py:145
  ⟨877, 881, 147, 3, [472], true, true, [471, 164, 469], false⟩,  -- 269 Operators/String.py:147
  ⟨877, 882, 159, 3, [468], true, true, [164, 467], false⟩,  -- 270 Operators/String.py:159
  ⟨877, 882, 163, 3, [472], true, true, [471, 164, 469], false⟩,  -- 271 Operators/String.py:163
  ⟨877, 883, 168, 3, [479], true, true, [342, 476, 164], false⟩,  -- 272 Operators/String.py:168
  ⟨877, 884, 243, 3, [489], true, true, [487, 488, 164], false⟩,  -- 273 Operators/String.py:243
  ⟨877, 885, 319, 3, [485], true, true, [164], false⟩,  -- 274 Operators/String.py:319
  ⟨877, 886, 332, 3, [479], true, true, [342, 476, 164], false⟩,  -- 275 Operators/String.py:332
  ⟨877, 887, 339, 3, [888], true, true, [164], false⟩,  -- 276 Operators/String.py:339
  ⟨877, 887, 344, 3, [472], true, true, [471, 164, 469], false⟩,  -- 277 Operators/String.py:344
  ⟨877, 887, 349, 3, [472], true, true, [471, 164, 469], false⟩,  -- 278 Operators/String.py:349
  ⟨877, 887, 354, 3, [472], true, true, [471, 164, 469], false⟩,  -- 279 Operators/String.py:354
  ⟨877, 889, 367, 3, [472], true, true, [471, 164, 469], false⟩,  -- 280 Operators/String.py:367
  ⟨877, 889, 369, 3, [472], true, true, [471, 164, 469], false⟩,  -- 281 Operators/String.py:369
  ⟨890, 891, 63, 3, [514], true, true, [429, 164], false⟩,  -- 282 Operators/Time.py:63
  ⟨890, 891, 67, 3, [514], true, true, [429, 164], false⟩,  -- 283 Operators/Time.py:67
  ⟨890, 891, 70, 3, [494], true, true, [493, 491, 164], false⟩,  -- 284 Operators/Time.py:70
  ⟨890, 892, 129, 3, [514], true, true, [429, 164], false⟩,  -- 285 Operators/Time.py:129
  ⟨890, 892, 131, 3, [514], true, true, [429, 164], false⟩,  -- 286 Operators/Time.py:131
  ⟨890, 893, 152, 3, [514], true, true, [429, 164], false⟩,  -- 287 Operators/Time.py:152
  ⟨890, 893, 167, 3, [514], true, true, [429, 164], false⟩,  -- 288 Operators/Time.py:167
  ⟨890, 894, 196, 3, [514], true, true, [429, 164], false⟩,  -- 289 Operators/Time.py:196
  ⟨890, 894, 201, 3, [514], true, true, [429, 164], false⟩,  -- 290 Operators/Time.py:201
  ⟨890, 895, 214, 3, [514], true, true, [429, 164], false⟩,  -- 291 Operators/Time.py:214
  ⟨890, 896, 232, 3, [507], true, true, [164], false⟩,  -- 292 Operators/Time.py:232
  ⟨890, 896, 234, 3, [510], true, true, [493, 164], false⟩,  -- 293 Operators/Time.py:234
  ⟨890, 896, 236, 3, [520], true, true, [], false⟩,  -- 294 Operators/Time.py:236
  ⟨890, 897, 251, 3, [500], true, true, [164, 498], false⟩,  -- 295 Operators/Time.py:251
  ⟨890, 898, 260, 3, [505], true, true, [164, 502, 503], false⟩,  -- 296 Operators/Time.py:260
  ⟨890, 899, 273, 3, [507], true, true, [164], false⟩,  -- 297 Operators/Time.py:273
  ⟨890, 899, 275, 3, [510], true, true, [493, 164], false⟩,  -- 298 Operators/Time.py:275
  ⟨890, 899, 277, 3, [520], true, true, [], false⟩  -- 299 Operators/Time.py:277
]
def raiseSites6 : List Site := [
  ⟨890, 899, 280, 3, [516], true, true, [429, 164, 498], false⟩,  -- 300 Operators/Time.py:280
  ⟨890, 900, 301, 3, [514], true, true, [429, 164], false⟩,  -- 301 Operators/Time.py:301
  ⟨890, 900, 303, 3, [507], true, true, [164], false⟩,  -- 302 Operators/Time.py:303
  ⟨890, 900, 305, 3, [510], true, true, [493, 164], false⟩,  -- 303 Operators/Time.py:305
  ⟨890, 900, 307, 3, [520], true, true, [], false⟩,  -- 304 Operators/Time.py:307
  ⟨890, 901, 318, 3, [514], true, true, [429, 164], false⟩,  -- 305 Operators/Time.py:318
  ⟨890, 901, 320, 3, [507], true, true, [164], false⟩,  -- 306 Operators/Time.py:320
  ⟨890, 901, 322, 3, [510], true, true, [493, 164], false⟩,  -- 307 Operators/Time.py:322
  ⟨890, 901, 324, 3, [520], true, true, [], false⟩,  -- 308 Operators/Time.py:324
  ⟨890, 902, 371, 3, [514], true, true, [429, 164], false⟩,  -- 309 Operators/Time.py:371
  ⟨890, 902, 373, 3, [162], true, true, [158, 159, 161], false⟩,  -- 310 Operators/Time.py:373
  ⟨890, 903, 406, 3, [686, 688], false, true, [342, 29, 164, 114], false⟩,  -- 311 Operators/Time.py:406
  ⟨890, 903, 433, 3, [690], true, true, [29, 164], false⟩,  -- 312 Operators/Time.py:433
  ⟨890, 904, 443, 3, [514], true, true, [429, 164], false⟩,  -- 313 Operators/Time.py:443
  ⟨890, 904, 451, 3, [518], true, true, [164], false⟩,  -- 314 Operators/Time.py:451
  ⟨890, 905, 494, 2, [710], true, true, [342, 164, 44], false⟩,  -- 315 Operators/Time.py:494
  ⟨890, 906, 506, 2, [710], true, true, [342, 164, 44], false⟩,  -- 316 Operators/Time.py:506
  ⟨907, 908, 34, 3, [336], true, true, [335, 164, 62], false⟩,  -- 317 Operators/Validation.py:34
  ⟨907, 908, 37, 3, [336], true, true, [335, 164, 62], false⟩,  -- 318 Operators/Validation.py:37
  ⟨907, 908, 57, 3, [336], true, true, [335, 164, 62], false⟩,  -- 319 Operators/Validation.py:57
  ⟨907, 908, 61, 3, [336], true, true, [335, 164, 62], false⟩,  -- 320 Operators/Validation.py:61
  ⟨907, 909, 188, 3, [336], true, true, [335, 164, 62], false⟩,  -- 321 Operators/Validation.py:188
  ⟨907, 909, 193, 3, [336], true, true, [335, 164, 62], false⟩,  -- 322 Operators/Validation.py:193
  ⟨907, 909, 197, 3, [180], true, true, [108, 80, 164], false⟩,  -- 323 Operators/Validation.py:197
  ⟨907, 909, 204, 3, [550], true, true, [29, 549], false⟩,  -- 324 Operators/Validation.py:204
  ⟨910, 911, 129, 3, [417], true, true, [415, 164, 416], false⟩,  -- 325 Operators/__init__.py:129
  ⟨910, 911, 136, 3, [175], true, true, [29, 164], false⟩,  -- 326 Operators/__init__.py:136
  ⟨910, 911, 149, 3, [558], true, true, [164], false⟩,  -- 327 Operators/__init__.py:149
  ⟨910, 911, 151, 3, [571], true, true, [415, 273, 164, 416, 277], false⟩,  -- 328 Operators/__init__.py:151
  ⟨910, 912, 188, 3, [175], true, true, [29, 164], false⟩,  -- 329 Operators/__init__.py:188
  ⟨910, 913, 202, 3, [162], true, true, [158, 159, 161], false⟩,  -- 330 Operators/__init__.py:202
  ⟨910, 914, 253, 3, [175], true, true, [29, 164], false⟩,  -- 331 Operators/__init__.py:253
  ⟨910, 915, 356, 3, [170], true, true, [164], false⟩,  -- 332 Operators/__init__.py:356
  ⟨910, 916, 382, 3, [175], true, true, [29, 164], false⟩,  -- 333 Operators/__init__.py:382
  ⟨910, 917, 427, 3, [168], true, true, [165, 29, 164, 167], false⟩,  -- 334 Operators/__init__.py:427
  ⟨910, 918, 438, 3, [172], true, true, [29, 164, 114], false⟩,  -- 335 Operators/__init__.py:438
  ⟨910, 919, 467, 3, [170], true, true, [164], false⟩,  -- 336 Operators/__init__.py:467
  ⟨920, 921, 51, 2, [156], true, true, [154, 148, 152, 151, 44], false⟩,  -- 337 Utils/_number_config.py:51
  ⟨920, 921, 64, 2, [156], true, true, [154, 148, 152, 151, 44], false⟩,  -- 338 Utils/_number_config.py:64
  ⟨922, 923, 100, 2, [156], true, true, [154, 148, 152, 151, 44], false⟩,  -- 339 duckdb_transpiler/Config/config.py:100
  ⟨922, 923, 110, 2, [156], true, true, [154, 148, 152, 151, 44], false⟩,  -- 340 duckdb_transpiler/Config/config.py:110
  ⟨924, 925, 732, 2, [696], true, true, [164], false⟩,  -- 341 duckdb_transpiler/Transpiler/__init__.py:732
  ⟨924, 926, 1618, 3, [444], true, true, [164, 44], false⟩,  -- 342 duckdb_transpiler/Transpiler/__init__.py:1618
  ⟨924, 927, 3660, 3, [180], true, true, [108, 80, 164], false⟩,  -- 343 duckdb_transpiler/Transpiler/__init__.py:3660
  ⟨924, 928, 3849, 3, [616], true, true, [], false⟩,  -- 344 duckdb_transpiler/Transpiler/__init__.py:3849
  ⟨929, 930, 140, 3, [472], true, true, [471, 164, 469], false⟩,  -- 345 duckdb_transpiler/Transpiler/operators.py:140
  ⟨931, 932, 62, 2, [645], true, true, [643, 44], false⟩,  -- 346 duckdb_transpiler/io/_execution.py:62
  ⟨931, 933, 79, 2, [704], true, true, [164], false⟩,  -- 347 duckdb_transpiler/io/_execution.py:79
  ⟨931, 933, 87, 2, [702], true, true, [164, 700, 701], false⟩,  -- 348 duckdb_transpiler/io/_execution.py:87
  ⟨931, 933, 94, 2, [694], true, true, [164], false⟩  -- 349 duckdb_transpiler/io/_execution.py:94
]
def raiseSites7 : List Site := [
  ⟨931, 933, 103, 2, [232], true, true, [158, 159, 44], false⟩,  -- 350 duckdb_transpiler/io/_execution.py:103
  ⟨931, 933, 108, 2, [232], true, true, [158, 159, 44], false⟩,  -- 351 duckdb_transpiler/io/_execution.py:108
  ⟨931, 933, 113, 2, [232], true, true, [158, 159, 44], false⟩,  -- 352 duckdb_transpiler/io/_execution.py:113
  ⟨931, 933, 122, 2, [672], true, true, [657], false⟩,  -- 353 duckdb_transpiler/io/_execution.py:122
  ⟨931, 933, 126, 2, [453], true, true, [164], false⟩,  -- 354 duckdb_transpiler/io/_execution.py:126
  ⟨931, 933, 132, 3, [489], true, true, [487, 488, 164], false⟩,  -- 355 duckdb_transpiler/io/_execution.py:132
  ⟨931, 933, 136, 2, [217], true, true, [164], false⟩,  -- 356 duckdb_transpiler/io/_execution.py:136
  ⟨931, 933, 138, 2, [217], true, true, [164], false⟩,  -- 357 duckdb_transpiler/io/_execution.py:138
  ⟨931, 933, 142, 2, [457], true, true, [164, 44], false⟩,  -- 358 duckdb_transpiler/io/_execution.py:142
  ⟨931, 933, 146, 2, [447], true, true, [164, 44], false⟩,  -- 359 duckdb_transpiler/io/_execution.py:146
  ⟨934, 935, 72, 0, [106], true, true, [29], false⟩,  -- 360 duckdb_transpiler/io/_io.py:72
  ⟨934, 936, 104, 0, [117], true, true, [112, 91, 29, 114], false⟩,  -- 361 duckdb_transpiler/io/_io.py:104
  ⟨934, 937, 254, 1, [54], true, true, [52, 50], false⟩,  -- 362 duckdb_transpiler/io/_io.py:254
  ⟨934, 938, 345, 1, [54], true, true, [52, 50], false⟩,  -- 363 duckdb_transpiler/io/_io.py:345
  ⟨934, 939, 403, 1, [49], true, true, [46, 44], false⟩,  -- 364 duckdb_transpiler/io/_io.py:403
  ⟨940, 941, 93, 0, [144], true, true, [91, 29], false⟩,  -- 365 duckdb_transpiler/io/_validation.py:93
  ⟨940, 941, 101, 0, [120], true, true, [29, 119], false⟩,  -- 366 duckdb_transpiler/io/_validation.py:101
  ⟨940, 941, 108, 0, [104], true, true, [29, 103], false⟩,  -- 367 duckdb_transpiler/io/_validation.py:108
  ⟨940, 941, 110, 0, [104], true, true, [29, 103], false⟩,  -- 368 duckdb_transpiler/io/_validation.py:110
  ⟨940, 941, 122, 0, [117], true, true, [112, 91, 29, 114], false⟩,  -- 369 duckdb_transpiler/io/_validation.py:122
  ⟨940, 941, 129, 0, [117], true, true, [112, 91, 29, 114], false⟩,  -- 370 duckdb_transpiler/io/_validation.py:129
  ⟨940, 941, 147, 0, [117], true, true, [112, 91, 29, 114], false⟩,  -- 371 duckdb_transpiler/io/_validation.py:147
  ⟨940, 941, 154, 0, [117], true, true, [112, 91, 29, 114], false⟩,  -- 372 duckdb_transpiler/io/_validation.py:154
  ⟨940, 941, 163, 0, [117], true, true, [112, 91, 29, 114], false⟩,  -- 373 duckdb_transpiler/io/_validation.py:163
  ⟨940, 942, 282, 0, [120], true, true, [29, 119], false⟩,  -- 374 duckdb_transpiler/io/_validation.py:282
  ⟨940, 943, 293, 0, [96], true, true, [24], false⟩,  -- 375 duckdb_transpiler/io/_validation.py:293
  ⟨940, 944, 394, 0, [117], true, true, [112, 91, 29, 114], false⟩,  -- 376 duckdb_transpiler/io/_validation.py:394
  ⟨940, 945, 480, 0, [110], true, true, [108, 29], false⟩,  -- 377 duckdb_transpiler/io/_validation.py:480
  ⟨940, 946, 493, 1, [25], true, true, [24, 22], false⟩,  -- 378 duckdb_transpiler/io/_validation.py:493
  ⟨947, 948, 21, 1, [47], true, true, [46, 44], false⟩,  -- 379 files/output/_time_period_representation.py:21
  ⟨949, 950, 62, 0, [96], true, true, [24], false⟩,  -- 380 files/parser/__init__.py:62
  ⟨949, 950, 64, 0, [96], true, true, [24], false⟩,  -- 381 files/parser/__init__.py:64
  ⟨949, 950, 79, 1, [18], true, true, [24], false⟩,  -- 382 files/parser/__init__.py:79
  ⟨949, 950, 83, 1, [54], true, true, [52, 50], false⟩,  -- 383 files/parser/__init__.py:83
  ⟨949, 950, 93, 1, [25], true, true, [24, 22], false⟩,  -- 384 files/parser/__init__.py:93
  ⟨949, 951, 121, 1, [20], true, true, [24, 22], false⟩,  -- 385 files/parser/__init__.py:121
  ⟨949, 951, 128, 1, [110], true, true, [108, 29], false⟩,  -- 386 files/parser/__init__.py:128
  ⟨949, 952, 177, 0, [142], true, true, [141, 29], false⟩,  -- 387 files/parser/__init__.py:177
  ⟨949, 953, 196, 0, [110], true, true, [108, 29], false⟩,  -- 388 files/parser/__init__.py:196
  ⟨949, 953, 203, 0, [104], true, true, [29, 103], false⟩,  -- 389 files/parser/__init__.py:203
  ⟨949, 953, 206, 0, [106], true, true, [29], false⟩,  -- 390 files/parser/__init__.py:206
  ⟨949, 953, 266, 0, [117], true, true, [112, 91, 29, 114], false⟩,  -- 391 files/parser/__init__.py:266
  ⟨949, 954, 280, 0, [120], true, true, [29, 119], false⟩,  -- 392 files/parser/__init__.py:280
  ⟨949, 955, 323, 1, [11], true, true, [9], false⟩,  -- 393 files/parser/__init__.py:323
  ⟨956, 957, 105, 0, [123], true, true, [91, 24], false⟩,  -- 394 files/sdmx_handler.py:105
  ⟨956, 957, 112, 0, [126], true, true, [24], false⟩,  -- 395 files/sdmx_handler.py:112
  ⟨956, 958, 148, 0, [123], true, true, [91, 24], false⟩,  -- 396 files/sdmx_handler.py:148
  ⟨956, 958, 155, 0, [126], true, true, [24], false⟩,  -- 397 files/sdmx_handler.py:155
  ⟨956, 959, 215, 1, [20], true, true, [24, 22], false⟩,  -- 398 files/sdmx_handler.py:215
  ⟨956, 959, 224, 1, [110], true, false, [108, 29], false⟩  -- 399 files/sdmx_handler.py:224
]
def raiseSites8 : List Site := [
  ⟨956, 960, 252, 0, [132], true, true, [91, 24], false⟩,  -- 400 files/sdmx_handler.py:252
  ⟨956, 960, 257, 0, [134], true, true, [24], false⟩,  -- 401 files/sdmx_handler.py:257
  ⟨956, 960, 262, 0, [134], true, true, [24], false⟩  -- 402 files/sdmx_handler.py:262
]
def raiseSites : List Site := raiseSites0 ++ raiseSites1 ++ raiseSites2 ++ raiseSites3 ++ raiseSites4 ++ raiseSites5 ++ raiseSites6 ++ raiseSites7 ++ raiseSites8

/-- Certificate computed by the translator with the Python twin of `siteOkB`; `Props/C26.bad_sites_exact`
    makes the kernel re-compute it, so nothing about it is trusted. -/
def claimedBad : List Nat := [120, 146, 219, 237, 276, 399]
def uncodedSites : Nat := 19

end VtlModel.Gen.RaiseSites

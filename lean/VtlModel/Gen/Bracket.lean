-- GENERATED from /repo by harness/translate on every run. Do not edit.
import VtlModel.Session.Bracket
namespace VtlModel.Gen.Bracket
open VtlModel.Session

/-- everything `configured_connection` does before the statement that contains the `yield` -/
def pre : Prog := seqs [.op .mkdirTemp, .op .bindNone]

/-- the statement that contains the `yield`, and whatever follows it -/
def main : Prog := (.tryFinally (seqs [.op .mkdirSession, .ev "session_dir", .op .chooseDb, .ev "connect", .op .connect, (.tryExcept (seqs [.ev "configure", .op .configure, .op .registerUdf, .op .setDecimal]) (.op .closeInner)), .op .bindConn, .ev "connected", .op .setTemp, .body]) ((.tryFinally ((.ifConn (seqs [.op .close, .ev "closed"]))) (seqs [.op .rmtree, .ev "rmtree"]))))

def prog : Prog := .seq pre main

end VtlModel.Gen.Bracket

-- GENERATED from /repo by harness/translate on every run. Do not edit.
import VtlModel.Types.Ty
namespace VtlModel.Gen.Promotion
open VtlModel

/-- IMPLICIT_TYPE_PROMOTION_MAPPING: key = type, value = set of types it implicitly promotes to -/
def implicit : Ty → TySet
  | Ty.string => [Ty.string]
  | Ty.number => [Ty.number, Ty.integer]
  | Ty.integer => [Ty.number, Ty.integer]
  | Ty.time => [Ty.time]
  | Ty.date => [Ty.time, Ty.date]
  | Ty.timePeriod => [Ty.time, Ty.timePeriod]
  | Ty.duration => [Ty.duration]
  | Ty.boolean => [Ty.string, Ty.boolean]
  | Ty.null => [Ty.string, Ty.number, Ty.integer, Ty.time, Ty.date, Ty.timePeriod, Ty.duration, Ty.boolean, Ty.null]

/-- EXPLICIT_WITHOUT_MASK_TYPE_PROMOTION_MAPPING -/
def explicitNoMask : Ty → TySet
  | Ty.string => [Ty.string, Ty.number, Ty.integer, Ty.time, Ty.date, Ty.timePeriod, Ty.duration, Ty.boolean]
  | Ty.number => [Ty.string, Ty.number, Ty.integer, Ty.boolean]
  | Ty.integer => [Ty.string, Ty.number, Ty.integer, Ty.boolean]
  | Ty.time => [Ty.string, Ty.time, Ty.date, Ty.timePeriod]
  | Ty.date => [Ty.string, Ty.date, Ty.timePeriod]
  | Ty.timePeriod => [Ty.string, Ty.date, Ty.timePeriod]
  | Ty.duration => [Ty.string, Ty.duration]
  | Ty.boolean => [Ty.string, Ty.number, Ty.integer, Ty.boolean]
  | Ty.null => [Ty.string, Ty.number, Ty.integer, Ty.time, Ty.date, Ty.timePeriod, Ty.duration, Ty.boolean, Ty.null]

/-- names of EXPLICIT…WITH_MASK tables found in vtlengine.DataTypes (none: cast with mask raises NotImplementedError) -/
def explicitWithMaskTables : List String := []

/-- Python `issubclass(a, b)` on the live classes -/
def isSubclass : Ty → Ty → Bool
  | Ty.string, Ty.string => true
  | Ty.number, Ty.number => true
  | Ty.integer, Ty.number => true
  | Ty.integer, Ty.integer => true
  | Ty.time, Ty.time => true
  | Ty.date, Ty.time => true
  | Ty.date, Ty.date => true
  | Ty.timePeriod, Ty.time => true
  | Ty.timePeriod, Ty.timePeriod => true
  | Ty.duration, Ty.duration => true
  | Ty.boolean, Ty.boolean => true
  | Ty.null, Ty.null => true
  | _, _ => false

/-- COMP_NAME_MAPPING -/
def compName : Ty → String
  | Ty.string => "str_var"
  | Ty.number => "num_var"
  | Ty.integer => "int_var"
  | Ty.time => "time_var"
  | Ty.date => "date_var"
  | Ty.timePeriod => "time_period_var"
  | Ty.duration => "duration_var"
  | Ty.boolean => "bool_var"
  | Ty.null => "null_var"

/-- keys of SCALAR_TYPES in Ty.all order -/
def scalarTypeNames : List String := ["String", "Number", "Integer", "Time", "Date", "Time_Period", "Duration", "Boolean", "Null"]

end VtlModel.Gen.Promotion

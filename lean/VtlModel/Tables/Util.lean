/-! Small shared definitions of the `Tables` group (no imports). -/
namespace VtlModel.Tables

instance instDecEqExcept {ε α : Type} [DecidableEq ε] [DecidableEq α] : DecidableEq (Except ε α) :=
  fun a b =>
    match a, b with
    | .ok x, .ok y => if h : x = y then isTrue (by rw [h]) else isFalse (by intro e; cases e; exact h rfl)
    | .error x, .error y => if h : x = y then isTrue (by rw [h]) else isFalse (by intro e; cases e; exact h rfl)
    | .ok _, .error _ => isFalse (by intro e; cases e)
    | .error _, .ok _ => isFalse (by intro e; cases e)

end VtlModel.Tables

import VtlModel.Tables.Sdmx
/-! Helper lemmas for C27 (no Mathlib needed). -/
namespace VtlModel.Tables.Sdmx

theorem lookup_none_of_not_mem (m : List (String × String)) (k : String)
    (h : k ∉ m.map Prod.fst) : lookup m k = none := by
  induction m with
  | nil => rfl
  | cons p rest ih =>
    obtain ⟨a, b⟩ := p
    simp only [List.map_cons, List.mem_cons, not_or] at h
    have hne : (a == k) = false := by
      rw [beq_eq_false_iff_ne]; exact fun e => h.1 e.symm
    simp [lookup, hne, ih h.2]

theorem find_none_of_not_mem (m : List (String × String × Bool)) (k : String)
    (h : k ∉ m.map Prod.fst) : m.find? (fun r => r.1 == k) = none := by
  induction m with
  | nil => rfl
  | cons p rest ih =>
    simp only [List.map_cons, List.mem_cons, not_or] at h
    have hne : (p.1 == k) = false := by
      rw [beq_eq_false_iff_ne]; exact fun e => h.1 e.symm
    simp [List.find?, hne, ih h.2]

/-- success of the loop = success of every iteration, pointwise, in order -/
theorem convAll_forall2 (cfg : Cfg) : ∀ (l : List SComp) (out : List VComp),
    convAll cfg l = .ok out → Pw (fun c v => convOne cfg c = .ok v) l out := by
  intro l
  induction l with
  | nil => intro out h; simp [convAll] at h; subst h; exact .nil
  | cons c cs ih =>
    intro out h
    unfold convAll at h
    split at h
    · cases h
    · rename_i v hv
      split at h
      · cases h
      · rename_i vs hvs
        cases h
        exact .cons hv (ih vs hvs)

theorem convAll_ok_of_forall (cfg : Cfg) : ∀ (l : List SComp),
    (∀ c ∈ l, ∃ v, convOne cfg c = .ok v) → ∃ out, convAll cfg l = .ok out := by
  intro l
  induction l with
  | nil => intro _; exact ⟨[], rfl⟩
  | cons c cs ih =>
    intro h
    obtain ⟨v, hv⟩ := h c (List.mem_cons_self ..)
    obtain ⟨vs, hvs⟩ := ih (fun c' hc' => h c' (List.mem_cons_of_mem _ hc'))
    exact ⟨v :: vs, by simp [convAll, hv, hvs]⟩

/-- the first failing iteration is reported -/
theorem convAll_error (cfg : Cfg) : ∀ (l : List SComp) (e : Err),
    convAll cfg l = .error e → ∃ c ∈ l, convOne cfg c = .error e := by
  intro l
  induction l with
  | nil => intro e h; simp [convAll] at h
  | cons c cs ih =>
    intro e h
    unfold convAll at h
    split at h
    · rename_i e' he'
      cases h
      exact ⟨c, List.mem_cons_self .., he'⟩
    · split at h
      · rename_i e' he'
        cases h
        obtain ⟨c', hc', hce⟩ := ih e he'
        exact ⟨c', List.mem_cons_of_mem _ hc', hce⟩
      · cases h

theorem ordered_filter_ne (gs : List String) (g : String) (cs : List SComp) (hg : g ∉ gs) :
    ordered gs (cs.filter (fun c => !(c.role == g))) = ordered gs cs := by
  induction gs with
  | nil => rfl
  | cons g' gs ih =>
    simp only [List.mem_cons, not_or] at hg
    simp only [ordered]
    rw [ih hg.2, List.filter_filter]
    congr 1
    apply List.filter_congr
    intro c _
    by_cases hc : c.role = g'
    · have : ¬ g' = g := fun e => hg.1 e.symm
      simp [hc, this]
    · have : (c.role == g') = false := by rw [beq_eq_false_iff_ne]; exact hc
      simp [this]

/-- walking the groups one after the other visits every component exactly once -/
theorem ordered_perm : ∀ (gs : List String) (cs : List SComp), gs.Nodup → (∀ c ∈ cs, c.role ∈ gs) →
    (ordered gs cs).Perm cs := by
  intro gs
  induction gs with
  | nil =>
    intro cs _ h
    cases cs with
    | nil => exact .nil
    | cons c cs => exact absurd (h c (List.mem_cons_self ..)) (by simp)
  | cons g gs ih =>
    intro cs hnd h
    rw [List.nodup_cons] at hnd
    simp only [ordered]
    have h1 := ih (cs.filter (fun c => !(c.role == g))) hnd.2 (by
      intro c hc
      rw [List.mem_filter] at hc
      have hm := h c hc.1
      rw [List.mem_cons] at hm
      rcases hm with hm | hm
      · simp [hm] at hc
      · exact hm)
    rw [ordered_filter_ne gs g cs hnd.1] at h1
    exact (List.Perm.append_left _ h1).trans (List.filter_append_perm _ cs)

theorem forall2_length {α β} {R : α → β → Prop} {l : List α} {m : List β} (h : Pw R l m) :
    l.length = m.length := by
  induction h with
  | nil => rfl
  | cons _ _ ih => simp [ih]

theorem forall2_map_eq {α β γ} {R : α → β → Prop} (f : α → γ) (g : β → γ) {l : List α} {m : List β}
    (h : Pw R l m) (hfg : ∀ a b, R a b → g b = f a) : m.map g = l.map f := by
  induction h with
  | nil => rfl
  | cons hab _ ih => simp [hfg _ _ hab, ih]

theorem forall2_imp {α β} {R S : α → β → Prop} {l : List α} {m : List β}
    (h : Pw R l m) (hRS : ∀ a b, a ∈ l → R a b → S a b) : Pw S l m := by
  induction h with
  | nil => exact .nil
  | cons hab _ ih =>
    exact .cons (hRS _ _ (List.mem_cons_self ..) hab)
      (ih (fun a b ha => hRS a b (List.mem_cons_of_mem _ ha)))

theorem forall2_right {α β} {R : α → β → Prop} {l : List α} {m : List β}
    (h : Pw R l m) : ∀ b ∈ m, ∃ a ∈ l, R a b := by
  induction h with
  | nil => intro b hb; cases hb
  | cons hab _ ih =>
    intro b hb
    rw [List.mem_cons] at hb
    rcases hb with rfl | hb
    · exact ⟨_, List.mem_cons_self .., hab⟩
    · obtain ⟨a, ha, hr⟩ := ih b hb
      exact ⟨a, List.mem_cons_of_mem _ ha, hr⟩

theorem convOne_ok (cfg : Cfg) (c : SComp) (v : VComp) (h : convOne cfg c = .ok v) :
    v.name = c.id ∧ lookup cfg.dtypeMap c.dtype = some v.type ∧ lookup cfg.roleMap c.role = some v.role
      ∧ v.nullable = nullability cfg c.role := by
  unfold convOne at h
  split at h
  · rename_i t r ht hr
    cases h
    exact ⟨rfl, ht, hr, rfl⟩
  · cases h
  · cases h
  · split at h <;> cases h

end VtlModel.Tables.Sdmx

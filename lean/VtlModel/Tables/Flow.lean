/-
C22 — reachability in the alias-flow graph extracted from /repo by the `effects` translator.  No Mathlib.

The graph is a list of successor lists indexed by node id (a `List`, not an `Array`: the kernel evaluates
structural list recursion quickly, `Array` loops are well-founded recursion and very slow under
`decide +kernel`).  The set of expanded nodes is a bit mask in a `Nat` (`testBit`, `|||`, `<<<` are evaluated
by the kernel's big-number arithmetic), so one search costs a few thousand kernel steps.

`Reaches` is the mathematical notion (reflexive transitive closure of the edge relation).  Proved here for
EVERY graph:
  * `reaches_of_search`   : every node in the mask returned by the search is really reachable
                            (used for counter-examples);
  * `allReached_spec`     : when the search finishes with an empty worklist (it returns `none` if the fuel
                            runs out, so the fuel never has to be trusted) its mask contains everything
                            reachable from the sources (used for the absence theorems).
-/
namespace VtlModel.Tables.Flow

abbrev Graph := List (List Nat)

def succs (g : Graph) (n : Nat) : List Nat := g.getD n []

inductive Reaches (g : Graph) : Nat → Nat → Prop
  | refl (n : Nat) : Reaches g n n
  | step {a b c : Nat} : Reaches g a b → c ∈ succs g b → Reaches g a c

/-- bit-mask sets of node ids -/
def mem (vis : Nat) (x : Nat) : Bool := vis.testBit x
def ins (vis : Nat) (n : Nat) : Nat := vis ||| (1 <<< n)

theorem mem_ins (vis n x : Nat) : mem (ins vis n) x = (mem vis x || decide (n = x)) := by
  unfold mem ins
  rw [Nat.testBit_or, Nat.one_shiftLeft, Nat.testBit_two_pow]

theorem mem_ins_iff (vis n x : Nat) : mem (ins vis n) x = true ↔ (x = n ∨ mem vis x = true) := by
  rw [mem_ins]
  simp only [Bool.or_eq_true, decide_eq_true_eq]
  constructor
  · rintro (h | h)
    · exact Or.inr h
    · exact Or.inl h.symm
  · rintro (h | h)
    · exact Or.inr h.symm
    · exact Or.inl h

theorem mem_zero (x : Nat) : mem 0 x = false := Nat.zero_testBit x

/-- worklist search: `todo` = nodes still to expand, `vis` = mask of the nodes already expanded;
    `none` when the fuel runs out before the worklist is empty -/
def search (g : Graph) : Nat → List Nat → Nat → Option Nat
  | 0, [], vis => some vis
  | 0, _ :: _, _ => none
  | _ + 1, [], vis => some vis
  | fuel + 1, n :: rest, vis =>
    if mem vis n then search g fuel rest vis
    else search g fuel (succs g n ++ rest) (ins vis n)

def edgeCount (g : Graph) : Nat := g.foldl (fun acc l => acc + l.length) 0

/-- every step either drops a todo entry or expands a new node: nodes + edges + sources + 1 steps suffice -/
def fuelFor (g : Graph) (k : Nat) : Nat := g.length + edgeCount g + k + 1

def closureOf (g : Graph) (srcs : List Nat) : Option Nat := search g (fuelFor g srcs.length) srcs 0

/-- all successor ids are node ids of the graph -/
def wellFormed (g : Graph) : Bool := g.all (fun l => l.all (fun m => m < g.length))

/-- the search completes and every candidate node that it reached satisfies `p` -/
def allReached (g : Graph) (srcs : List Nat) (cands : List Nat) (p : Nat → Bool) : Bool :=
  match closureOf g srcs with
  | some r => cands.all (fun m => !mem r m || p m)
  | none => false

/-- the search completes and reaches one of the candidates -/
def someReached (g : Graph) (srcs : List Nat) (cands : List Nat) : Bool :=
  match closureOf g srcs with
  | some r => cands.any (fun m => mem r m)
  | none => false

/-! ### soundness: what the search marks is reachable -/
theorem search_sound (g : Graph) (P : Nat → Prop) (hstep : ∀ b c, P b → c ∈ succs g b → P c) :
    ∀ (fuel : Nat) (todo : List Nat) (vis r : Nat), (∀ x ∈ todo, P x) → (∀ x, mem vis x = true → P x) →
      search g fuel todo vis = some r → ∀ x, mem r x = true → P x := by
  intro fuel
  induction fuel with
  | zero =>
    intro todo vis r _ hv h x hx
    cases todo with
    | nil => simp only [search, Option.some.injEq] at h; subst h; exact hv x hx
    | cons n rest => simp [search] at h
  | succ fuel ih =>
    intro todo vis r ht hv h x hx
    cases todo with
    | nil => simp only [search, Option.some.injEq] at h; subst h; exact hv x hx
    | cons n rest =>
      simp only [search] at h
      split at h
      · exact ih rest vis r (fun y hy => ht y (List.mem_cons_of_mem _ hy)) hv h x hx
      · have hn : P n := ht n (List.mem_cons_self ..)
        refine ih (succs g n ++ rest) (ins vis n) r ?_ ?_ h x hx
        · intro y hy
          rw [List.mem_append] at hy
          rcases hy with hy | hy
          · exact hstep n y hn hy
          · exact ht y (List.mem_cons_of_mem _ hy)
        · intro y hy
          rw [mem_ins_iff] at hy
          rcases hy with rfl | hy
          · exact hn
          · exact hv y hy

theorem reaches_of_search (g : Graph) (srcs : List Nat) (r x : Nat) (h : closureOf g srcs = some r)
    (hx : mem r x = true) : ∃ s ∈ srcs, Reaches g s x := by
  refine search_sound g (fun y => ∃ s ∈ srcs, Reaches g s y) ?_ _ srcs 0 r ?_ ?_ h x hx
  · intro b c ⟨s, hs, hr⟩ hc
    exact ⟨s, hs, .step hr hc⟩
  · intro y hy
    exact ⟨y, hy, .refl y⟩
  · intro y hy; rw [mem_zero] at hy; cases hy

theorem someReached_spec (g : Graph) (srcs cands : List Nat) (h : someReached g srcs cands = true) :
    ∃ s ∈ srcs, ∃ m ∈ cands, Reaches g s m := by
  unfold someReached at h
  split at h
  · rename_i r hr
    rw [List.any_eq_true] at h
    obtain ⟨m, hm, hmem⟩ := h
    obtain ⟨s, hs, hreach⟩ := reaches_of_search g srcs r m hr hmem
    exact ⟨s, hs, m, hm, hreach⟩
  · cases h

/-! ### completeness: a finished search contains everything reachable -/
theorem search_complete (g : Graph) (P : Nat → Prop) :
    ∀ (fuel : Nat) (todo : List Nat) (vis r : Nat),
      (∀ v, mem vis v = true → ∀ m ∈ succs g v, mem vis m = true ∨ m ∈ todo) →
      (∀ x, P x → mem vis x = true ∨ x ∈ todo) →
      search g fuel todo vis = some r →
      (∀ v, mem r v = true → ∀ m ∈ succs g v, mem r m = true) ∧ (∀ x, P x → mem r x = true) := by
  intro fuel
  induction fuel with
  | zero =>
    intro todo vis r hinv hp h
    cases todo with
    | nil =>
      simp only [search, Option.some.injEq] at h; subst h
      refine ⟨fun v hv m hm => ?_, fun x hx => ?_⟩
      · rcases hinv v hv m hm with h1 | h1
        · exact h1
        · cases h1
      · rcases hp x hx with h1 | h1
        · exact h1
        · cases h1
    | cons n rest => simp [search] at h
  | succ fuel ih =>
    intro todo vis r hinv hp h
    cases todo with
    | nil =>
      simp only [search, Option.some.injEq] at h; subst h
      refine ⟨fun v hv m hm => ?_, fun x hx => ?_⟩
      · rcases hinv v hv m hm with h1 | h1
        · exact h1
        · cases h1
      · rcases hp x hx with h1 | h1
        · exact h1
        · cases h1
    | cons n rest =>
      simp only [search] at h
      split at h
      · rename_i hn
        refine ih rest vis r ?_ ?_ h
        · intro v hv m hm
          rcases hinv v hv m hm with h1 | h1
          · exact Or.inl h1
          · rw [List.mem_cons] at h1
            rcases h1 with rfl | h1
            · exact Or.inl hn
            · exact Or.inr h1
        · intro x hx
          rcases hp x hx with h1 | h1
          · exact Or.inl h1
          · rw [List.mem_cons] at h1
            rcases h1 with rfl | h1
            · exact Or.inl hn
            · exact Or.inr h1
      · refine ih (succs g n ++ rest) (ins vis n) r ?_ ?_ h
        · intro v hv m hm
          rw [mem_ins_iff] at hv
          rcases hv with rfl | hv
          · exact Or.inr (List.mem_append_left _ hm)
          · rcases hinv v hv m hm with h1 | h1
            · exact Or.inl ((mem_ins_iff ..).mpr (Or.inr h1))
            · rw [List.mem_cons] at h1
              rcases h1 with rfl | h1
              · exact Or.inl ((mem_ins_iff ..).mpr (Or.inl rfl))
              · exact Or.inr (List.mem_append_right _ h1)
        · intro x hx
          rcases hp x hx with h1 | h1
          · exact Or.inl ((mem_ins_iff ..).mpr (Or.inr h1))
          · rw [List.mem_cons] at h1
            rcases h1 with rfl | h1
            · exact Or.inl ((mem_ins_iff ..).mpr (Or.inl rfl))
            · exact Or.inr (List.mem_append_right _ h1)

theorem mem_closureOf (g : Graph) (srcs : List Nat) (r : Nat) (h : closureOf g srcs = some r)
    (s x : Nat) (hs : s ∈ srcs) (hr : Reaches g s x) : mem r x = true := by
  have hc := search_complete g (fun y => y ∈ srcs) _ srcs 0 r
    (fun v hv => by rw [mem_zero] at hv; cases hv) (fun y hy => Or.inr hy) h
  induction hr with
  | refl => exact hc.2 s hs
  | step _ hcb ih => exact hc.1 _ ih _ hcb

theorem allReached_spec (g : Graph) (srcs cands : List Nat) (p : Nat → Bool)
    (h : allReached g srcs cands p = true)
    (s x : Nat) (hs : s ∈ srcs) (hx : x ∈ cands) (hr : Reaches g s x) : p x = true := by
  unfold allReached at h
  split at h
  · rename_i r hr'
    rw [List.all_eq_true] at h
    have h1 := h x hx
    have h2 := mem_closureOf g srcs r hr' s x hs hr
    simpa [h2] using h1
  · cases h

/-- breadth-first search for one shortest path (for explanations; not used in proofs) -/
def pathLoop (g : Graph) (dst : Nat) : Nat → List (List Nat) → Nat → Option (List Nat)
  | 0, _, _ => none
  | _ + 1, [], _ => none
  | fuel + 1, p :: rest, vis =>
    match p with
    | [] => pathLoop g dst fuel rest vis
    | n :: _ =>
      if n = dst then some p.reverse
      else if mem vis n then pathLoop g dst fuel rest vis
      else pathLoop g dst fuel (rest ++ (succs g n).map (fun m => m :: p)) (ins vis n)

def path (g : Graph) (src dst : Nat) : Option (List Nat) :=
  pathLoop g dst (fuelFor g 1 + g.length) [[src]] 0

end VtlModel.Tables.Flow

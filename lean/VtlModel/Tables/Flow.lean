/-
C22 — reachability in the alias-flow graph extracted from /repo by the `effects` translator.  No Mathlib.

The graph is a list of successor lists, indexed by node id (a `List`, not an `Array`: the kernel evaluates
structural list recursion quickly, `Array` loops are well-founded recursion and very slow under `decide +kernel`).  `Reaches` is the mathematical notion (reflexive
transitive closure of the edge relation).  `reachable` computes a set of nodes by a fuelled worklist search;
the two facts used by Props/C22.lean are proved here for EVERY graph:
  * `reaches_of_mem_reachable` : whatever the search returns is really reachable (used for counter-examples);
  * `mem_of_reaches_closed`    : a node list that contains the source and is closed under successors contains
                                 everything reachable (used for the absence theorem — so the fuel never has
                                 to be trusted: closure is re-checked by `decide`).
-/
namespace VtlModel.Tables.Flow

abbrev Graph := List (List Nat)

def succs (g : Graph) (n : Nat) : List Nat := g.getD n []

inductive Reaches (g : Graph) : Nat → Nat → Prop
  | refl (n : Nat) : Reaches g n n
  | step {a b c : Nat} : Reaches g a b → c ∈ succs g b → Reaches g a c

/-- worklist search: `todo` = nodes still to expand, `vis` = nodes already expanded -/
def search (g : Graph) : Nat → List Nat → List Nat → List Nat
  | 0, todo, vis => todo ++ vis
  | _ + 1, [], vis => vis
  | fuel + 1, n :: rest, vis =>
    if vis.contains n then search g fuel rest vis
    else search g fuel (succs g n ++ rest) (n :: vis)

def edgeCount (g : Graph) : Nat := g.foldl (fun acc l => acc + l.length) 0

/-- every step either drops a todo entry or expands a new node: size + edges + 1 steps suffice -/
def fuelFor (g : Graph) (k : Nat) : Nat := g.length + edgeCount g + k + 1

def reachableFrom (g : Graph) (srcs : List Nat) : List Nat := search g (fuelFor g srcs.length) srcs []

def reachable (g : Graph) (src : Nat) : List Nat := reachableFrom g [src]

/-- closed under successors -/
def closed (g : Graph) (r : List Nat) : Bool := r.all (fun n => (succs g n).all (fun m => r.contains m))

/-- all successor ids are node ids of the graph -/
def wellFormed (g : Graph) : Bool := g.all (fun l => l.all (fun m => m < g.length))

theorem search_sound (g : Graph) (P : Nat → Prop) (hstep : ∀ b c, P b → c ∈ succs g b → P c) :
    ∀ (fuel : Nat) (todo vis : List Nat), (∀ x ∈ todo, P x) → (∀ x ∈ vis, P x) →
      ∀ x ∈ search g fuel todo vis, P x := by
  intro fuel
  induction fuel with
  | zero =>
    intro todo vis ht hv x hx
    simp only [search, List.mem_append] at hx
    rcases hx with hx | hx
    · exact ht x hx
    · exact hv x hx
  | succ fuel ih =>
    intro todo vis ht hv x hx
    cases todo with
    | nil => simp only [search] at hx; exact hv x hx
    | cons n rest =>
      simp only [search] at hx
      split at hx
      · exact ih rest vis (fun y hy => ht y (List.mem_cons_of_mem _ hy)) hv x hx
      · have hn : P n := ht n (List.mem_cons_self ..)
        refine ih (succs g n ++ rest) (n :: vis) ?_ ?_ x hx
        · intro y hy
          rw [List.mem_append] at hy
          rcases hy with hy | hy
          · exact hstep n y hn hy
          · exact ht y (List.mem_cons_of_mem _ hy)
        · intro y hy
          rw [List.mem_cons] at hy
          rcases hy with rfl | hy
          · exact hn
          · exact hv y hy

/-- the search only returns nodes that are reachable from one of the sources -/
theorem reaches_of_mem_reachableFrom (g : Graph) (srcs : List Nat) (x : Nat)
    (h : x ∈ reachableFrom g srcs) : ∃ s ∈ srcs, Reaches g s x := by
  refine search_sound g (fun y => ∃ s ∈ srcs, Reaches g s y) ?_ _ srcs [] ?_ ?_ x h
  · intro b c ⟨s, hs, hr⟩ hc
    exact ⟨s, hs, .step hr hc⟩
  · intro y hy
    exact ⟨y, hy, .refl y⟩
  · intro y hy; cases hy

theorem reaches_of_mem_reachable (g : Graph) (src x : Nat) (h : x ∈ reachable g src) : Reaches g src x := by
  obtain ⟨s, hs, hr⟩ := reaches_of_mem_reachableFrom g [src] x h
  rw [List.mem_singleton] at hs
  subst hs; exact hr

/-- a successor-closed list that contains the source contains everything reachable from it -/
theorem mem_of_reaches_closed (g : Graph) (r : List Nat) (hc : closed g r = true) (src x : Nat)
    (hs : src ∈ r) (h : Reaches g src x) : x ∈ r := by
  induction h with
  | refl => exact hs
  | step _ hcb ih =>
    unfold closed at hc
    rw [List.all_eq_true] at hc
    have h1 := hc _ ih
    rw [List.all_eq_true] at h1
    have h2 := h1 _ hcb
    simpa using h2

/-- breadth-first search for one shortest path (for explanations; not used in proofs) -/
def pathLoop (g : Graph) (dst : Nat) : Nat → List (List Nat) → List Nat → Option (List Nat)
  | 0, _, _ => none
  | _ + 1, [], _ => none
  | fuel + 1, p :: rest, vis =>
    match p with
    | [] => pathLoop g dst fuel rest vis
    | n :: _ =>
      if n = dst then some p.reverse
      else if vis.contains n then pathLoop g dst fuel rest vis
      else pathLoop g dst fuel (rest ++ (succs g n).map (fun m => m :: p)) (n :: vis)

def path (g : Graph) (src dst : Nat) : Option (List Nat) :=
  pathLoop g dst (fuelFor g 1 + g.length) [[src]] []

end VtlModel.Tables.Flow

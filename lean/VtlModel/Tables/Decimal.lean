/-
C30 — DECIMAL(w,s) values as scaled integers, and the types shared with the transcription of
`set_decimal_config` (Gen/ConfigBounds.lean).  No Mathlib.

A Number stored in a DECIMAL(w,s) column is an integer `n` with `|n| < 10^w`; it denotes `n / 10^s`.
A Number input is a finite decimal literal `m / 10^e` (every CSV field, every `repr` of a float is one).
DuckDB's VARCHAR/CSV → DECIMAL conversion rounds half away from zero and fails when the rounded value
needs more than `w` digits.  DECIMAL(w,s) ± DECIMAL(w,s) is integer addition of the scaled values in
DECIMAL(w+1, s) — except at widths 18 and 38, where the width stays and an overflow is an error —
never a value with lost digits.
(DuckDB itself is modelled, not verified: the correspondence run compares `load`/`addDec` with the real
DuckDB through `get_decimal_type()` and through `run()`.)
-/
import VtlModel.Tables.Util
namespace VtlModel.Tables.Decimal

/-- the module globals (DECIMAL_WIDTH, DECIMAL_SCALE) -/
structure St where
  w : Int
  s : Int
  deriving DecidableEq, Repr

/-- `RunTimeError(code=…, env_var=…, value=…, min_value=…, max_value=…, disable_value=…)` -/
structure ConfigError where
  code : String
  envVar : String
  value : Int
  minValue : Int
  maxValue : Int
  disableValue : Int
  deriving DecidableEq, Repr

/-- decimal literal `m / 10^e` -/
structure Lit where
  m : Int
  e : Nat
  deriving DecidableEq, Repr

/-- magnitude of `a / b` rounded half up (i.e. half away from zero once the sign is put back), `b > 0` -/
def roundMag (a b : Nat) : Nat := (2 * a + b) / (2 * b)

/-- `a / b` rounded half away from zero -/
def roundHalfAway (a : Int) (b : Nat) : Int :=
  if a < 0 then -((roundMag a.natAbs b : Nat) : Int) else ((roundMag a.natAbs b : Nat) : Int)

/-- the scaled integer DuckDB stores for literal `x` at scale `s` (before the width test) -/
def scaled (s : Nat) (x : Lit) : Int := roundHalfAway (x.m * (10 : Int) ^ s) (10 ^ x.e)

def fits (w : Nat) (n : Int) : Bool := n.natAbs < 10 ^ w

/-- load one Number into a DECIMAL(w,s) column: `none` = conversion error (value does not fit) -/
def load (w s : Nat) (x : Lit) : Option Int :=
  if fits w (scaled s x) then some (scaled s x) else none

/-- width of DECIMAL(w,s) ± DECIMAL(w,s) in DuckDB: one more digit, except that DuckDB does not promote
    across the 64-bit storage boundary (width 18 stays 18, with an overflow check) nor beyond `maxW` = 38 -/
def resWidth (maxW w : Nat) : Nat := if w = 18 then 18 else min (w + 1) maxW

/-- DECIMAL(w,s) + DECIMAL(w,s): integer addition of the scaled values; `none` = overflow error -/
def addDec (maxW w : Nat) (a b : Int) : Option Int :=
  if fits (resWidth maxW w) (a + b) then some (a + b) else none

def subDec (maxW w : Nat) (a b : Int) : Option Int :=
  if fits (resWidth maxW w) (a - b) then some (a - b) else none

/-- digits of `n`, left-padded with zeros to at least `k` characters -/
def padNat (k n : Nat) : String :=
  let d := toString n
  String.ofList (List.replicate (k - d.length) '0') ++ d

/-- text of a scaled integer at scale `s`, the way DuckDB prints DECIMAL(_, s): sign, integer part,
    `.` and exactly `s` decimals -/
def render (s : Nat) (n : Int) : String :=
  let a := n.natAbs
  let ip := a / 10 ^ s
  let fp := a % 10 ^ s
  (if n < 0 then "-" else "") ++ toString ip ++ (if s = 0 then "" else "." ++ padNat s fp)

end VtlModel.Tables.Decimal

/-
C30 — DECIMAL(w,s) values as scaled integers, and the types shared with the transcription of
`set_decimal_config` (Gen/ConfigBounds.lean).  No Mathlib.

A Number stored in a DECIMAL(w,s) column is an integer `n` with `|n| < 10^w`; it denotes `n / 10^s`.
A Number input is a finite decimal literal `m / 10^e` (every CSV field, every `repr` of a float is one).
DuckDB's VARCHAR/CSV → DECIMAL conversion rounds half away from zero and fails when the rounded value
needs more than `w` digits.  DECIMAL(w,s) ± DECIMAL(w,s) is integer addition of the scaled values in
DECIMAL(min(w+1,38), s); it fails on overflow of 38 digits instead of losing digits.
(DuckDB itself is modelled, not verified: the correspondence run compares `load`/`addDec` with the real
DuckDB through `get_decimal_type()` and through `run()`.)
-/
import VtlModel.Tables.Util
namespace VtlModel.Tables.Decimal

/-- the module globals (DECIMAL_WIDTH, DECIMAL_SCALE) -/
structure St where
  w : Int
  s : Int
  deriving DecidableEq, Repr

/-- `RunTimeError(code=…, env_var=…, value=…, min_value=…, max_value=…, disable_value=…)` -/
structure ConfigError where
  code : String
  envVar : String
  value : Int
  minValue : Int
  maxValue : Int
  disableValue : Int
  deriving DecidableEq, Repr

/-- decimal literal `m / 10^e` -/
structure Lit where
  m : Int
  e : Nat
  deriving DecidableEq, Repr

/-- magnitude of `a / b` rounded half up (i.e. half away from zero once the sign is put back), `b > 0` -/
def roundMag (a b : Nat) : Nat := (2 * a + b) / (2 * b)

/-- `a / b` rounded half away from zero -/
def roundHalfAway (a : Int) (b : Nat) : Int :=
  if a < 0 then -((roundMag a.natAbs b : Nat) : Int) else ((roundMag a.natAbs b : Nat) : Int)

/-- the scaled integer DuckDB stores for literal `x` at scale `s` (before the width test) -/
def scaled (s : Nat) (x : Lit) : Int := roundHalfAway (x.m * (10 : Int) ^ s) (10 ^ x.e)

def fits (w : Nat) (n : Int) : Bool := n.natAbs < 10 ^ w

/-- load one Number into a DECIMAL(w,s) column: `none` = conversion error (value does not fit) -/
def load (w s : Nat) (x : Lit) : Option Int :=
  if fits w (scaled s x) then some (scaled s x) else none

/-- DECIMAL(w,s) + DECIMAL(w,s) in DuckDB: result type DECIMAL(min(w+1,maxW), s) -/
def addDec (maxW w : Nat) (a b : Int) : Option Int :=
  if fits (min (w + 1) maxW) (a + b) then some (a + b) else none

def subDec (maxW w : Nat) (a b : Int) : Option Int :=
  if fits (min (w + 1) maxW) (a - b) then some (a - b) else none

/-- digits of `n`, left-padded with zeros to at least `k` characters -/
def padNat (k n : Nat) : String :=
  let d := toString n
  String.ofList (List.replicate (k - d.length) '0') ++ d

/-- text of a scaled integer at scale `s`, the way DuckDB prints DECIMAL(_, s): sign, integer part,
    `.` and exactly `s` decimals -/
def render (s : Nat) (n : Int) : String :=
  let a := n.natAbs
  let ip := a / 10 ^ s
  let fp := a % 10 ^ s
  (if n < 0 then "-" else "") ++ toString ip ++ (if s = 0 then "" else "." ++ padNat s fp)

end VtlModel.Tables.Decimal

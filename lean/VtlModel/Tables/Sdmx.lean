/-
C27 — model of `vtlengine.files.sdmx_handler.to_vtl_json` over a list of SDMX components.

No Mathlib.  Everything the code decides through a table or a comparison is a field of `Cfg`;
`Props/C27.lean` instantiates `Cfg` with the tables regenerated from /repo (`Gen/Sdmx.lean`).

An SDMX structure is the list of its components (`pysdmx` `Components`, any order).  `to_vtl_json`
walks `structure.components.dimensions`, then `.measures`, then `.attributes` (pysdmx: the components
whose role is D / M / A, in declaration order) — `ordered`.  For each it looks the dtype and the
role up; a failed lookup ends the whole call (`KeyError` with a plain subscript, an
`InputValidationException` when the code guards the lookup).
-/
import VtlModel.Tables.Util
namespace VtlModel.Tables.Sdmx
open VtlModel.Tables

structure SComp where
  id : String
  dtype : String
  role : String
  deriving Repr, DecidableEq

structure VComp where
  name : String
  role : String
  type : String
  nullable : Bool
  deriving Repr, DecidableEq

inductive Err where
  | inputValidation (key : String)   -- vtlengine InputValidationException
  | keyError (key : String)          -- raw Python KeyError escaping the API
  deriving Repr, DecidableEq

structure Cfg where
  dtypeMap : List (String × String)
  roleMap : List (String × String)
  groups : List String
  nullNeq : Bool
  nullRole : String
  dtypeMissIV : Bool
  roleMissIV : Bool
  dtypeFirst : Bool

def lookup (m : List (String × String)) (k : String) : Option String :=
  match m with
  | [] => none
  | (a, b) :: rest => if a == k then some b else lookup rest k

/-- components in the order the loop sees them: one group after the other -/
def ordered : List String → List SComp → List SComp
  | [], _ => []
  | g :: gs, cs => cs.filter (fun c => c.role == g) ++ ordered gs cs

def nullability (cfg : Cfg) (role : String) : Bool :=
  if cfg.nullNeq then role != cfg.nullRole else role == cfg.nullRole

def missErr (iv : Bool) (k : String) : Err := if iv then .inputValidation k else .keyError k

/-- one iteration of the loop body -/
def convOne (cfg : Cfg) (c : SComp) : Except Err VComp :=
  match lookup cfg.dtypeMap c.dtype, lookup cfg.roleMap c.role with
  | some t, some r => .ok ⟨c.id, r, t, nullability cfg c.role⟩
  | none, some _ => .error (missErr cfg.dtypeMissIV c.dtype)
  | some _, none => .error (missErr cfg.roleMissIV c.role)
  | none, none => if cfg.dtypeFirst then .error (missErr cfg.dtypeMissIV c.dtype)
                  else .error (missErr cfg.roleMissIV c.role)

/-- the loop: stops at the first component that cannot be converted -/
def convAll (cfg : Cfg) : List SComp → Except Err (List VComp)
  | [] => .ok []
  | c :: cs =>
    match convOne cfg c with
    | .error e => .error e
    | .ok v =>
      match convAll cfg cs with
      | .error e => .error e
      | .ok vs => .ok (v :: vs)

def toVtlJson (cfg : Cfg) (cs : List SComp) : Except Err (List VComp) :=
  convAll cfg (ordered cfg.groups cs)

/-- two lists related element by element (same length, same order) -/
inductive Pw {α β : Type} (R : α → β → Prop) : List α → List β → Prop
  | nil : Pw R [] []
  | cons {a b l m} : R a b → Pw R l m → Pw R (a :: l) (b :: m)

/-- what the documentation promises for one component (oracle side) -/
def docConv (docD : List (String × String)) (docR : List (String × String × Bool)) (c : SComp) : Option VComp :=
  match lookup docD c.dtype, docR.find? (fun r => r.1 == c.role) with
  | some t, some (_, r, n) => some ⟨c.id, r, t, n⟩
  | _, _ => none

end VtlModel.Tables.Sdmx

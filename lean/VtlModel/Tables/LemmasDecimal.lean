import VtlModel.Tables.Decimal
/-! Helper lemmas for C30: arithmetic of `roundMag`, `scaled`, `fits` (no Mathlib needed). -/
namespace VtlModel.Tables.Decimal

theorem pow10_pos (n : Nat) : 0 < 10 ^ n := Nat.pow_pos (by decide)

/-- `roundMag a b` is `⌊a/b + 1/2⌋` -/
theorem roundMag_spec (a b : Nat) (hb : 0 < b) :
    roundMag a b * (2 * b) ≤ 2 * a + b ∧ 2 * a + b < (roundMag a b + 1) * (2 * b) := by
  unfold roundMag
  have h2b : 0 < 2 * b := by omega
  refine ⟨Nat.div_mul_le_self _ _, ?_⟩
  have := Nat.lt_mul_div_succ (2 * a + b) h2b
  calc 2 * a + b < 2 * b * ((2 * a + b) / (2 * b) + 1) := this
    _ = ((2 * a + b) / (2 * b) + 1) * (2 * b) := Nat.mul_comm _ _

theorem roundMag_unique (a b k : Nat) (hb : 0 < b) (h1 : k * (2 * b) ≤ 2 * a + b)
    (h2 : 2 * a + b < (k + 1) * (2 * b)) : roundMag a b = k := by
  unfold roundMag
  have h2b : 0 < 2 * b := by omega
  apply Nat.div_eq_of_lt_le
  · rw [Nat.mul_comm] at h1; rw [Nat.mul_comm]; exact h1
  · exact h2

theorem natAbs_roundHalfAway (a : Int) (b : Nat) : (roundHalfAway a b).natAbs = roundMag a.natAbs b := by
  unfold roundHalfAway
  split <;> simp

theorem natAbs_scaled_num (m : Int) (s : Nat) : (m * (10 : Int) ^ s).natAbs = m.natAbs * 10 ^ s := by
  rw [Int.natAbs_mul, Int.natAbs_pow]; rfl

theorem natAbs_scaled (s : Nat) (x : Lit) :
    (scaled s x).natAbs = roundMag (x.m.natAbs * 10 ^ s) (10 ^ x.e) := by
  unfold scaled
  rw [natAbs_roundHalfAway, natAbs_scaled_num]

theorem scaled_sign (s : Nat) (x : Lit) : (scaled s x < 0 → x.m < 0) ∧ (0 < scaled s x → 0 < x.m) := by
  unfold scaled roundHalfAway
  have hp : (0 : Int) < (10 : Int) ^ s := Int.pow_pos (by decide)
  constructor
  · intro h
    split at h
    · rename_i hneg
      by_cases hm : x.m < 0
      · exact hm
      · have : 0 ≤ x.m * (10 : Int) ^ s := Int.mul_nonneg (by omega) (by omega)
        omega
    · omega
  · intro h
    split at h
    · omega
    · rename_i hnn
      by_cases hm : 0 < x.m
      · exact hm
      · have hm0 : x.m = 0 ∨ x.m < 0 := by omega
        rcases hm0 with hm0 | hm0
        · have hz : roundMag (x.m * (10 : Int) ^ s).natAbs (10 ^ x.e) = 0 := by
            rw [hm0]
            apply roundMag_unique _ _ 0 (pow10_pos _)
            · simp
            · simp; have := pow10_pos x.e; omega
          rw [hz] at h; simp at h
        · have : x.m * (10 : Int) ^ s < 0 := Int.mul_neg_of_neg_of_pos hm0 hp
          omega

end VtlModel.Tables.Decimal

import VtlModel.Session.Bracket
/-! Helper lemmas for C16 (generic in the bracket program; nothing here mentions `Gen`). -/
namespace VtlModel.Session

theorem applyBody_res (b : BodyOp) (s : St) : (applyBody b s).res = s.res := by
  cases b <;> rfl

theorem applyBody_dec (b : BodyOp) (s : St) : (applyBody b s).dec = s.dec := by
  cases b <;> rfl

theorem applyBody_repr (b : BodyOp) (s : St) : (applyBody b s).repr = s.repr := by
  cases b <;> rfl

/-- The `with` block never touches the session resources, whatever the script and the fault. -/
theorem execOps_res (f : Option Nat) : ∀ (script : List BodyOp) (s : St), (execOps f script s).1.res = s.res
  | [], s => rfl
  | b :: rest, s => by
    simp only [execOps]
    split
    · rfl
    · rw [execOps_res f rest]; simp [applyBody_res]

theorem execOps_dec (f : Option Nat) : ∀ (script : List BodyOp) (s : St), (execOps f script s).1.dec = s.dec
  | [], s => rfl
  | b :: rest, s => by
    simp only [execOps]
    split
    · rfl
    · rw [execOps_dec f rest]; simp [applyBody_dec]

theorem execOps_noFault : ∀ (script : List BodyOp) (s : St), (execOps none script s).2 = false
  | [], s => rfl
  | b :: rest, s => by
    simp only [execOps]
    simp [execOps_noFault rest]

/-! ### soundness of the abstract semantics -/

theorem absOp_sound (c : Ctx) (o : Op) (s : St) :
    ((applyOp c o s).1.res, (applyOp c o s).2) ∈ absOp c.env.inMemory o s.res := by
  cases o
  case setDecimal =>
    simp only [absOp, applyOp]
    cases h : (c.sd s.dec c.env).2 <;> simp
  all_goals
    simp only [absOp, applyOp, List.mem_singleton]
    repeat' split
    all_goals simp_all

theorem exec_sound (c : Ctx) : ∀ (p : Prog) (s : St),
    ((exec c p s).1.res, (exec c p s).2) ∈ execN c.env.inMemory p s.res
  | .skip, s => by simp [exec, execN]
  | .op o, s => by simpa [exec, execN] using absOp_sound c o s
  | .ev n, s => by
    simp only [exec, execN]
    cases h : decide (c.fault = some s.idx) <;> simp_all
  | .body, s => by
    simp only [exec, execN, execBody, execOps_res]
    cases h : (execOps c.fault c.script { s with repr := c.fmt }).2 <;> simp
  | .seq a b, s => by
    simp only [exec, execN, List.mem_flatMap]
    refine ⟨_, exec_sound c a s, ?_⟩
    cases h : (exec c a s).2
    · simpa [h] using exec_sound c b (exec c a s).1
    · simp [h]
  | .tryFinally a b, s => by
    simp only [exec, execN, List.mem_flatMap, List.mem_map]
    exact ⟨_, exec_sound c a s, _, exec_sound c b (exec c a s).1, rfl⟩
  | .tryExcept a h, s => by
    simp only [exec, execN, List.mem_flatMap]
    refine ⟨_, exec_sound c a s, ?_⟩
    cases hr : (exec c a s).2
    · simp [hr]
    · simp only [hr, if_true, List.mem_map]
      exact ⟨_, exec_sound c h (exec c a s).1, rfl⟩
  | .ifConn a, s => by
    simp only [exec, execN]
    cases hc : s.res.conn <;> simp [exec_sound c a s]

/-! ### a fault index beyond a body-free program never fires in it -/

theorem applyOp_idx (c : Ctx) (o : Op) (s : St) : (applyOp c o s).1.idx = s.idx := by
  cases o <;> simp only [applyOp] <;> repeat' split
  all_goals rfl

theorem exec_idx_le (c : Ctx) : ∀ (p : Prog) (s : St), hasBody p = false →
    (exec c p s).1.idx ≤ s.idx + evCount p
  | .skip, s, _ => by simp [exec, evCount]
  | .op o, s, _ => by simp [exec, evCount, applyOp_idx]
  | .ev n, s, _ => by simp [exec, evCount]
  | .body, s, h => by simp [hasBody] at h
  | .seq a b, s, h => by
    simp only [hasBody, Bool.or_eq_false_iff] at h
    simp only [exec, evCount]
    have ha := exec_idx_le c a s h.1
    split
    · omega
    · have hb := exec_idx_le c b (exec c a s).1 h.2; omega
  | .tryFinally a b, s, h => by
    simp only [hasBody, Bool.or_eq_false_iff] at h
    simp only [exec, evCount]
    have ha := exec_idx_le c a s h.1
    have hb := exec_idx_le c b (exec c a s).1 h.2; omega
  | .tryExcept a b, s, h => by
    simp only [hasBody, Bool.or_eq_false_iff] at h
    simp only [exec, evCount]
    have ha := exec_idx_le c a s h.1
    split
    · have hb := exec_idx_le c b (exec c a s).1 h.2; simp only; omega
    · omega
  | .ifConn a, s, h => by
    simp only [hasBody] at h
    simp only [exec, evCount]
    have ha := exec_idx_le c a s h
    split <;> first | omega | simp

def Ctx.noFault (c : Ctx) : Ctx := { c with fault := none }

theorem applyOp_noFault (c : Ctx) (o : Op) (s : St) : applyOp c.noFault o s = applyOp c o s := by
  cases o <;> rfl

theorem exec_fault_ge (c : Ctx) (k : Nat) (hk : c.fault = some k) : ∀ (p : Prog) (s : St), hasBody p = false →
    s.idx + evCount p ≤ k → exec c p s = exec c.noFault p s
  | .skip, s, _, _ => by simp [exec]
  | .op o, s, _, _ => by simp [exec, applyOp_noFault]
  | .ev n, s, _, h => by
    simp only [evCount] at h
    have : k ≠ s.idx := by omega
    simp [exec, hk, Ctx.noFault, this]
  | .body, s, h, _ => by simp [hasBody] at h
  | .seq a b, s, h, hle => by
    simp only [hasBody, Bool.or_eq_false_iff] at h
    simp only [evCount] at hle
    have ha := exec_fault_ge c k hk a s h.1 (by omega)
    simp only [exec, ha]
    split
    · rfl
    · have hi := exec_idx_le c.noFault a s h.1
      exact exec_fault_ge c k hk b _ h.2 (by omega)
  | .tryFinally a b, s, h, hle => by
    simp only [hasBody, Bool.or_eq_false_iff] at h
    simp only [evCount] at hle
    have ha := exec_fault_ge c k hk a s h.1 (by omega)
    have hi := exec_idx_le c.noFault a s h.1
    have hb := exec_fault_ge c k hk b (exec c.noFault a s).1 h.2 (by omega)
    simp only [exec, ha, hb]
  | .tryExcept a b, s, h, hle => by
    simp only [hasBody, Bool.or_eq_false_iff] at h
    simp only [evCount] at hle
    have ha := exec_fault_ge c k hk a s h.1 (by omega)
    have hi := exec_idx_le c.noFault a s h.1
    have hb := exec_fault_ge c k hk b (exec c.noFault a s).1 h.2 (by omega)
    simp only [exec, ha, hb]
  | .ifConn a, s, h, hle => by
    simp only [hasBody] at h
    simp only [evCount] at hle
    have ha := exec_fault_ge c k hk a s h hle
    simp only [exec, ha]

/-! ### independence of the process globals a run starts from -/

/-- Two machine states that differ at most in the process globals. -/
def Same (s s' : St) : Prop :=
  s.res = s'.res ∧ s.tables = s'.tables ∧ s.idx = s'.idx ∧ s.trace = s'.trace ∧ s.seen = s'.seen

/-- The decimal globals agree, or `set_decimal_config` does not look at their old value. -/
def DecOk (c : Ctx) (s s' : St) : Prop :=
  s.dec = s'.dec ∨ ∀ d d', c.sd d c.env = c.sd d' c.env

theorem execOps_same (f : Option Nat) : ∀ (script : List BodyOp) (s s' : St),
    Same s s' → s.repr = s'.repr →
    Same (execOps f script s).1 (execOps f script s').1 ∧ (execOps f script s).2 = (execOps f script s').2
  | [], s, s', h, _ => ⟨h, rfl⟩
  | b :: rest, s, s', h, hr => by
    obtain ⟨h1, h2, h3, h4, h5⟩ := h
    simp only [execOps, h3]
    split
    · exact ⟨⟨h1, h2, by simp [h3], by simp [h4], h5⟩, rfl⟩
    · apply execOps_same f rest
      · cases b <;> simp [applyBody, Same, h1, h2, h3, h4, h5, hr]
      · simp [applyBody_repr, hr]

theorem execOps_decOk (c : Ctx) (f : Option Nat) (script : List BodyOp) (s s' : St) (h : DecOk c s s') :
    DecOk c (execOps f script s).1 (execOps f script s').1 := by
  cases h with
  | inl h => left; simp [execOps_dec, h]
  | inr h => right; exact h

theorem applyOp_same (c : Ctx) (o : Op) (s s' : St) (h : Same s s') (hd : DecOk c s s') :
    Same (applyOp c o s).1 (applyOp c o s').1 ∧ (applyOp c o s).2 = (applyOp c o s').2 ∧
    DecOk c (applyOp c o s).1 (applyOp c o s').1 := by
  obtain ⟨h1, h2, h3, h4, h5⟩ := h
  cases o
  case setDecimal =>
    have e : c.sd s.dec c.env = c.sd s'.dec c.env := by
      cases hd with
      | inl hd => rw [hd]
      | inr hd => exact hd _ _
    simp only [applyOp, e, Same, h1, h2, h3, h4, h5, DecOk, true_and, and_self, true_or]
  all_goals
    simp only [applyOp, h1, connUsable]
    repeat' split
    all_goals
      refine ⟨⟨?_, h2, h3, h4, h5⟩, ?_, hd⟩
      · first | exact h1 | rfl | simp_all
      · first | rfl | trivial | simp_all

theorem exec_same (c : Ctx) : ∀ (p : Prog) (s s' : St), Same s s' → DecOk c s s' →
    Same (exec c p s).1 (exec c p s').1 ∧ (exec c p s).2 = (exec c p s').2 ∧ DecOk c (exec c p s).1 (exec c p s').1
  | .skip, s, s', h, hd => ⟨h, rfl, hd⟩
  | .op o, s, s', h, hd => by simpa [exec] using applyOp_same c o s s' h hd
  | .ev n, s, s', h, hd => by
    obtain ⟨h1, h2, h3, h4, h5⟩ := h
    simp only [exec, h3]
    exact ⟨⟨h1, h2, by simp [h3], by simp [h4], h5⟩, trivial, hd⟩
  | .body, s, s', h, hd => by
    simp only [exec, execBody]
    have hs : Same { s with repr := c.fmt } { s' with repr := c.fmt } := h
    have := execOps_same c.fault c.script _ _ hs rfl
    exact ⟨this.1, this.2, execOps_decOk c _ _ _ _ hd⟩
  | .seq a b, s, s', h, hd => by
    have ha := exec_same c a s s' h hd
    simp only [exec, ← ha.2.1]
    split
    · exact ha
    · exact exec_same c b _ _ ha.1 ha.2.2
  | .tryFinally a b, s, s', h, hd => by
    have ha := exec_same c a s s' h hd
    have hb := exec_same c b _ _ ha.1 ha.2.2
    simp only [exec, ← ha.2.1, ← hb.2.1]
    exact ⟨hb.1, trivial, hb.2.2⟩
  | .tryExcept a b, s, s', h, hd => by
    have ha := exec_same c a s s' h hd
    have hb := exec_same c b _ _ ha.1 ha.2.2
    simp only [exec, ← ha.2.1]
    split
    · exact ⟨hb.1, rfl, hb.2.2⟩
    · exact ha
  | .ifConn a, s, s', h, hd => by
    have hc : s.res.conn = s'.res.conn := by rw [h.1]
    simp only [exec, ← hc]
    split
    · exact ⟨h, rfl, hd⟩
    · exact ⟨h, rfl, hd⟩
    · exact exec_same c a s s' h hd

theorem applyOp_dec_stable (c : Ctx) (o : Op) (s : St) (h : (c.sd s.dec c.env).1 = s.dec) :
    (applyOp c o s).1.dec = s.dec := by
  cases o
  case setDecimal => simpa [applyOp] using h
  all_goals
    simp only [applyOp]
    repeat' split
    all_goals rfl

/-- If `set_decimal_config` maps the current globals to themselves under this environment, the run leaves
them as they were (wherever it stops). -/
theorem exec_dec_stable (c : Ctx) (d : Dec) (h : (c.sd d c.env).1 = d) : ∀ (p : Prog) (s : St), s.dec = d →
    (exec c p s).1.dec = d
  | .skip, s, hs => hs
  | .op o, s, hs => by
    simp only [exec]; rw [applyOp_dec_stable c o s (by rw [hs]; exact h)]; exact hs
  | .ev n, s, hs => hs
  | .body, s, hs => by simp only [exec, execBody, execOps_dec]; exact hs
  | .seq a b, s, hs => by
    have ha := exec_dec_stable c d h a s hs
    simp only [exec]
    split
    · exact ha
    · exact exec_dec_stable c d h b _ ha
  | .tryFinally a b, s, hs => by
    have ha := exec_dec_stable c d h a s hs
    simp only [exec]
    exact exec_dec_stable c d h b _ ha
  | .tryExcept a b, s, hs => by
    have ha := exec_dec_stable c d h a s hs
    simp only [exec]
    split
    · exact exec_dec_stable c d h b _ ha
    · exact ha
  | .ifConn a, s, hs => by
    simp only [exec]
    split
    · exact hs
    · exact hs
    · exact exec_dec_stable c d h a s hs

end VtlModel.Session

/-
C17 — concurrent API calls over process-wide variables: a shared-store interleaving machine.

A call is the list of its accesses to process-wide variables (as recorded from the real engine through the
`_verif.access` hook, translated on every run): reads, writes of a value, read-modify-writes (counters) and
acquisitions / releases of locks.  `run` executes any schedule (any number of threads and steps; a step of
a finished or blocked call is a no-op).  `soloObs` is what a call observes when executed alone.
`disciplined` is the decidable discipline under which every interleaving is observationally sequential.

Import-free, total, computable.
-/
namespace VtlModel.Interleave

inductive Action
  | read (v : Nat)
  | write (v : Nat) (x : Int)
  | incr (v : Nat)            -- read-modify-write (`cls.count += 1`): observes the old value
  | acq (l : Nat)
  | rel (l : Nat)
  deriving DecidableEq, Repr, Inhabited

abbrev Store := Nat → Int

def upd {α : Type} (f : Nat → α) (i : Nat) (x : α) : Nat → α := fun j => if j = i then x else f j

structure Thread where
  rem : List Action          -- what the call still has to do
  obs : List Int := []       -- the values it has observed so far
  priv : Store               -- ghost: the store as it would be had this call run alone so far

structure State where
  th : Nat → Thread
  store : Store
  holder : Nat → Option Nat  -- lock ↦ the call holding it

/-- One scheduling decision: call `i` performs its next access (no-op when finished or blocked). -/
def step (st : State) (i : Nat) : State :=
  let t := st.th i
  match t.rem with
  | [] => st
  | .read v :: rest =>
    { st with th := upd st.th i { rem := rest, obs := t.obs ++ [st.store v], priv := t.priv } }
  | .write v x :: rest =>
    { st with th := upd st.th i { rem := rest, obs := t.obs, priv := upd t.priv v x }
              store := upd st.store v x }
  | .incr v :: rest =>
    { st with th := upd st.th i { rem := rest, obs := t.obs ++ [st.store v], priv := upd t.priv v (t.priv v + 1) }
              store := upd st.store v (st.store v + 1) }
  | .acq l :: rest =>
    match st.holder l with
    | none => { st with th := upd st.th i { rem := rest, obs := t.obs, priv := t.priv }
                        holder := upd st.holder l (some i) }
    | some _ => st           -- blocked (nested acquisitions of an RLock are flattened by the translator)
  | .rel l :: rest =>
    { st with th := upd st.th i { rem := rest, obs := t.obs, priv := t.priv }
              holder := if st.holder l = some i then upd st.holder l none else st.holder }

def run (st : State) : List Nat → State
  | [] => st
  | i :: sched => run (step st i) sched

def start (init : Store) (calls : List (List Action)) : State :=
  { th := fun i => { rem := calls.getD i [], priv := init }, store := init, holder := fun _ => none }

/-- What a call observes when it is executed alone from `σ`. -/
def soloObs : Store → List Action → List Int
  | _, [] => []
  | σ, .read v :: rest => σ v :: soloObs σ rest
  | σ, .write v x :: rest => soloObs (upd σ v x) rest
  | σ, .incr v :: rest => σ v :: soloObs (upd σ v (σ v + 1)) rest
  | σ, .acq _ :: rest => soloObs σ rest
  | σ, .rel _ :: rest => soloObs σ rest

/-! ### the discipline -/

/-- (A) the call never writes `v`. -/
def noWrite (v : Nat) : List Action → Bool
  | [] => true
  | .write v' _ :: rest => v' != v && noWrite v rest
  | .incr v' :: rest => v' != v && noWrite v rest
  | .read _ :: rest => noWrite v rest
  | .acq _ :: rest => noWrite v rest
  | .rel _ :: rest => noWrite v rest

/-- (B) every access of the call to `v` lies inside a region of lock `l`, and inside each region the call
writes `v` before it reads it (so the region spans the write and all dependent reads).
`held`: inside a region now; `inited`: `v` written since the region began. -/
def okLocked (v l : Nat) : Bool → Bool → List Action → Bool
  | _, _, [] => true
  | held, inited, .acq l' :: rest => if l' = l then !held && okLocked v l true false rest else okLocked v l held inited rest
  | held, inited, .rel l' :: rest => if l' = l then held && okLocked v l false false rest else okLocked v l held inited rest
  | held, inited, .read v' :: rest => if v' = v then held && inited && okLocked v l held inited rest else okLocked v l held inited rest
  | held, inited, .write v' _ :: rest => if v' = v then held && okLocked v l held true rest else okLocked v l held inited rest
  | held, inited, .incr v' :: rest => if v' = v then held && inited && okLocked v l held true rest else okLocked v l held inited rest

/-- (C) every write of `v` writes the same value `c`, it is never incremented, and the call reads `v` only
after having written it itself. -/
def okSame (v : Nat) (c : Int) : Bool → List Action → Bool
  | _, [] => true
  | w, .read v' :: rest => if v' = v then w && okSame v c w rest else okSame v c w rest
  | w, .write v' x :: rest => if v' = v then x == c && okSame v c true rest else okSame v c w rest
  | w, .incr v' :: rest => if v' = v then false else okSame v c w rest
  | w, .acq _ :: rest => okSame v c w rest
  | w, .rel _ :: rest => okSame v c w rest

/-- (D) the call never reads `v` (write-only variable: nobody can observe it). -/
def noRead (v : Nat) : List Action → Bool
  | [] => true
  | .read v' :: rest => v' != v && noRead v rest
  | .incr v' :: rest => v' != v && noRead v rest
  | .write _ _ :: rest => noRead v rest
  | .acq _ :: rest => noRead v rest
  | .rel _ :: rest => noRead v rest

def varsOf : List Action → List Nat
  | [] => []
  | .read v :: rest => v :: varsOf rest
  | .write v _ :: rest => v :: varsOf rest
  | .incr v :: rest => v :: varsOf rest
  | .acq _ :: rest => varsOf rest
  | .rel _ :: rest => varsOf rest

def locksOf : List Action → List Nat
  | [] => []
  | .acq l :: rest => l :: locksOf rest
  | _ :: rest => locksOf rest

def valuesOf (v : Nat) : List Action → List Int
  | [] => []
  | .write v' x :: rest => if v' = v then x :: valuesOf v rest else valuesOf v rest
  | _ :: rest => valuesOf v rest

def kindA (calls : List (List Action)) (v : Nat) : Bool := calls.all (noWrite v)
def kindB (calls : List (List Action)) (v : Nat) : Bool :=
  (calls.flatMap locksOf).any fun l => calls.all (okLocked v l false false)
def kindC (calls : List (List Action)) (v : Nat) : Bool :=
  (calls.flatMap (valuesOf v)).any fun c => calls.all (okSame v c false)

def kindD (calls : List (List Action)) (v : Nat) : Bool := calls.all (noRead v)

def disciplinedVar (calls : List (List Action)) (v : Nat) : Bool :=
  kindA calls v || kindB calls v || kindC calls v || kindD calls v

/-- The decidable discipline evaluated by the driver on the recorded traces. -/
def disciplined (calls : List (List Action)) : Bool :=
  (calls.flatMap varsOf).all (disciplinedVar calls)

/-- Variables on which the recorded calls are not disciplined. -/
def undisciplinedVars (calls : List (List Action)) : List Nat :=
  ((calls.flatMap varsOf).filter fun v => !disciplinedVar calls v).eraseDups

end VtlModel.Interleave

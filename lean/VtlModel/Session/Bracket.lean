/-
C16 — the resource bracket of `run()` (`configured_connection` in
`duckdb_transpiler/Config/config.py`) as a small exception-aware program.

The *shape* of the bracket (which calls are before the `try`, inside it, in the `finally`) is not written
here: it is regenerated from the source into `VtlModel/Gen/Bracket.lean` (`pre`, `main`) on every run.
This file gives the language (`Prog`), its semantics with one injected fault (`exec`), the abstract
"a fault may happen at any fault point" semantics (`execN`) used to decide cleanliness for *all* scripts
and fault indices at once, the decimal-configuration step, and a hand-written snapshot of the bracket as
it was at commit ebd8c71 (used only for the counter-examples).

Import-free, total, computable.
-/
namespace VtlModel.Session

/-- Primitive effects of the bracket. -/
inductive Op
  | mkdirTemp      -- Path(temp_dir).mkdir(parents=True, exist_ok=True)   (not a session resource)
  | mkdirSession   -- session_dir.mkdir(exist_ok=True)
  | chooseDb       -- if database == ":memory:" and not _use_in_memory_db(): database = session_dir/"session.duckdb"
  | bindNone       -- conn = None
  | connect        -- duckdb.connect(database, ...): the connection object exists and is open
  | bindConn       -- the variable `conn` of configured_connection receives it (the call that created it returned)
  | configure      -- conn.execute("SET ...")
  | registerUdf    -- register_regex_functions(conn)
  | setDecimal     -- set_decimal_config(): writes the module globals, may reject the environment
  | setTemp        -- conn.execute("SET temp_directory = session_dir")
  | close          -- conn.close() in configured_connection (through the variable `conn`)
  | closeInner     -- conn.close() inside create_configured_connection / configure_duckdb_connection (their local)
  | rmtree         -- shutil.rmtree(session_dir, ignore_errors=True)
  | connectExtra   -- any further duckdb.connect(...) bound to another name
  | closeExtra     -- that other connection's .close()
  deriving DecidableEq, Repr, Inhabited

/-- What `execute_queries` does inside the `with` block; every one is announced by a hook event. -/
inductive BodyOp
  | load (i : Nat) | stmt (i : Nat) | drop (i : Nat) | fetch (i : Nat) | write (i : Nat) | results
  deriving DecidableEq, Repr, Inhabited

def BodyOp.name : BodyOp → String
  | .load _ => "load" | .stmt _ => "stmt" | .drop _ => "drop"
  | .fetch _ => "fetch" | .write _ => "write" | .results => "results"

/-- Python statement structure of the context manager. -/
inductive Prog
  | skip
  | op (o : Op)
  | ev (name : String)            -- `_verif.event(name, ...)`: a fault point
  | body                          -- `yield conn`: the caller's `with` block
  | seq (a b : Prog)
  | tryFinally (a b : Prog)       -- try: a  finally: b
  | tryExcept (a h : Prog)        -- try: a  except BaseException: h; raise
  | ifConn (a : Prog)             -- if conn is not None: a
  deriving Repr, Inhabited

/-- the variable `conn` of configured_connection -/
inductive ConnVar | unbound | none | bound
  deriving DecidableEq, Repr, Inhabited

/-- the connection object created by this run -/
inductive ConnObj | absent | open | closed
  deriving DecidableEq, Repr, Inhabited

/-- Session resources of one run. -/
structure Res where
  dir : Bool := false          -- the `duckdb_tmp_<uuid>` directory exists
  conn : ConnVar := .unbound   -- the variable `conn`
  obj : ConnObj := .absent     -- the connection object
  extra : Nat := 0             -- further open connections (bound to other names, or replaced)
  file : Bool := false         -- `session.duckdb` exists
  fileBacked : Bool := false   -- the database path points into the session directory
  hazard : Bool := false       -- the session directory was removed while a connection was still open
  deriving DecidableEq, Repr, Inhabited

inductive Leak | dir | conn | file
  deriving DecidableEq, Repr, Inhabited

def leftovers (r : Res) : List Leak :=
  (if r.dir then [Leak.dir] else []) ++
  (if r.obj = .open ∨ r.extra ≠ 0 then [Leak.conn] else []) ++
  (if r.file then [Leak.file] else [])

/-- An environment variable as `int(os.getenv(...))` sees it. -/
inductive EnvVal | unset | int (n : Int) | junk
  deriving DecidableEq, Repr, Inhabited

structure Env where
  inMemory : Bool := true          -- VTL_USE_IN_MEMORY_DB
  width : EnvVal := .unset         -- VTL_DUCKDB_DECIMAL_WIDTH
  scale : EnvVal := .unset         -- OUTPUT_NUMBER_SIGNIFICANT_DIGITS
  deriving DecidableEq, Repr, Inhabited

/-- The module globals DECIMAL_WIDTH / DECIMAL_SCALE. -/
structure Dec where
  w : Int := 28
  s : Int := 10
  deriving DecidableEq, Repr, Inhabited

/-- `set_decimal_config` as a function: old globals, environment ↦ new globals, raised?.
The bracket semantics is parametric in it; `setDecSnapshot` is the code as of ebd8c71. -/
abbrev SetDec := Dec → Env → Dec × Bool

def setDecSnapshot : SetDec := fun d env =>
  match env.width with
  | .junk => (d, true)                                   -- int("x") raises before the assignment
  | wv =>
    let w := match wv with | .int n => n | _ => d.w       -- os.getenv(VAR, DECIMAL_WIDTH): default = current global
    match env.scale with
    | .junk => ({ d with w := w }, true)
    | sv =>
      let s := match sv with | .int n => n | _ => d.s
      let w := if w = -1 then 38 else w
      let s := if s = -1 then 15 else s
      if s < 6 ∨ s > 15 then ({ w := w, s := s }, true)
      else if w < 6 ∨ s > 38 then ({ w := w, s := s }, true)   -- sic: compares DECIMAL_SCALE with MAX_DECIMAL_WIDTH
      else ({ w := w, s := s }, false)

/-- Machine state of one run. -/
structure St where
  res : Res := {}
  dec : Dec := {}
  repr : Nat := 0            -- TimePeriodConfig._representation
  tables : List Nat := []
  idx : Nat := 0             -- fault points passed so far
  trace : List String := []  -- hook events in order
  seen : List Int := []      -- values of process globals this run fixed / read (decimal config, representation)
  deriving Repr, Inhabited

structure Ctx where
  sd : SetDec
  env : Env
  fmt : Nat                  -- requested time_period_output_format
  script : List BodyOp
  fault : Option Nat         -- index of the fault point at which the sink raises

def connUsable (r : Res) : Bool := r.obj = .open

def applyOp (c : Ctx) (o : Op) (s : St) : St × Bool :=
  let r := s.res
  match o with
  | .mkdirTemp => (s, false)
  | .mkdirSession => ({ s with res := { r with dir := true } }, false)
  | .chooseDb => ({ s with res := { r with fileBacked := !c.env.inMemory } }, false)
  | .bindNone => ({ s with res := { r with conn := .none } }, false)
  | .connect =>
      if r.fileBacked && !r.dir then (s, true)
      else ({ s with res := { r with obj := .open, extra := (if r.obj = .open then r.extra + 1 else r.extra),
                                       file := r.file || r.fileBacked } }, false)
  | .bindConn => ({ s with res := { r with conn := .bound } }, false)
  | .configure => (s, !connUsable r)
  | .registerUdf => (s, !connUsable r)
  | .setTemp => (s, !connUsable r)
  | .setDecimal =>
      let (d, raised) := c.sd s.dec c.env
      ({ s with dec := d, seen := if raised then s.seen else s.seen ++ [d.w, d.s] }, raised)
  | .close =>
      match r.conn, r.obj with
      | .bound, .open => ({ s with res := { r with obj := .closed } }, false)
      | .bound, .closed => (s, false)
      | _, _ => (s, true)                                  -- NameError / AttributeError on None
  | .closeInner =>
      match r.obj with
      | .open => ({ s with res := { r with obj := .closed } }, false)
      | .closed => (s, false)
      | .absent => (s, true)
  | .rmtree =>
      ({ s with res := { r with dir := false, file := false,
                                hazard := r.hazard || (r.obj = .open) || (r.extra != 0) } }, false)
  | .connectExtra => ({ s with res := { r with extra := r.extra + 1 } }, false)
  | .closeExtra => ({ s with res := { r with extra := r.extra - 1 } }, false)

def applyBody (b : BodyOp) (s : St) : St :=
  match b with
  | .load i => { s with tables := i :: s.tables }
  | .stmt i => { s with tables := i :: s.tables }
  | .drop i => { s with tables := s.tables.filter (· != i) }
  | .fetch _ => { s with seen := s.seen ++ [(s.repr : Int)] }
  | .write _ => { s with seen := s.seen ++ [(s.repr : Int)] }
  | .results => s

/-- The `with` block: each operation is preceded by its hook event (a fault point). -/
def execOps (fault : Option Nat) : List BodyOp → St → St × Bool
  | [], s => (s, false)
  | b :: rest, s =>
    let s1 := { s with idx := s.idx + 1, trace := s.trace ++ [b.name] }
    if fault = some s.idx then (s1, true) else execOps fault rest (applyBody b s1)

/-- `execute_queries`: `TimePeriodRepresentation.check_value` writes the representation first. -/
def execBody (c : Ctx) (s : St) : St × Bool :=
  execOps c.fault c.script { s with repr := c.fmt }

def exec (c : Ctx) : Prog → St → St × Bool
  | .skip, s => (s, false)
  | .op o, s => applyOp c o s
  | .ev n, s => ({ s with idx := s.idx + 1, trace := s.trace ++ [n] }, c.fault = some s.idx)
  | .body, s => execBody c s
  | .seq a b, s =>
    let r1 := exec c a s
    if r1.2 then r1 else exec c b r1.1
  | .tryFinally a b, s =>
    let r1 := exec c a s
    let r2 := exec c b r1.1
    (r2.1, r1.2 || r2.2)
  | .tryExcept a h, s =>
    let r1 := exec c a s
    if r1.2 then ((exec c h r1.1).1, true) else r1
  | .ifConn a, s =>
    match s.res.conn with
    | .unbound => (s, true)
    | .none => (s, false)
    | _ => exec c a s

/-- Number of fault points of a body-free program when nothing raises (upper bound otherwise). -/
def evCount : Prog → Nat
  | .skip => 0 | .op _ => 0 | .ev _ => 1 | .body => 0
  | .seq a b => evCount a + evCount b
  | .tryFinally a b => evCount a + evCount b
  | .tryExcept a h => evCount a + evCount h
  | .ifConn a => evCount a

def hasBody : Prog → Bool
  | .body => true
  | .seq a b => hasBody a || hasBody b
  | .tryFinally a b => hasBody a || hasBody b
  | .tryExcept a h => hasBody a || hasBody h
  | .ifConn a => hasBody a
  | _ => false

/-! ### "A fault may occur at any fault point": abstract semantics over resources only -/

def absOp (inMem : Bool) (o : Op) (r : Res) : List (Res × Bool) :=
  match o with
  | .setDecimal => [(r, false), (r, true)]
  | o =>
    -- every other primitive acts on resources independently of globals, script and fault index
    let c : Ctx := { sd := fun d _ => (d, false), env := { inMemory := inMem }, fmt := 0, script := [], fault := none }
    let x := applyOp c o { res := r }
    [(x.1.res, x.2)]

def execN (inMem : Bool) : Prog → Res → List (Res × Bool)
  | .skip, r => [(r, false)]
  | .op o, r => absOp inMem o r
  | .ev _, r => [(r, false), (r, true)]
  | .body, r => [(r, false), (r, true)]
  | .seq a b, r => (execN inMem a r).flatMap fun x => if x.2 then [x] else execN inMem b x.1
  | .tryFinally a b, r =>
    (execN inMem a r).flatMap fun x => (execN inMem b x.1).map fun y => (y.1, x.2 || y.2)
  | .tryExcept a h, r =>
    (execN inMem a r).flatMap fun x => if x.2 then (execN inMem h x.1).map fun y => (y.1, true) else [x]
  | .ifConn a, r =>
    match r.conn with
    | .unbound => [(r, true)]
    | .none => [(r, false)]
    | _ => execN inMem a r

/-- Decidable summary used by the property theorem: from every state in which the prologue can end
normally, every outcome of the rest (any script, any fault anywhere, even several) is clean. -/
def cleanFrom (inMem : Bool) (pre main : Prog) : Bool :=
  (execN inMem pre {}).all fun x =>
    x.2 || (execN inMem main x.1).all fun y => leftovers y.1 == [] && !y.1.hazard

/-! ### Whole calls and histories -/

structure World where
  dec : Dec := {}
  repr : Nat := 0
  leaked : List Leak := []
  deriving Repr, Inhabited

structure RunSpec where
  env : Env := {}
  fmt : Nat := 0
  script : List BodyOp := []
  fault : Option Nat := none
  deriving Repr, Inhabited

/-- What a caller (and the operating system) can observe of one `run()` call. -/
structure Obs where
  raised : Bool
  trace : List String
  seen : List Int
  left : List Leak
  hazard : Bool
  deriving DecidableEq, Repr, Inhabited

def startSt (w : World) : St := { dec := w.dec, repr := w.repr }

def obsOf (x : St × Bool) : Obs :=
  { raised := x.2, trace := x.1.trace, seen := x.1.seen, left := leftovers x.1.res, hazard := x.1.res.hazard }

def runBracket (sd : SetDec) (p : Prog) (r : RunSpec) (w : World) : St × Bool :=
  exec { sd := sd, env := r.env, fmt := r.fmt, script := r.script, fault := r.fault } p (startSt w)

def runCall (sd : SetDec) (p : Prog) (r : RunSpec) (w : World) : World × Obs :=
  let x := runBracket sd p r w
  ({ dec := x.1.dec, repr := x.1.repr, leaked := w.leaked ++ leftovers x.1.res }, obsOf x)

def runCalls (sd : SetDec) (p : Prog) : List RunSpec → World → World
  | [], w => w
  | r :: rest, w => runCalls sd p rest (runCall sd p r w).1

/-! ### Snapshot of the bracket at ebd8c71 (for the counter-examples only) -/

def seqs : List Prog → Prog
  | [] => .skip
  | [p] => p
  | p :: ps => .seq p (seqs ps)

def snapshotPre : Prog := seqs
  [.op .mkdirTemp, .op .mkdirSession, .ev "session_dir", .op .chooseDb, .ev "connect",
   .op .connect, .ev "configure", .op .configure, .op .registerUdf, .op .setDecimal, .op .bindConn,
   .ev "connected", .op .setTemp]

def snapshotMain : Prog :=
  .tryFinally .body (.tryFinally (seqs [.op .close, .ev "closed"]) (seqs [.op .rmtree, .ev "rmtree"]))

end VtlModel.Session

import VtlModel.Session.Interleave
/-! Invariants of the interleaving machine (C17). -/
namespace VtlModel.Interleave

@[simp] theorem upd_same {α : Type} (f : Nat → α) (i : Nat) (x : α) : upd f i x i = x := by simp [upd]
theorem upd_other {α : Type} (f : Nat → α) {i j : Nat} (x : α) (h : j ≠ i) : upd f i x j = f j := by simp [upd, h]

/-! ### what one step does, by the next action of the stepping call -/

theorem step_nil {st : State} {j : Nat} (h : (st.th j).rem = []) : step st j = st := by
  simp [step, h]

theorem step_read {st : State} {j v : Nat} {rest : List Action} (h : (st.th j).rem = .read v :: rest) :
    step st j = { st with th := upd st.th j { rem := rest, obs := (st.th j).obs ++ [st.store v], priv := (st.th j).priv } } := by
  simp [step, h]

theorem step_write {st : State} {j v : Nat} {x : Int} {rest : List Action} (h : (st.th j).rem = .write v x :: rest) :
    step st j = { st with th := upd st.th j { rem := rest, obs := (st.th j).obs, priv := upd (st.th j).priv v x }
                          store := upd st.store v x } := by
  simp [step, h]

theorem step_incr {st : State} {j v : Nat} {rest : List Action} (h : (st.th j).rem = .incr v :: rest) :
    step st j = { st with th := upd st.th j { rem := rest, obs := (st.th j).obs ++ [st.store v],
                                               priv := upd (st.th j).priv v ((st.th j).priv v + 1) }
                          store := upd st.store v (st.store v + 1) } := by
  simp [step, h]

theorem step_acq_free {st : State} {j l : Nat} {rest : List Action} (h : (st.th j).rem = .acq l :: rest)
    (hl : st.holder l = none) :
    step st j = { st with th := upd st.th j { rem := rest, obs := (st.th j).obs, priv := (st.th j).priv }
                          holder := upd st.holder l (some j) } := by
  simp [step, h, hl]

theorem step_acq_blocked {st : State} {j l k : Nat} {rest : List Action} (h : (st.th j).rem = .acq l :: rest)
    (hl : st.holder l = some k) : step st j = st := by
  simp [step, h, hl]

theorem step_rel {st : State} {j l : Nat} {rest : List Action} (h : (st.th j).rem = .rel l :: rest) :
    step st j = { st with th := upd st.th j { rem := rest, obs := (st.th j).obs, priv := (st.th j).priv }
                          holder := if st.holder l = some j then upd st.holder l none else st.holder } := by
  simp [step, h]

/-! ### the three per-variable invariants -/

/-- (A) nobody will ever write `v`; it still has its initial value everywhere. -/
def InvA (init : Store) (v : Nat) (st : State) : Prop :=
  (∀ i, noWrite v (st.th i).rem = true) ∧ st.store v = init v ∧ ∀ i, (st.th i).priv v = init v

/-- (B) `v` is protected by lock `l`: whoever holds `l` and has written `v` in this region sees its own value. -/
def InvB (v : Nat) (st : State) : Prop :=
  ∃ l, ∀ i, ∃ b, okLocked v l (decide (st.holder l = some i)) b (st.th i).rem = true ∧
    (st.holder l = some i → b = true → st.store v = (st.th i).priv v)

/-- (C) everybody writes the same value `c` and reads only after an own write. -/
def InvC (v : Nat) (st : State) : Prop :=
  ∃ c, ∀ i, ∃ b, okSame v c b (st.th i).rem = true ∧ (b = true → st.store v = c ∧ (st.th i).priv v = c)

/-- (D) nobody will ever read `v`. -/
def InvD (v : Nat) (st : State) : Prop := ∀ i, noRead v (st.th i).rem = true

theorem invD_step (v : Nat) (st : State) (j : Nat) (h : InvD v st) : InvD v (step st j) := by
  have hj := h j
  cases hrem : (st.th j).rem with
  | nil => rw [step_nil hrem]; exact h
  | cons a rest =>
    rw [hrem] at hj
    have tail : noRead v rest = true := by
      cases a <;> simp only [noRead, Bool.and_eq_true] at hj <;> first | exact hj.2 | exact hj
    have key : ∀ (t : Thread), t.rem = rest → ∀ i, noRead v ((upd st.th j t) i).rem = true := by
      intro t ht i
      by_cases e : i = j
      · subst e; simpa [ht] using tail
      · simpa [upd_other _ _ e] using h i
    cases a with
    | read v' => rw [step_read hrem]; exact key _ rfl
    | write v' x => rw [step_write hrem]; exact key _ rfl
    | incr v' => rw [step_incr hrem]; exact key _ rfl
    | acq l =>
      cases hl : st.holder l with
      | some k => rw [step_acq_blocked hrem hl]; exact h
      | none => rw [step_acq_free hrem hl]; exact key _ rfl
    | rel l => rw [step_rel hrem]; exact key _ rfl

theorem invA_step (init : Store) (v : Nat) (st : State) (j : Nat) (h : InvA init v st) : InvA init v (step st j) := by
  obtain ⟨h1, h2, h3⟩ := h
  have hj := h1 j
  cases hrem : (st.th j).rem with
  | nil => rw [step_nil hrem]; exact ⟨h1, h2, h3⟩
  | cons a rest =>
    rw [hrem] at hj
    cases a with
    | read v' =>
      rw [step_read hrem]
      simp only [noWrite] at hj
      refine ⟨fun i => ?_, h2, fun i => ?_⟩ <;> by_cases e : i = j
      · subst e; simpa using hj
      · simpa [upd_other _ _ e] using h1 i
      · subst e; simpa using h3 i
      · simpa [upd_other _ _ e] using h3 i
    | write v' x =>
      rw [step_write hrem]
      simp only [noWrite, Bool.and_eq_true, bne_iff_ne, ne_eq] at hj
      have hv : v ≠ v' := fun e => hj.1 e.symm
      refine ⟨fun i => ?_, ?_, fun i => ?_⟩
      · by_cases e : i = j
        · subst e; simpa using hj.2
        · simpa [upd_other _ _ e] using h1 i
      · simpa [upd_other _ _ hv] using h2
      · by_cases e : i = j
        · subst e; simpa [upd_other _ _ hv] using h3 i
        · simpa [upd_other _ _ e] using h3 i
    | incr v' =>
      rw [step_incr hrem]
      simp only [noWrite, Bool.and_eq_true, bne_iff_ne, ne_eq] at hj
      have hv : v ≠ v' := fun e => hj.1 e.symm
      refine ⟨fun i => ?_, ?_, fun i => ?_⟩
      · by_cases e : i = j
        · subst e; simpa using hj.2
        · simpa [upd_other _ _ e] using h1 i
      · simpa [upd_other _ _ hv] using h2
      · by_cases e : i = j
        · subst e; simpa [upd_other _ _ hv] using h3 i
        · simpa [upd_other _ _ e] using h3 i
    | acq l =>
      cases hl : st.holder l with
      | some k => rw [step_acq_blocked hrem hl]; exact ⟨h1, h2, h3⟩
      | none =>
        rw [step_acq_free hrem hl]
        simp only [noWrite] at hj
        refine ⟨fun i => ?_, h2, fun i => ?_⟩ <;> by_cases e : i = j
        · subst e; simpa using hj
        · simpa [upd_other _ _ e] using h1 i
        · subst e; simpa using h3 i
        · simpa [upd_other _ _ e] using h3 i
    | rel l =>
      rw [step_rel hrem]
      simp only [noWrite] at hj
      refine ⟨fun i => ?_, h2, fun i => ?_⟩ <;> by_cases e : i = j
      · subst e; simpa using hj
      · simpa [upd_other _ _ e] using h1 i
      · subst e; simpa using h3 i
      · simpa [upd_other _ _ e] using h3 i

theorem invC_step (v : Nat) (st : State) (j : Nat) (h : InvC v st) : InvC v (step st j) := by
  obtain ⟨c, hc⟩ := h
  refine ⟨c, ?_⟩
  obtain ⟨bj, hj, hjs⟩ := hc j
  cases hrem : (st.th j).rem with
  | nil => rw [step_nil hrem]; exact hc
  | cons a rest =>
    rw [hrem] at hj
    cases a with
    | read v' =>
      rw [step_read hrem]
      intro i
      by_cases e : i = j
      · subst e
        refine ⟨bj, ?_, by simpa using hjs⟩
        simp only [okSame] at hj
        by_cases ev : v' = v
        · simp only [ev, if_true, Bool.and_eq_true] at hj; simpa using hj.2
        · simpa [ev] using hj
      · obtain ⟨b, hb, hbs⟩ := hc i
        exact ⟨b, by simpa [upd_other _ _ e] using hb, by simpa [upd_other _ _ e] using hbs⟩
    | write v' x =>
      rw [step_write hrem]
      simp only [okSame] at hj
      by_cases ev : v' = v
      · subst ev
        simp only [if_true, Bool.and_eq_true, beq_iff_eq] at hj
        intro i
        by_cases e : i = j
        · subst e
          exact ⟨true, by simpa using hj.2, fun _ => by simp [hj.1]⟩
        · obtain ⟨b, hb, hbs⟩ := hc i
          refine ⟨b, by simpa [upd_other _ _ e] using hb, fun hb' => ?_⟩
          simp only [upd_same, upd_other _ _ e]
          exact ⟨hj.1, (hbs hb').2⟩
      · simp only [ev, if_false] at hj
        have hv : v ≠ v' := fun e => ev e.symm
        intro i
        by_cases e : i = j
        · subst e
          exact ⟨bj, by simpa using hj, by simpa [upd_other _ _ hv] using hjs⟩
        · obtain ⟨b, hb, hbs⟩ := hc i
          exact ⟨b, by simpa [upd_other _ _ e] using hb, by simpa [upd_other _ _ e, upd_other _ _ hv] using hbs⟩
    | incr v' =>
      rw [step_incr hrem]
      simp only [okSame] at hj
      by_cases ev : v' = v
      · simp [ev] at hj
      · simp only [ev, if_false] at hj
        have hv : v ≠ v' := fun e => ev e.symm
        intro i
        by_cases e : i = j
        · subst e
          exact ⟨bj, by simpa using hj, by simpa [upd_other _ _ hv] using hjs⟩
        · obtain ⟨b, hb, hbs⟩ := hc i
          exact ⟨b, by simpa [upd_other _ _ e] using hb, by simpa [upd_other _ _ e, upd_other _ _ hv] using hbs⟩
    | acq l =>
      cases hl : st.holder l with
      | some k => rw [step_acq_blocked hrem hl]; exact hc
      | none =>
        rw [step_acq_free hrem hl]
        simp only [okSame] at hj
        intro i
        by_cases e : i = j
        · subst e; exact ⟨bj, by simpa using hj, by simpa using hjs⟩
        · obtain ⟨b, hb, hbs⟩ := hc i
          exact ⟨b, by simpa [upd_other _ _ e] using hb, by simpa [upd_other _ _ e] using hbs⟩
    | rel l =>
      rw [step_rel hrem]
      simp only [okSame] at hj
      intro i
      by_cases e : i = j
      · subst e; exact ⟨bj, by simpa using hj, by simpa using hjs⟩
      · obtain ⟨b, hb, hbs⟩ := hc i
        exact ⟨b, by simpa [upd_other _ _ e] using hb, by simpa [upd_other _ _ e] using hbs⟩

theorem invB_step (v : Nat) (st : State) (j : Nat) (h : InvB v st) : InvB v (step st j) := by
  obtain ⟨l, hl⟩ := h
  refine ⟨l, ?_⟩
  obtain ⟨bj, hj, hjs⟩ := hl j
  cases hrem : (st.th j).rem with
  | nil => rw [step_nil hrem]; exact hl
  | cons a rest =>
    rw [hrem] at hj
    cases a with
    | read v' =>
      rw [step_read hrem]
      intro i
      by_cases e : i = j
      · subst e
        refine ⟨bj, ?_, by simpa using hjs⟩
        simp only [okLocked] at hj
        by_cases ev : v' = v
        · simp only [ev, if_true, Bool.and_eq_true] at hj; simpa using hj.2
        · simpa [ev] using hj
      · obtain ⟨b, hb, hbs⟩ := hl i
        exact ⟨b, by simpa [upd_other _ _ e] using hb, by simpa [upd_other _ _ e] using hbs⟩
    | write v' x =>
      rw [step_write hrem]
      simp only [okLocked] at hj
      by_cases ev : v' = v
      · subst ev
        simp only [if_true, Bool.and_eq_true, decide_eq_true_eq] at hj
        intro i
        by_cases e : i = j
        · subst e
          exact ⟨true, by simpa [hj.1] using hj.2, fun _ _ => by simp⟩
        · obtain ⟨b, hb, _⟩ := hl i
          refine ⟨b, by simpa [upd_other _ _ e] using hb, fun hi => ?_⟩
          have : st.holder l = some i := hi
          rw [hj.1] at this
          exact absurd (Option.some.inj this).symm e
      · simp only [ev, if_false] at hj
        have hv : v ≠ v' := fun e => ev e.symm
        intro i
        by_cases e : i = j
        · subst e
          exact ⟨bj, by simpa using hj, by simpa [upd_other _ _ hv] using hjs⟩
        · obtain ⟨b, hb, hbs⟩ := hl i
          exact ⟨b, by simpa [upd_other _ _ e] using hb, by simpa [upd_other _ _ e, upd_other _ _ hv] using hbs⟩
    | incr v' =>
      rw [step_incr hrem]
      simp only [okLocked] at hj
      by_cases ev : v' = v
      · subst ev
        simp only [if_true, Bool.and_eq_true, decide_eq_true_eq] at hj
        have hs := hjs hj.1.1 hj.1.2
        intro i
        by_cases e : i = j
        · subst e
          exact ⟨true, by simpa [hj.1.1] using hj.2, fun _ _ => by simp [hs]⟩
        · obtain ⟨b, hb, _⟩ := hl i
          refine ⟨b, by simpa [upd_other _ _ e] using hb, fun hi => ?_⟩
          have : st.holder l = some i := hi
          rw [hj.1.1] at this
          exact absurd (Option.some.inj this).symm e
      · simp only [ev, if_false] at hj
        have hv : v ≠ v' := fun e => ev e.symm
        intro i
        by_cases e : i = j
        · subst e
          exact ⟨bj, by simpa using hj, by simpa [upd_other _ _ hv] using hjs⟩
        · obtain ⟨b, hb, hbs⟩ := hl i
          exact ⟨b, by simpa [upd_other _ _ e] using hb, by simpa [upd_other _ _ e, upd_other _ _ hv] using hbs⟩
    | acq l' =>
      cases hfree : st.holder l' with
      | some k => rw [step_acq_blocked hrem hfree]; exact hl
      | none =>
        rw [step_acq_free hrem hfree]
        simp only [okLocked] at hj
        by_cases el : l' = l
        · subst el
          simp only [if_true, hfree, Bool.and_eq_true] at hj
          intro i
          by_cases e : i = j
          · subst e
            exact ⟨false, by simpa using hj.2, fun _ hb => by simp at hb⟩
          · obtain ⟨b, hb, _⟩ := hl i
            have ne : ¬ (j = i) := fun h => e h.symm
            refine ⟨b, ?_, fun hi => ?_⟩
            · simpa [upd_other _ _ e, hfree, ne] using hb
            · simp [ne] at hi
        · simp only [el, if_false] at hj
          have hll : l ≠ l' := fun e => el e.symm
          intro i
          by_cases e : i = j
          · subst e
            exact ⟨bj, by simpa [upd_other _ _ hll] using hj, by simpa [upd_other _ _ hll] using hjs⟩
          · obtain ⟨b, hb, hbs⟩ := hl i
            exact ⟨b, by simpa [upd_other _ _ e, upd_other _ _ hll] using hb,
                   by simpa [upd_other _ _ e, upd_other _ _ hll] using hbs⟩
    | rel l' =>
      rw [step_rel hrem]
      simp only [okLocked] at hj
      by_cases el : l' = l
      · subst el
        simp only [if_true, Bool.and_eq_true, decide_eq_true_eq] at hj
        intro i
        by_cases e : i = j
        · subst e
          exact ⟨false, by simpa [hj.1] using hj.2, fun _ hb => by simp at hb⟩
        · obtain ⟨b, hb, _⟩ := hl i
          have ne : ¬ (j = i) := fun h => e h.symm
          refine ⟨b, ?_, fun hi => ?_⟩
          · simpa [upd_other _ _ e, hj.1, ne] using hb
          · simp [hj.1] at hi
      · simp only [el, if_false] at hj
        have hll : l ≠ l' := fun e => el e.symm
        have hh : (if st.holder l' = some j then upd st.holder l' none else st.holder) l = st.holder l := by
          split
          · exact upd_other _ _ hll
          · rfl
        intro i
        by_cases e : i = j
        · subst e
          exact ⟨bj, by simpa [hh] using hj, by simpa [hh] using hjs⟩
        · obtain ⟨b, hb, hbs⟩ := hl i
          exact ⟨b, by simpa [upd_other _ _ e, hh] using hb, by simpa [upd_other _ _ e, hh] using hbs⟩

/-! ### every call observes what it observes alone -/

def Kinds (init : Store) (st : State) : Prop := ∀ v, InvA init v st ∨ InvB v st ∨ InvC v st ∨ InvD v st

/-- observed so far, followed by what the call would observe finishing alone = its solo observations -/
def ObsInv (target : Nat → List Int) (st : State) : Prop :=
  ∀ i, (st.th i).obs ++ soloObs (st.th i).priv (st.th i).rem = target i

theorem kinds_step (init : Store) (st : State) (j : Nat) (h : Kinds init st) : Kinds init (step st j) := by
  intro v
  rcases h v with h | h | h | h
  · exact Or.inl (invA_step init v st j h)
  · exact Or.inr (Or.inl (invB_step v st j h))
  · exact Or.inr (Or.inr (Or.inl (invC_step v st j h)))
  · exact Or.inr (Or.inr (Or.inr (invD_step v st j h)))

theorem read_sees_own {init : Store} {st : State} {j v : Nat} {rest : List Action} (hk : Kinds init st)
    (hrem : (st.th j).rem = .read v :: rest) : st.store v = (st.th j).priv v := by
  rcases hk v with ⟨_, h2, h3⟩ | ⟨l, hl⟩ | ⟨c, hc⟩ | hd
  rotate_left 3
  · have := hd j
    rw [hrem] at this
    simp [noRead] at this
  · rw [h2, h3 j]
  · obtain ⟨b, hb, hbs⟩ := hl j
    rw [hrem] at hb
    simp only [okLocked, if_true, Bool.and_eq_true, decide_eq_true_eq] at hb
    exact hbs hb.1.1 hb.1.2
  · obtain ⟨b, hb, hbs⟩ := hc j
    rw [hrem] at hb
    simp only [okSame, if_true, Bool.and_eq_true] at hb
    obtain ⟨e1, e2⟩ := hbs hb.1
    rw [e1, e2]

theorem incr_sees_own {init : Store} {st : State} {j v : Nat} {rest : List Action} (hk : Kinds init st)
    (hrem : (st.th j).rem = .incr v :: rest) : st.store v = (st.th j).priv v := by
  rcases hk v with ⟨h1, _, _⟩ | ⟨l, hl⟩ | ⟨c, hc⟩ | hd
  rotate_left 3
  · have := hd j
    rw [hrem] at this
    simp [noRead] at this
  · have := h1 j
    rw [hrem] at this
    simp [noWrite] at this
  · obtain ⟨b, hb, hbs⟩ := hl j
    rw [hrem] at hb
    simp only [okLocked, if_true, Bool.and_eq_true, decide_eq_true_eq] at hb
    exact hbs hb.1.1 hb.1.2
  · obtain ⟨b, hb, _⟩ := hc j
    rw [hrem] at hb
    simp [okSame] at hb

theorem obsInv_step (init : Store) (target : Nat → List Int) (st : State) (j : Nat) (hk : Kinds init st)
    (ho : ObsInv target st) : ObsInv target (step st j) := by
  have hj := ho j
  cases hrem : (st.th j).rem with
  | nil => rw [step_nil hrem]; exact ho
  | cons a rest =>
    rw [hrem] at hj
    cases a with
    | read v =>
      rw [step_read hrem]
      intro i
      by_cases e : i = j
      · subst e
        have := read_sees_own hk hrem
        simpa [soloObs, this] using hj
      · simpa [upd_other _ _ e] using ho i
    | write v x =>
      rw [step_write hrem]
      intro i
      by_cases e : i = j
      · subst e; simpa [soloObs] using hj
      · simpa [upd_other _ _ e] using ho i
    | incr v =>
      rw [step_incr hrem]
      intro i
      by_cases e : i = j
      · subst e
        have := incr_sees_own hk hrem
        simpa [soloObs, this] using hj
      · simpa [upd_other _ _ e] using ho i
    | acq l =>
      cases hfree : st.holder l with
      | some k => rw [step_acq_blocked hrem hfree]; exact ho
      | none =>
        rw [step_acq_free hrem hfree]
        intro i
        by_cases e : i = j
        · subst e; simpa [soloObs] using hj
        · simpa [upd_other _ _ e] using ho i
    | rel l =>
      rw [step_rel hrem]
      intro i
      by_cases e : i = j
      · subst e; simpa [soloObs] using hj
      · simpa [upd_other _ _ e] using ho i

theorem inv_run (init : Store) (target : Nat → List Int) : ∀ (sched : List Nat) (st : State),
    Kinds init st → ObsInv target st → Kinds init (run st sched) ∧ ObsInv target (run st sched)
  | [], _, hk, ho => ⟨hk, ho⟩
  | i :: sched, st, hk, ho =>
    inv_run init target sched (step st i) (kinds_step init st i hk) (obsInv_step init target st i hk ho)

/-! ### the decidable discipline establishes the invariants at the start -/

theorem getD_all {P : List Action → Bool} (calls : List (List Action)) (h : calls.all P = true) (h0 : P [] = true)
    (i : Nat) : P (calls.getD i []) = true := by
  rw [List.getD_eq_getElem?_getD]
  cases hi : calls[i]? with
  | none => simpa using h0
  | some c =>
    have : c ∈ calls := List.mem_of_getElem? hi
    simpa using (List.all_eq_true.mp h) c this

theorem noWrite_of_not_mem (v : Nat) : ∀ (c : List Action), v ∉ varsOf c → noWrite v c = true
  | [], _ => rfl
  | .read v' :: rest, h => by
    simp only [varsOf, List.mem_cons, not_or] at h
    simpa [noWrite] using noWrite_of_not_mem v rest h.2
  | .write v' x :: rest, h => by
    simp only [varsOf, List.mem_cons, not_or] at h
    simp only [noWrite, Bool.and_eq_true, bne_iff_ne, ne_eq]
    exact ⟨fun e => h.1 e.symm, noWrite_of_not_mem v rest h.2⟩
  | .incr v' :: rest, h => by
    simp only [varsOf, List.mem_cons, not_or] at h
    simp only [noWrite, Bool.and_eq_true, bne_iff_ne, ne_eq]
    exact ⟨fun e => h.1 e.symm, noWrite_of_not_mem v rest h.2⟩
  | .acq _ :: rest, h => by
    simp only [varsOf] at h
    simpa [noWrite] using noWrite_of_not_mem v rest h
  | .rel _ :: rest, h => by
    simp only [varsOf] at h
    simpa [noWrite] using noWrite_of_not_mem v rest h

theorem kinds_start (init : Store) (calls : List (List Action)) (hd : disciplined calls = true) :
    Kinds init (start init calls) := by
  intro v
  have hv : disciplinedVar calls v = true := by
    by_cases hm : v ∈ calls.flatMap varsOf
    · exact (List.all_eq_true.mp hd) v hm
    · have : kindA calls v = true := by
        simp only [kindA, List.all_eq_true]
        intro c hc
        apply noWrite_of_not_mem
        intro hvc
        exact hm (List.mem_flatMap.mpr ⟨c, hc, hvc⟩)
      simp [disciplinedVar, this]
  simp only [disciplinedVar, Bool.or_eq_true] at hv
  rcases hv with ((hA | hB) | hC) | hD
  rotate_left 3
  · right; right; right
    intro i
    exact getD_all calls hD rfl i
  · left
    refine ⟨fun i => ?_, rfl, fun i => rfl⟩
    exact getD_all calls hA rfl i
  · right; left
    simp only [kindB, List.any_eq_true] at hB
    obtain ⟨l, _, hl⟩ := hB
    refine ⟨l, fun i => ⟨false, ?_, fun _ hb => by simp at hb⟩⟩
    have := getD_all (P := okLocked v l false false) calls hl rfl i
    simpa [start] using this
  · right; right; left
    simp only [kindC, List.any_eq_true] at hC
    obtain ⟨c, _, hc⟩ := hC
    refine ⟨c, fun i => ⟨false, ?_, fun hb => by simp at hb⟩⟩
    exact getD_all (P := okSame v c false) calls hc rfl i

end VtlModel.Interleave

/-
  VtlModel.Time.Calendar — proleptic Gregorian calendar over `Int` (import-free, total, computable).

  Day numbers are Python's `date.toordinal()`: day 1 = 0001-01-01 (a Monday).  Years are
  astronomical (year 0 exists, negative years allowed) so that every function is total and the
  theorems in Props/C08 need no bound on the year.

  Public names (stable; imported by group `Input`):
    isLeap daysInYear daysBeforeYear daysBeforeMonth daysInMonth validDate toDay yearOfDay ofDay
    weekday isoWeekday isoYearStart isoWeeksInYear isoWeekOf ofIsoWeek dayOfYear ofDayOfYear
-/
namespace VtlModel.Time

/-- Gregorian leap-year rule. -/
def isLeap (y : Int) : Bool := y % 4 == 0 && (y % 100 != 0 || y % 400 == 0)

def daysInYear (y : Int) : Int := if isLeap y then 366 else 365

/-- Number of days before 1 January of year `y`, counted from 0001-01-01 (so `daysBeforeYear 1 = 0`). -/
def daysBeforeYear (y : Int) : Int := 365 * (y - 1) + (y - 1) / 4 - (y - 1) / 100 + (y - 1) / 400

/-- Days in the year before the first of month `m` (1..12; anything else is treated as 12 / 1). -/
def daysBeforeMonth (y : Int) (m : Int) : Int :=
  let l : Int := if isLeap y then 1 else 0
  if m ≤ 1 then 0 else if m = 2 then 31 else if m = 3 then 59 + l else if m = 4 then 90 + l
  else if m = 5 then 120 + l else if m = 6 then 151 + l else if m = 7 then 181 + l
  else if m = 8 then 212 + l else if m = 9 then 243 + l else if m = 10 then 273 + l
  else if m = 11 then 304 + l else 334 + l

def daysInMonth (y : Int) (m : Int) : Int :=
  if m = 2 then (if isLeap y then 29 else 28)
  else if m = 4 ∨ m = 6 ∨ m = 9 ∨ m = 11 then 30 else 31

/-- A civil date (year, month, day). -/
structure Date where
  year : Int
  month : Int
  day : Int
deriving DecidableEq, Repr

def validDate (d : Date) : Bool :=
  decide (1 ≤ d.month) && decide (d.month ≤ 12) && decide (1 ≤ d.day) && decide (d.day ≤ daysInMonth d.year d.month)

/-- Day number (Python ordinal) of a civil date. -/
def toDay (d : Date) : Int := daysBeforeYear d.year + daysBeforeMonth d.year d.month + d.day

/-- Year containing day number `n` (the algorithm of CPython's `_ord2ymd`, extended to all of `Int`
    by Euclidean division). -/
def yearOfDay (n : Int) : Int :=
  let n0 := n - 1
  let n400 := n0 / 146097
  let r := n0 % 146097
  let n100 := r / 36524 - r / 146096
  let r2 := r - n100 * 36524
  let n4 := r2 / 1461
  let r3 := r2 % 1461
  let n1 := r3 / 365 - r3 / 1460
  400 * n400 + 100 * n100 + 4 * n4 + n1 + 1

/-- Month containing the 1-based day-of-year `k` of year `y`. -/
def monthOfDoy (y : Int) (k : Int) : Int :=
  if k ≤ daysBeforeMonth y 2 then 1 else if k ≤ daysBeforeMonth y 3 then 2
  else if k ≤ daysBeforeMonth y 4 then 3 else if k ≤ daysBeforeMonth y 5 then 4
  else if k ≤ daysBeforeMonth y 6 then 5 else if k ≤ daysBeforeMonth y 7 then 6
  else if k ≤ daysBeforeMonth y 8 then 7 else if k ≤ daysBeforeMonth y 9 then 8
  else if k ≤ daysBeforeMonth y 10 then 9 else if k ≤ daysBeforeMonth y 11 then 10
  else if k ≤ daysBeforeMonth y 12 then 11 else 12

/-- Civil date of the 1-based day-of-year `k` of year `y`. -/
def ofDayOfYear (y : Int) (k : Int) : Date :=
  let m := monthOfDoy y k
  ⟨y, m, k - daysBeforeMonth y m⟩

/-- 1-based day of the year of a civil date. -/
def dayOfYear (d : Date) : Int := daysBeforeMonth d.year d.month + d.day

/-- Civil date of day number `n`. -/
def ofDay (n : Int) : Date :=
  let y := yearOfDay n
  ofDayOfYear y (n - daysBeforeYear y)

/-- Weekday, Monday = 0 … Sunday = 6 (Python `date.weekday()`). -/
def weekday (n : Int) : Int := (n - 1) % 7

/-- ISO weekday, Monday = 1 … Sunday = 7. -/
def isoWeekday (n : Int) : Int := weekday n + 1

/-- Day number of 1 January of year `y`. -/
def jan1 (y : Int) : Int := daysBeforeYear y + 1

/-- Day number of the Monday that starts ISO week 1 of ISO year `y` (the week containing 4 January). -/
def isoYearStart (y : Int) : Int := (jan1 y + 3) - weekday (jan1 y + 3)

/-- Number of ISO weeks (52 or 53) in ISO year `y`. -/
def isoWeeksInYear (y : Int) : Int := (isoYearStart (y + 1) - isoYearStart y) / 7

/-- ISO year of the day number `n`. -/
def isoYearOf (n : Int) : Int :=
  let y := yearOfDay n
  if n ≥ isoYearStart (y + 1) then y + 1 else if n < isoYearStart y then y - 1 else y

/-- (ISO year, ISO week, ISO weekday) of the day number `n` (Python `date.isocalendar()`). -/
def isoWeekOf (n : Int) : Int × Int × Int :=
  let iy := isoYearOf n
  (iy, (n - isoYearStart iy) / 7 + 1, isoWeekday n)

/-- Day number of ISO (year, week, weekday) (Python `date.fromisocalendar`). -/
def ofIsoWeek (y w d : Int) : Int := isoYearStart y + 7 * (w - 1) + (d - 1)

/-- Add `k` months to a civil date, clamping the day to the length of the target month
    (DuckDB `+ INTERVAL k MONTH`). -/
def addMonths (d : Date) (k : Int) : Date :=
  let t := d.year * 12 + (d.month - 1) + k
  let y := t / 12
  let m := t % 12 + 1
  let dim := daysInMonth y m
  ⟨y, m, if d.day > dim then dim else d.day⟩

end VtlModel.Time

/-
  VtlModel.Time.LemmasPeriod — ord/unord bijection, shift lemmas (no Mathlib).
-/
import VtlModel.Time.LemmasIso
import VtlModel.Time.Period
namespace VtlModel.Time

theorem valid_iff (p : Period) : valid p = true ↔ (1 ≤ p.num ∧ p.num ≤ periodsInYear p.ind p.year) := by
  simp [valid]

theorem unord_ind (i : Ind) (k : Int) : (unord i k).ind = i := by
  cases i <;> rfl

theorem ord_unord_W (k : Int) : ord (unord .W k) = k ∧ valid (unord .W k) = true := by
  rw [valid_iff]
  simp only [unord, ord, periodsInYear]
  have ⟨s1, s2⟩ := isoYearOf_spec (7 * k + 1)
  generalize isoYearOf (7 * k + 1) = iy at *
  have b := isoYearStart_bounds iy
  have c := isoYearStart_succ iy
  generalize isoYearStart iy = s at *
  generalize isoYearStart (iy + 1) = s' at *
  generalize isoWeeksInYear iy = w at *
  omega

theorem ord_unord_D (k : Int) : ord (unord .D k) = k ∧ valid (unord .D k) = true := by
  rw [valid_iff]
  simp only [unord, ord, periodsInYear]
  have ⟨s1, s2⟩ := yearOfDay_spec k
  rw [dby_succ] at s2
  omega

theorem ord_unord (i : Ind) (k : Int) : ord (unord i k) = k := by
  cases i
  · rfl
  · simp only [unord, ord]; omega
  · simp only [unord, ord]; omega
  · simp only [unord, ord]; omega
  · exact (ord_unord_W k).1
  · exact (ord_unord_D k).1

theorem valid_unord (i : Ind) (k : Int) : valid (unord i k) = true := by
  cases i
  · simp [valid, unord, periodsInYear]
  · rw [valid_iff]; simp only [unord, periodsInYear]; omega
  · rw [valid_iff]; simp only [unord, periodsInYear]; omega
  · rw [valid_iff]; simp only [unord, periodsInYear]; omega
  · exact (ord_unord_W k).2
  · exact (ord_unord_D k).2

theorem unord_ord (p : Period) (h : valid p = true) : unord p.ind (ord p) = p := by
  rw [valid_iff] at h
  cases p with
  | mk y i n =>
    cases i <;> simp only [periodsInYear] at h <;> simp only [unord, ord]
    · have : n = 1 := by omega
      subst this; rfl
    · congr 1 <;> omega
    · congr 1 <;> omega
    · congr 1 <;> omega
    · have b := isoYearStart_bounds y
      have c := isoYearStart_succ y
      have hy : isoYearOf (7 * ((isoYearStart y - 1) / 7 + (n - 1)) + 1) = y :=
        isoYearOf_unique (by omega) (by omega)
      rw [hy]
      congr 1; omega
    · have hy : yearOfDay (daysBeforeYear y + n) = y :=
        yearOfDay_unique (by omega) (by rw [dby_succ]; omega)
      rw [hy]
      congr 1; omega

theorem ord_injective {p q : Period} (hp : valid p = true) (hq : valid q = true) (hi : p.ind = q.ind)
    (h : ord p = ord q) : p = q := by
  rw [← unord_ord p hp, ← unord_ord q hq, hi, h]

theorem specShift_ind (p : Period) (n : Int) : (specShift p n).ind = p.ind := unord_ind _ _
theorem specShift_valid (p : Period) (n : Int) : valid (specShift p n) = true := valid_unord _ _
theorem specShift_ord (p : Period) (n : Int) : ord (specShift p n) = ord p + n := ord_unord _ _

theorem specShift_inv (p : Period) (n : Int) (h : valid p = true) : specShift (specShift p n) (-n) = p := by
  unfold specShift
  rw [ord_unord, unord_ind]
  rw [show ord p + n + -n = ord p by omega]
  exact unord_ord p h

theorem specShift_injective (p q : Period) (n : Int) (hp : valid p = true) (hq : valid q = true)
    (h : specShift p n = specShift q n) : p = q := by
  have hi : p.ind = q.ind := by
    have := congrArg Period.ind h
    rwa [specShift_ind, specShift_ind] at this
  have ho : ord p = ord q := by
    have := congrArg ord h
    rw [specShift_ord, specShift_ord] at this; omega
  exact ord_injective hp hq hi ho

end VtlModel.Time

/-
  VtlModel.Time.Lemmas — helper lemmas about Calendar / Period (no Mathlib; `omega` and `simp` only).
-/
import VtlModel.Time.Calendar
namespace VtlModel.Time
theorem isLeap_iff (y : Int) : isLeap y = true ↔ (y % 4 = 0 ∧ (y % 100 ≠ 0 ∨ y % 400 = 0)) := by
  simp [isLeap]

theorem daysInYear_eq (y : Int) : daysInYear y = if (y % 4 = 0 ∧ (y % 100 ≠ 0 ∨ y % 400 = 0)) then 366 else 365 := by
  unfold daysInYear
  by_cases h : isLeap y = true
  · have := (isLeap_iff y).1 h; simp [h, this]
  · have h' : ¬ (y % 4 = 0 ∧ (y % 100 ≠ 0 ∨ y % 400 = 0)) := fun c => h ((isLeap_iff y).2 c)
    simp [h, h']

theorem dby_succ (y : Int) : daysBeforeYear (y + 1) = daysBeforeYear y + daysInYear y := by
  rw [daysInYear_eq]; unfold daysBeforeYear
  split <;> omega
theorem dby_mono {a b : Int} (h : a < b) : daysBeforeYear a < daysBeforeYear b := by
  unfold daysBeforeYear; omega
theorem dby_mono' {a b : Int} (h : a ≤ b) : daysBeforeYear a ≤ daysBeforeYear b := by
  unfold daysBeforeYear; omega
theorem dby_decomp (a b c e : Int) (hb : 0 ≤ b ∧ b ≤ 3) (hc : 0 ≤ c ∧ c ≤ 24) (he : 0 ≤ e ∧ e ≤ 3) :
    daysBeforeYear (400 * a + 100 * b + 4 * c + e + 1) = 146097 * a + 36524 * b + 1461 * c + 365 * e := by
  unfold daysBeforeYear
  have h4 : (400 * a + 100 * b + 4 * c + e + 1 - 1) / 4 = 100 * a + 25 * b + c := by omega
  have h100 : (400 * a + 100 * b + 4 * c + e + 1 - 1) / 100 = 4 * a + b := by omega
  have h400 : (400 * a + 100 * b + 4 * c + e + 1 - 1) / 400 = a := by omega
  rw [h4, h100, h400]; omega

theorem yearOfDay_decomp (n : Int) : ∃ a b c e d : Int, (0 ≤ b ∧ b ≤ 3) ∧ (0 ≤ c ∧ c ≤ 24) ∧ (0 ≤ e ∧ e ≤ 3) ∧
    yearOfDay n = 400 * a + 100 * b + 4 * c + e + 1 ∧ n - 1 = 146097 * a + 36524 * b + 1461 * c + 365 * e + d ∧
    0 ≤ d ∧ d ≤ 365 ∧ (d = 365 → e = 3 ∧ (c = 24 → b = 3)) := by
  unfold yearOfDay
  simp only []
  generalize ha : (n - 1) / 146097 = a
  generalize hr : (n - 1) % 146097 = r
  have h0 : n - 1 = 146097 * a + r ∧ 0 ≤ r ∧ r < 146097 := by omega
  clear ha hr
  generalize hb : r / 36524 - r / 146096 = b
  have hb' : 0 ≤ b ∧ b ≤ 3 ∧ 0 ≤ r - b * 36524 ∧ r - b * 36524 ≤ 36524 ∧ (r - b * 36524 = 36524 → b = 3) := by
    omega
  clear hb
  generalize hr2 : r - b * 36524 = r2 at *
  generalize hc : r2 / 1461 = c
  generalize hr3 : r2 % 1461 = r3
  have h2 : r2 = 1461 * c + r3 ∧ 0 ≤ r3 ∧ r3 < 1461 ∧ 0 ≤ c ∧ c ≤ 24 := by omega
  clear hc hr3
  generalize he : r3 / 365 - r3 / 1460 = e
  have he' : 0 ≤ e ∧ e ≤ 3 ∧ 0 ≤ r3 - 365 * e ∧ r3 - 365 * e ≤ 365 ∧ (r3 - 365 * e = 365 → e = 3) := by
    omega
  clear he
  exact ⟨a, b, c, e, r3 - 365 * e, by omega, by omega, by omega, by omega, by omega, by omega, by omega, by omega⟩

theorem yearOfDay_spec (n : Int) : daysBeforeYear (yearOfDay n) < n ∧ n ≤ daysBeforeYear (yearOfDay n + 1) := by
  obtain ⟨a, b, c, e, d, hb, hc, he, hy, hn, hd0, hd1, hd⟩ := yearOfDay_decomp n
  rw [hy, dby_succ (400 * a + 100 * b + 4 * c + e + 1), dby_decomp a b c e hb hc he]
  have hl := daysInYear_eq (400 * a + 100 * b + 4 * c + e + 1)
  generalize daysInYear (400 * a + 100 * b + 4 * c + e + 1) = L at *
  clear hy
  split at hl <;> omega

theorem yearOfDay_unique {n y : Int} (h1 : daysBeforeYear y < n) (h2 : n ≤ daysBeforeYear (y + 1)) : yearOfDay n = y := by
  have ⟨s1, s2⟩ := yearOfDay_spec n
  have m1 : ¬ (yearOfDay n + 1 ≤ y) := fun h => by
    have := dby_mono' h; omega
  have m2 : ¬ (y + 1 ≤ yearOfDay n) := fun h => by
    have := dby_mono' h; omega
  omega

/-! ## months -/

theorem validDate_iff (d : Date) : validDate d = true ↔
    (1 ≤ d.month ∧ d.month ≤ 12 ∧ 1 ≤ d.day ∧ d.day ≤ daysInMonth d.year d.month) := by
  simp [validDate, and_assoc]

theorem cal_table (y : Int) : ∃ l : Int, (l = 0 ∨ l = 1) ∧ (l = 1 ↔ isLeap y = true) ∧ daysInYear y = 365 + l ∧
    (∀ m, daysBeforeMonth y m =
      if m ≤ 1 then 0 else if m = 2 then 31 else if m = 3 then 59 + l else if m = 4 then 90 + l
      else if m = 5 then 120 + l else if m = 6 then 151 + l else if m = 7 then 181 + l
      else if m = 8 then 212 + l else if m = 9 then 243 + l else if m = 10 then 273 + l
      else if m = 11 then 304 + l else 334 + l) ∧
    (∀ m, daysInMonth y m = if m = 2 then 28 + l else if m = 4 ∨ m = 6 ∨ m = 9 ∨ m = 11 then 30 else 31) := by
  cases h : isLeap y
  · refine ⟨0, Or.inl rfl, by simp, by simp [daysInYear, h], ?_, ?_⟩
    · intro m; simp [daysBeforeMonth, h]
    · intro m; simp [daysInMonth, h]
  · refine ⟨1, Or.inr rfl, by simp, by simp [daysInYear, h], ?_, ?_⟩
    · intro m; simp [daysBeforeMonth, h]
    · intro m; simp [daysInMonth, h]

theorem monthOfDoy_spec (y k : Int) (h1 : 1 ≤ k) (h2 : k ≤ daysInYear y) :
    1 ≤ monthOfDoy y k ∧ monthOfDoy y k ≤ 12 ∧ daysBeforeMonth y (monthOfDoy y k) < k ∧
    k ≤ daysBeforeMonth y (monthOfDoy y k) + daysInMonth y (monthOfDoy y k) := by
  obtain ⟨l, hl, _, hy, hb, hm⟩ := cal_table y
  rw [hy] at h2
  generalize hM : monthOfDoy y k = M
  have hM' : M = (if k ≤ 31 then 1 else if k ≤ 59 + l then 2
  else if k ≤ 90 + l then 3 else if k ≤ 120 + l then 4
  else if k ≤ 151 + l then 5 else if k ≤ 181 + l then 6
  else if k ≤ 212 + l then 7 else if k ≤ 243 + l then 8
  else if k ≤ 273 + l then 9 else if k ≤ 304 + l then 10
  else if k ≤ 334 + l then 11 else 12) := by
    rw [← hM]; unfold monthOfDoy; simp [hb]
  rw [hb M, hm M]
  clear hM hb hm hy
  omega
theorem ofDayOfYear_spec (y k : Int) (h1 : 1 ≤ k) (h2 : k ≤ daysInYear y) :
    validDate (ofDayOfYear y k) = true ∧ dayOfYear (ofDayOfYear y k) = k ∧ (ofDayOfYear y k).year = y := by
  have := monthOfDoy_spec y k h1 h2
  rw [validDate_iff]
  simp only [ofDayOfYear, dayOfYear]
  refine ⟨?_, ?_, trivial⟩ <;> omega

theorem monthOfDoy_eq (y k l : Int)
    (hb : ∀ m, daysBeforeMonth y m =
      if m ≤ 1 then 0 else if m = 2 then 31 else if m = 3 then 59 + l else if m = 4 then 90 + l
      else if m = 5 then 120 + l else if m = 6 then 151 + l else if m = 7 then 181 + l
      else if m = 8 then 212 + l else if m = 9 then 243 + l else if m = 10 then 273 + l
      else if m = 11 then 304 + l else 334 + l) :
    monthOfDoy y k = (if k ≤ 31 then 1 else if k ≤ 59 + l then 2
      else if k ≤ 90 + l then 3 else if k ≤ 120 + l then 4
      else if k ≤ 151 + l then 5 else if k ≤ 181 + l then 6
      else if k ≤ 212 + l then 7 else if k ≤ 243 + l then 8
      else if k ≤ 273 + l then 9 else if k ≤ 304 + l then 10
      else if k ≤ 334 + l then 11 else 12) := by
  unfold monthOfDoy; simp [hb]

/-- The month of a day-of-year is determined by the table. -/
theorem monthOfDoy_unique (y k m : Int) (hm1 : 1 ≤ m) (hm2 : m ≤ 12) (h3 : daysBeforeMonth y m < k)
    (h4 : k ≤ daysBeforeMonth y m + daysInMonth y m) : monthOfDoy y k = m := by
  obtain ⟨l, hl, _, hy, hb, hm⟩ := cal_table y
  rw [monthOfDoy_eq y k l hb]
  rw [hb m] at h3 h4
  rw [hm m] at h4
  clear hb hm hy
  omega

theorem dayOfYear_bounds (d : Date) (h : validDate d = true) : 1 ≤ dayOfYear d ∧ dayOfYear d ≤ daysInYear d.year := by
  obtain ⟨l, hl, _, hy, hb, hm⟩ := cal_table d.year
  rw [validDate_iff] at h
  obtain ⟨m1, m2, e1, e2⟩ := h
  unfold dayOfYear
  rw [hy, hb d.month]
  rw [hm d.month] at e2
  clear hb hm hy
  omega

theorem ofDayOfYear_dayOfYear (d : Date) (h : validDate d = true) : ofDayOfYear d.year (dayOfYear d) = d := by
  have hv := (validDate_iff d).1 h
  have hm : monthOfDoy d.year (dayOfYear d) = d.month :=
    monthOfDoy_unique d.year (dayOfYear d) d.month hv.1 hv.2.1 (by unfold dayOfYear; omega) (by unfold dayOfYear; omega)
  cases d with
  | mk y m dd =>
    simp only [ofDayOfYear] at hm ⊢
    simp only [hm]
    simp only [dayOfYear]
    congr 1; omega

/-! ## day number ↔ civil date -/

theorem toDay_eq (d : Date) : toDay d = daysBeforeYear d.year + dayOfYear d := by
  unfold toDay dayOfYear; omega

theorem ofDay_spec (n : Int) : validDate (ofDay n) = true ∧ toDay (ofDay n) = n ∧ (ofDay n).year = yearOfDay n := by
  have ⟨s1, s2⟩ := yearOfDay_spec n
  rw [dby_succ] at s2
  have := ofDayOfYear_spec (yearOfDay n) (n - daysBeforeYear (yearOfDay n)) (by omega) (by omega)
  unfold ofDay
  simp only []
  refine ⟨this.1, ?_, this.2.2⟩
  rw [toDay_eq, this.2.1, this.2.2]; omega

theorem yearOfDay_toDay (d : Date) (h : validDate d = true) : yearOfDay (toDay d) = d.year := by
  have := dayOfYear_bounds d h
  apply yearOfDay_unique
  · rw [toDay_eq]; omega
  · rw [toDay_eq, dby_succ]; omega

theorem ofDay_toDay' (d : Date) (h : validDate d = true) : ofDay (toDay d) = d := by
  unfold ofDay
  simp only [yearOfDay_toDay d h]
  have : toDay d - daysBeforeYear d.year = dayOfYear d := by rw [toDay_eq]; omega
  rw [this]; exact ofDayOfYear_dayOfYear d h
end VtlModel.Time

/-
  VtlModel.Time.Spelling — the documented input spellings and the four output formats of a Time_Period
  (docs/data_types.rst, section Time_Period), over `List Char` with own digit functions.

  Public names (stable): digitChar digitVal pad digits parseNat parseRaw parse Fmt Err render canon
    normalise spellings indChar indOfChar
-/
import VtlModel.Time.Period

namespace VtlModel.Time

/-! ## digits -/

/-- The decimal digit character of `k % 10`. -/
def digitChar (k : Nat) : Char := Char.ofNat (48 + k % 10)

def digitVal (c : Char) : Option Nat :=
  if 48 ≤ c.toNat ∧ c.toNat ≤ 57 then some (c.toNat - 48) else none

/-- Exactly `k` decimal digits: the low `k` digits of `n`, most significant first. -/
def pad : Nat → Nat → List Char
  | 0, _ => []
  | k + 1, n => pad k (n / 10) ++ [digitChar n]

/-- Decimal rendering without leading zeros (values below 10000 — all a period ever needs). -/
def digits (n : Nat) : List Char :=
  if n < 10 then pad 1 n else if n < 100 then pad 2 n else if n < 1000 then pad 3 n else pad 4 n

def parseNatAux (acc : Nat) : List Char → Option Nat
  | [] => some acc
  | c :: cs => match digitVal c with
    | some v => parseNatAux (10 * acc + v) cs
    | none => none

/-- A non-empty string of decimal digits. -/
def parseNat : List Char → Option Nat
  | [] => none
  | cs => parseNatAux 0 cs

/-! ## parsing -/

def indChar : Ind → Char
  | .A => 'A' | .S => 'S' | .Q => 'Q' | .M => 'M' | .W => 'W' | .D => 'D'

def indOfChar (c : Char) : Option Ind :=
  if c = 'A' then some .A else if c = 'S' then some .S else if c = 'Q' then some .Q
  else if c = 'M' then some .M else if c = 'W' then some .W else if c = 'D' then some .D else none

/-- Maximal number of digits of the period number in the spellings with an indicator letter. -/
def maxWidth : Ind → Nat
  | .A => 1 | .S => 1 | .Q => 1 | .M => 2 | .W => 2 | .D => 3

/-- `<digits>` after an indicator letter (`compact` = no hyphen before the letter). -/
def parseNumFor (y : Int) (i : Ind) (compact : Bool) (t : List Char) : Option Period :=
  match i with
  | .A => if compact then (if t = [] then some ⟨y, .A, 1⟩ else none)
          else (if t = ['1'] then some ⟨y, .A, 1⟩ else none)
  | i => if 1 ≤ t.length ∧ t.length ≤ maxWidth i then
           match parseNat t with
           | some n => some ⟨y, i, (n : Int)⟩
           | none => none
         else none

/-- `YYYY-` followed by digits: `M`, `MM` or `MM-DD`. -/
def parseNumeric (y : Int) (t : List Char) : Option Period :=
  match t with
  | [a] => match parseNat [a] with
    | some m => some ⟨y, .M, (m : Int)⟩
    | none => none
  | [a, b] => match parseNat [a, b] with
    | some m => some ⟨y, .M, (m : Int)⟩
    | none => none
  | [a, b, h, c, d] =>
    if h = '-' then
      match parseNat [a, b], parseNat [c, d] with
      | some m, some dd =>
        let dt : Date := ⟨y, (m : Int), (dd : Int)⟩
        if validDate dt then some ⟨y, .D, dayOfYear dt⟩ else none
      | _, _ => none
    else none
  | _ => none

def parseRest (y : Int) (r : List Char) : Option Period :=
  match r with
  | [] => some ⟨y, .A, 1⟩
  | c :: t =>
    if c = '-' then
      match t with
      | [] => none
      | c2 :: u =>
        match digitVal c2 with
        | some _ => parseNumeric y t
        | none => match indOfChar c2 with
          | some i => parseNumFor y i false u
          | none => none
    else match indOfChar c with
      | some i => parseNumFor y i true t
      | none => none

/-- Syntactic reading of every documented spelling (no calendar check on the period number). -/
def parseRaw (s : List Char) : Option Period :=
  match s with
  | y1 :: y2 :: y3 :: y4 :: rest =>
    match parseNat [y1, y2, y3, y4] with
    | some y => parseRest (y : Int) rest
    | none => none
  | _ => none

/-- A documented spelling that denotes a period of the calendar. -/
def parse (s : List Char) : Option Period :=
  match parseRaw s with
  | some p => if valid p then some p else none
  | none => none

/-! ## rendering -/

inductive Fmt | vtl | sdmxReporting | sdmxGregorian | natural
deriving DecidableEq, Repr

inductive Err | unsupported (i : Ind)
deriving DecidableEq, Repr

def yearChars (p : Period) : List Char := pad 4 p.year.toNat

/-- `MM-DD` part of the civil date of a daily period. -/
def dateChars (p : Period) : List Char :=
  let d := ofDayOfYear p.year p.num
  yearChars p ++ ['-'] ++ pad 2 d.month.toNat ++ ['-'] ++ pad 2 d.day.toNat

/-- The four output formats of docs/data_types.rst (`time_period_output_format`). -/
def render (f : Fmt) (p : Period) : Except Err (List Char) :=
  let n := p.num.toNat
  match f, p.ind with
  | .vtl, .A => .ok (yearChars p)
  | .vtl, i => .ok (yearChars p ++ [indChar i] ++ digits n)
  | .sdmxReporting, .A => .ok (yearChars p ++ ['-', 'A', '1'])
  | .sdmxReporting, i => .ok (yearChars p ++ ['-', indChar i] ++ pad (maxWidth i) n)
  | .sdmxGregorian, .A => .ok (yearChars p)
  | .sdmxGregorian, .M => .ok (yearChars p ++ ['-'] ++ pad 2 n)
  | .sdmxGregorian, .D => .ok (dateChars p)
  | .sdmxGregorian, i => .error (.unsupported i)
  | .natural, .A => .ok (yearChars p)
  | .natural, .M => .ok (yearChars p ++ ['-'] ++ pad 2 n)
  | .natural, .D => .ok (dateChars p)
  | .natural, i => .ok (yearChars p ++ ['-', indChar i] ++ pad (maxWidth i) n)

/-- Canonical internal representation (`TimePeriodHandler.__str__`, `vtl_period_to_string`). -/
def canon (p : Period) : List Char :=
  match p.ind with
  | .A => yearChars p ++ ['A']
  | i => yearChars p ++ ['-', indChar i] ++ pad (maxWidth i) p.num.toNat

/-- Any documented spelling ↦ canonical internal representation (`vtl_period_normalize`,
    `check_time_period`). -/
def normalise (s : List Char) : Option (List Char) :=
  match parse s with
  | some p => some (canon p)
  | none => none

/-- Every documented input spelling of `p` (docs/data_types.rst "Accepted input formats"). -/
def spellings (p : Period) : List (List Char) :=
  let y := yearChars p
  let n := p.num.toNat
  match p.ind with
  | .A => [y, y ++ ['A'], y ++ ['-', 'A', '1']]
  | .S => [y ++ ['S'] ++ digits n, y ++ ['-', 'S'] ++ digits n]
  | .Q => [y ++ ['Q'] ++ digits n, y ++ ['-', 'Q'] ++ digits n]
  | .M => [y ++ ['M'] ++ digits n, y ++ ['M'] ++ pad 2 n, y ++ ['-'] ++ pad 2 n, y ++ ['-'] ++ digits n,
           y ++ ['-', 'M'] ++ pad 2 n, y ++ ['-', 'M'] ++ digits n]
  | .W => [y ++ ['W'] ++ digits n, y ++ ['W'] ++ pad 2 n, y ++ ['-', 'W'] ++ pad 2 n]
  | .D => [y ++ ['D'] ++ digits n, y ++ ['D'] ++ pad 3 n, y ++ ['-', 'D'] ++ digits n,
           y ++ ['-', 'D'] ++ pad 3 n, dateChars p]
          ++ (if n < 100 then [y ++ ['D'] ++ pad 2 n, y ++ ['-', 'D'] ++ pad 2 n] else [])

end VtlModel.Time

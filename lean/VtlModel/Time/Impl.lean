/-
  VtlModel.Time.Impl — the `impl*` definitions instantiated with the literal tables that the translator
  harness/translate/time_macros.py regenerates from /repo's SQL on every run (Gen/TimeMacros.lean).
-/
import VtlModel.Gen.TimeMacros
import VtlModel.Time.Spelling

namespace VtlModel.Time
open VtlModel.Gen

/-- SQL macro `vtl_period_limit`. -/
def periodLimit : Ind → Int
  | .A => TimeMacros.periodLimit_A | .S => TimeMacros.periodLimit_S | .Q => TimeMacros.periodLimit_Q
  | .M => TimeMacros.periodLimit_M | .W => TimeMacros.periodLimit_W | .D => TimeMacros.periodLimit_D

/-- SQL macro `vtl_period_rank`. -/
def implRank : Ind → Int
  | .A => TimeMacros.periodRank_A | .S => TimeMacros.periodRank_S | .Q => TimeMacros.periodRank_Q
  | .M => TimeMacros.periodRank_M | .W => TimeMacros.periodRank_W | .D => TimeMacros.periodRank_D

/-- LPAD widths of SQL macro `vtl_period_to_string`. -/
def implWidth : Ind → Nat
  | .A => TimeMacros.toStringWidth_A | .S => TimeMacros.toStringWidth_S | .Q => TimeMacros.toStringWidth_Q
  | .M => TimeMacros.toStringWidth_M | .W => TimeMacros.toStringWidth_W | .D => TimeMacros.toStringWidth_D

/-- What `vtl_tp_shift` computes on this tree: the fixed-limit formula, or (after the repair described in
    findings/C08.md, recognised by the translator) the calendar shift. -/
def implShiftCur (p : Period) (n : Int) : Period :=
  if TimeMacros.shiftIsCalendar then specShift p n else implShift periodLimit p n

/-- What one step of fill_time_series' recursive CTE computes on this tree. -/
def implNextCur (p : Period) : Period :=
  if TimeMacros.nextUsesFixedLimit then implNext periodLimit p else specShift p 1

end VtlModel.Time

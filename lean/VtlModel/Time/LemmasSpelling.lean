/-
  VtlModel.Time.LemmasSpelling — digit functions and parse ∘ render (no Mathlib).
-/
import VtlModel.Time.LemmasPeriod
import VtlModel.Time.Spelling
namespace VtlModel.Time

theorem digitVal_digitChar (k : Nat) : digitVal (digitChar k) = some (k % 10) := by
  have h : k % 10 < 10 := Nat.mod_lt _ (by decide)
  generalize hj : k % 10 = j at h
  unfold digitChar
  rw [hj]
  have : j = 0 ∨ j = 1 ∨ j = 2 ∨ j = 3 ∨ j = 4 ∨ j = 5 ∨ j = 6 ∨ j = 7 ∨ j = 8 ∨ j = 9 := by omega
  rcases this with h | h | h | h | h | h | h | h | h | h <;> subst h <;> decide

theorem digitChar_ne (k : Nat) (c : Char) (hc : digitVal c = none) : digitChar k ≠ c := by
  intro h; rw [← h, digitVal_digitChar] at hc; cases hc

@[simp] theorem digitChar_ne_hyphen (k : Nat) : (digitChar k = '-') = False :=
  eq_false (digitChar_ne k '-' (by decide))

theorem parseNat_pad1 (n : Nat) (h : n < 10) : parseNat (pad 1 n) = some n := by
  simp [pad, parseNat, parseNatAux, digitVal_digitChar]; omega
theorem parseNat_pad2 (n : Nat) (h : n < 100) : parseNat (pad 2 n) = some n := by
  simp [pad, parseNat, parseNatAux, digitVal_digitChar]; omega
theorem parseNat_pad3 (n : Nat) (h : n < 1000) : parseNat (pad 3 n) = some n := by
  simp [pad, parseNat, parseNatAux, digitVal_digitChar]; omega
theorem parseNat_pad4 (n : Nat) (h : n < 10000) : parseNat (pad 4 n) = some n := by
  simp [pad, parseNat, parseNatAux, digitVal_digitChar]; omega

/-- Own digit functions round-trip: rendering with or without padding and reading back. -/
theorem parseNat_digits (n : Nat) (h : n < 10000) : parseNat (digits n) = some n := by
  unfold digits
  split
  · exact parseNat_pad1 n (by omega)
  · split
    · exact parseNat_pad2 n (by omega)
    · split
      · exact parseNat_pad3 n (by omega)
      · exact parseNat_pad4 n h

theorem pad_length (k n : Nat) : (pad k n).length = k := by
  induction k generalizing n with
  | zero => rfl
  | succ k ih => simp [pad, ih]

theorem digits_length (n : Nat) : (digits n).length = if n < 10 then 1 else if n < 100 then 2 else if n < 1000 then 3 else 4 := by
  unfold digits
  split
  · exact pad_length _ _
  · split
    · exact pad_length _ _
    · split <;> exact pad_length _ _

/-! ## parseRaw on the shapes produced by `render` / `spellings` -/

theorem parseRaw_year (y : Nat) (hy : y < 10000) (rest : List Char) :
    parseRaw (pad 4 y ++ rest) = parseRest (y : Int) rest := by
  have h := parseNat_pad4 y hy
  simp only [pad, List.nil_append, List.cons_append] at h ⊢
  simp only [parseRaw, h]

theorem parseNumFor_ok (y : Int) (i : Ind) (c : Bool) (t : List Char) (n : Nat) (hi : i ≠ .A)
    (hl : 1 ≤ t.length ∧ t.length ≤ maxWidth i) (hp : parseNat t = some n) :
    parseNumFor y i c t = some ⟨y, i, (n : Int)⟩ := by
  cases i <;> simp [parseNumFor, hl, hp] at hi ⊢

theorem parseRest_compact (y : Int) (i : Ind) (t : List Char) :
    parseRest y (indChar i :: t) = parseNumFor y i true t := by
  cases i <;> simp [parseRest, indChar, indOfChar]

theorem parseRest_hyphen (y : Int) (i : Ind) (t : List Char) :
    parseRest y ('-' :: indChar i :: t) = parseNumFor y i false t := by
  cases i <;> simp [parseRest, indChar, indOfChar, digitVal]

theorem parseRest_numeric (y : Int) (k : Nat) (t : List Char) :
    parseRest y ('-' :: digitChar k :: t) = parseNumeric y (digitChar k :: t) := by
  simp [parseRest, digitVal_digitChar]

theorem raw_annual (y : Nat) (hy : y < 10000) :
    parseRaw (pad 4 y) = some ⟨y, .A, 1⟩ ∧ parseRaw (pad 4 y ++ ['A']) = some ⟨y, .A, 1⟩ ∧
    parseRaw (pad 4 y ++ ['-', 'A', '1']) = some ⟨y, .A, 1⟩ := by
  refine ⟨?_, ?_, ?_⟩
  · have := parseRaw_year y hy []; simp only [List.append_nil] at this; rw [this]; rfl
  · rw [parseRaw_year y hy]; exact (parseRest_compact y .A []).trans (by simp [parseNumFor])
  · rw [parseRaw_year y hy]; exact (parseRest_hyphen y .A ['1']).trans (by simp [parseNumFor])

theorem raw_compact (y n : Nat) (hy : y < 10000) (i : Ind) (hi : i ≠ .A) (t : List Char)
    (hl : 1 ≤ t.length ∧ t.length ≤ maxWidth i) (hp : parseNat t = some n) :
    parseRaw (pad 4 y ++ [indChar i] ++ t) = some ⟨y, i, n⟩ := by
  rw [List.append_assoc, parseRaw_year y hy]
  exact (parseRest_compact y i t).trans (parseNumFor_ok y i true t n hi hl hp)

theorem raw_hyphen (y n : Nat) (hy : y < 10000) (i : Ind) (hi : i ≠ .A) (t : List Char)
    (hl : 1 ≤ t.length ∧ t.length ≤ maxWidth i) (hp : parseNat t = some n) :
    parseRaw (pad 4 y ++ ['-', indChar i] ++ t) = some ⟨y, i, n⟩ := by
  rw [List.append_assoc, parseRaw_year y hy]
  exact (parseRest_hyphen y i t).trans (parseNumFor_ok y i false t n hi hl hp)

theorem raw_month2 (y m : Nat) (hy : y < 10000) (hm : m < 100) :
    parseRaw (pad 4 y ++ ['-'] ++ pad 2 m) = some ⟨y, .M, m⟩ := by
  rw [List.append_assoc, parseRaw_year y hy]
  have h := parseNat_pad2 m hm
  simp only [pad, List.nil_append, List.cons_append] at h ⊢
  rw [parseRest_numeric]
  simp only [parseNumeric, h]

theorem raw_month1 (y m : Nat) (hy : y < 10000) (hm : m < 10) :
    parseRaw (pad 4 y ++ ['-'] ++ pad 1 m) = some ⟨y, .M, m⟩ := by
  rw [List.append_assoc, parseRaw_year y hy]
  have h := parseNat_pad1 m hm
  simp only [pad, List.nil_append, List.cons_append] at h ⊢
  rw [parseRest_numeric]
  simp only [parseNumeric, h]

theorem raw_date (y m d : Nat) (hy : y < 10000) (hm : m < 100) (hd : d < 100)
    (hv : validDate ⟨y, m, d⟩ = true) :
    parseRaw (pad 4 y ++ ['-'] ++ pad 2 m ++ ['-'] ++ pad 2 d) = some ⟨y, .D, dayOfYear ⟨y, m, d⟩⟩ := by
  rw [List.append_assoc, List.append_assoc, List.append_assoc, parseRaw_year y hy]
  have h1 := parseNat_pad2 m hm
  have h2 := parseNat_pad2 d hd
  simp only [pad, List.nil_append, List.cons_append] at h1 h2 ⊢
  rw [parseRest_numeric]
  simp only [parseNumeric, h1, h2, hv, if_true]

theorem parse_of_raw (s : List Char) (p : Period) (h : parseRaw s = some p) (hv : valid p = true) :
    parse s = some p := by
  simp [parse, h, hv]

/-! ## well-formed periods in `Nat` coordinates -/

/-- Largest period number any year can have. -/
def maxNum : Ind → Int
  | .A => 1 | .S => 2 | .Q => 4 | .M => 12 | .W => 53 | .D => 366


theorem valid_bounds (p : Period) (h : valid p = true) :
    1 ≤ p.num ∧ p.num ≤ maxNum p.ind := by
  rw [valid_iff] at h
  cases p with
  | mk y i n =>
    cases i <;> simp only [periodsInYear, maxNum] at h ⊢
    · exact h
    · exact h
    · exact h
    · exact h
    · have := (isoYearStart_succ y).2; omega
    · rcases daysInYear_cases y with ⟨e, _⟩ | ⟨e, _⟩ <;> omega

/-- A period with a four-digit year in `Nat` coordinates. -/
theorem nat_coords (p : Period) (hv : valid p = true) (hy0 : 0 ≤ p.year) (hy1 : p.year ≤ 9999) :
    ∃ y n : Nat, p = ⟨(y : Int), p.ind, (n : Int)⟩ ∧ y < 10000 ∧ 1 ≤ n ∧
      (n : Int) ≤ maxNum p.ind := by
  have b := valid_bounds p hv
  refine ⟨p.year.toNat, p.num.toNat, ?_, by omega, by omega, ?_⟩
  · cases p with
    | mk y i n => simp only at hy0 hy1 b ⊢; congr 1 <;> omega
  · cases hp : p.ind <;> rw [hp] at b <;> simp only [maxNum] at b ⊢ <;> omega

theorem digits_ok (i : Ind) (n : Nat) (hi : i ≠ .A) (h1 : 1 ≤ n)
    (h2 : (n : Int) ≤ maxNum i) :
    (1 ≤ (digits n).length ∧ (digits n).length ≤ maxWidth i) ∧ parseNat (digits n) = some n := by
  refine ⟨?_, parseNat_digits n (by cases i <;> simp only [maxNum] at h2 <;> omega)⟩
  rw [digits_length]
  cases i <;> simp only [maxWidth, maxNum] at h2 hi ⊢ <;> (repeat' split) <;> omega

theorem padw_ok (i : Ind) (n : Nat) (hi : i ≠ .A)
    (h2 : (n : Int) ≤ maxNum i) :
    (1 ≤ (pad (maxWidth i) n).length ∧ (pad (maxWidth i) n).length ≤ maxWidth i) ∧
    parseNat (pad (maxWidth i) n) = some n := by
  rw [pad_length]
  cases i <;> simp only [maxWidth, maxNum] at h2 hi ⊢
  · exact absurd rfl hi
  · exact ⟨by omega, parseNat_pad1 n (by omega)⟩
  · exact ⟨by omega, parseNat_pad1 n (by omega)⟩
  · exact ⟨by omega, parseNat_pad2 n (by omega)⟩
  · exact ⟨by omega, parseNat_pad2 n (by omega)⟩
  · exact ⟨by omega, parseNat_pad3 n (by omega)⟩

/-- The civil-date spelling of a daily period reads back as that period. -/
theorem raw_dateChars (y n : Nat) (hy : y < 10000) (hv : valid ⟨(y : Int), .D, (n : Int)⟩ = true) :
    parseRaw (dateChars ⟨(y : Int), .D, (n : Int)⟩) = some ⟨(y : Int), .D, (n : Int)⟩ := by
  rw [valid_iff] at hv
  simp only [periodsInYear] at hv
  have sp := ofDayOfYear_spec (y : Int) (n : Int) hv.1 hv.2
  have vd := (validDate_iff _).1 sp.1
  obtain ⟨l, hl, _, _, _, hm⟩ := cal_table (ofDayOfYear (y : Int) (n : Int)).year
  have hdim := hm (ofDayOfYear (y : Int) (n : Int)).month
  simp only [dateChars, yearChars, Int.toNat_natCast]
  generalize hd : ofDayOfYear (y : Int) (n : Int) = dt at *
  have hm' : ((dt.month.toNat : Nat) : Int) = dt.month := by omega
  have hd' : ((dt.day.toNat : Nat) : Int) = dt.day := by omega
  have hvd : validDate ⟨(y : Int), ((dt.month.toNat : Nat) : Int), ((dt.day.toNat : Nat) : Int)⟩ = true := by
    rw [hm', hd', ← sp.2.2]; exact sp.1
  rw [raw_date y dt.month.toNat dt.day.toNat hy (by omega) (by omega) hvd]
  have : dayOfYear ⟨(y : Int), ((dt.month.toNat : Nat) : Int), ((dt.day.toNat : Nat) : Int)⟩ = (n : Int) := by
    rw [hm', hd', ← sp.2.2]; exact sp.2.1
  rw [this]

end VtlModel.Time

/-
  VtlModel.Time.LemmasShift — the SQL shift formula against the calendar shift (no Mathlib).
-/
import VtlModel.Time.LemmasPeriod
namespace VtlModel.Time

/-- For indicators whose number of periods per year is a constant `L`, the fixed-limit formula of
    `vtl_tp_shift` is the calendar shift. -/
theorem implShift_S (lim : Ind → Int) (hl : lim .S = 2) (y n k : Int) :
    implShift lim ⟨y, .S, n⟩ k = specShift ⟨y, .S, n⟩ k := by
  simp only [implShift, specShift, unord, ord, tdiv, tmod, hl]
  congr 1 <;> omega

theorem implShift_Q (lim : Ind → Int) (hl : lim .Q = 4) (y n k : Int) :
    implShift lim ⟨y, .Q, n⟩ k = specShift ⟨y, .Q, n⟩ k := by
  simp only [implShift, specShift, unord, ord, tdiv, tmod, hl]
  congr 1 <;> omega

theorem implShift_M (lim : Ind → Int) (hl : lim .M = 12) (y n k : Int) :
    implShift lim ⟨y, .M, n⟩ k = specShift ⟨y, .M, n⟩ k := by
  simp only [implShift, specShift, unord, ord, tdiv, tmod, hl]
  congr 1 <;> omega

theorem implShift_A (lim : Ind → Int) (y n k : Int) :
    implShift lim ⟨y, .A, n⟩ k = specShift ⟨y, .A, n⟩ k := by
  simp only [implShift, specShift, unord, ord]

theorem isoYearStart_lin (d : Nat) (a : Int) (h : ∀ y, a ≤ y → y < a + d → isoWeeksInYear y = 52) :
    isoYearStart (a + d) = isoYearStart a + 364 * d := by
  induction d with
  | zero => simp
  | succ d ih =>
    have h1 := ih (fun y h1 h2 => h y h1 (by omega))
    have h2 := (isoYearStart_succ (a + d)).1
    have h3 := h (a + d) (by omega) (by omega)
    rw [show a + ((d + 1 : Nat) : Int) = a + d + 1 by omega, h2, h3, h1]; omega

theorem dby_lin (d : Nat) (a : Int) (h : ∀ y, a ≤ y → y < a + d → daysInYear y = 365) :
    daysBeforeYear (a + d) = daysBeforeYear a + 365 * d := by
  induction d with
  | zero => simp
  | succ d ih =>
    have h1 := ih (fun y h1 h2 => h y h1 (by omega))
    have h2 := dby_succ (a + d)
    have h3 := h (a + d) (by omega) (by omega)
    rw [show a + ((d + 1 : Nat) : Int) = a + d + 1 by omega, h2, h3, h1]; omega

/-- Weeks: the fixed-limit formula (limit 52) agrees with the calendar as long as every ISO year between the
    operand's year and the result's year (both included) has 52 weeks. -/
theorem implShift_W_partial (lim : Ind → Int) (hl : lim .W = 52) (y n k : Int)
    (hp : ∀ z, (y ≤ z ∧ z ≤ (implShift lim ⟨y, .W, n⟩ k).year) ∨ ((implShift lim ⟨y, .W, n⟩ k).year ≤ z ∧ z ≤ y) →
      isoWeeksInYear z = 52) :
    implShift lim ⟨y, .W, n⟩ k = specShift ⟨y, .W, n⟩ k := by
  simp only [implShift, hl] at hp ⊢
  generalize hc : (if n + k ≤ 0 then tdiv (n + k) 52 - 1 else tdiv (n + k - 1) 52) = c at *
  generalize hm : tmod (tmod (n + k - 1) 52 + 52) 52 + 1 = m at *
  have ar : 52 * c + m = n + k ∧ 1 ≤ m ∧ m ≤ 52 := by
    simp only [tdiv, tmod] at hc hm; omega
  clear hc hm
  have hs : isoYearStart (y + c) = isoYearStart y + 364 * c := by
    by_cases hc0 : 0 ≤ c
    · have := isoYearStart_lin c.toNat y (fun z z1 z2 => hp z (Or.inl ⟨z1, by omega⟩))
      rw [show ((c.toNat : Nat) : Int) = c by omega] at this; exact this
    · have := isoYearStart_lin (-c).toNat (y + c) (fun z z1 z2 => hp z (Or.inr ⟨z1, by omega⟩))
      rw [show (((-c).toNat : Nat) : Int) = -c by omega, show y + c + -c = y by omega] at this; omega
  have hw : isoWeeksInYear (y + c) = 52 := hp (y + c) (by omega)
  have hv : valid ⟨y + c, .W, m⟩ = true := by
    rw [valid_iff]; simp only [periodsInYear, hw]; omega
  have b := isoYearStart_bounds y
  have ho : ord ⟨y + c, .W, m⟩ = ord ⟨y, .W, n⟩ + k := by
    simp only [ord, hs]; omega
  have := unord_ord ⟨y + c, .W, m⟩ hv
  rw [← this, ho]; rfl

/-- Days: the fixed-limit formula (limit 365) agrees with the calendar as long as every year between the
    operand's year and the result's year (both included) has 365 days. -/
theorem implShift_D_partial (lim : Ind → Int) (hl : lim .D = 365) (y n k : Int)
    (hp : ∀ z, (y ≤ z ∧ z ≤ (implShift lim ⟨y, .D, n⟩ k).year) ∨ ((implShift lim ⟨y, .D, n⟩ k).year ≤ z ∧ z ≤ y) →
      daysInYear z = 365) :
    implShift lim ⟨y, .D, n⟩ k = specShift ⟨y, .D, n⟩ k := by
  simp only [implShift, hl] at hp ⊢
  generalize hc : (if n + k ≤ 0 then tdiv (n + k) 365 - 1 else tdiv (n + k - 1) 365) = c at *
  generalize hm : tmod (tmod (n + k - 1) 365 + 365) 365 + 1 = m at *
  have ar : 365 * c + m = n + k ∧ 1 ≤ m ∧ m ≤ 365 := by
    simp only [tdiv, tmod] at hc hm; omega
  clear hc hm
  have hs : daysBeforeYear (y + c) = daysBeforeYear y + 365 * c := by
    by_cases hc0 : 0 ≤ c
    · have := dby_lin c.toNat y (fun z z1 z2 => hp z (Or.inl ⟨z1, by omega⟩))
      rw [show ((c.toNat : Nat) : Int) = c by omega] at this; exact this
    · have := dby_lin (-c).toNat (y + c) (fun z z1 z2 => hp z (Or.inr ⟨z1, by omega⟩))
      rw [show (((-c).toNat : Nat) : Int) = -c by omega, show y + c + -c = y by omega] at this; omega
  have hw : daysInYear (y + c) = 365 := hp (y + c) (by omega)
  have hv : valid ⟨y + c, .D, m⟩ = true := by
    rw [valid_iff]; simp only [periodsInYear, hw]; omega
  have ho : ord ⟨y + c, .D, m⟩ = ord ⟨y, .D, n⟩ + k := by
    simp only [ord, hs]; omega
  have := unord_ord ⟨y + c, .D, m⟩ hv
  rw [← this, ho]; rfl

end VtlModel.Time

/-
  VtlModel.Time.LemmasAgg — the period of an indicator that contains a day (time_agg) (no Mathlib).
-/
import VtlModel.Time.LemmasPeriod
namespace VtlModel.Time

/-- `periodOfDay t n` is a period of the calendar and contains day `n`. -/
theorem periodOfDay_contains (t : Ind) (n : Int) :
    valid (periodOfDay t n) = true ∧ (periodOfDay t n).ind = t ∧
    startDay (periodOfDay t n) ≤ n ∧ n ≤ endDay (periodOfDay t n) := by
  have ⟨hv, ht, hyr⟩ := ofDay_spec n
  have ⟨s1, s2⟩ := yearOfDay_spec n
  rw [valid_iff]
  cases t
  · -- A
    obtain ⟨l, hl, _, hy, hb, hm⟩ := cal_table (yearOfDay n)
    rw [dby_succ, hy] at s2
    simp only [periodOfDay, periodsInYear, startDay, endDay, toDay, hb]
    simp; omega
  · -- S
    rw [validDate_iff] at hv
    have hn : n = daysBeforeYear (ofDay n).year + daysBeforeMonth (ofDay n).year (ofDay n).month + (ofDay n).day := by
      have := ht; unfold toDay at this; omega
    simp only [periodOfDay, periodsInYear, startDay, endDay, toDay]
    generalize ofDay n = dt at *
    obtain ⟨l, hl, _, hy, hb, hm⟩ := cal_table dt.year
    rw [hb] at hn
    simp only [hb, hm]
    rw [hm] at hv
    generalize dt.month = m at *
    generalize dt.day = d at *
    generalize daysBeforeYear dt.year = D at *
    clear hb hm hy ht hyr s1 s2
    refine ⟨by omega, trivial, ?_, ?_⟩ <;> omega
  · -- Q
    rw [validDate_iff] at hv
    have hn : n = daysBeforeYear (ofDay n).year + daysBeforeMonth (ofDay n).year (ofDay n).month + (ofDay n).day := by
      have := ht; unfold toDay at this; omega
    simp only [periodOfDay, periodsInYear, startDay, endDay, toDay]
    generalize ofDay n = dt at *
    obtain ⟨l, hl, _, hy, hb, hm⟩ := cal_table dt.year
    rw [hb] at hn
    simp only [hb, hm]
    rw [hm] at hv
    generalize dt.month = m at *
    generalize dt.day = d at *
    generalize daysBeforeYear dt.year = D at *
    clear hb hm hy ht hyr s1 s2
    refine ⟨by omega, trivial, ?_, ?_⟩ <;> omega
  · -- M
    rw [validDate_iff] at hv
    simp only [periodOfDay, periodsInYear, startDay, endDay]
    have hn := ht; unfold toDay at hn
    simp only [toDay]
    refine ⟨by omega, trivial, ?_, ?_⟩ <;> omega
  · -- W
    have ⟨i1, i2⟩ := isoYearOf_spec n
    have c := isoYearStart_succ (isoYearOf n)
    have b := isoYearStart_bounds (isoYearOf n)
    simp only [periodOfDay, isoWeekOf, periodsInYear, startDay, endDay, ofIsoWeek]
    refine ⟨by omega, trivial, ?_, ?_⟩ <;> omega
  · -- D
    rw [dby_succ] at s2
    simp only [periodOfDay, periodsInYear, startDay, endDay]
    refine ⟨by omega, trivial, ?_, ?_⟩ <;> omega

/-- A period of the calendar starts no later than it ends. -/
theorem startDay_le_endDay (p : Period) (hp : valid p = true) : startDay p ≤ endDay p := by
  rw [valid_iff] at hp
  cases p with
  | mk y i n =>
    obtain ⟨l, hl, _, hy, hb, hm⟩ := cal_table y
    cases i <;> simp only [periodsInYear] at hp <;> simp only [startDay, endDay, toDay, ofIsoWeek, hb, hm] <;>
      clear hb hm hy <;> omega

end VtlModel.Time

/-
  VtlModel.Time.LemmasIso — ISO-week lemmas (no Mathlib).
-/
import VtlModel.Time.Lemmas
namespace VtlModel.Time

theorem daysInYear_cases (y : Int) : (daysInYear y = 365 ∧ isLeap y = false) ∨ (daysInYear y = 366 ∧ isLeap y = true) := by
  unfold daysInYear; cases isLeap y <;> simp

theorem isoYearStart_bounds (y : Int) :
    jan1 y - 3 ≤ isoYearStart y ∧ isoYearStart y ≤ jan1 y + 3 ∧ (isoYearStart y - 1) % 7 = 0 := by
  unfold isoYearStart weekday; omega

theorem jan1_succ (y : Int) : jan1 (y + 1) = jan1 y + daysInYear y := by
  unfold jan1; rw [dby_succ]; omega

theorem isoYearStart_succ (y : Int) :
    isoYearStart (y + 1) = isoYearStart y + 7 * isoWeeksInYear y ∧ (isoWeeksInYear y = 52 ∨ isoWeeksInYear y = 53) := by
  unfold isoWeeksInYear isoYearStart weekday
  rw [jan1_succ]
  rcases daysInYear_cases y with ⟨h, _⟩ | ⟨h, _⟩ <;> rw [h] <;> omega

/-- A year has 53 ISO weeks exactly when 1 January is a Thursday, or a Wednesday in a leap year. -/
theorem weeks53_iff' (y : Int) :
    isoWeeksInYear y = 53 ↔ (weekday (jan1 y) = 3 ∨ (isLeap y = true ∧ weekday (jan1 y) = 2)) := by
  unfold isoWeeksInYear isoYearStart weekday
  rw [jan1_succ]
  rcases daysInYear_cases y with ⟨h, hl⟩ | ⟨h, hl⟩ <;> rw [h, hl] <;> simp <;> omega

theorem isoYearStart_lt {a b : Int} (h : a < b) : isoYearStart a < isoYearStart b := by
  have h1 := isoYearStart_bounds a
  have h2 := isoYearStart_bounds b
  have h3 : daysBeforeYear (a + 1) ≤ daysBeforeYear b := dby_mono' (by omega)
  rw [dby_succ] at h3
  unfold jan1 at h1 h2
  rcases daysInYear_cases a with ⟨h, _⟩ | ⟨h, _⟩ <;> omega

theorem isoYearStart_le {a b : Int} (h : a ≤ b) : isoYearStart a ≤ isoYearStart b := by
  by_cases h' : a = b
  · subst h'; omega
  · have := isoYearStart_lt (a := a) (b := b) (by omega); omega

theorem isoYearOf_spec (n : Int) : isoYearStart (isoYearOf n) ≤ n ∧ n < isoYearStart (isoYearOf n + 1) := by
  have ⟨s1, s2⟩ := yearOfDay_spec n
  unfold isoYearOf
  simp only []
  generalize yearOfDay n = y at *
  have b0 := isoYearStart_bounds (y - 1)
  have b1 := isoYearStart_bounds y
  have b2 := isoYearStart_bounds (y + 1)
  have b3 := isoYearStart_bounds (y + 1 + 1)
  have j0 := jan1_succ (y - 1)
  have j1 := jan1_succ y
  have j2 := jan1_succ (y + 1)
  rw [show y - 1 + 1 = y by omega] at j0
  rw [dby_succ] at s2
  unfold jan1 at *
  rcases daysInYear_cases (y - 1) with ⟨h0, _⟩ | ⟨h0, _⟩ <;>
  rcases daysInYear_cases y with ⟨h1, _⟩ | ⟨h1, _⟩ <;>
  rcases daysInYear_cases (y + 1) with ⟨h2, _⟩ | ⟨h2, _⟩ <;>
  (split
   · omega
   · split
     · rw [show y - 1 + 1 = y by omega]; omega
     · omega)

theorem isoYearOf_unique {n y : Int} (h1 : isoYearStart y ≤ n) (h2 : n < isoYearStart (y + 1)) : isoYearOf n = y := by
  have ⟨s1, s2⟩ := isoYearOf_spec n
  have m1 : ¬ (isoYearOf n + 1 ≤ y) := fun h => by
    have := isoYearStart_le h; omega
  have m2 : ¬ (y + 1 ≤ isoYearOf n) := fun h => by
    have := isoYearStart_le h; omega
  omega

end VtlModel.Time

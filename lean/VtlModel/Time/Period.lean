/-
  VtlModel.Time.Period — VTL Time_Period values over the real calendar (import-free apart from Calendar).

  `spec*` = what the calendar defines;  `impl*` = transcription of the SQL macros of
  /repo/src/vtlengine/duckdb_transpiler/sql/time_operators.sql (parameterised by the literal table
  `vtl_period_limit`, which a translator regenerates into Gen/TimeMacros.lean).

  Public names (stable): Ind Period periodsInYear valid ord unord startDay endDay specShift implShift
    periodOfDay timeAgg periodIndicator getyear getmonth dayofmonth dayofyear datediff dateadd rank
-/
import VtlModel.Time.Calendar

namespace VtlModel.Time

inductive Ind | A | S | Q | M | W | D
deriving DecidableEq, Repr

structure Period where
  year : Int
  ind : Ind
  num : Int
deriving DecidableEq, Repr

/-- Number of periods of the given indicator in (ISO-)year `y` — the *calendar's* answer. -/
def periodsInYear (i : Ind) (y : Int) : Int :=
  match i with
  | .A => 1 | .S => 2 | .Q => 4 | .M => 12
  | .W => isoWeeksInYear y
  | .D => daysInYear y

/-- A period exists in the calendar (week 53 / day 366 only when the year has them). -/
def valid (p : Period) : Bool := decide (1 ≤ p.num) && decide (p.num ≤ periodsInYear p.ind p.year)

/-- Index of the period on the axis of its own indicator (consecutive periods ↦ consecutive integers). -/
def ord (p : Period) : Int :=
  match p.ind with
  | .A => p.year
  | .S => 2 * p.year + (p.num - 1)
  | .Q => 4 * p.year + (p.num - 1)
  | .M => 12 * p.year + (p.num - 1)
  | .W => (isoYearStart p.year - 1) / 7 + (p.num - 1)
  | .D => daysBeforeYear p.year + p.num

/-- Inverse of `ord`. -/
def unord (i : Ind) (k : Int) : Period :=
  match i with
  | .A => ⟨k, .A, 1⟩
  | .S => ⟨k / 2, .S, k % 2 + 1⟩
  | .Q => ⟨k / 4, .Q, k % 4 + 1⟩
  | .M => ⟨k / 12, .M, k % 12 + 1⟩
  | .W => let n := 7 * k + 1
          let iy := isoYearOf n
          ⟨iy, .W, (n - isoYearStart iy) / 7 + 1⟩
  | .D => let y := yearOfDay k
          ⟨y, .D, k - daysBeforeYear y⟩

/-- First day (day number) of a period. -/
def startDay (p : Period) : Int :=
  match p.ind with
  | .A => toDay ⟨p.year, 1, 1⟩
  | .S => toDay ⟨p.year, (p.num - 1) * 6 + 1, 1⟩
  | .Q => toDay ⟨p.year, (p.num - 1) * 3 + 1, 1⟩
  | .M => toDay ⟨p.year, p.num, 1⟩
  | .W => ofIsoWeek p.year p.num 1
  | .D => daysBeforeYear p.year + p.num

/-- Last day (day number) of a period. -/
def endDay (p : Period) : Int :=
  match p.ind with
  | .A => toDay ⟨p.year, 12, 31⟩
  | .S => toDay ⟨p.year, p.num * 6, daysInMonth p.year (p.num * 6)⟩
  | .Q => toDay ⟨p.year, p.num * 3, daysInMonth p.year (p.num * 3)⟩
  | .M => toDay ⟨p.year, p.num, daysInMonth p.year p.num⟩
  | .W => ofIsoWeek p.year p.num 7
  | .D => daysBeforeYear p.year + p.num

/-- Calendar shift: move `n` periods along the indicator's axis. -/
def specShift (p : Period) (n : Int) : Period := unord p.ind (ord p + n)

/-- Truncating integer division for a positive divisor (DuckDB `//` on integers). -/
def tdiv (a b : Int) : Int := if a ≥ 0 then a / b else -((-a) / b)
/-- Truncated remainder (DuckDB `%`). -/
def tmod (a b : Int) : Int := a - b * tdiv a b

/-- Transcription of the SQL macro `vtl_tp_shift`; `lim` is the macro `vtl_period_limit`. -/
def implShift (lim : Ind → Int) (p : Period) (n : Int) : Period :=
  match p.ind with
  | .A => ⟨p.year + n, .A, 1⟩
  | i =>
    let l := lim i
    ⟨p.year + (if p.num + n ≤ 0 then tdiv (p.num + n) l - 1 else tdiv (p.num + n - 1) l),
     i,
     tmod (tmod (p.num + n - 1) l + l) l + 1⟩

/-- Transcription of `_TP_NEXT_PERIOD` (the step of fill_time_series' recursive CTE). -/
def implNext (lim : Ind → Int) (p : Period) : Period :=
  if p.num + 1 > lim p.ind then ⟨p.year + 1, p.ind, 1⟩ else ⟨p.year, p.ind, p.num + 1⟩

/-- Coarseness rank (SQL `vtl_period_rank`, Python `PERIOD_IND_MAPPING`). -/
def rank : Ind → Int
  | .A => 6 | .S => 5 | .Q => 4 | .M => 3 | .W => 2 | .D => 1

/-- The period of indicator `t` that contains day number `n`. -/
def periodOfDay (t : Ind) (n : Int) : Period :=
  match t with
  | .A => ⟨yearOfDay n, .A, 1⟩
  | .S => let d := ofDay n; ⟨d.year, .S, (d.month - 1) / 6 + 1⟩
  | .Q => let d := ofDay n; ⟨d.year, .Q, (d.month - 1) / 3 + 1⟩
  | .M => let d := ofDay n; ⟨d.year, .M, d.month⟩
  | .W => let w := isoWeekOf n; ⟨w.1, .W, w.2.1⟩
  | .D => let y := yearOfDay n; ⟨y, .D, n - daysBeforeYear y⟩

/-- `time_agg` on a Time_Period: the coarser period containing the period's last day; an error when the
    target is finer than the operand (SQL `vtl_time_agg_tp`, VTL error 2-1-19-1). -/
def timeAgg (p : Period) (t : Ind) : Option Period :=
  if rank p.ind > rank t then none
  else if p.ind = t then some p
  else some (periodOfDay t (endDay p))

def periodIndicator (p : Period) : Ind := p.ind
def getyear (p : Period) : Int := p.year

/-- `getmonth` on a period: the month in which the period starts (SQL `vtl_tp_getmonth`). -/
def getmonth (p : Period) : Int := (ofDay (startDay p)).month
/-- `dayofmonth` on a period: day of month of the period's last day (SQL `vtl_tp_dayofmonth`). -/
def dayofmonth (p : Period) : Int := (ofDay (endDay p)).day
/-- `dayofyear` on a period: day of year of the period's last day (SQL `vtl_tp_dayofyear`). -/
def dayofyear (p : Period) : Int :=
  let e := endDay p
  e - daysBeforeYear (yearOfDay e)
/-- `datediff` on two periods: distance in days between their last days. -/
def datediff (a b : Period) : Int := (endDay a - endDay b).natAbs

/-- `dateadd` on a date (SQL `vtl_dateadd`). -/
def dateaddDate (d : Date) (shift : Int) (i : Ind) : Date :=
  match i with
  | .D => ofDay (toDay d + shift)
  | .W => ofDay (toDay d + 7 * shift)
  | .M => addMonths d shift
  | .Q => addMonths d (3 * shift)
  | .S => addMonths d (6 * shift)
  | .A => addMonths d (12 * shift)

/-- `dateadd` on a period: applied to the period's last day (SQL `vtl_tp_dateadd`). -/
def dateadd (p : Period) (shift : Int) (i : Ind) : Date := dateaddDate (ofDay (endDay p)) shift i

end VtlModel.Time

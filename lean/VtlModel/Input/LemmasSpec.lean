/- Helper lemmas for Props/C19 (structural rules of InputSpec). -/
import VtlModel.Input.Spec

namespace VtlModel.Input

theorem hasDup_iff {α : Type} [DecidableEq α] (l : List α) : hasDup l = true ↔ ¬ l.Nodup := by
  induction l with
  | nil => simp [hasDup]
  | cons a as ih =>
    simp only [hasDup, Bool.or_eq_true, List.contains_iff_mem, List.nodup_cons, ih]
    constructor
    · rintro (h | h)
      · intro hn; exact hn.1 h
      · intro hn; exact h hn.2
    · intro h
      by_cases ha : a ∈ as
      · exact Or.inl ha
      · right; intro hn; exact h ⟨ha, hn⟩

theorem hasDup_false_iff {α : Type} [DecidableEq α] (l : List α) : hasDup l = false ↔ l.Nodup := by
  have := hasDup_iff l
  cases h : hasDup l <;> simp_all

/-! ### mapE -/

theorem mapE_ok_iff {α β ε : Type} (f : α → Except ε β) (l : List α) :
    (∃ bs, mapE f l = .ok bs) ↔ ∀ a ∈ l, ∃ b, f a = .ok b := by
  induction l with
  | nil => simp [mapE]
  | cons a as ih =>
    constructor
    · rintro ⟨bs, h⟩
      simp only [mapE] at h
      cases hfa : f a with
      | error e => simp [hfa] at h
      | ok b =>
        simp only [hfa] at h
        cases hm : mapE f as with
        | error e => simp [hm] at h
        | ok bs' =>
          intro x hx
          simp only [List.mem_cons] at hx
          rcases hx with rfl | hx
          · exact ⟨b, hfa⟩
          · exact (ih.mp ⟨bs', hm⟩) x hx
    · intro h
      obtain ⟨b, hb⟩ := h a (by simp)
      obtain ⟨bs, hbs⟩ := ih.mpr (fun x hx => h x (by simp [hx]))
      exact ⟨b :: bs, by simp [mapE, hb, hbs]⟩

/-- The successful result of `mapE` is the pointwise image. -/
theorem mapE_ok_map {α β ε : Type} (f : α → Except ε β) (g : α → β) :
    ∀ (l : List α) (bs : List β), mapE f l = .ok bs → (∀ a ∈ l, ∀ b, f a = .ok b → b = g a) → bs = l.map g := by
  intro l
  induction l with
  | nil => intro bs h _; simp [mapE] at h; simp [h]
  | cons a as ih =>
    intro bs h hg
    simp only [mapE] at h
    cases hfa : f a with
    | error e => simp [hfa] at h
    | ok b =>
      simp only [hfa] at h
      cases hm : mapE f as with
      | error e => simp [hm] at h
      | ok bs' =>
        simp only [hm, Except.ok.injEq] at h
        subst h
        have h1 := hg a (by simp) b hfa
        have h2 := ih bs' hm (fun x hx y hy => hg x (by simp [hx]) y hy)
        simp [h1, h2]

theorem mapE_length {α β ε : Type} (f : α → Except ε β) :
    ∀ (l : List α) (bs : List β), mapE f l = .ok bs → bs.length = l.length := by
  intro l
  induction l with
  | nil => intro bs h; simp [mapE] at h; simp [h]
  | cons a as ih =>
    intro bs h
    simp only [mapE] at h
    cases hfa : f a with
    | error e => simp [hfa] at h
    | ok b =>
      simp only [hfa] at h
      cases hm : mapE f as with
      | error e => simp [hm] at h
      | ok bs' =>
        simp only [hm, Except.ok.injEq] at h
        subst h
        simp [ih bs' hm]

theorem mapE_error_mem {α β ε : Type} (f : α → Except ε β) :
    ∀ (l : List α) (e : ε), mapE f l = .error e → ∃ a ∈ l, f a = .error e := by
  intro l
  induction l with
  | nil => intro e h; simp [mapE] at h
  | cons a as ih =>
    intro e h
    simp only [mapE] at h
    cases hfa : f a with
    | error e' => simp only [hfa, Except.error.injEq] at h; exact ⟨a, by simp, by rw [hfa, h]⟩
    | ok b =>
      simp only [hfa] at h
      cases hm : mapE f as with
      | error e' =>
        simp only [hm, Except.error.injEq] at h
        obtain ⟨x, hx, hfx⟩ := ih e' hm
        exact ⟨x, by simp [hx], by rw [hfx, h]⟩
      | ok bs' => simp [hm] at h

/-! ### columns -/

theorem checkColumns_error_ne (s : Struct) (cols : List (List Char)) (e : Violation) :
    checkColumns s cols = .error e → e ≠ .duplicateKey := by
  induction s with
  | nil => simp [checkColumns]
  | cons c cs ih =>
    simp only [checkColumns]
    split
    · exact ih
    · split
      · intro h; cases h; simp
      · split
        · intro h; cases h; simp
        · exact ih

theorem normCell_error_ne (cols : List (List Char)) (r : List (Option (List Char))) (c : Comp) (e : Violation) :
    normCell cols r c = .error e → e ≠ .duplicateKey := by
  unfold normCell
  cases h : cellVal c (rawCell cols c r) with
  | none => intro h; cases h; simp
  | some v =>
    cases v <;> simp
    · cases required c <;> simp
      intro h; subst h; simp

theorem rows_error_ne (s : Struct) (cols : List (List Char)) (rows : List (List (Option (List Char))))
    (e : Violation) : mapE (normRow s cols) rows = .error e → e ≠ .duplicateKey := by
  intro h
  obtain ⟨r, _, hr⟩ := mapE_error_mem _ _ _ h
  unfold normRow at hr
  obtain ⟨c, _, hc⟩ := mapE_error_mem _ _ _ hr
  exact normCell_error_ne cols r c e hc


theorem checkColumns_ok_iff (s : Struct) (cols : List (List Char)) :
    checkColumns s cols = .ok () ↔ ∀ c ∈ s, c.name ∈ cols ∨ (isId c = false ∧ c.nullable = true) := by
  induction s with
  | nil => simp [checkColumns]
  | cons c cs ih =>
    simp only [checkColumns, List.contains_iff_mem, List.mem_cons, forall_eq_or_imp]
    by_cases hm : c.name ∈ cols
    · simp [hm, ih]
    · simp only [hm, if_false, false_or]
      by_cases hi : isId c = true
      · simp [hi]
      · have hi' : isId c = false := by simpa using hi
        simp only [hi', Bool.false_eq_true, if_false, true_and]
        cases hn : c.nullable
        · simp
        · simp [ih]

/-! ### cells and rows -/

/-- The value a cell normalises to, when it does. -/
def cellGet (c : Comp) (raw : Option (List Char)) : Val := (cellVal c raw).getD .null

theorem normCell_ok_iff (cols : List (List Char)) (r : List (Option (List Char))) (c : Comp) :
    (∃ v, normCell cols r c = .ok v) ↔
      cellVal c (rawCell cols c r) ≠ none ∧ ¬ (required c = true ∧ cellVal c (rawCell cols c r) = some .null) := by
  unfold normCell
  cases h : cellVal c (rawCell cols c r) with
  | none => simp
  | some v =>
    cases v <;> simp
    · cases required c <;> simp

theorem normCell_val (cols : List (List Char)) (r : List (Option (List Char))) (c : Comp) (v : Val) :
    normCell cols r c = .ok v → cellVal c (rawCell cols c r) = some v := by
  unfold normCell
  cases h : cellVal c (rawCell cols c r) with
  | none => simp
  | some w =>
    cases w <;> simp
    · cases required c <;> simp

theorem normRow_ok_iff (s : Struct) (cols : List (List Char)) (r : List (Option (List Char))) :
    (∃ vs, normRow s cols r = .ok vs) ↔
      ∀ c ∈ s, cellVal c (rawCell cols c r) ≠ none ∧
        ¬ (required c = true ∧ cellVal c (rawCell cols c r) = some .null) := by
  unfold normRow
  rw [mapE_ok_iff]
  constructor
  · intro h c hc; exact (normCell_ok_iff cols r c).mp (h c hc)
  · intro h c hc; exact (normCell_ok_iff cols r c).mpr (h c hc)

theorem normRow_vals (s : Struct) (cols : List (List Char)) (r : List (Option (List Char))) (vs : NRow) :
    normRow s cols r = .ok vs → vs.map some = s.map (fun c => cellVal c (rawCell cols c r)) := by
  unfold normRow
  induction s generalizing vs with
  | nil => intro h; simp [mapE] at h; simp [h]
  | cons c cs ih =>
    intro h
    simp only [mapE] at h
    cases hfa : normCell cols r c with
    | error e => simp [hfa] at h
    | ok b =>
      simp only [hfa] at h
      cases hm : mapE (normCell cols r) cs with
      | error e => simp [hm] at h
      | ok bs' =>
        simp only [hm, Except.ok.injEq] at h
        subst h
        simp [normCell_val cols r c b hfa, ih bs' hm]

/-- The identifier part of a list aligned with the structure. -/
theorem keyOf_map_some (s : Struct) : ∀ (vs : NRow) (ws : List (Option Val)),
    vs.map some = ws → ws.length = s.length →
    (keyOf s vs).map some = ((s.zip ws).filter (fun p => isId p.1)).map (·.2) := by
  induction s with
  | nil => intro vs ws h hl; cases vs <;> simp [keyOf]
  | cons c cs ih =>
    intro vs ws h hl
    cases vs with
    | nil => simp at h; subst h; simp at hl
    | cons v vs' =>
      cases ws with
      | nil => simp at h
      | cons w ws' =>
        simp only [List.map_cons, List.cons.injEq] at h
        simp only [List.length_cons, Nat.add_right_cancel_iff] at hl
        have := ih vs' ws' h.2 hl
        by_cases hi : isId c = true
        · simp [keyOf, hi, List.zip_cons_cons, this, h.1]
        · have hi' : isId c = false := by simpa using hi
          simp [keyOf, hi', List.zip_cons_cons, this]

theorem zip_map_filter (s : Struct) (f : Comp → Option Val) :
    ((s.zip (s.map f)).filter (fun p => isId p.1)).map (·.2) = (s.filter isId).map f := by
  induction s with
  | nil => simp
  | cons c cs ih =>
    by_cases hi : isId c = true
    · simp [List.zip_cons_cons, hi, ih]
    · have hi' : isId c = false := by simpa using hi
      simp [List.zip_cons_cons, hi', ih]

theorem keyOf_rawKey (s : Struct) (cols : List (List Char)) (r : List (Option (List Char))) (vs : NRow) :
    normRow s cols r = .ok vs → (keyOf s vs).map some = rawKey s cols r := by
  intro h
  have hv := normRow_vals s cols r vs h
  have := keyOf_map_some s vs _ hv (by simp)
  rw [this, zip_map_filter]
  rfl

theorem map_some_injective {α : Type} : ∀ (a b : List α), a.map some = b.map some → a = b := by
  intro a
  induction a with
  | nil => intro b h; cases b <;> simp_all
  | cons x xs ih =>
    intro b h
    cases b with
    | nil => simp at h
    | cons y ys =>
      simp only [List.map_cons, List.cons.injEq, Option.some.injEq] at h
      rw [h.1, ih ys h.2]

theorem nodup_map_inj {α β : Type} (f : α → β) (hf : ∀ a b, f a = f b → a = b) (l : List α) :
    (l.map f).Nodup ↔ l.Nodup := by
  induction l with
  | nil => simp
  | cons a as ih =>
    simp only [List.map_cons, List.nodup_cons, List.mem_map, ih]
    constructor
    · rintro ⟨h1, h2⟩; exact ⟨fun ha => h1 ⟨a, ha, rfl⟩, h2⟩
    · rintro ⟨h1, h2⟩
      refine ⟨?_, h2⟩
      rintro ⟨x, hx, hfx⟩
      have : x = a := hf _ _ hfx
      exact h1 (this ▸ hx)

/-- Keys of the normalised rows are duplicate-free exactly when the raw keys are. -/
theorem keys_nodup_iff (s : Struct) (cols : List (List Char)) :
    ∀ (rows : List (List (Option (List Char)))) (ns : NTable),
      mapE (normRow s cols) rows = .ok ns →
      ((ns.map (keyOf s)).Nodup ↔ (rows.map (rawKey s cols)).Nodup) := by
  intro rows ns h
  have key : (ns.map (keyOf s)).map (List.map some) = rows.map (rawKey s cols) := by
    induction rows generalizing ns with
    | nil => simp [mapE] at h; simp [h]
    | cons r rs ih =>
      simp only [mapE] at h
      cases hfa : normRow s cols r with
      | error e => simp [hfa] at h
      | ok b =>
        simp only [hfa] at h
        cases hm : mapE (normRow s cols) rs with
        | error e => simp [hm] at h
        | ok bs' =>
          simp only [hm, Except.ok.injEq] at h
          subst h
          simp [keyOf_rawKey s cols r b hfa, ih bs' hm]
  rw [← key]
  exact (nodup_map_inj _ (fun a b hab => map_some_injective a b hab) _).symm


/-! ### the result of a successful load -/

/-- The row a raw row normalises to (when it does). -/
def normRowD (s : Struct) (cols : List (List Char)) (r : List (Option (List Char))) : NRow :=
  s.map (fun c => cellGet c (rawCell cols c r))

theorem normRow_eq (s : Struct) (cols : List (List Char)) (r : List (Option (List Char))) (vs : NRow) :
    normRow s cols r = .ok vs → vs = normRowD s cols r := by
  intro h
  have hv := normRow_vals s cols r vs h
  apply map_some_injective
  rw [hv]
  unfold normRowD cellGet
  rw [List.map_map]
  apply List.map_congr_left
  intro c hc
  have := (normRow_ok_iff s cols r).mp ⟨vs, h⟩ c hc
  cases hcv : cellVal c (rawCell cols c r) with
  | none => exact absurd hcv this.1
  | some v => simp [hcv]

theorem acceptTable_rows (s : Struct) (t : Table) (n : NTable) :
    acceptTable s t = .ok n → mapE (normRow s t.cols) t.rows = .ok n := by
  unfold acceptTable
  cases hasDup t.cols with
  | true => simp
  | false =>
    simp only [Bool.false_eq_true, if_false]
    cases checkColumns s t.cols with
    | error e => simp
    | ok u =>
      cases hm : mapE (normRow s t.cols) t.rows with
      | error e => simp
      | ok ns =>
        simp only
        split
        · simp
        · split
          · simp
          · simp

theorem acceptTable_eq_map (s : Struct) (t : Table) (n : NTable) :
    acceptTable s t = .ok n → n = t.rows.map (normRowD s t.cols) := by
  intro h
  have hm := acceptTable_rows s t n h
  apply mapE_ok_map _ _ _ _ hm
  intro r _ b hb
  exact normRow_eq s t.cols r b hb

end VtlModel.Input

/-
  VtlModel.Input.Impl — what the loaders' *patterns* accept (`impl*`, as opposed to the documented
  `InputSpec`).  The SQL loader validates a Time_Period / Time / Duration cell with
  `regexp_matches(UPPER(TRIM(x)), PATTERN)` (io/_validation.py validate_temporal_columns) and a Date cell
  with `regexp_matches(x, VALID_DATE_REGEX)` followed by DuckDB's own cast; only the pattern part is
  modelled here.
-/
import VtlModel.Input.Spec
import VtlModel.Input.Regex
import VtlModel.Gen.InputPatterns

namespace VtlModel.Input

def upperChar (c : Char) : Char :=
  if 97 ≤ c.toNat ∧ c.toNat ≤ 122 then Char.ofNat (c.toNat - 32) else c

def trimSpacesL : List Char → List Char
  | [] => []
  | c :: cs => if c = ' ' then trimSpacesL cs else c :: cs

def trimSpaces (s : List Char) : List Char := (trimSpacesL (trimSpacesL s).reverse).reverse

/-- `UPPER(TRIM(x))` -/
def sqlNorm (s : List Char) : List Char := (trimSpaces s).map upperChar

/-- Does the SQL loader's pattern check let the (non-empty) cell text through?  `none` = the loader has no
    pattern for this type (the check is left to DuckDB's cast). -/
def implAccept : Ty → List Char → Option Bool
  | .period, s => some (Gen.sql_TIME_PERIOD_PATTERN.matches (sqlNorm s))
  | .interval, s => some (Gen.sql_TIME_INTERVAL_PATTERN.matches (sqlNorm s))
  | .duration, s => some (Gen.sql_DURATION_PATTERN.matches (sqlNorm s))
  | .date, s => some (Gen.sql_VALID_DATE_REGEX.matches s)
  | _, _ => none

end VtlModel.Input

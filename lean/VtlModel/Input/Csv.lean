/-
  VtlModel.Input.Csv — the RFC-4180 dialect that DuckDB's `COPY … TO (HEADER, DELIMITER ',')` writes and
  that the loaders read (import-free, total, structurally recursive).

  A table is a list of rows, a row a list of fields, a field `Option (List Char)`:
    * `none`      (SQL NULL)      ↦ the empty, unquoted field
    * `some []`   (empty string)  ↦ `""`
    * `some s`    ↦ `s` verbatim when it has no comma / quote / CR / LF, otherwise `"…"` with every quote
                    doubled.
  Fields are separated by `,`, every row is terminated by LF.  A row has at least one field (a row with no
  field has no rendering of its own: the empty line is the one-field row `[none]`).

  `decode` is a strict reader of exactly this dialect (one structural pass, five modes); it answers `none`
  for anything else (unterminated quote, text after a closing quote, bare quote in an unquoted field, a CR
  that is not followed by LF, missing final line end).  A row may also end in CR LF (Python's `csv.writer`,
  which writes `_scalars.csv`); the writer modelled here always ends a row with LF.
-/
namespace VtlModel.Input.Csv

abbrev Field := Option (List Char)
abbrev Row := List Field
abbrev Tbl := List Row

/-- the double quote character -/
def dq : Char := Char.ofNat 34

def special (c : Char) : Bool := c == ',' || c == '"' || c == '\n' || c == '\r'

def needsQuote (s : List Char) : Bool := s.isEmpty || s.any special

def escape : List Char → List Char
  | [] => []
  | c :: cs => if c = '"' then '"' :: '"' :: escape cs else c :: escape cs

def encField : Field → List Char
  | none => []
  | some s => if needsQuote s then '"' :: (escape s ++ ['"']) else s

def encRow : Row → List Char
  | [] => ['\n']
  | [f] => encField f ++ ['\n']
  | f :: g :: fs => encField f ++ ',' :: encRow (g :: fs)

def encode : Tbl → List Char
  | [] => []
  | r :: rs => encRow r ++ encode rs

inductive Mode | start | unq | inq | aftq | cr
deriving DecidableEq, Repr

/-- `go mode field row rows input`: `field` = characters of the field being read, `row` = fields of the
    current row read so far, `rows` = complete rows. -/
def go : Mode → List Char → Row → Tbl → List Char → Option Tbl
  | .start, _, [], rows, [] => some rows
  | _, _, _, _, [] => none
  | .start, _, row, rows, c :: cs =>
      if c = '"' then go .inq [] row rows cs
      else if c = ',' then go .start [] (row ++ [none]) rows cs
      else if c = '\n' then go .start [] [] (rows ++ [row ++ [none]]) cs
      else if c = '\r' then go .cr [] (row ++ [none]) rows cs
      else go .unq [c] row rows cs
  | .unq, f, row, rows, c :: cs =>
      if c = ',' then go .start [] (row ++ [some f]) rows cs
      else if c = '\n' then go .start [] [] (rows ++ [row ++ [some f]]) cs
      else if c = '"' then none
      else if c = '\r' then go .cr [] (row ++ [some f]) rows cs
      else go .unq (f ++ [c]) row rows cs
  | .inq, f, row, rows, c :: cs =>
      if c = '"' then go .aftq f row rows cs else go .inq (f ++ [c]) row rows cs
  | .aftq, f, row, rows, c :: cs =>
      if c = '"' then go .inq (f ++ ['"']) row rows cs
      else if c = ',' then go .start [] (row ++ [some f]) rows cs
      else if c = '\n' then go .start [] [] (rows ++ [row ++ [some f]]) cs
      else if c = '\r' then go .cr [] (row ++ [some f]) rows cs
      else none
  | .cr, _, row, rows, c :: cs =>
      if c = '\n' then go .start [] [] (rows ++ [row]) cs else none

def decode (s : List Char) : Option Tbl := go .start [] [] [] s

/-- Every row has at least one field. -/
def WF (t : Tbl) : Prop := ∀ r ∈ t, r ≠ []

end VtlModel.Input.Csv

/-
  VtlModel.Input.Output — a small model of the result-selection loop of `execute_queries` / `fetch_result`
  (duckdb_transpiler/io/_execution.py): which results are returned, and what is done with each of them with
  and without an output folder.  `view name` is the table the shared SELECT of
  `_build_dataset_fetch_select` produces for a result (header row first) — the *same* query feeds
  `COPY (…) TO file` and `fetchdf()`.
-/
import VtlModel.Input.Csv

namespace VtlModel.Input.Out
open VtlModel.Input.Csv

structure Query where
  name : List Char
  persistent : Bool
deriving DecidableEq, Repr

/-- Results that are returned: all of them, or only the persistent assignments. -/
def returned (onlyPersistent : Bool) (qs : List Query) : List Query :=
  qs.filter (fun q => !onlyPersistent || q.persistent)

/-- A returned dataset: its name and its in-memory data (none = "produced without data"). -/
structure Returned where
  name : List Char
  data : Option Tbl
deriving DecidableEq, Repr

structure File where
  name : List Char
  text : List Char
deriving DecidableEq, Repr

def csvName (n : List Char) : List Char := n ++ ['.', 'c', 's', 'v']

/-- run() without an output folder. -/
def runMemory (onlyPersistent : Bool) (qs : List Query) (view : List Char → Tbl) : List Returned :=
  (returned onlyPersistent qs).map (fun q => ⟨q.name, some (view q.name)⟩)

/-- run() with an output folder (CSV): the returned datasets carry no data, one file per dataset. -/
def runFolder (onlyPersistent : Bool) (qs : List Query) (view : List Char → Tbl) : List Returned × List File :=
  ((returned onlyPersistent qs).map (fun q => ⟨q.name, none⟩),
   (returned onlyPersistent qs).map (fun q => ⟨csvName q.name, encode (view q.name)⟩))

/-! ### scalars file (`save_scalars_duckdb`): header, then `name,value` sorted by name, null ↦ empty text -/

def insertByName (p : List Char × Option (List Char)) :
    List (List Char × Option (List Char)) → List (List Char × Option (List Char))
  | [] => [p]
  | q :: qs => if p.1 ≤ q.1 then p :: q :: qs else q :: insertByName p qs

def sortByName : List (List Char × Option (List Char)) → List (List Char × Option (List Char))
  | [] => []
  | p :: ps => insertByName p (sortByName ps)

/-- The table written to `_scalars.csv` (Python's csv.writer writes `str(value)`; a null value is written as
    the empty text, which this dialect renders as an empty field). -/
def scalarsTable (scalars : List (List Char × Option (List Char))) : Tbl :=
  [some ['n', 'a', 'm', 'e'], some ['v', 'a', 'l', 'u', 'e']] ::
    (sortByName scalars).map (fun p => [some p.1, p.2])

end VtlModel.Input.Out

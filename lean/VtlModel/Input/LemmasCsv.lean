/- Helper lemmas for Props/C14, C18: the strict decoder inverts the encoder. -/
import VtlModel.Input.Csv

namespace VtlModel.Input.Csv

theorem special_false {c : Char} (h : special c = false) :
    c ≠ ',' ∧ c ≠ '"' ∧ c ≠ '\n' ∧ c ≠ '\r' := by
  simp [special] at h
  exact ⟨h.1.1.1, h.1.1.2, h.1.2, h.2⟩

/-- Inside quotes: the escaped text of `s` followed by the closing quote is read back as `s`. -/
theorem go_inq_escape (s : List Char) : ∀ (acc : List Char) (row : Row) (rows : Tbl) (rest : List Char),
    go .inq acc row rows (escape s ++ '"' :: rest) = go .aftq (acc ++ s) row rows rest := by
  induction s with
  | nil => intro acc row rows rest; simp [escape, go]
  | cons c cs ih =>
    intro acc row rows rest
    by_cases hc : c = '"'
    · subst hc
      simp only [escape, if_true, List.cons_append]
      rw [go]; simp only [if_true]
      rw [go]; simp only [if_true]
      rw [ih]; simp
    · simp only [escape, hc, if_false, List.cons_append]
      rw [go]; simp only [hc, if_false]
      rw [ih]; simp

/-- Outside quotes: ordinary characters are accumulated. -/
theorem go_unq_plain (s : List Char) : ∀ (acc : List Char) (row : Row) (rows : Tbl) (rest : List Char),
    s.any special = false →
    go .unq acc row rows (s ++ rest) = go .unq (acc ++ s) row rows rest := by
  induction s with
  | nil => intro acc row rows rest _; simp
  | cons c cs ih =>
    intro acc row rows rest h
    simp only [List.any_cons, Bool.or_eq_false_iff] at h
    obtain ⟨h1, h2, h3, h4⟩ := special_false h.1
    simp only [List.cons_append]
    rw [go]; simp only [h1, h2, h3, h4, if_false]
    rw [ih _ _ _ _ h.2]; simp

/-- One field followed by a comma. -/
theorem go_field_comma (f : Field) (row : Row) (rows : Tbl) (rest : List Char) :
    go .start [] row rows (encField f ++ ',' :: rest) = go .start [] (row ++ [f]) rows rest := by
  cases f with
  | none => simp [encField, go]
  | some s =>
    by_cases hq : needsQuote s = true
    · simp only [encField, hq, if_true, List.cons_append, List.append_assoc]
      rw [go]; simp only [if_true]
      rw [go_inq_escape]; simp [go]
    · have hq' : needsQuote s = false := by simpa using hq
      simp only [encField, hq', Bool.false_eq_true, if_false]
      simp only [needsQuote, Bool.or_eq_false_iff] at hq'
      cases s with
      | nil => simp at hq'
      | cons c cs =>
        have hall := hq'.2
        simp only [List.any_cons, Bool.or_eq_false_iff] at hall
        obtain ⟨h1, h2, h3, h4⟩ := special_false hall.1
        simp only [List.cons_append]
        rw [go]; simp only [h1, h2, h3, h4, if_false]
        rw [go_unq_plain cs _ _ _ _ hall.2]
        simp [go]

/-- One field followed by the end of the row. -/
theorem go_field_nl (f : Field) (row : Row) (rows : Tbl) (rest : List Char) :
    go .start [] row rows (encField f ++ '\n' :: rest) = go .start [] [] (rows ++ [row ++ [f]]) rest := by
  cases f with
  | none => simp [encField, go]
  | some s =>
    by_cases hq : needsQuote s = true
    · simp only [encField, hq, if_true, List.cons_append, List.append_assoc]
      rw [go]; simp only [if_true]
      rw [go_inq_escape]; simp [go]
    · have hq' : needsQuote s = false := by simpa using hq
      simp only [encField, hq', Bool.false_eq_true, if_false]
      simp only [needsQuote, Bool.or_eq_false_iff] at hq'
      cases s with
      | nil => simp at hq'
      | cons c cs =>
        have hall := hq'.2
        simp only [List.any_cons, Bool.or_eq_false_iff] at hall
        obtain ⟨h1, h2, h3, h4⟩ := special_false hall.1
        simp only [List.cons_append]
        rw [go]; simp only [h1, h2, h3, h4, if_false]
        rw [go_unq_plain cs _ _ _ _ hall.2]
        simp [go]

/-- A whole (non-empty) row. -/
theorem go_row (r : Row) (hr : r ≠ []) : ∀ (pre : Row) (rows : Tbl) (rest : List Char),
    go .start [] pre rows (encRow r ++ rest) = go .start [] [] (rows ++ [pre ++ r]) rest := by
  induction r with
  | nil => exact absurd rfl hr
  | cons f fs ih =>
    intro pre rows rest
    cases fs with
    | nil => simp only [encRow, List.append_assoc, List.singleton_append]; rw [go_field_nl]
    | cons g gs =>
      simp only [encRow, List.append_assoc, List.cons_append]
      rw [go_field_comma]
      have := ih (by simp) (pre ++ [f]) rows rest
      simp only [List.append_assoc, List.singleton_append] at this
      exact this

theorem go_table (t : Tbl) : ∀ (rows : Tbl), WF t →
    go .start [] [] rows (encode t) = some (rows ++ t) := by
  induction t with
  | nil => intro rows _; simp [encode, go]
  | cons r rs ih =>
    intro rows h
    have hr : r ≠ [] := h r (by simp)
    have hrs : WF rs := fun x hx => h x (by simp [hx])
    simp only [encode]
    rw [go_row r hr]
    rw [ih _ hrs]; simp

end VtlModel.Input.Csv

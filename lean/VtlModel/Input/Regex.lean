/-
  VtlModel.Input.Regex — a small regular-expression matcher (Brzozowski derivatives; total, structural)
  for the pattern constants the loaders use.  The patterns themselves are *data* regenerated from the
  source by harness/translate/input_patterns.py into Gen/InputPatterns.lean.
-/
namespace VtlModel.Input

inductive Re
  | empty                                  -- matches nothing
  | eps                                    -- matches the empty string
  | cls (ranges : List (Nat × Nat))        -- one character whose code point lies in one of the ranges
  | seq (a b : Re)
  | alt (a b : Re)
  | star (a : Re)
  | rep (a : Re) (min max : Nat)           -- between `min` and `max` copies of `a`
deriving Repr

namespace Re

def nullable : Re → Bool
  | empty => false
  | eps => true
  | cls _ => false
  | seq a b => nullable a && nullable b
  | alt a b => nullable a || nullable b
  | star _ => true
  | rep a min _ => min == 0 || nullable a

def mkSeq (a b : Re) : Re :=
  match a, b with
  | empty, _ => empty
  | _, empty => empty
  | eps, b => b
  | a, b => seq a b

def mkAlt (a b : Re) : Re :=
  match a, b with
  | empty, b => b
  | a, empty => a
  | a, b => alt a b

def inRanges (c : Nat) : List (Nat × Nat) → Bool
  | [] => false
  | (a, b) :: rs => (decide (a ≤ c) && decide (c ≤ b)) || inRanges c rs

def deriv (c : Nat) : Re → Re
  | empty => empty
  | eps => empty
  | cls rs => if inRanges c rs then eps else empty
  | seq a b => if nullable a then mkAlt (mkSeq (deriv c a) b) (deriv c b) else mkSeq (deriv c a) b
  | alt a b => mkAlt (deriv c a) (deriv c b)
  | star a => mkSeq (deriv c a) (star a)
  | rep a min max =>
    if max = 0 then empty
    else mkSeq (deriv c a) (rep a (if nullable a then 0 else min - 1) (max - 1))

def derivs : Re → List Char → Re
  | r, [] => r
  | r, c :: cs => derivs (deriv c.toNat r) cs

/-- Whole-string match (the transcribed patterns are anchored at both ends). -/
def «matches» (r : Re) (s : List Char) : Bool := nullable (derivs r s)

def lit (c : Char) : Re := cls [(c.toNat, c.toNat)]
def digit : Re := cls [(48, 57)]
def opt (a : Re) : Re := rep a 0 1
def plus (a : Re) : Re := seq a (star a)
def seqs : List Re → Re
  | [] => eps
  | [a] => a
  | a :: as => seq a (seqs as)
def alts : List Re → Re
  | [] => empty
  | [a] => a
  | a :: as => alt a (alts as)

end Re
end VtlModel.Input

/-
  VtlModel.Input.Spec — `InputSpec`: the documented input formats of the eight basic scalar types
  (docs/data_types.rst, "Data Types Reference") with calendar validity, the denoted value of every accepted
  spelling, its documented output form, and the structural rules a table must satisfy for its declared
  data structure (docs/data_structures.rst, "Null Handling").

  Model files import nothing but the (import-free) calendar / period model of group `Time`.

  Reading of the documentation (each adoption is repeated in the evidence of C19 under
  `adopted_behaviours`):
    * Integer / Number: the DataFrame row defines the spelling by "cast via str → float (→ int)", i.e.
      Python's `float()` grammar: optional surrounding white space, sign, digits with single `_` between
      digits, optional fraction, optional exponent.  `inf` / `nan` are not numbers.  Integer: the value
      must be whole and fit 64 bits.  Number: |v| < 10^18 (DECIMAL(28,10), the documented defaults of
      VTL_DUCKDB_DECIMAL_WIDTH / OUTPUT_NUMBER_SIGNIFICANT_DIGITS).  The value denoted is the exact decimal value.
    * Boolean: `true` / `false` in any letter case, `1`, `0` — nothing else.
    * String: any text, denoting itself.
    * Date: `YYYY-MM-DD` or `YYYY-MM-DD(T| )HH:MM:SS[.f…][Z|±HH:MM]`, a real calendar day, complete
      in-range time, year 1800–9999; offset discarded, fraction truncated to microseconds.
    * Time_Period: the spellings of the "Accepted input formats" table (`VtlModel.Time.parse`), period
      number valid in the calendar (month ≤ 12, week ≤ ISO weeks of the year, day ≤ days of the year).
    * Time: `start/end` with each end `YYYY-MM-DD[THH:MM:SS]` a real calendar instant and start ≤ end;
      `YYYY` and `YYYY-MM` denote the whole year / month.
    * Duration: one of the letters A S Q M W D.
    * A cell that is absent (NULL) is null; the empty string in a column whose type is not String is
      null as well ("Treat empty strings as null for non-String columns").
-/
import VtlModel.Time.Spelling

namespace VtlModel.Input
open VtlModel.Time

inductive Ty | integer | number | string | boolean | date | period | interval | duration
deriving DecidableEq, Repr

inductive Role | identifier | measure | attribute
deriving DecidableEq, Repr

structure Comp where
  name : List Char
  ty : Ty
  role : Role
  nullable : Bool
deriving DecidableEq, Repr

abbrev Struct := List Comp

/-- Denoted values. `num neg mant exp` is `± mant × 10^exp`, normalised (`mant` has no trailing zero when
    `exp` could absorb it; zero is `num false 0 0`).  `date day micros`: day number and microseconds since
    midnight.  `interval`: day number and second of the day of both ends. -/
inductive Val
  | null
  | int (i : Int)
  | num (neg : Bool) (mant : Nat) (exp : Int)
  | str (s : List Char)
  | bool (b : Bool)
  | date (day : Int) (micros : Nat)
  | period (p : Period)
  | interval (d1 : Int) (s1 : Nat) (d2 : Int) (s2 : Nat)
  | dur (i : Ind)
deriving DecidableEq, Repr

/-! ## characters -/

def isWs (c : Char) : Bool :=
  c == ' ' || c == '\t' || c == '\n' || c == '\r' || c == Char.ofNat 11 || c == Char.ofNat 12

def stripL : List Char → List Char
  | [] => []
  | c :: cs => if isWs c then stripL cs else c :: cs

def strip (s : List Char) : List Char := (stripL (stripL s).reverse).reverse

def lowerChar (c : Char) : Char :=
  if 65 ≤ c.toNat ∧ c.toNat ≤ 90 then Char.ofNat (c.toNat + 32) else c

/-! ## numbers (Python `float()` grammar) -/

/-- The rest of `D(_?D)*` after its first digit. -/
def digitRunAux : List Nat → List Char → List Nat × List Char
  | acc, [] => (acc, [])
  | acc, [c] => match digitVal c with
    | some d => (acc ++ [d], [])
    | none => (acc, [c])
  | acc, c :: c2 :: cs => match digitVal c with
    | some d => digitRunAux (acc ++ [d]) (c2 :: cs)
    | none =>
      if c = '_' then
        match digitVal c2 with
        | some d => digitRunAux (acc ++ [d]) cs
        | none => (acc, c :: c2 :: cs)
      else (acc, c :: c2 :: cs)

/-- `D(_?D)*` : digit values and the remaining input; `none` when the input does not start with a digit. -/
def digitRun : List Char → Option (List Nat × List Char)
  | [] => none
  | c :: cs => match digitVal c with
    | some d => some (digitRunAux [d] cs)
    | none => none

def natOfDigits (ds : List Nat) : Nat := ds.foldl (fun a d => 10 * a + d) 0

def takeSign : List Char → Bool × List Char
  | '-' :: r => (true, r)
  | '+' :: r => (false, r)
  | s => (false, s)

/-- integer digits, fraction digits, rest -/
def parseMantissa (s : List Char) : Option (List Nat × List Nat × List Char) :=
  match s with
  | '.' :: r => match digitRun r with
    | some (fd, rest) => some ([], fd, rest)
    | none => none
  | _ => match digitRun s with
    | none => none
    | some (ds, rest) => match rest with
      | '.' :: r => match digitRun r with
        | some (fd, rest2) => some (ds, fd, rest2)
        | none => some (ds, [], r)
      | _ => some (ds, [], rest)

/-- `[eE][+-]?D(_?D)*` or nothing; the whole remaining input must be consumed. -/
def parseExponent (s : List Char) : Option Int :=
  match s with
  | [] => some 0
  | e :: r =>
    if e = 'e' ∨ e = 'E' then
      let sr := takeSign r
      match digitRun sr.2 with
      | some (ds, []) => some (if sr.1 then -(natOfDigits ds : Int) else (natOfDigits ds : Int))
      | _ => none
    else none

def dropLeadingZeros : List Nat → List Nat
  | [] => []
  | d :: ds => if d = 0 then dropLeadingZeros ds else d :: ds

/-- number of trailing zeros -/
def trailingZeros (ds : List Nat) : Nat := (ds.reverse.takeWhile (· = 0)).length

/-- A decimal numeral: sign, significant digits (no leading, no trailing zero), exponent of the last digit. -/
structure Dec where
  neg : Bool
  digs : List Nat
  exp : Int
deriving DecidableEq, Repr

def parseDec (s0 : List Char) : Option Dec :=
  let s := strip s0
  let sg := takeSign s
  match parseMantissa sg.2 with
  | none => none
  | some (ids, fds, rest) =>
    match parseExponent rest with
    | none => none
    | some e =>
      let all := dropLeadingZeros (ids ++ fds)
      let tz := trailingZeros all
      let sig := all.take (all.length - tz)
      if sig = [] then some ⟨false, [], 0⟩
      else some ⟨sg.1, sig, e - (fds.length : Int) + (tz : Int)⟩

def int64Min : Int := -9223372036854775808
def int64Max : Int := 9223372036854775807

def denoteInteger (s : List Char) : Option Val :=
  match parseDec s with
  | none => none
  | some d =>
    if d.digs = [] then some (.int 0)
    else if d.exp < 0 then none
    else if (d.digs.length : Int) + d.exp > 19 then none
    else
      let v : Int := (natOfDigits d.digs : Int) * (10 : Int) ^ d.exp.toNat
      let v := if d.neg then -v else v
      if int64Min ≤ v ∧ v ≤ int64Max then some (.int v) else none

/-- integer digits available to a Number: DECIMAL(28,10) = width 28 − scale 10 (the documented defaults of
    VTL_DUCKDB_DECIMAL_WIDTH and OUTPUT_NUMBER_SIGNIFICANT_DIGITS; Props/C19 ties the constant to the
    transcribed configuration) -/
def numberIntDigits : Int := 18

def denoteNumber (s : List Char) : Option Val :=
  match parseDec s with
  | none => none
  | some d =>
    if d.digs = [] then some (.num false 0 0)
    else if (d.digs.length : Int) + d.exp > numberIntDigits then none
    else some (.num d.neg (natOfDigits d.digs) d.exp)

/-! ## Boolean, Duration -/

def denoteBoolean (s : List Char) : Option Val :=
  let l := s.map lowerChar
  if l = ['t', 'r', 'u', 'e'] ∨ s = ['1'] then some (.bool true)
  else if l = ['f', 'a', 'l', 's', 'e'] ∨ s = ['0'] then some (.bool false)
  else none

def denoteDuration (s : List Char) : Option Val :=
  match s with
  | [c] => match indOfChar c with
    | some i => some (.dur i)
    | none => none
  | _ => none

/-! ## Date -/

def nat2 (a b : Char) : Option Nat := parseNat [a, b]

/-- `HH:MM:SS` in range → second of the day, and the rest of the input -/
def parseClock : List Char → Option (Nat × List Char)
  | h1 :: h2 :: c1 :: m1 :: m2 :: c2 :: s1 :: s2 :: rest =>
    if c1 = ':' ∧ c2 = ':' then
      match nat2 h1 h2, nat2 m1 m2, nat2 s1 s2 with
      | some h, some m, some s =>
        if h ≤ 23 ∧ m ≤ 59 ∧ s ≤ 59 then some (h * 3600 + m * 60 + s, rest) else none
      | _, _, _ => none
    else none
  | _ => none

/-- `YYYY-MM-DD` (two-digit month and day) denoting a real calendar day → (year, day number, rest) -/
def parseDay : List Char → Option (Int × Int × List Char)
  | y1 :: y2 :: y3 :: y4 :: h1 :: m1 :: m2 :: h2 :: d1 :: d2 :: rest =>
    if h1 = '-' ∧ h2 = '-' then
      match parseNat [y1, y2, y3, y4], nat2 m1 m2, nat2 d1 d2 with
      | some y, some m, some d =>
        let dt : Date := ⟨(y : Int), (m : Int), (d : Int)⟩
        if validDate dt then some ((y : Int), toDay dt, rest) else none
      | _, _, _ => none
    else none
  | _ => none

/-- leading run of decimal digits -/
def takeDigits : List Char → List Nat × List Char
  | [] => ([], [])
  | c :: cs => match digitVal c with
    | some d => let r := takeDigits cs; (d :: r.1, r.2)
    | none => ([], c :: cs)

/-- `.f…` → microseconds (first six digits), rest -/
def parseFraction (s : List Char) : Option (Nat × List Char) :=
  match s with
  | '.' :: r =>
    let dr := takeDigits r
    if dr.1 = [] then none
    else some (natOfDigits ((dr.1 ++ [0, 0, 0, 0, 0, 0]).take 6), dr.2)
  | _ => some (0, s)

/-- nothing, `Z`, or `±HH:MM` -/
def validZone (s : List Char) : Bool :=
  match s with
  | [] => true
  | ['Z'] => true
  | [sg, h1, h2, c, m1, m2] =>
    (sg == '+' || sg == '-') && c == ':' &&
      (match nat2 h1 h2, nat2 m1 m2 with
       | some h, some m => decide (h ≤ 23) && decide (m ≤ 59)
       | _, _ => false)
  | _ => false

def dateYearMin : Int := 1800
def dateYearMax : Int := 9999

def denoteDate (s : List Char) : Option Val :=
  match parseDay s with
  | none => none
  | some (y, day, rest) =>
    if y < dateYearMin ∨ y > dateYearMax then none
    else match rest with
      | [] => some (.date day 0)
      | sep :: r =>
        if sep = 'T' ∨ sep = ' ' then
          match parseClock r with
          | none => none
          | some (sec, r2) =>
            match parseFraction r2 with
            | none => none
            | some (us, r3) => if validZone r3 then some (.date day (sec * 1000000 + us)) else none
        else none

/-! ## Time (interval) -/

/-- one end of an interval: `YYYY-MM-DD` or `YYYY-MM-DDTHH:MM:SS`, nothing after it -/
def parseInstant (s : List Char) : Option (Int × Nat) :=
  match parseDay s with
  | none => none
  | some (_, day, rest) =>
    match rest with
    | [] => some (day, 0)
    | sep :: r =>
      if sep = 'T' then
        match parseClock r with
        | some (sec, []) => some (day, sec)
        | _ => none
      else none

def splitSlash : List Char → Option (List Char × List Char)
  | [] => none
  | c :: cs => if c = '/' then some ([], cs) else
    match splitSlash cs with
    | some (a, b) => some (c :: a, b)
    | none => none

def denoteInterval (s : List Char) : Option Val :=
  match s with
  | [y1, y2, y3, y4] =>
    match parseNat [y1, y2, y3, y4] with
    | some y => some (.interval (toDay ⟨(y : Int), 1, 1⟩) 0 (toDay ⟨(y : Int), 12, 31⟩) 0)
    | none => none
  | [y1, y2, y3, y4, h, m1, m2] =>
    if h = '-' then
      match parseNat [y1, y2, y3, y4], nat2 m1 m2 with
      | some y, some m =>
        if 1 ≤ m ∧ m ≤ 12 then
          some (.interval (toDay ⟨(y : Int), (m : Int), 1⟩) 0
                          (toDay ⟨(y : Int), (m : Int), daysInMonth (y : Int) (m : Int)⟩) 0)
        else none
      | _, _ => none
    else none
  | _ =>
    match splitSlash s with
    | none => none
    | some (a, b) =>
      match parseInstant a, parseInstant b with
      | some (d1, s1), some (d2, s2) =>
        if d1 < d2 ∨ (d1 = d2 ∧ s1 ≤ s2) then some (.interval d1 s1 d2 s2) else none
      | _, _ => none

/-! ## every type -/

def denotePeriod (s : List Char) : Option Val :=
  match parse s with
  | some p => some (.period p)
  | none => none

/-- The value a non-null cell text denotes under the documented input formats; `none` = not a valid
    representation of the type. -/
def denoteCell : Ty → List Char → Option Val
  | .integer, s => denoteInteger s
  | .number, s => denoteNumber s
  | .string, s => some (.str s)
  | .boolean, s => denoteBoolean s
  | .date, s => denoteDate s
  | .period, s => denotePeriod s
  | .interval, s => denoteInterval s
  | .duration, s => denoteDuration s

def accepts (t : Ty) (s : List Char) : Bool := (denoteCell t s).isSome

/-! ## documented output form -/

def natChars (n : Nat) : List Char := (toString n).toList

def dayChars (day : Int) : List Char :=
  let d := ofDay day
  pad 4 d.year.toNat ++ ['-'] ++ pad 2 d.month.toNat ++ ['-'] ++ pad 2 d.day.toNat

def clockChars (sec : Nat) : List Char :=
  pad 2 (sec / 3600) ++ [':'] ++ pad 2 (sec / 60 % 60) ++ [':'] ++ pad 2 (sec % 60)

/-- The documented output form of a value (Time_Period in the default `vtl` format; a Number has no
    documented textual form — `±mant e exp` is only the driver's exact rendering). -/
def renderVal : Val → List Char
  | .null => []
  | .int i => if i < 0 then '-' :: natChars i.natAbs else natChars i.natAbs
  | .num neg m e =>
    (if neg then ['-'] else []) ++ natChars m ++ ['e'] ++
      (if e < 0 then '-' :: natChars e.natAbs else natChars e.natAbs)
  | .str s => s
  | .bool b => if b then ['t', 'r', 'u', 'e'] else ['f', 'a', 'l', 's', 'e']
  | .date day us =>
    if us = 0 then dayChars day
    else if us % 1000000 = 0 then dayChars day ++ ['T'] ++ clockChars (us / 1000000)
    else dayChars day ++ ['T'] ++ clockChars (us / 1000000) ++ ['.'] ++ pad 6 (us % 1000000)
  | .period p => match render .vtl p with
    | .ok s => s
    | .error _ => []
  | .interval d1 s1 d2 s2 =>
    if s1 = 0 ∧ s2 = 0 then dayChars d1 ++ ['/'] ++ dayChars d2
    else dayChars d1 ++ ['T'] ++ clockChars s1 ++ ['/'] ++ dayChars d2 ++ ['T'] ++ clockChars s2
  | .dur i => [indChar i]

/-! ## tables -/

structure Table where
  cols : List (List Char)
  rows : List (List (Option (List Char)))
deriving DecidableEq, Repr

abbrev NRow := List Val
abbrev NTable := List NRow

/-- Position of a column (first occurrence). -/
def colIndex : List (List Char) → List Char → Option Nat
  | [], _ => none
  | c :: cs, n => if c = n then some 0 else (colIndex cs n).map (· + 1)

/-- The `i`-th cell of a row; a short row is padded with nulls (`null_padding=true`). -/
def cellAt : List (Option (List Char)) → Nat → Option (List Char)
  | [], _ => none
  | x :: _, 0 => x
  | _ :: xs, i + 1 => cellAt xs i

/-- Text of component `c` in row `r`; a column that is absent reads as null. -/
def rawCell (cols : List (List Char)) (c : Comp) (r : List (Option (List Char))) : Option (List Char) :=
  match colIndex cols c.name with
  | some i => cellAt r i
  | none => none

/-- Value of a cell: `none` = not a valid representation of the component's type. -/
def cellVal (c : Comp) (raw : Option (List Char)) : Option Val :=
  match raw with
  | none => some .null
  | some s => if c.ty ≠ .string ∧ s = [] then some .null else denoteCell c.ty s

/-- A component that may not be null: identifiers, and measures / attributes declared non-nullable. -/
def required (c : Comp) : Bool := c.role == .identifier || !c.nullable

def isId (c : Comp) : Bool := c.role == .identifier

inductive Violation
  | duplicateColumn
  | missingIdentifier (comp : List Char)
  | missingNonNullable (comp : List Char)
  | badValue (comp : List Char)
  | nullRequired (comp : List Char)
  | tooManyRows
  | duplicateKey
deriving DecidableEq, Repr

/-- Sequential `map` in `Except`. -/
def mapE {α β ε : Type} (f : α → Except ε β) : List α → Except ε (List β)
  | [] => .ok []
  | a :: as => match f a with
    | .error e => .error e
    | .ok b => match mapE f as with
      | .error e => .error e
      | .ok bs => .ok (b :: bs)

def normCell (cols : List (List Char)) (r : List (Option (List Char))) (c : Comp) : Except Violation Val :=
  match cellVal c (rawCell cols c r) with
  | none => .error (.badValue c.name)
  | some .null => if required c then .error (.nullRequired c.name) else .ok .null
  | some v => .ok v

def normRow (s : Struct) (cols : List (List Char)) (r : List (Option (List Char))) : Except Violation NRow :=
  mapE (normCell cols r) s

/-- The identifier values of a normalised row. -/
def keyOf : Struct → NRow → List Val
  | c :: cs, v :: vs => if isId c then v :: keyOf cs vs else keyOf cs vs
  | _, _ => []

def checkColumns (s : Struct) (cols : List (List Char)) : Except Violation Unit :=
  match s with
  | [] => .ok ()
  | c :: cs =>
    if cols.contains c.name then checkColumns cs cols
    else if isId c then .error (.missingIdentifier c.name)
    else if !c.nullable then .error (.missingNonNullable c.name)
    else checkColumns cs cols

def hasDup {α : Type} [DecidableEq α] : List α → Bool
  | [] => false
  | a :: as => as.contains a || hasDup as

/-- The loader of the specification: the checks in the order a loader performs them; the result is the
    table of denoted values, one row per input row, in component order. -/
def acceptTable (s : Struct) (t : Table) : Except Violation NTable :=
  if hasDup t.cols then .error .duplicateColumn
  else match checkColumns s t.cols with
    | .error e => .error e
    | .ok () =>
      match mapE (normRow s t.cols) t.rows with
      | .error e => .error e
      | .ok rows =>
        if (s.all (fun c => !isId c)) && decide (rows.length > 1) then .error .tooManyRows
        else if hasDup (rows.map (keyOf s)) then .error .duplicateKey
        else .ok rows

/-! ### the violations, stated independently of the loader -/

def vDuplicateColumn (t : Table) : Prop := ¬ t.cols.Nodup
def vMissingIdentifier (s : Struct) (t : Table) : Prop := ∃ c ∈ s, isId c = true ∧ c.name ∉ t.cols
def vMissingNonNullable (s : Struct) (t : Table) : Prop :=
  ∃ c ∈ s, isId c = false ∧ c.nullable = false ∧ c.name ∉ t.cols
def vBadValue (s : Struct) (t : Table) : Prop :=
  ∃ r ∈ t.rows, ∃ c ∈ s, cellVal c (rawCell t.cols c r) = none
def vNullRequired (s : Struct) (t : Table) : Prop :=
  ∃ r ∈ t.rows, ∃ c ∈ s, required c = true ∧ cellVal c (rawCell t.cols c r) = some .null
def vTooManyRows (s : Struct) (t : Table) : Prop := (∀ c ∈ s, isId c = false) ∧ t.rows.length > 1
/-- The key of a raw row: the denoted values of its identifier cells. -/
def rawKey (s : Struct) (cols : List (List Char)) (r : List (Option (List Char))) : List (Option Val) :=
  (s.filter isId).map (fun c => cellVal c (rawCell cols c r))
def vDuplicateKey (s : Struct) (t : Table) : Prop := ¬ (t.rows.map (rawKey s t.cols)).Nodup

def NoViolation (s : Struct) (t : Table) : Prop :=
  ¬ vDuplicateColumn t ∧ ¬ vMissingIdentifier s t ∧ ¬ vMissingNonNullable s t ∧ ¬ vBadValue s t ∧
  ¬ vNullRequired s t ∧ ¬ vTooManyRows s t ∧ ¬ vDuplicateKey s t

/-! ### presenting a normalised table again -/

def presentCell : Val → Option (List Char)
  | .null => none
  | v => some (renderVal v)

/-- A normalised table written out in its documented output form, columns in component order. -/
def present (s : Struct) (n : NTable) : Table :=
  ⟨s.map (·.name), n.map (fun r => r.map presentCell)⟩

end VtlModel.Input

/-
  Line-protocol driver for C25 (Text/Scheme).  One request per line, one answer per line.

  script ::= '-' | stmt (' ' stmt)*
  stmt   ::= 'a:' ('0'|'1') ':' name ':' body            assignment (1 = persistent `<-`)
           | 'r:' ('dp'|'hr') ':' name ':' ('var'|'vd') ':' body
           | 'u:' name ':' body                          define operator
           | 'v:' name ':' body                          define viral propagation
  name, body: opaque tokens without ' ' and ':' (the harness sends hex / statement numbers)

    ofscript <script> -> items=T1:name:body:p,..;rulesets=R1:dp:name:var:body,..;udos=UDO1:name:body,..;script=<script>;hoisted=<b>;noviral=<b>
                         (`script` = toScript (ofScript s), `hoisted` = isHoisted s)
    hoist <script>    -> <script>          the block hoisting of sort_ast
-/
import VtlModel.Text.Scheme
open VtlModel.Text.Scheme

def parseStmt (t : String) : Option Stmt :=
  match t.splitOn ":" with
  | ["a", p, n, e] =>
    if p == "1" then some (.assign true n e) else if p == "0" then some (.assign false n e) else none
  | ["r", k, n, sc, d] => do
    let k ← if k == "dp" then some RulesetKind.dp else if k == "hr" then some RulesetKind.hr else none
    let sc ← if sc == "var" then some Scope.variable else if sc == "vd" then some Scope.valuedomain else none
    some (.ruleset k n sc d)
  | ["u", n, d] => some (.udo n d)
  | ["v", n, d] => some (.viral n d)
  | _ => none

def parseScript (toks : List String) : Option Script :=
  match toks.filter (· != "") with
  | ["-"] => some []
  | ts => ts.mapM parseStmt

def showKind : RulesetKind → String | .dp => "dp" | .hr => "hr"
def showScope : Scope → String | .variable => "var" | .valuedomain => "vd"
def showB (b : Bool) : String := if b then "1" else "0"

def showStmt : Stmt → String
  | .assign p n e => s!"a:{showB p}:{n}:{e}"
  | .ruleset k n sc d => s!"r:{showKind k}:{n}:{showScope sc}:{d}"
  | .udo n d => s!"u:{n}:{d}"
  | .viral n d => s!"v:{n}:{d}"

def showScript (s : Script) : String := if s.isEmpty then "-" else " ".intercalate (s.map showStmt)

def answer (line : String) : String :=
  match (line.trimAscii.toString).splitOn " " with
  | "ofscript" :: toks =>
    match parseScript toks with
    | some s =>
      let sc := ofScript s
      let items := ",".intercalate (sc.items.map (fun t => s!"{t.id}:{t.result}:{t.expr}:{showB t.persistent}"))
      let rs := ",".intercalate (sc.rulesets.map (fun r => s!"{r.id}:{showKind r.kind}:{r.name}:{showScope r.scope}:{r.defn}"))
      let us := ",".intercalate (sc.udos.map (fun u => s!"{u.id}:{u.name}:{u.defn}"))
      s!"items={items};rulesets={rs};udos={us};script={showScript (toScript sc)};hoisted={showB (isHoisted s)};noviral={showB (decide (NoViralDefs s))}"
    | none => "(bad-request)"
  | "hoist" :: toks =>
    match parseScript toks with
    | some s => showScript (hoist s)
    | none => "(bad-request)"
  | _ => "(bad-request)"

partial def loop (h : IO.FS.Stream) (out : IO.FS.Stream) : IO Unit := do
  let line ← h.getLine
  if line.isEmpty then return ()
  out.putStrLn (answer line)
  loop h out

def main : IO Unit := do
  let i ← IO.getStdin
  let o ← IO.getStdout
  loop i o

import VtlModel.Sem.ValidCodec
/-! Line-protocol driver for the validation / hierarchy model (C07): one request per line, one answer per line. -/
open VtlModel.Sem

partial def loop (h : IO.FS.Stream) (out : IO.FS.Stream) : IO Unit := do
  let line ← h.getLine
  if line.isEmpty then return ()
  out.putStrLn (handleLineV line)
  loop h out

def main : IO Unit := do
  loop (← IO.getStdin) (← IO.getStdout)

import VtlModel.Errors.All
/-
  Line protocol for the group `Errors` (C26, C32).  One request per line, one answer per line.

    map <k> <cp> <cp> …          first-match of mapper k (Gen.ErrorMap.mappers) on the text given as code points
                                 (lower-cased here) ->  none | <rule index> <code id>,<code id>…
    render <code id> <key id>…   construct over Gen.Catalogue with value "V<key id>" for each key
                                 ->  ok <cp> <cp> … | err unknown <code id> | err missing <name id>
    static <k> <error index>     does some rule of mapper k statically match engine error text i -> true | false
    status                       certified lists as the model computes them
-/
open VtlModel.Errors VtlModel.Gen

def txt (i : Nat) : String := Catalogue.strs.getD i ""

def nats (ws : List String) : Option (List Nat) := ws.mapM String.toNat?

def joinNats (xs : List Nat) (sep : String) : String := sep.intercalate (xs.map toString)

def answer (line : String) : String :=
  match (line.splitOn " ").filter (· ≠ "") with
  | "map" :: k :: rest =>
    match k.toNat?, nats rest with
    | some k, some cps =>
      let rules := getD [] ErrorMap.mappers k
      let t := cps.map lowerAscii
      match firstMatchIdx rules t 0, firstMatch rules t with
      | some i, some r => s!"{i} {joinNats (r.outs.map (·.code)) ","}"
      | _, _ => "none"
    | _, _ => "(bad-request)"
  | "render" :: c :: rest =>
    match c.toNat?, nats rest with
    | some c, some ks =>
      match construct txt Catalogue.catalogue c (ks.map (fun k => (k, "V" ++ toString k))) with
      | .ok s => "ok " ++ joinNats (s.toList.map Char.toNat) " "
      | .error (.unknownCode c) => s!"err unknown {c}"
      | .error (.missingKey n) => s!"err missing {n}"
    | _, _ => "(bad-request)"
  | ["static", k, i] =>
    match k.toNat?, i.toNat? with
    | some k, some i =>
      match SqlErrors.sqlErrors[i]? with
      | some e => toString (someRuleStatic (getD [] ErrorMap.mappers k) e.msg)
      | none => "(bad-request)"
    | _, _ => "(bad-request)"
  | ["status"] =>
    let bad := badIdx Catalogue.catalogue RaiseSites.raiseSites
    let unm := unmappedFrom ErrorMap.dbSites ErrorMap.mappers 0 SqlErrors.sqlErrors
    let unw := unwrappedPhases ErrorMap.dbSites
    s!"bad={joinNats bad ","} unmapped={",".intercalate (unm.map (fun x => s!"{x.1}:{x.2}"))} unwrapped={joinNats unw ","}"
  | _ => "(bad-request)"

partial def loop (h : IO.FS.Stream) (out : IO.FS.Stream) : IO Unit := do
  let line ← h.getLine
  if line.isEmpty then return
  out.putStrLn (answer ((line.replace "\n" "").replace "\r" ""))
  loop h out

def main : IO Unit := do
  let i ← IO.getStdin
  let o ← IO.getStdout
  loop i o

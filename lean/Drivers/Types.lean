/-
  Line protocol of group `Types` (C09, C11).  One request per line, one answer per line.
  Types are interned as 0..8 in `Ty.all` order; 9 = None (for type_to_check / return_type).

    bin l r ttc rt        -> ok <ty> | err <code>          binary_implicit_promotion  (transcribed, Gen.PromotionFns)
    chkbin l r ttc rt     -> ok true|false                 check_binary_implicit_promotion
    un x ttc rt           -> ok <ty> | err <code>          unary_implicit_promotion
    chkun x ttc rt        -> ok true|false                 check_unary_implicit_promotion
    tbl implicit|explicit|docimplicit|docexplicit|subclass|docallowed a b   -> true|false
    castcheck a b         -> ok | err <code>               Cast.check_without_mask (transcribed)
    rename a b            -> keep | <name>                 rename branch of Cast.dataset_validation (transcribed)
    docrename b           -> <name> | -
    docacc ttc l r / docaccu ttc x / docres ttc l r res / docresu ttc x res   -> true|false   (Types.Spec)
    classes               -> <n> then …                    (single line) id:kind:ttc:rt;… of Gen.Operators.classes
    comm                  -> names of commClasses / commSites (single line)
    sigs                  -> Spec.opSpec as <Cls>:<ttc>:<rt>;…  (VTL reference-manual signatures)
    cast a b <val>        -> ok <val> | sem | run | unmodelled       castSpec (documented conversion)
        <val> ::= null | i:<int> | d:<mantissa>:<scale> | b:true|false | s:<hex of utf8 bytes>
    doy y m d             -> <n> | -        dateofdoy y n -> m d | -      leap y -> true|false
-/
import VtlModel.Gen.PromotionFns
import VtlModel.Gen.CastCode
import VtlModel.Types.Spec
import VtlModel.Types.Cast

open VtlModel VtlModel.Gen.Promotion VtlModel.Gen.PromotionFns VtlModel.Gen.Operators VtlModel.Gen.CastCode
open VtlModel.Gen.DocTables VtlModel.Spec VtlModel.Cast

def tyOf (s : String) : Option Ty := s.toNat?.bind Ty.ofNat?
def optOf (s : String) : Option (Option Ty) :=
  match s.toNat? with
  | some 9 => some none
  | some n => (Ty.ofNat? n).map some
  | none => none

def showRes (r : PyRes Ty) : String :=
  match r with
  | .ok t => s!"ok {t.toNat}"
  | .error c => s!"err {codeString c}"
def showB (r : PyRes Bool) : String :=
  match r with
  | .ok b => s!"ok {b}"
  | .error c => s!"err {codeString c}"
def showO (o : Option Ty) : String := match o with | none => "9" | some t => toString t.toNat

def hexVal (c : Char) : Option Nat :=
  if '0' ≤ c && c ≤ '9' then some (c.toNat - '0'.toNat)
  else if 'a' ≤ c && c ≤ 'f' then some (c.toNat - 'a'.toNat + 10) else none

def unhex : List Char → Option (List UInt8)
  | [] => some []
  | a :: b :: rest => do
      let x ← hexVal a; let y ← hexVal b; let r ← unhex rest
      pure ((x * 16 + y).toUInt8 :: r)
  | _ => none

def hexOf (s : String) : String :=
  let digs := "0123456789abcdef".toList
  String.ofList (s.toUTF8.toList.flatMap (fun b => [digs.getD (b.toNat / 16) '0', digs.getD (b.toNat % 16) '0']))

def parseVal (s : String) : Option Val :=
  if s == "null" then some .null else
  match s.splitOn ":" with
  | ["i", n] => n.toInt?.map .int
  | ["d", m, e] => do let m ← m.toInt?; let e ← e.toNat?; pure (.dec m e)
  | ["b", "true"] => some (.bool true)
  | ["b", "false"] => some (.bool false)
  | ["s", h] => do
      let bs ← unhex h.toList
      let str ← String.fromUTF8? (ByteArray.mk bs.toArray)
      pure (.str str)
  | _ => none

def showVal : Val → String
  | .null => "null"
  | .int i => s!"i:{i}"
  | .dec m e => s!"d:{m}:{e}"
  | .bool b => s!"b:{b}"
  | .str s => s!"s:{hexOf s}"

def showCast : Res → String
  | .ok v => s!"ok {showVal v}"
  | .semErr => "sem"
  | .runErr => "run"
  | .unmodelled => "unmodelled"

def answer (line : String) : String :=
  let ws := (line.splitOn " ").filter (· ≠ "")
  let bad := "(bad-request)"
  match ws with
  | ["bin", l, r, t, u] => match tyOf l, tyOf r, optOf t, optOf u with
      | some l, some r, some t, some u => showRes (binaryPromotion l r t u) | _, _, _, _ => bad
  | ["chkbin", l, r, t, u] => match tyOf l, tyOf r, optOf t, optOf u with
      | some l, some r, some t, some u => showB (checkBinary l r t u) | _, _, _, _ => bad
  | ["un", x, t, u] => match tyOf x, optOf t, optOf u with
      | some x, some t, some u => showRes (unaryPromotion x t u) | _, _, _ => bad
  | ["chkun", x, t, u] => match tyOf x, optOf t, optOf u with
      | some x, some t, some u => showB (checkUnary x t u) | _, _, _ => bad
  | ["tbl", which, a, b] => match tyOf a, tyOf b with
      | some a, some b =>
        match which with
        | "implicit" => toString (TySet.mem b (implicit a))
        | "explicit" => toString (TySet.mem b (explicitNoMask a))
        | "docimplicit" => toString (docImplicit a b)
        | "docexplicit" => toString (explicitCell a b)
        | "subclass" => toString (isSubclass a b)
        | "docallowed" => toString (docAllowed a b)
        | _ => bad
      | _, _ => bad
  | ["castcheck", a, b] => match tyOf a, tyOf b with
      | some a, some b => (match checkWithoutMask a b with | .ok _ => "ok" | .error c => s!"err {codeString c}")
      | _, _ => bad
  | ["rename", a, b] => match tyOf a, tyOf b with
      | some a, some b => (match renameTo a b with | none => "keep" | some n => n)
      | _, _ => bad
  | ["docrename", b] => match tyOf b with
      | some b => (match renameCell b with | none => "-" | some n => n)
      | _ => bad
  | ["docacc", t, l, r] => match optOf t, tyOf l, tyOf r with
      | some t, some l, some r => toString (docAcceptsBinary t l r) | _, _, _ => bad
  | ["docaccu", t, x] => match optOf t, tyOf x with
      | some t, some x => toString (docAcceptsUnary t x) | _, _ => bad
  | ["docres", t, l, r, res] => match optOf t, tyOf l, tyOf r, tyOf res with
      | some t, some l, some r, some res => toString (docResultOk t l r res) | _, _, _, _ => bad
  | ["docresu", t, x, res] => match optOf t, tyOf x, tyOf res with
      | some t, some x, some res => toString (docResultOkUnary t x res) | _, _, _ => bad
  | ["classes"] =>
      ";".intercalate (classes.map (fun c => s!"{c.module}.{c.name}:{c.kind}:{showO c.ttc}:{showO c.rt}:{ops.getD c.opIx ""}"))
  | ["sigs"] => ";".intercalate (opSpec.map (fun s => s!"{repr s.cls}:{showO s.ttc}:{showO s.rt}"))
  | ["comm"] =>
      ";".intercalate (commClasses.map (fun c => s!"{c.module}.{c.name}")) ++ " | " ++
      ";".intercalate (commSites.map (fun s => s!"{repr s.cls}@{s.func}"))
  | ["cast", a, b, v] => match tyOf a, tyOf b, parseVal v with
      | some a, some b, some v => showCast (castSpec a b v) | _, _, _ => bad
  | ["doy", y, m, d] => match y.toNat?, m.toNat?, d.toNat? with
      | some y, some m, some d => if validDate y m d then toString (dayOfYear y m d) else "-" | _, _, _ => bad
  | ["dateofdoy", y, n] => match y.toNat?, n.toNat? with
      | some y, some n => (match dateOfDoy y n with | some (m, d) => s!"{m} {d}" | none => "-") | _, _ => bad
  | ["leap", y] => match y.toNat? with | some y => toString (isLeap y) | none => bad
  | _ => bad

partial def loop (h : IO.FS.Stream) (out : IO.FS.Stream) : IO Unit := do
  let line ← h.getLine
  if line.isEmpty then return ()
  out.putStrLn (answer (line.trimAscii.toString))
  loop h out

def main : IO Unit := do
  let stdin ← IO.getStdin
  let stdout ← IO.getStdout
  loop stdin stdout

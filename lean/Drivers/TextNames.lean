/-
  Line-protocol driver for the name-scope model (C29).  One request per line, one answer per line.
  Unknown / malformed requests answer `(bad-request)`.  Tokens are separated by single spaces; names
  contain no spaces.  Values are natural-number tags.

    run <cs|ci> <n> k1 t1 … kn tn <op>*      scope of n entries, then operations
         op ::= i <k> <tag> | e <k> | r <k> <k'> | l <k>
         `cs` = exact comparison (`runCS`), `ci` = folded with `lower` (`runCI lower`)
      -> `<obs>* | k1 t1 … km tm`      obs ::= d | g <tag> | g - | u <k> | c <k>     (final scope after `|`)
    collides k1 … kn   -> `1` | `0`      (`collides lower`)
    lower k            -> the folded name
-/
import VtlModel.Text.Names

open VtlModel.Names

def parseEnv : Nat → List String → Option (Env Nat × List String)
  | 0, rest => some ([], rest)
  | n + 1, k :: t :: rest =>
    match t.toNat?, parseEnv n rest with
    | some tv, some (env, rest') => some ((k, tv) :: env, rest')
    | _, _ => none
  | _, _ => none

def parseOps : Nat → List String → Option (List (Op Nat))
  | _, [] => some []
  | 0, _ => none
  | fuel + 1, "i" :: k :: t :: rest =>
    match t.toNat?, parseOps fuel rest with
    | some tv, some ops => some (.insert k tv :: ops)
    | _, _ => none
  | fuel + 1, "e" :: k :: rest => (parseOps fuel rest).map (.erase k :: ·)
  | fuel + 1, "r" :: k :: k2 :: rest => (parseOps fuel rest).map (.rename k k2 :: ·)
  | fuel + 1, "l" :: k :: rest => (parseOps fuel rest).map (.lookup k :: ·)
  | _, _ => none

def showObs : Obs Nat → String
  | .done => "d"
  | .got (some t) => "g " ++ toString t
  | .got none => "g -"
  | .unknown k => "u " ++ k
  | .clash k => "c " ++ k

def showEnv (env : Env Nat) : String :=
  " ".intercalate (env.map (fun (k, t) => k ++ " " ++ toString t))

def request (ws : List String) : String :=
  match ws with
  | "run" :: mode :: n :: rest =>
    match n.toNat? with
    | some nn =>
      match parseEnv nn rest with
      | some (env, rest') =>
        match parseOps (rest'.length + 1) rest' with
        | some ops =>
          let res := if mode == "cs" then some (runCS env ops)
                     else if mode == "ci" then some (runCI lower env ops) else none
          match res with
          | some (obs, fin) => " ".intercalate (obs.map showObs) ++ " | " ++ showEnv fin
          | none => "(bad-request)"
        | none => "(bad-request)"
      | none => "(bad-request)"
    | none => "(bad-request)"
  | "collides" :: names => if collides lower names then "1" else "0"
  | ["lower", k] => lower k
  | _ => "(bad-request)"

partial def loop (h : IO.FS.Stream) : IO Unit := do
  let line ← h.getLine
  if line.isEmpty then return ()
  let l := String.ofList (line.toList.filter (fun c => c != '\n' && c != '\r'))
  IO.println (request (l.splitOn " " |>.filter (· ≠ "")))
  loop h

def main : IO Unit := do
  let stdin ← IO.getStdin
  loop stdin

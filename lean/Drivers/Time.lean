/-
  Line-protocol driver for the Time group (C08, C21).  One request per line, one answer per line.
  Tokens are separated by single spaces.  Unknown / malformed requests answer `(bad-request)`.

    D n                 -> y m d weekday isoYear isoWeek isoWeekday          (ofDay, weekday, isoWeekOf)
    T y m d             -> valid(0/1) dayNumber dayOfYear
    Y y                 -> leap(0/1) daysInYear daysBeforeYear isoWeeksInYear isoYearStart
    I y w d             -> dayNumber                                         (ofIsoWeek)
    P i y n             -> valid ord uy un startDay endDay getmonth dayofmonth dayofyear   ((uy,un) = unord i (ord p))
    U i k               -> y n                                               (unord)
    S i y n lo hi       -> spec results `y:n` for every shift lo..hi, then `|`, then what the tree's macro computes
    N i y n             -> y n                                               (implNextCur)
    G i y n t           -> y n | err                                         (timeAgg)
    X s                 -> raw=<i y n|none> parse=<i y n|none> norm=<canonical|none>
    R i y n             -> vtl reporting gregorian natural canon             (`!` = not supported by the format)
    L i y n             -> the documented spellings, space separated
    F i y n j y2 n2     -> datediff
    A y m d k j         -> y m d                                             (dateadd on a date)
    AP i y n k j        -> y m d                                             (dateadd on a period)
-/
import VtlModel.Time.Impl

open VtlModel.Time

def indOfStr (s : String) : Option Ind :=
  match s with
  | "A" => some .A | "S" => some .S | "Q" => some .Q | "M" => some .M | "W" => some .W | "D" => some .D
  | _ => none

def indStr : Ind → String
  | .A => "A" | .S => "S" | .Q => "Q" | .M => "M" | .W => "W" | .D => "D"

def b01 (b : Bool) : String := if b then "1" else "0"

def perStr (p : Period) : String := s!"{indStr p.ind} {p.year} {p.num}"

def optPer : Option Period → String
  | some p => perStr p
  | none => "none"

def rnd (f : Fmt) (p : Period) : String :=
  match render f p with
  | .ok cs => String.ofList cs
  | .error _ => "!"

def shiftLine (p : Period) (lo hi : Int) : String := Id.run do
  let cnt := (hi - lo + 1).toNat
  let mut a := ""
  let mut b := ""
  for j in [0:cnt] do
    let k := lo + (j : Int)
    let s := specShift p k
    let t := implShiftCur p k
    a := a ++ s!"{s.year}:{s.num} "
    b := b ++ s!" {t.year}:{t.num}"
  return a ++ "|" ++ b

def answer (line : String) : String :=
  let ws := line.splitOn " "
  let int? (s : String) : Option Int := s.toInt?
  match ws with
  | ["D", n] => match int? n with
    | some n =>
      let d := ofDay n
      let w := isoWeekOf n
      s!"{d.year} {d.month} {d.day} {weekday n} {w.1} {w.2.1} {w.2.2}"
    | none => "(bad-request)"
  | ["T", y, m, d] => match int? y, int? m, int? d with
    | some y, some m, some d =>
      let dt : Date := ⟨y, m, d⟩
      s!"{b01 (validDate dt)} {toDay dt} {dayOfYear dt}"
    | _, _, _ => "(bad-request)"
  | ["Y", y] => match int? y with
    | some y => s!"{b01 (isLeap y)} {daysInYear y} {daysBeforeYear y} {isoWeeksInYear y} {isoYearStart y}"
    | none => "(bad-request)"
  | ["I", y, w, d] => match int? y, int? w, int? d with
    | some y, some w, some d => s!"{ofIsoWeek y w d}"
    | _, _, _ => "(bad-request)"
  | ["P", i, y, n] => match indOfStr i, int? y, int? n with
    | some i, some y, some n =>
      let p : Period := ⟨y, i, n⟩
      let u := unord i (ord p)
      s!"{b01 (valid p)} {ord p} {u.year} {u.num} {startDay p} {endDay p} {getmonth p} {dayofmonth p} {dayofyear p}"
    | _, _, _ => "(bad-request)"
  | ["U", i, k] => match indOfStr i, int? k with
    | some i, some k => let u := unord i k; s!"{u.year} {u.num}"
    | _, _ => "(bad-request)"
  | ["S", i, y, n, lo, hi] => match indOfStr i, int? y, int? n, int? lo, int? hi with
    | some i, some y, some n, some lo, some hi => shiftLine ⟨y, i, n⟩ lo hi
    | _, _, _, _, _ => "(bad-request)"
  | ["N", i, y, n] => match indOfStr i, int? y, int? n with
    | some i, some y, some n => let u := implNextCur ⟨y, i, n⟩; s!"{u.year} {u.num}"
    | _, _, _ => "(bad-request)"
  | ["G", i, y, n, t] => match indOfStr i, int? y, int? n, indOfStr t with
    | some i, some y, some n, some t =>
      match timeAgg ⟨y, i, n⟩ t with
      | some q => s!"{q.year} {q.num}"
      | none => "err"
    | _, _, _, _ => "(bad-request)"
  | ["X", s] =>
    let cs := s.toList
    let nm := match normalise cs with
      | some c => String.ofList c
      | none => "none"
    s!"raw={optPer (parseRaw cs)} parse={optPer (parse cs)} norm={nm}"
  | ["R", i, y, n] => match indOfStr i, int? y, int? n with
    | some i, some y, some n =>
      let p : Period := ⟨y, i, n⟩
      s!"{rnd .vtl p} {rnd .sdmxReporting p} {rnd .sdmxGregorian p} {rnd .natural p} {String.ofList (canon p)}"
    | _, _, _ => "(bad-request)"
  | ["L", i, y, n] => match indOfStr i, int? y, int? n with
    | some i, some y, some n => " ".intercalate ((spellings ⟨y, i, n⟩).map String.ofList)
    | _, _, _ => "(bad-request)"
  | ["F", i, y, n, j, y2, n2] => match indOfStr i, int? y, int? n, indOfStr j, int? y2, int? n2 with
    | some i, some y, some n, some j, some y2, some n2 => s!"{datediff ⟨y, i, n⟩ ⟨y2, j, n2⟩}"
    | _, _, _, _, _, _ => "(bad-request)"
  | ["A", y, m, d, k, j] => match int? y, int? m, int? d, int? k, indOfStr j with
    | some y, some m, some d, some k, some j =>
      let r := dateaddDate ⟨y, m, d⟩ k j; s!"{r.year} {r.month} {r.day}"
    | _, _, _, _, _ => "(bad-request)"
  | ["AP", i, y, n, k, j] => match indOfStr i, int? y, int? n, int? k, indOfStr j with
    | some i, some y, some n, some k, some j =>
      let r := dateadd ⟨y, i, n⟩ k j; s!"{r.year} {r.month} {r.day}"
    | _, _, _, _, _ => "(bad-request)"
  | _ => "(bad-request)"

partial def loop (h : IO.FS.Stream) (out : IO.FS.Stream) : IO Unit := do
  let line ← h.getLine
  if line.isEmpty then return ()
  let l := if line.endsWith "\n" then String.ofList line.toList.dropLast else line
  out.putStrLn (answer l)
  loop h out

def main : IO Unit := do
  let stdin ← IO.getStdin
  let stdout ← IO.getStdout
  loop stdin stdout

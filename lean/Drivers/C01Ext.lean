import VtlModel.Sem.ExtCodec
/-! Line-protocol driver for the C01 extension (dataset-level case, instr, statement lists): one request per
line, one answer per line; requests of `Drivers/Sem.lean` are answered too. -/
open VtlModel.Sem

partial def loopC01X (h : IO.FS.Stream) (out : IO.FS.Stream) : IO Unit := do
  let line ← h.getLine
  if line.isEmpty then return ()
  out.putStrLn (handleLineC01X line)
  loopC01X h out

def main : IO Unit := do
  loopC01X (← IO.getStdin) (← IO.getStdout)

import VtlModel.Sem.ExtCodec
/-! Line-protocol driver for the C01 extension (dataset-level case, instr, statement lists): one request per
line, one answer per line; requests of `Drivers/Sem.lean` are answered too. -/
open VtlModel.Sem

partial def loopX (h : IO.FS.Stream) (out : IO.FS.Stream) : IO Unit := do
  let line ← h.getLine
  if line.isEmpty then return ()
  out.putStrLn (handleLineX line)
  loopX h out

def main : IO Unit := do
  loopX (← IO.getStdin) (← IO.getStdout)

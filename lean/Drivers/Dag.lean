/-
  Line-protocol driver for the Dag group (C12, C13).  One request per line, one answer per line.

  script  ::= stmt ('|' stmt)*            (the empty script is written `-`)
  stmt    ::= out ':' ('0'|'1') ':' [name (',' name)*]        names are naturals
  events  ::= ev (' ' ev)*                ev ::= ('L'|'C'|'R'|'F'|'D') name

    valid <script>          -> true | false                      isValidOrder (script in execution order)
    pred <script>           -> dup=<b> cycle=<b> topovalid=<b>
    usage <script>          -> ins=k:a,b;.. del=k:a,b;.. glob=a,b pers=a,b
    replay <0|1> <script>   -> safe=<b> fetched=a,b expected=a,b events=L1 R1 ..
    safe <events>           -> ok=<b> bad=<index|-> live=a,b fetched=a,b
    run <script>            -> none | 10=(term);11=(term)         runSeq with the free interpretation
    denote <script>         -> 10=(term);..                       order-independent denotation
-/
import VtlModel.Dag.Store
open VtlModel.Dag

def parseNames (s : String) : Option (List Nat) :=
  if s.isEmpty then some [] else (s.splitOn ",").mapM String.toNat?

def parseStmt (s : String) : Option Stmt :=
  match s.splitOn ":" with
  | [o, p, i] => do
    let o ← o.toNat?
    let i ← parseNames i
    if p == "1" then some ⟨o, i, true⟩ else if p == "0" then some ⟨o, i, false⟩ else none
  | _ => none

def parseScript (s : String) : Option (List Stmt) :=
  if s == "-" then some [] else (s.splitOn "|").mapM parseStmt

def parseEvent (s : String) : Option Event :=
  if s.length < 2 then none else
  match (s.drop 1).toNat? with
  | none => none
  | some n =>
    match s.toList.head? with
    | some 'L' => some (.load n)
    | some 'C' => some (.create n)
    | some 'R' => some (.read n)
    | some 'F' => some (.fetch n)
    | some 'D' => some (.drop n)
    | _ => none

def showNames (l : List Nat) : String := ",".intercalate (l.map toString)

def showEvent : Event → String
  | .load x => s!"L{x}" | .create x => s!"C{x}" | .read x => s!"R{x}" | .fetch x => s!"F{x}" | .drop x => s!"D{x}"

def showDict (n : Nat) (f : Nat → List Nat) : String :=
  ";".intercalate (((List.range (n + 2)).filter (fun k => !(f k).isEmpty)).map (fun k => s!"{k}:{showNames (f k)}"))

def showEnv (s : List Stmt) (e : Nat → Option String) : String :=
  ";".intercalate ((outs s).map (fun x => s!"{x}={(e x).getD "?"}"))

def answer (line : String) : String :=
  match (line.trimAscii.toString).splitOn " " with
  | ["valid", sc] =>
    match parseScript sc with
    | some s => toString (isValidOrder s)
    | none => "(bad-request)"
  | ["pred", sc] =>
    match parseScript sc with
    | some s => s!"dup={hasDup s} cycle={hasCycle s} topovalid={isValidOrder (topo s) && (topo s).length == s.length}"
    | none => "(bad-request)"
  | ["usage", sc] =>
    match parseScript sc with
    | some s =>
      let u := usage s
      s!"ins={showDict s.length u.insertion} del={showDict s.length u.deletion} glob={showNames u.globalInputs} pers={showNames u.persistent}"
    | none => "(bad-request)"
  | ["replay", r, sc] =>
    match parseScript sc with
    | some s =>
      if r != "0" && r != "1" then "(bad-request)" else
      let rop := r == "1"
      let tr := replay rop s
      s!"safe={safeB tr} fetched={showNames (fetches tr)} expected={showNames (expectedResults rop s)} events={" ".intercalate (tr.map showEvent)}"
    | none => "(bad-request)"
  | "safe" :: evs =>
    match (evs.filter (· != "")).mapM parseEvent with
    | some tr =>
      let bad := match firstBad Store.init tr 0 with | some i => toString i | none => "-"
      match Store.run Store.init tr with
      | some st => s!"ok={safeB tr} bad={bad} live={showNames st.live} fetched={showNames st.fetched}"
      | none => s!"ok=false bad={bad} live= fetched="
    | none => "(bad-request)"
  | ["run", sc] =>
    match parseScript sc with
    | some s =>
      match runSeq termF termG s with
      | some e => showEnv s e
      | none => "none"
    | none => "(bad-request)"
  | ["denote", sc] =>
    match parseScript sc with
    | some s => showEnv s (denote termF termG s (s.length + 1))
    | none => "(bad-request)"
  | _ => "(bad-request)"

partial def loop (h : IO.FS.Stream) (out : IO.FS.Stream) : IO Unit := do
  let line ← h.getLine
  if line.isEmpty then return ()
  out.putStrLn (answer line)
  loop h out

def main : IO Unit := do
  let i ← IO.getStdin
  let o ← IO.getStdout
  loop i o

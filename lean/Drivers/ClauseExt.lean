import VtlModel.Sem.PivotCodec
/-! Line-protocol driver for the clause-operator extension (unpivot, pivot, calc with roles, aggr clause). -/
open VtlModel.Sem

partial def loop (h : IO.FS.Stream) (out : IO.FS.Stream) : IO Unit := do
  let line ← h.getLine
  if line.isEmpty then return ()
  out.putStrLn (handleLineX line)
  loop h out

def main : IO Unit := do
  loop (← IO.getStdin) (← IO.getStdout)

import VtlModel.Session.Bracket
import VtlModel.Session.Interleave
import VtlModel.Gen.Bracket
/-!
Line protocol for group `Session` (C16, C17).  One request per line, one answer per line.

  info
  bracket <gen|snap> <inMem 0|1> <widthEnv> <scaleEnv> <decW> <decS> <fmt> <fault|-> <op>*
        env values: `-` unset, `j` not an integer, else an integer
        ops: L<i> load, S<i> stmt, D<i> drop, F<i> fetch, W<i> write, R results
  setdec <decW> <decS> <widthEnv> <scaleEnv>
  disc  <call> (; <call>)*          actions: r<v>  w<v>:<x>  i<v>  a<l>  u<l>
  sched <i,i,...|-> | <call> (; <call>)*
-/
open VtlModel.Session VtlModel.Interleave

def joinWith (sep : String) (xs : List String) : String := sep.intercalate xs

def dashIfEmpty (s : String) : String := if s.isEmpty then "-" else s

def parseEnvVal (s : String) : Option EnvVal :=
  if s == "-" then some .unset
  else if s == "j" then some .junk
  else s.toInt?.map .int

def parseOp (s : String) : Option BodyOp :=
  if s == "R" then some .results
  else
    let n := (s.drop 1).toString.toNat?
    match (s.take 1).toString, n with
    | "L", some i => some (.load i)
    | "S", some i => some (.stmt i)
    | "D", some i => some (.drop i)
    | "F", some i => some (.fetch i)
    | "W", some i => some (.write i)
    | _, _ => none

def leakName : Leak → String
  | .dir => "dir" | .conn => "conn" | .file => "file"

def showObs (x : St × Bool) : String :=
  let o := obsOf x
  s!"raised={if o.raised then 1 else 0} trace={dashIfEmpty (joinWith "," o.trace)} left={dashIfEmpty (joinWith "," (o.left.map leakName))} hazard={if o.hazard then 1 else 0} dec={x.1.dec.w},{x.1.dec.s} seen={dashIfEmpty (joinWith "," (o.seen.map toString))}"

def doBracket (ws : List String) : Option String := do
  match ws with
  | which :: inMem :: we :: se :: dw :: ds :: fmt :: fault :: ops =>
    let p ← if which == "gen" then some VtlModel.Gen.Bracket.prog
            else if which == "snap" then some (Prog.seq snapshotPre snapshotMain) else none
    let im ← if inMem == "1" then some true else if inMem == "0" then some false else none
    let wv ← parseEnvVal we
    let sv ← parseEnvVal se
    let w ← dw.toInt?
    let s ← ds.toInt?
    let f ← fmt.toNat?
    let flt ← if fault == "-" then some none else fault.toNat?.map some
    let script ← ops.mapM parseOp
    let r : RunSpec := { env := { inMemory := im, width := wv, scale := sv }, fmt := f, script := script, fault := flt }
    let x := runBracket setDecSnapshot p r { dec := { w := w, s := s } }
    some (showObs x)
  | _ => none

def doSetDec (ws : List String) : Option String := do
  match ws with
  | [dw, ds, we, se] =>
    let w ← dw.toInt?
    let s ← ds.toInt?
    let wv ← parseEnvVal we
    let sv ← parseEnvVal se
    let (d, raised) := setDecSnapshot { w := w, s := s } { width := wv, scale := sv }
    some s!"raised={if raised then 1 else 0} dec={d.w},{d.s}"
  | _ => none

def preEvents : Prog → List String
  | .ev n => [n]
  | .seq a b => preEvents a ++ preEvents b
  | .tryFinally a b => preEvents a ++ preEvents b
  | .tryExcept a h => preEvents a ++ preEvents h
  | .ifConn a => preEvents a
  | _ => []

def doInfo : String :=
  let pre := VtlModel.Gen.Bracket.pre
  let main := VtlModel.Gen.Bracket.main
  let clean := cleanFrom true pre main && cleanFrom false pre main
  let same := reprStr pre == reprStr snapshotPre && reprStr main == reprStr snapshotMain
  s!"tryStart={evCount pre} preEvents={dashIfEmpty (joinWith "," (preEvents pre))} clean={if clean then 1 else 0} sameAsSnapshot={if same then 1 else 0}"

def parseAction (s : String) : Option Action :=
  let rest := (s.drop 1).toString
  match (s.take 1).toString with
  | "r" => rest.toNat?.map .read
  | "i" => rest.toNat?.map .incr
  | "a" => rest.toNat?.map .acq
  | "u" => rest.toNat?.map .rel
  | "w" =>
    match rest.splitOn ":" with
    | [v, x] => do some (.write (← v.toNat?) (← x.toInt?))
    | _ => none
  | _ => none

/-- words of several calls separated by `;` -/
def parseCalls (ws : List String) : Option (List (List Action)) :=
  let groups := (ws.foldl (fun (acc : List (List String)) w =>
    if w == ";" then [] :: acc else
      match acc with
      | [] => [[w]]
      | g :: gs => (w :: g) :: gs) [[]]).reverse.map List.reverse
  groups.mapM (fun g => g.mapM parseAction)

def kindOf (calls : List (List Action)) (v : Nat) : String :=
  if kindA calls v then "A" else if kindB calls v then "B" else if kindC calls v then "C" else if kindD calls v then "D" else "-"

def doDisc (ws : List String) : Option String := do
  let calls ← parseCalls ws
  let vars := (calls.flatMap varsOf).eraseDups
  some s!"disciplined={if disciplined calls then 1 else 0} undisciplined={dashIfEmpty (joinWith "," ((undisciplinedVars calls).map toString))} kinds={dashIfEmpty (joinWith "," (vars.map fun v => s!"{v}:{kindOf calls v}"))}"

def doSched (ws : List String) : Option String := do
  match ws with
  | sch :: "|" :: rest =>
    let sched ← if sch == "-" then some [] else (sch.splitOn ",").mapM String.toNat?
    let calls ← parseCalls rest
    let init : Store := fun _ => 0
    let st := run (start init calls) sched
    let idxs := List.range calls.length
    let obs := idxs.map fun i => dashIfEmpty (joinWith "," ((st.th i).obs.map toString))
    let fin := idxs.map fun i => if (st.th i).rem.isEmpty then "1" else "0"
    let solo := calls.map fun c => dashIfEmpty (joinWith "," ((soloObs init c).map toString))
    some s!"obs={joinWith ";" obs} done={joinWith ";" fin} solo={joinWith ";" solo}"
  | _ => none

def answer (line : String) : String :=
  let ws := (line.splitOn " ").filter (· ≠ "")
  let r : Option String :=
    match ws with
    | ["info"] => some doInfo
    | "bracket" :: rest => doBracket rest
    | "setdec" :: rest => doSetDec rest
    | "disc" :: rest => doDisc rest
    | "sched" :: rest => doSched rest
    | _ => none
  r.getD "(bad-request)"

partial def loop (h : IO.FS.Stream) (out : IO.FS.Stream) : IO Unit := do
  let line ← h.getLine
  if line.isEmpty then return ()
  out.putStrLn (answer ((line.replace "\n" "").replace "\r" ""))
  loop h out

def main : IO Unit := do
  let stdin ← IO.getStdin
  let stdout ← IO.getStdout
  loop stdin stdout

/-
  Line-protocol driver for the Text group (C24: Pretty).  One request per line, one answer per line.
  All atoms are whitespace-free (the harness percent-encodes strings).

  expr   ::= C a | V a | U sym expr | B sym expr expr | P expr | F a expr* . | M expr a
           | I 0|1 expr a* ; | K expr a expr* . | A a expr            (prefix notation)
  sym    ::= PLUS MINUS NOT MUL DIV CONCAT EQ NEQ LT LE MT ME AND OR XOR IN NOT_IN   (token names)
  tokens ::= ( ) [ ] { } , # :=  op:<sym>  id:<a>  lit:<a>  kw:<a>

    render <expr>     -> tokens
    parse <tokens>    -> <expr> | none
    nf <expr>         -> true | false
    reparse <expr>    -> nf=<b> same=<b> <expr|none>        parse (render e), compared with e
-/
import VtlModel.Text.Pretty
import VtlModel.Text.PrettyGrammar
open VtlModel.Text

def allSyms : List Sym :=
  [.plus, .minus, .not, .mul, .div, .concat, .eq, .neq, .lt, .le, .gt, .ge, .and, .or, .xor, .in_, .notIn]

def symOfName (s : String) : Option Sym := allSyms.find? (fun y => y.tokName == s)

def showTok : Tok → String
  | .lp => "(" | .rp => ")" | .lb => "[" | .rb => "]" | .lc => "{" | .rc => "}"
  | .comma => "," | .hash => "#" | .assign => ":="
  | .sym s => "op:" ++ s.tokName
  | .id s => "id:" ++ s
  | .lit s => "lit:" ++ s
  | .kw s => "kw:" ++ s

def readTok (s : String) : Option Tok :=
  match s with
  | "(" => some .lp | ")" => some .rp | "[" => some .lb | "]" => some .rb | "{" => some .lc | "}" => some .rc
  | "," => some .comma | "#" => some .hash | ":=" => some .assign
  | _ =>
    if s.startsWith "op:" then (symOfName (s.drop 3).toString).map Tok.sym
    else if s.startsWith "id:" then some (.id (s.drop 3).toString)
    else if s.startsWith "lit:" then some (.lit (s.drop 4).toString)
    else if s.startsWith "kw:" then some (.kw (s.drop 3).toString)
    else none

mutual
  partial def showExpr : Expr → List String
    | .const c => ["C", c]
    | .var x => ["V", x]
    | .un o e => ["U", o.sym.tokName] ++ showExpr e
    | .bin o l r => ["B", o.sym.tokName] ++ showExpr l ++ showExpr r
    | .par e => "P" :: showExpr e
    | .call f as => ["F", f] ++ showArgs as ++ ["."]
    | .memb e c => "M" :: showExpr e ++ [c]
    | .isin neg e items => ["I", if neg then "1" else "0"] ++ showExpr e ++ items ++ [";"]
    | .clause e k b => "K" :: showExpr e ++ [k] ++ showArgs b ++ ["."]
    | .asg x e => ["A", x] ++ showExpr e
  partial def showArgs : Args → List String
    | .nil => []
    | .cons e r => showExpr e ++ showArgs r
end

partial def readItems : List String → Option (List String × List String)
  | ";" :: ws => some ([], ws)
  | w :: ws => (readItems ws).map fun (is, r) => (w :: is, r)
  | [] => none

mutual
  partial def readExpr : List String → Option (Expr × List String)
    | "C" :: c :: ws => some (.const c, ws)
    | "V" :: x :: ws => some (.var x, ws)
    | "U" :: s :: ws => do
        let o ← (symOfName s).bind Sym.toUn
        let (e, r) ← readExpr ws
        pure (.un o e, r)
    | "B" :: s :: ws => do
        let o ← (symOfName s).bind Sym.toBin
        let (l, r1) ← readExpr ws
        let (r, r2) ← readExpr r1
        pure (.bin o l r, r2)
    | "P" :: ws => do
        let (e, r) ← readExpr ws
        pure (.par e, r)
    | "F" :: f :: ws => do
        let (as, r) ← readArgs ws
        pure (.call f as, r)
    | "M" :: ws => do
        let (e, r) ← readExpr ws
        match r with
        | c :: r' => pure (.memb e c, r')
        | [] => none
    | "I" :: b :: ws => do
        let (e, r) ← readExpr ws
        let (is, r') ← readItems r
        pure (.isin (b == "1") e is, r')
    | "K" :: ws => do
        let (e, r) ← readExpr ws
        match r with
        | k :: r' => do
            let (as, r'') ← readArgs r'
            pure (.clause e k as, r'')
        | [] => none
    | "A" :: x :: ws => do
        let (e, r) ← readExpr ws
        pure (.asg x e, r)
    | _ => none
  partial def readArgs : List String → Option (Args × List String)
    | "." :: ws => some (.nil, ws)
    | ws => do
        let (e, r) ← readExpr ws
        let (as, r') ← readArgs r
        pure (.cons e as, r')
end

def words (s : String) : List String := (s.splitOn " ").filter (fun w => !w.isEmpty)

def readWhole (ws : List String) : Option Expr :=
  match readExpr ws with
  | some (e, []) => some e
  | _ => none

def showE (e : Expr) : String := " ".intercalate (showExpr e)

def answer (line : String) : String :=
  match words line.trimAscii.toString with
  | "render" :: ws =>
      match readWhole ws with
      | some e => " ".intercalate ((render e).map showTok)
      | none => "(bad-request)"
  | "parse" :: ws =>
      match ws.mapM readTok with
      | some ts => match parse ts with
                   | some e => showE e
                   | none => "none"
      | none => "(bad-request)"
  | "nf" :: ws =>
      match readWhole ws with
      | some e => toString (nfb e)
      | none => "(bad-request)"
  | "reparse" :: ws =>
      match readWhole ws with
      | some e =>
          match parse (render e) with
          | some e' => s!"nf={nfb e} same={Expr.beq e e'} {showE e'}"
          | none => s!"nf={nfb e} same=false none"
      | none => "(bad-request)"
  | _ => "(bad-request)"

partial def loop (h : IO.FS.Stream) (out : IO.FS.Stream) : IO Unit := do
  let line ← h.getLine
  if line.isEmpty then return ()
  out.putStrLn (answer line)
  loop h out

def main : IO Unit := do
  let i ← IO.getStdin
  let o ← IO.getStdout
  loop i o

import VtlModel.Sem.ViralCodec
/-! Line-protocol driver for the viral-propagation model: one request per line, one answer per line. -/
open VtlModel.Sem

partial def loop (h : IO.FS.Stream) (out : IO.FS.Stream) : IO Unit := do
  let line ← h.getLine
  if line.isEmpty then return ()
  out.putStrLn (handleLineViral line)
  loop h out

def main : IO Unit := do
  loop (← IO.getStdin) (← IO.getStdout)

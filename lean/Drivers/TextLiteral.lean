/-
  Line-protocol driver for the Number-literal model (C24).  One request per line, one answer per line.
  Unknown / malformed requests answer `(bad-request)`.

    (lit <intdigits> <fracdigits>)   e.g. `(lit 123 4567)` for the lexeme `123.4567`
        -> `ok <rendered string>`    what `_handle_literal(float(text))` returns
        -> `err IndexError`          the call raises IndexError
        -> `unknown`                 the literal is outside the model's domain
    (str <intdigits> <fracdigits>)   -> `ok <str(float(text))>` | `unknown`
    (fmt <intdigits> <fracdigits>)   -> `<:f or unknown> <:g or unknown>`
    (ren <intdigits> <fracdigits>)   -> `ok <canonical lexeme>`  the meaning-preserving renderer `render`
    (pre <intdigits> <fracdigits> <output>) -> `1` | `0`   the property predicate `preserves` on an output
-/
import VtlModel.Text.Literal

open VtlModel.Text.Literal

def digitsOf (s : List Char) : Option Digits :=
  if s.isEmpty then none
  else s.foldr (fun c acc => match digitVal? c, acc with
    | some d, some ds => some (d :: ds)
    | _, _ => none) (some [])

def optStr : Option (List Char) → String
  | some cs => String.ofList cs
  | none => "unknown"

/-- split on single spaces -/
def splitSp : List Char → List (List Char)
  | [] => [[]]
  | c :: r =>
    match splitSp r with
    | [] => [[c]]
    | w :: ws => if c = ' ' then [] :: w :: ws else (c :: w) :: ws

def request (ws : List (String × List Char)) : String :=
  match ws with
  | [("lit", _), (_, i), (_, f)] =>
    match digitsOf i, digitsOf f with
    | some I, some F =>
      match handle (I, F) with
      | .ok (some cs) => "ok " ++ String.ofList cs
      | .ok none => "unknown"
      | .error .indexError => "err IndexError"
    | _, _ => "(bad-request)"
  | [("str", _), (_, i), (_, f)] =>
    match digitsOf i, digitsOf f with
    | some I, some F =>
      match pyStr (I, F) with
      | some cs => "ok " ++ String.ofList cs
      | none => "unknown"
    | _, _ => "(bad-request)"
  | [("ren", _), (_, i), (_, f)] =>
    match digitsOf i, digitsOf f with
    | some I, some F => "ok " ++ String.ofList (render (I, F))
    | _, _ => "(bad-request)"
  | [("fmt", _), (_, i), (_, f)] =>
    match digitsOf i, digitsOf f with
    | some I, some F => optStr (fmtF6 (I, F)) ++ " " ++ optStr (fmtG6 (I, F))
    | _, _ => "(bad-request)"
  | [("pre", _), (_, i), (_, f), (_, out)] =>
    match digitsOf i, digitsOf f with
    | some I, some F => if preserves (I, F) out then "1" else "0"
    | _, _ => "(bad-request)"
  | _ => "(bad-request)"

def answer (line : List Char) : String :=
  if line.head? == some '(' && line.getLast? == some ')' && line.length ≥ 2 then
    request (((splitSp (line.drop 1).dropLast)).map (fun w => (String.ofList w, w)))
  else "(bad-request)"

partial def loop (h : IO.FS.Stream) (out : IO.FS.Stream) : IO Unit := do
  let line ← h.getLine
  if line.isEmpty then return ()
  let l := (line.toList.reverse.dropWhile (fun c => c == '\n' || c == '\r')).reverse
  out.putStrLn (answer l)
  loop h out

def main : IO Unit := do
  let stdin ← IO.getStdin
  let stdout ← IO.getStdout
  loop stdin stdout

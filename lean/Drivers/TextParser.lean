/-
  Line-protocol driver for the parser-state / source-line models (C23).  One request per line, one
  answer per line; unknown / malformed requests answer `(bad-request)`.  Texts travel hex-encoded
  (two lower-case hex digits per byte; the empty text is `-`).

    (srcline <hex text> <line> <col>)        -> `<hex echoed line> <col out>`   Text.SrcLine.extract with Gen.tabWidth
    (report <hex text> <line> <cpos>)        -> `<line> <column> <hex echoed line>`  what create_ast reports
                                                 (Gen.tabWidth, listenerColIn/Out, columnOffset)
    (posof <hex text> <k>)                   -> `<line-1> <column>`             Text.SrcLine.posOf
    (synmsg <line> <col> <ul> <hex source_line> <hex detail>) -> `<hex message>` VTLSyntaxError message
    (checks)                                 -> `historyFree=<b> errDiscipline=<b> guarded=<b>` on the Gen step list
    (parseseq <f1,f2,..> <hex t1> <hex t2> ...) -> demo interpretation, from the state of a fresh process, state threaded through the texts:
                                                 observables of each parse, fields joined by ` | `, parses by ` ;; `
    (fresh <f1,f2,..> <hex t>)               -> the same for a single parse from the state of a fresh process
-/
import VtlModel.Text.SrcLine
import VtlModel.Text.ParserState
import VtlModel.Gen.ParserState

open VtlModel.Text.SrcLine
open VtlModel.Text.ParserState
open VtlModel.Gen.ParserState

def hexVal (c : Char) : Option Nat :=
  if '0' ≤ c ∧ c ≤ '9' then some (c.toNat - 48)
  else if 'a' ≤ c ∧ c ≤ 'f' then some (c.toNat - 87)
  else none

def unhexAux : List Char → List Char → Option (List Char)
  | [], acc => some acc.reverse
  | [_], _ => none
  | a :: b :: r, acc =>
    match hexVal a, hexVal b with
    | some x, some y => unhexAux r (Char.ofNat (16 * x + y) :: acc)
    | _, _ => none

def unhex (s : List Char) : Option (List Char) := if s = ['-'] then some [] else unhexAux s []

def hexDigit (n : Nat) : Char := if n < 10 then Char.ofNat (48 + n) else Char.ofNat (87 + n)

def hex (l : List Char) : String :=
  if l.isEmpty then "-" else String.ofList (l.foldr (fun c acc => hexDigit (c.toNat / 16 % 16) :: hexDigit (c.toNat % 16) :: acc) [])

def unhexAll : List (List Char) → Option (List (List Char))
  | [] => some []
  | x :: r => match unhex x, unhexAll r with
    | some a, some b => some (a :: b)
    | _, _ => none

def splitOnC (sep : Char) (l : List Char) : List (List Char) :=
  let r := l.foldr (fun c (acc : List Char × List (List Char)) => if c = sep then ([], acc.1 :: acc.2) else (c :: acc.1, acc.2)) ([], [])
  r.1 :: r.2

def natOf (l : List Char) : Option Nat :=
  if l.isEmpty then none else
  l.foldl (fun acc c => match acc with
    | some n => if '0' ≤ c ∧ c ≤ '9' then some (10 * n + (c.toNat - 48)) else none
    | none => none) (some 0)

def intOf (l : List Char) : Option Int :=
  match l with
  | '-' :: r => (natOf r).map (fun n => - (n : Int))
  | _ => (natOf l).map (fun n => (n : Int))

def showParses (ps : List (List String)) : String :=
  joinWith " ;; " (ps.map (joinWith " | "))

def request (ws : List (List Char)) : String :=
  match ws.map String.ofList, ws with
  | ["srcline", _, _, _], [_, h, l, c] =>
    match unhex h, intOf l, intOf c with
    | some src, some li, some co =>
      let r := extract tabWidth src li co
      s!"{hex r.1} {r.2}"
    | _, _, _ => "(bad-request)"
  | ["report", _, _, _], [_, h, l, c] =>
    match unhex h, intOf l, natOf c with
    | some src, some li, some cp =>
      let r := report tabWidth listenerColIn listenerColOut columnOffset src li cp
      s!"{r.line} {r.column} {hex r.sourceLine}"
    | _, _, _ => "(bad-request)"
  | ["posof", _, _], [_, h, k] =>
    match unhex h, natOf k with
    | some src, some kk => let p := posOf src kk; s!"{p.1} {p.2}"
    | _, _ => "(bad-request)"
  | ["synmsg", _, _, _, _, _], [_, l, c, u, hs, hd] =>
    match intOf l, intOf c, intOf u, unhex hs, unhex hd with
    | some li, some co, some ul, some sl, some d => hex (message li co d sl ul)
    | _, _, _, _, _ => "(bad-request)"
  | ["checks"], _ =>
    s!"historyFree={historyFree listener doParseSteps (stateFields ++ [retSlot])} errDiscipline={errDiscipline listener false false [] doParseSteps} guarded={listener.guarded}"
  | "parseseq" :: _, _ :: fs :: texts =>
    match unhexAll texts with
    | some ts => showParses (parseSeq demo listener doParseSteps ((splitOnC ',' fs).map String.ofList) (freshState listener) (ts.map String.ofList))
    | none => "(bad-request)"
  | ["fresh", _, _], [_, fs, t] =>
    match unhex t with
    | some tx => showParses (parseSeq demo listener doParseSteps ((splitOnC ',' fs).map String.ofList) (freshState listener) [String.ofList tx])
    | none => "(bad-request)"
  | _, _ => "(bad-request)"

def answer (line : List Char) : String :=
  if line.head? == some '(' && line.getLast? == some ')' && line.length ≥ 2 then
    request (splitOnC ' ' (line.drop 1).dropLast)
  else "(bad-request)"

partial def loop (h : IO.FS.Stream) (out : IO.FS.Stream) : IO Unit := do
  let line ← h.getLine
  if line.isEmpty then return ()
  let l := (line.toList.reverse.dropWhile (fun c => c == '\n' || c == '\r')).reverse
  out.putStrLn (answer l)
  loop h out

def main : IO Unit := do
  let stdin ← IO.getStdin
  let stdout ← IO.getStdout
  loop stdin stdout

/-
  Line-protocol driver of group `Input` (C14, C18, C19, C20).  One request per line, one answer per line.
  Strings travel as tokens: `N` = null, `S` followed by the code points in hexadecimal joined by `.`
  (`S` alone = the empty string).

    cell <ty> <tok>                      -> ok <tok of documented output form> | bad
    impl <ty> <tok>                      -> 1 | 0 | -            (SQL loader pattern check)
    re <patternName> <tok>               -> 1 | 0
    table <ncomp> {<name> <ty> <role> <nullable>}* <ncols> {<col>}* <nrows> {<cell>}*
                                         -> ok <nrows> <ncols> {<tok>}* | rej <violation>
    csvenc <nrows> {<nfields> {<tok>}*}* -> <tok of the file text>
    csvdec <tok of the file text>        -> ok <nrows> {<nfields> {<tok>}*}* | none
  ty: I N S B D P T U    role: I M A    nullable: 1 0
-/
import VtlModel.Input.Spec
import VtlModel.Input.Csv
import VtlModel.Input.Impl

open VtlModel.Input

def hexVal (c : Char) : Option Nat :=
  if '0' ≤ c ∧ c ≤ '9' then some (c.toNat - 48)
  else if 'a' ≤ c ∧ c ≤ 'f' then some (c.toNat - 87)
  else none

def parseHex (s : String) : Option Nat :=
  if s.isEmpty then none else
  s.toList.foldl (fun acc c => match acc, hexVal c with
    | some a, some v => some (16 * a + v)
    | _, _ => none) (some 0)

/-- token -> Option (Option chars): outer none = malformed -/
def decTok (t : String) : Option (Option (List Char)) :=
  if t = "N" then some none
  else if t.startsWith "S" then
    let body := (t.drop 1).toString
    if body.isEmpty then some (some [])
    else
      let parts := body.splitOn "."
      let vals := parts.map parseHex
      if vals.all Option.isSome then some (some (vals.filterMap id |>.map Char.ofNat)) else none
  else none

def hexDigits (n : Nat) : String := String.ofList (Nat.toDigits 16 n)

def encTok : Option (List Char) → String
  | none => "N"
  | some cs => "S" ++ ".".intercalate (cs.map (fun c => hexDigits c.toNat))

def tyOf (s : String) : Option Ty :=
  match s with
  | "I" => some .integer | "N" => some .number | "S" => some .string | "B" => some .boolean
  | "D" => some .date | "P" => some .period | "T" => some .interval | "U" => some .duration
  | _ => none

def roleOf (s : String) : Option Role :=
  match s with
  | "I" => some .identifier | "M" => some .measure | "A" => some .attribute | _ => none

def violName : Violation → String
  | .duplicateColumn => "duplicateColumn"
  | .missingIdentifier c => "missingIdentifier " ++ encTok (some c)
  | .missingNonNullable c => "missingNonNullable " ++ encTok (some c)
  | .badValue c => "badValue " ++ encTok (some c)
  | .nullRequired c => "nullRequired " ++ encTok (some c)
  | .tooManyRows => "tooManyRows"
  | .duplicateKey => "duplicateKey"

/-- take n items with a parser that consumes tokens -/
partial def takeN {α : Type} (n : Nat) (f : List String → Option (α × List String)) (ts : List String) :
    Option (List α × List String) :=
  if n = 0 then some ([], ts) else
  match f ts with
  | none => none
  | some (a, rest) => match takeN (n - 1) f rest with
    | none => none
    | some (as, rest2) => some (a :: as, rest2)

def pComp : List String → Option (Comp × List String)
  | n :: t :: r :: nl :: rest =>
    match decTok n, tyOf t, roleOf r with
    | some (some name), some ty, some role => some (⟨name, ty, role, nl = "1"⟩, rest)
    | _, _, _ => none
  | _ => none

def pStr : List String → Option (List Char × List String)
  | t :: rest => match decTok t with
    | some (some s) => some (s, rest)
    | _ => none
  | _ => none

def pCell : List String → Option (Option (List Char) × List String)
  | t :: rest => match decTok t with
    | some c => some (c, rest)
    | none => none
  | _ => none

def pNat : List String → Option (Nat × List String)
  | t :: rest => match t.toNat? with
    | some n => some (n, rest)
    | none => none
  | _ => none

def handleTable (ts : List String) : Option String := do
  let (nc, ts) ← pNat ts
  let (comps, ts) ← takeN nc pComp ts
  let (ncol, ts) ← pNat ts
  let (cols, ts) ← takeN ncol pStr ts
  let (nrow, ts) ← pNat ts
  let (rows, ts) ← takeN nrow (takeN ncol pCell) ts
  if ts ≠ [] then none
  match acceptTable comps ⟨cols, rows⟩ with
  | .error v => some ("rej " ++ violName v)
  | .ok n =>
    let cells := n.flatMap (fun r => r.map (fun v => encTok (presentCell v)))
    some (" ".intercalate (["ok", toString n.length, toString comps.length] ++ cells))

def pRow (ts : List String) : Option (List (Option (List Char)) × List String) := do
  let (n, ts) ← pNat ts
  takeN n pCell ts

def showTbl (t : Csv.Tbl) : String :=
  " ".intercalate (["ok", toString t.length] ++ t.flatMap (fun r => toString r.length :: r.map encTok))

def handle (line : String) : String :=
  let ts := (line.splitOn " ").filter (· ≠ "")
  let bad := "(bad-request)"
  match ts with
  | ["cell", t, tok] =>
    match tyOf t, decTok tok with
    | some ty, some (some s) =>
      (match denoteCell ty s with
       | some v => "ok " ++ encTok (some (renderVal v))
       | none => "bad")
    | _, _ => bad
  | ["impl", t, tok] =>
    match tyOf t, decTok tok with
    | some ty, some (some s) =>
      (match implAccept ty s with
       | some true => "1" | some false => "0" | none => "-")
    | _, _ => bad
  | ["re", name, tok] =>
    match Gen.patternByName name, decTok tok with
    | some r, some (some s) => if r.matches s then "1" else "0"
    | _, _ => bad
  | "table" :: rest => (handleTable rest).getD bad
  | "csvenc" :: rest =>
    (match pNat rest with
     | some (n, ts) => match takeN n pRow ts with
       | some (rows, []) => encTok (some (Csv.encode rows))
       | _ => bad
     | none => bad)
  | ["csvdec", tok] =>
    match decTok tok with
    | some (some s) => (match Csv.decode s with
      | some t => showTbl t
      | none => "none")
    | _ => bad
  | _ => bad

partial def loop (h : IO.FS.Stream) (out : IO.FS.Stream) : IO Unit := do
  let line ← h.getLine
  if line.isEmpty then return ()
  out.putStrLn (handle (String.ofList (line.toList.filter (fun c => c ≠ (Char.ofNat 10) && c ≠ (Char.ofNat 13)))))
  loop h out

def main : IO Unit := do
  let stdin ← IO.getStdin
  let stdout ← IO.getStdout
  loop stdin stdout

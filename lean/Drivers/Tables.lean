/-
  Line-protocol driver for the Tables group (C27, C30, C22).  One request per line, one answer per line.
  Tokens are separated by single spaces.  Unknown / malformed requests answer `(bad-request)`.

    sdmx id:dtype:role ...      -> ok name|role|type|nullable;...   |  err keyError K  |  err inputValidation K
                                   (toVtlJson with the regenerated tables; `sdmx` alone = empty structure)
    sdmxdoc id:dtype:role ...   -> same components converted by the DOCUMENTED tables, in the same order:
                                   name|role|type|nullable;...  (`?` for a component the docs do not cover)
    setdec W S gw gs            -> w' s' ok TYPE  |  w' s' err ENVVAR value min max disable
                                   (W, S: integer or `_` = variable unset; gw gs = globals before the call)
    load w s m e                -> some TEXT | none          (literal m/10^e into DECIMAL(w,s))
    add maxW w s a b            -> some TEXT | none          (scaled integers a, b)
    sub maxW w s a b            -> some TEXT | none
    reach SRC                   -> ids of the mutation sites reachable from node SRC, space separated (`-` = none)
    path SRC DST                -> a shortest path SRC … DST as node ids, or `-`
-/
import VtlModel.Tables.Sdmx
import VtlModel.Tables.Decimal
import VtlModel.Tables.Flow
import VtlModel.Gen.Sdmx
import VtlModel.Gen.ConfigBounds
import VtlModel.Gen.Effects

open VtlModel.Tables

def sdmxCfg : Sdmx.Cfg :=
  { dtypeMap := VtlModel.Gen.Sdmx.codeDtypeMap, roleMap := VtlModel.Gen.Sdmx.codeRoleMap,
    groups := VtlModel.Gen.Sdmx.componentGroups, nullNeq := VtlModel.Gen.Sdmx.nullNeq,
    nullRole := VtlModel.Gen.Sdmx.nullRole, dtypeMissIV := VtlModel.Gen.Sdmx.dtypeMissIV,
    roleMissIV := VtlModel.Gen.Sdmx.roleMissIV, dtypeFirst := VtlModel.Gen.Sdmx.dtypeFirst }

def parseComps (ws : List String) : Option (List Sdmx.SComp) :=
  ws.mapM (fun w => match w.splitOn ":" with
    | [a, b, c] => some ⟨a, b, c⟩
    | _ => none)

def showV (v : Sdmx.VComp) : String := s!"{v.name}|{v.role}|{v.type}|{v.nullable}"

def envOf (w s : Option Int) : String → Option Int :=
  fun k => if k = VtlModel.Gen.ConfigBounds.DECIMAL_WIDTH_ENV_VAR then w
           else if k = VtlModel.Gen.ConfigBounds.DECIMAL_SCALE_ENV_VAR then s else none

def optInt (s : String) : Option (Option Int) :=
  if s = "_" then some none else (s.toInt?).map some

def answer (line : String) : String :=
  let ws := (line.splitOn " ").filter (· ≠ "")
  match ws with
  | "sdmx" :: rest =>
    match parseComps rest with
    | none => "(bad-request)"
    | some cs =>
      match Sdmx.toVtlJson sdmxCfg cs with
      | .ok out => "ok " ++ ";".intercalate (out.map showV)
      | .error (.keyError k) => "err keyError " ++ k
      | .error (.inputValidation k) => "err inputValidation " ++ k
  | "sdmxdoc" :: rest =>
    match parseComps rest with
    | none => "(bad-request)"
    | some cs =>
      ";".intercalate ((Sdmx.ordered sdmxCfg.groups cs).map (fun c =>
        match Sdmx.docConv VtlModel.Gen.Sdmx.docDtypeMap VtlModel.Gen.Sdmx.docRoleMap c with
        | some v => showV v
        | none => "?"))
  | ["setdec", w, s, gw, gs] =>
    match optInt w, optInt s, gw.toInt?, gs.toInt? with
    | some w, some s, some gw, some gs =>
      let (g', e) := VtlModel.Gen.ConfigBounds.setDecimalConfig (envOf w s) ⟨gw, gs⟩
      match e with
      | none => s!"{g'.w} {g'.s} ok {VtlModel.Gen.ConfigBounds.decimalType g'}"
      | some e => s!"{g'.w} {g'.s} err {e.envVar} {e.value} {e.minValue} {e.maxValue} {e.disableValue}"
    | _, _, _, _ => "(bad-request)"
  | ["load", w, s, m, e] =>
    match w.toNat?, s.toNat?, m.toInt?, e.toNat? with
    | some w, some s, some m, some e =>
      match Decimal.load w s ⟨m, e⟩ with
      | some n => "some " ++ Decimal.render s n
      | none => "none"
    | _, _, _, _ => "(bad-request)"
  | [op, mw, w, s, a, b] =>
    match mw.toNat?, w.toNat?, s.toNat?, a.toInt?, b.toInt? with
    | some mw, some w, some s, some a, some b =>
      let r := if op = "add" then some (Decimal.addDec mw w a b) else if op = "sub" then some (Decimal.subDec mw w a b) else none
      match r with
      | some (some n) => "some " ++ Decimal.render s n
      | some none => "none"
      | none => "(bad-request)"
    | _, _, _, _, _ => "(bad-request)"
  | ["reach", src] =>
    match src.toNat? with
    | some n =>
      match Flow.closureOf VtlModel.Gen.Effects.graph [n] with
      | some r =>
        let ms := VtlModel.Gen.Effects.mutationSites.filter (fun m => Flow.mem r m)
        if ms.isEmpty then "-" else " ".intercalate (ms.map toString)
      | none => "(out-of-fuel)"
    | none => "(bad-request)"
  | ["path", src, dst] =>
    match src.toNat?, dst.toNat? with
    | some a, some b =>
      match Flow.path VtlModel.Gen.Effects.graph a b with
      | some p => " ".intercalate (p.map toString)
      | none => "-"
    | _, _ => "(bad-request)"
  | _ => "(bad-request)"

partial def loop (h : IO.FS.Stream) (out : IO.FS.Stream) : IO Unit := do
  let line ← h.getLine
  if line.isEmpty then return ()
  let l := String.ofList (line.toList.filter (fun c => c != '\n' && c != '\r'))
  out.putStrLn (answer l)
  loop h out

def main : IO Unit := do
  let i ← IO.getStdin
  let o ← IO.getStdout
  loop i o

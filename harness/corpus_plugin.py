"""pytest plugin that HARVESTS the upstream test suite's run() calls instead of executing them:
every call of vtlengine.API.run / vtlengine.run made by a test is written to $VERIF_CORPUS_DIR as one JSON
file (script text, data structures, datapoints as CSV paths — DataFrames are dumped —, keyword
arguments) and then aborted.  The result is a replayable corpus of real scripts with their real inputs.
  cd $REPO && VERIF_CORPUS_DIR=/tmp/corpus PYTHONPATH=/verif/harness /venv/bin/python -m pytest -p corpus_plugin -q -x tests/…
"""
import hashlib
import json
import os
from pathlib import Path

import vtlstub

vtlstub.install()

OUT = os.environ.get('VERIF_CORPUS_DIR', '/tmp/verif_corpus')
os.makedirs(OUT, exist_ok=True)


class Harvested(Exception):
    pass


def _plain(x, base):
    import pandas as pd
    if isinstance(x, Path):
        return {'__path__': str(x)}
    if isinstance(x, pd.DataFrame):
        h = hashlib.sha1(pd.util.hash_pandas_object(x, index=False).values.tobytes() + str(list(x.columns)).encode()).hexdigest()[:16]
        p = os.path.join(OUT, 'df_%s.csv' % h)
        if not os.path.exists(p):
            x.to_csv(p, index=False)
        return {'__dataframe_csv__': p}
    if isinstance(x, dict):
        return {str(k): _plain(v, base) for k, v in x.items()}
    if isinstance(x, (list, tuple)):
        return [_plain(v, base) for v in x]
    if isinstance(x, (str, int, float, bool)) or x is None:
        return x
    return {'__repr__': repr(x)[:200], '__type__': type(x).__name__}


def _record(*args, **kwargs):
    names = ['script', 'data_structures', 'datapoints', 'value_domains', 'external_routines', 'time_period_output_format',
             'return_only_persistent', 'output_folder', 'scalar_values', 'sdmx_mappings', 'output_format']
    call = dict(zip(names, args))
    call.update(kwargs)
    rec = {k: _plain(v, OUT) for k, v in call.items()}
    rec['test'] = os.environ.get('PYTEST_CURRENT_TEST', '')
    s = json.dumps(rec, sort_keys=True, default=str)
    h = hashlib.sha1(json.dumps({k: v for k, v in rec.items() if k != 'test'}, sort_keys=True, default=str).encode()).hexdigest()[:16]
    p = os.path.join(OUT, 'run_%s.json' % h)
    if not os.path.exists(p):
        open(p, 'w').write(s)
    raise Harvested('call recorded')


def pytest_configure(config):
    import vtlengine
    import vtlengine.API as api
    api.run = _record
    vtlengine.run = _record

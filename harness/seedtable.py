"""Build-time tool: markdown table of the seeded changes under seeded/ (for DESIGN.md §9.5)."""
import glob, io, json, os, re, sys
V = os.path.dirname(os.path.dirname(os.path.abspath(__file__)))
_out = io.StringIO()
_p = lambda *a: print(*a, file=_out)  # noqa: E731
_p('| seed | property | change (file: what) | needs, to manifest | caught by (first lines of `./check` on the changed tree) |')
_p('|---|---|---|---|---|')
for d in sorted(glob.glob(os.path.join(V, 'seeded', '*', ''))):
    m = json.load(open(os.path.join(d, 'meta.json')))
    pd = open(os.path.join(d, 'patch.diff')).read()
    files = sorted(set(re.findall(r'^\+\+\+ b/(\S+)', pd, re.M)))
    summ = json.load(open(os.path.join(d, 'summary.json'))) if os.path.exists(os.path.join(d, 'summary.json')) else {}
    lines = [l for l in m.get('check_lines', []) if l.startswith('# ')]
    keys = []
    for l in lines:
        k = l[2:].split(': ', 1)[0]
        if k not in keys:
            keys.append(k)
    det = ('**not detected**' if not m.get('detected') else '; '.join('`%s`' % k[:90] for k in keys[:3]) + (' …' if len(keys) > 3 else ''))
    _p('| %s | %s | %s: %s | %s | %s |' % (os.path.basename(d.rstrip('/')), m['property'], ', '.join(f.replace('src/vtlengine/', '') for f in files),
                                        summ.get('change', ''), summ.get('needs', ''), det))

if '--update' in sys.argv:
    dp = os.path.join(V, 'DESIGN.md')
    txt = open(dp).read()
    a, b = txt.index('<!-- SEEDTABLE-BEGIN -->'), txt.index('<!-- SEEDTABLE-END -->')
    open(dp, 'w').write(txt[:a] + '<!-- SEEDTABLE-BEGIN -->\n' + _out.getvalue() + txt[b:])
else:
    sys.stdout.write(_out.getvalue())

"""Engine runs of one generated case under variations: row/column permutations and input form (C33),
configuration knobs (C15), semantic_analysis() next to run() (C10)."""
import multiprocessing as mp
import os
import random
import shutil
import signal
import sys
import tempfile

HARNESS = os.path.dirname(os.path.dirname(os.path.abspath(__file__)))
if HARNESS not in sys.path:
    sys.path.insert(0, HARNESS)

from sem import gen as G  # noqa: E402
from sem.runner import _TO, _alarm, _init  # noqa: E402


def permuted_env(env, seed, shuffle_cols=True):
    r = random.Random(seed)
    out = {}
    for n, d in env.items():
        rows = list(d['rows'])
        r.shuffle(rows)
        out[n] = {'ids': d['ids'], 'meas': d['meas'], 'rows': rows}
    return out


def _frames(env, seed, shuffle_cols):
    dfs = G.dataframes(env)
    if shuffle_cols:
        r = random.Random(seed + 17)
        for n in list(dfs):
            cols = list(dfs[n].columns)
            r.shuffle(cols)
            dfs[n] = dfs[n][cols]
    return dfs


def _canon(eng, out):
    if out[0] != 'ok':
        return out[:3] + (str(out[-1])[:200],)
    res = {}
    for name, ds in out[1].items():
        if hasattr(ds, 'components'):
            comps, rows, cols = eng.canon_dataset(ds)
            res[name] = ('ds', comps, rows, cols)
        else:
            dt = ds.data_type
            res[name] = ('scalar', dt.__name__ if isinstance(dt, type) else type(dt).__name__, eng.canon_value(ds.value))
    return ('ok', res)


def _run_variant(args):
    case, var, budget = args
    import eng
    from vtlengine import run, semantic_analysis
    signal.signal(signal.SIGALRM, _alarm)
    signal.alarm(budget)
    tmp = None
    saved = {}
    try:
        env = case['env']
        if var.get('perm_seed') is not None:
            env = permuted_env(env, var['perm_seed'])
        for k, v in (var.get('environ') or {}).items():
            saved[k] = os.environ.get(k)
            if v is None:
                os.environ.pop(k, None)
            else:
                os.environ[k] = v
        structs = G.structures(case['env'])
        if var.get('semantic'):
            out = eng.outcome(semantic_analysis, case['vtl'], structs)
            if out[0] == 'ok':
                res = {}
                for name, ds in out[1].items():
                    if hasattr(ds, 'components'):
                        res[name] = ('ds', [(c.name, c.role.value if hasattr(c.role, 'value') else str(c.role), c.data_type.__name__, bool(c.nullable))
                                            for c in ds.components.values()], None, None)
                    else:
                        dt = ds.data_type
                        res[name] = ('scalar', dt.__name__ if isinstance(dt, type) else type(dt).__name__, None)
                return ('ok', res)
            return out[:3] + (str(out[-1])[:200],)
        dfs = _frames(env, var.get('perm_seed') or 0, var.get('shuffle_cols', False))
        dp = dfs
        if var.get('form') == 'csv':
            tmp = tempfile.mkdtemp(prefix='verif_csv_')
            dp = {}
            for n, df in dfs.items():
                p = os.path.join(tmp, n + '.csv')
                df.to_csv(p, index=False)
                dp[n] = p
            from pathlib import Path
            dp = {n: Path(p) for n, p in dp.items()}
        out = eng.outcome(run, case['vtl'], structs, dp, return_only_persistent=var.get('rop', True))
        if out[0] == 'raw' and 'interrupted' in str(out[-1]).lower():
            return ('timeout',)
        return _canon(eng, out)
    except _TO:
        return ('timeout',)
    finally:
        signal.alarm(0)
        for k, v in saved.items():
            if v is None:
                os.environ.pop(k, None)
            else:
                os.environ[k] = v
        if tmp:
            shutil.rmtree(tmp, ignore_errors=True)


def run_variants(jobs_list, budget=90, procs=None):
    """jobs_list: [(case, variant_dict)] -> outcomes in order."""
    procs = procs or min(14, max(1, (os.cpu_count() or 2) - 2))
    with mp.Pool(procs, initializer=_init) as pool:
        return pool.map(_run_variant, [(c, v, budget) for c, v in jobs_list], chunksize=2)


def same_result(a, b, tol=1e-9):
    """compare two canonical engine outcomes as SETS of datapoints; -> (bool, why)."""
    if a[0] != b[0]:
        return False, 'outcome kinds differ: %s vs %s' % (a[:3], b[:3])
    if a[0] != 'ok':
        return (a[1:3] == b[1:3]), 'errors differ: %s vs %s' % (a[1:3], b[1:3])
    if set(a[1]) != set(b[1]):
        return False, 'result names differ'
    for n in a[1]:
        x, y = a[1][n], b[1][n]
        if x[0] != y[0]:
            return False, n + ': kinds differ'
        if x[0] == 'scalar':
            if not _veq(x[2], y[2], tol):
                return False, '%s: scalar %r vs %r' % (n, x[2], y[2])
            continue
        if x[1] != y[1]:
            return False, '%s: components differ %s vs %s' % (n, x[1], y[1])
        rx, ry = x[2] or [], y[2] or []
        if len(rx) != len(ry):
            return False, '%s: %d vs %d datapoints' % (n, len(rx), len(ry))
        for p, q in zip(rx, ry):     # both sorted by canon_dataset
            if len(p) != len(q) or not all(_veq(u, v, tol) for u, v in zip(p, q)):
                return False, '%s: datapoint %r vs %r' % (n, p, q)
    return True, ''


def _veq(u, v, tol):
    if u is None or v is None:
        return u is None and v is None
    if isinstance(u, bool) or isinstance(v, bool):
        return u == v
    if isinstance(u, (int, float)) and isinstance(v, (int, float)):
        return u == v or abs(u - v) <= tol * max(1.0, abs(u), abs(v))
    return u == v


def typed_worker(args):
    import random
    import shutil
    import signal
    import tempfile
    from pathlib import Path
    import pandas as pd
    import eng
    from vtlengine import run
    from sem.variants import _canon
    from sem.runner import _TO, _alarm
    c, k, form = args
    rows = list(c['rows'])
    cols = list(c['cols'])
    if k >= 2:
        r = random.Random(k * 7919)
        r.shuffle(rows)
        order = list(range(len(cols)))
        r.shuffle(order)
        cols = [cols[j] for j in order]
        rows = [[row[j] for j in order] for row in rows]
    df = pd.DataFrame(rows, columns=cols, dtype=object)
    signal.signal(signal.SIGALRM, _alarm)
    signal.alarm(120)
    tmp = None
    try:
        dp = {'DS_1': df}
        if form == 'csv':
            tmp = tempfile.mkdtemp(prefix='verif_c33_')
            p = Path(tmp) / 'DS_1.csv'
            df.to_csv(p, index=False)
            dp = {'DS_1': p}
        out = eng.outcome(run, c['script'], c['structs'], dp)
        if out[0] == 'raw' and 'interrupted' in str(out[-1]).lower():
            return ('timeout',)
        return _canon(eng, out)
    except _TO:
        return ('timeout',)
    finally:
        signal.alarm(0)
        if tmp:
            shutil.rmtree(tmp, ignore_errors=True)




def viral_worker(args):
    """run one generated viral-attribute script on its inputs in the row order given by perm_seed (None = as generated)"""
    import signal
    import eng
    from vtlengine import run
    from sem import gen_viral as GV
    from sem.runner import _TO, _alarm
    vtl, structs, env, perm_seed = args
    signal.signal(signal.SIGALRM, _alarm)
    signal.alarm(120)
    try:
        return _canon(eng, eng.outcome(run, vtl, structs, GV.dataframes(env, perm_seed)))
    except _TO:
        return ('timeout',)
    finally:
        signal.alarm(0)


def run_viral(cases, seeds, jobs=None):
    """-> {case index: [outcome per seed]} for cases of sem.gen_viral.ViralGen"""
    import multiprocessing as mp
    import os
    from sem import gen_viral as GV
    args = []
    for c in cases:
        st = GV.structures(c['env'])
        for sd in seeds:
            args.append((c['vtl'], st, c['env'], sd))
    with mp.get_context('fork').Pool(jobs or min(12, os.cpu_count() or 4)) as pool:
        outs = pool.map(viral_worker, args, chunksize=1)
    k = len(seeds)
    return {i: outs[i * k:(i + 1) * k] for i in range(len(cases))}

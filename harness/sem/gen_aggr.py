"""Generator + comparer for the aggregation correspondence (C03): datasets with 0-200 datapoints, repeated keys
in the non-grouped identifiers, null measures; every aggregate operator; group by / group except / no grouping;
standalone (`op(DS group by …)`) and inside the `aggr` clause; optional `having`.

Every random choice comes from the `rng` passed in (derived from VERIF_SEED)."""
import collections
import os
import sys
from fractions import Fraction

HARNESS = os.path.dirname(os.path.dirname(os.path.abspath(__file__)))
if HARNESS not in sys.path:
    sys.path.insert(0, HARNESS)

from sem import gen as G  # noqa: E402
from sem.sx import enc_value, dec_answer, parse  # noqa: E402

NUM_OPS = ['sum', 'avg', 'count', 'min', 'max', 'median', 'stddev_pop', 'stddev_samp', 'var_pop', 'var_samp']
ANY_OPS = ['count', 'min', 'max']
SQUARED = {'stddev_pop', 'stddev_samp'}
VARIANCE = {'stddev_pop', 'stddev_samp', 'var_pop', 'var_samp'}
ROWS = [0, 1, 2, 3, 4, 6, 9, 14, 25, 40, 70, 120, 200]
NULL_RATES = [0.0, 0.1, 0.25, 0.5, 0.8, 1.0]
ID_POOLS = {'Id_1': ('Integer', [1, 2, 3, 4, 5, 6]), 'Id_2': ('String', ['a', 'b', 'c', 'd', 'e']),
            'Id_3': ('Integer', list(range(1, 11)))}
FAMILIES = {
    'num2': [('Me_1', 'Number'), ('Me_2', 'Integer')],
    'num1': [('Me_1', 'Number')],
    'int1': [('Me_1', 'Integer')],
    'strbool': [('Me_1', 'String'), ('Me_2', 'Boolean')],
    'str1': [('Me_1', 'String')],
    'numstr': [('Me_1', 'Number'), ('Me_2', 'String')],
    'nomeas': [],
}
STRS = ['', 'a', 'B', 'ab', 'aB', 'x€', 'Zz9', ' ', 'b', 'ba', '日1', 'A']
CMP = [('>', 'gt'), ('>=', 'ge'), ('<', 'lt'), ('<=', 'le'), ('=', 'eq'), ('<>', 'ne')]


def nsx(n):
    return G.name_sx(n)


class AggrGen:
    def __init__(self, rng, max_rows=200):
        self.r = rng
        self.max_rows = max_rows

    # ------------------------------------------------------------------ data
    def value(self, t, null_rate, small):
        r = self.r
        if r.random() < null_rate:
            return None
        if t == 'Integer':
            if small:
                return r.randint(-5, 9)
            return r.choice([0, 1, -1, 7, 100, -12, 2147483647, -2147483648]) if r.random() < 0.3 else r.randint(-1000, 1000)
        if t == 'Number':
            if small:
                return Fraction(r.randint(-50, 90), r.choice([1, 2, 10]))
            if r.random() < 0.25:
                return r.choice([Fraction(0), Fraction(1, 10), Fraction(-5, 2), Fraction(9999, 10), Fraction(333, 100), Fraction(1001, 1000), Fraction(123456789, 1000)])
            return Fraction(r.randint(-200000, 200000), r.choice([1, 2, 4, 5, 10, 100, 1000, 10000]))
        if t == 'String':
            return r.choice(STRS)
        return r.choice([True, False])

    def dataset(self, fam=None, nrows=None):
        r = self.r
        fam = fam or r.choice(['num2', 'num2', 'num1', 'int1', 'strbool', 'str1', 'numstr', 'nomeas', 'num2', 'int1'])
        nid = r.choice([2, 3, 3])
        ids = [(n, ID_POOLS[n][0]) for n in ['Id_1', 'Id_2', 'Id_3'][:nid]]
        meas = list(FAMILIES[fam])
        space = 1
        for n, _ in ids:
            space *= len(ID_POOLS[n][1])
        want = nrows if nrows is not None else r.choice([x for x in ROWS if x <= self.max_rows])
        want = min(want, space)
        # few distinct values in some identifiers so that groups have several members
        pools = {n: (r.sample(ID_POOLS[n][1], r.randint(1, len(ID_POOLS[n][1]))) if r.random() < 0.5 else ID_POOLS[n][1]) for n, _ in ids}
        space = 1
        for n, _ in ids:
            space *= len(pools[n])
        want = min(want, space)
        keys = set()
        guard = 0
        while len(keys) < want and guard < want * 50 + 100:
            keys.add(tuple(r.choice(pools[n]) for n, _ in ids))
            guard += 1
        null_rate = r.choice(NULL_RATES)
        small = r.random() < 0.4
        rows = [tuple(list(k) + [self.value(t, null_rate, small) for _, t in meas]) for k in keys]
        r.shuffle(rows)
        return fam, {'ids': ids, 'meas': meas, 'rows': rows}, null_rate

    # ------------------------------------------------------------------ grouping
    def grouping(self, ids):
        """-> (form, vtl text, sx, result ids)"""
        r = self.r
        names = [n for n, _ in ids]
        k = r.random()
        if k < 0.5:
            sel = r.sample(names, r.randint(1, len(names)))
            if r.random() < 0.5:
                sel = [n for n in names if n in sel]
            return 'by', ' group by ' + ', '.join(sel), '(by %s)' % ' '.join(nsx(n) for n in sel), [i for i in ids if i[0] in sel]
        if k < 0.8:
            sel = r.sample(names, r.randint(1, len(names)))
            return 'except', ' group except ' + ', '.join(sel), '(except %s)' % ' '.join(nsx(n) for n in sel), [i for i in ids if i[0] not in sel]
        return 'none', '', 'none', []

    # ------------------------------------------------------------------ having
    def hconst(self, op, t):
        r = self.r
        if op == 'count':
            return r.choice([0, 1, 2, 3, 5])
        if t == 'String':
            return r.choice(['a', 'b', 'B', 'ab'])
        if t == 'Boolean':
            return r.choice([True, False])
        return r.choice([0, 1, -3, 10, Fraction(5, 2), Fraction(-1, 4), 100, Fraction(37, 100)])

    def having(self, cols, allow_count=True):
        """cols: [(name, type)] the having may aggregate -> (vtl, sx, [ops])"""
        r = self.r
        items, ops = [], []

        def agg():
            cands = []
            if allow_count:
                cands.append(('count', None, None))
            for n, t in cols:
                for op in (NUM_OPS if t in G.NUM else ANY_OPS):
                    if op in SQUARED:
                        continue
                    cands.append((op, n, t))
            op, n, t = r.choice(cands)
            name = '__h%d' % len(items)
            if n is None:
                items.append('(item %s count any)' % nsx(name)); vt = 'count()'
            else:
                items.append('(item %s %s (expr (col %s)))' % (nsx(name), op, nsx(n))); vt = '%s(%s)' % (op, n)
            ops.append(op)
            rt = 'Integer' if op == 'count' else (t if op in ('min', 'max', 'sum') else 'Number')
            return vt, '(col %s)' % nsx(name), op, rt

        def atom():
            a = agg()
            cmpv, cmps = r.choice(CMP if a[3] != 'Boolean' else CMP[4:])
            if r.random() < 0.2 and a[3] in G.NUM and a[2] != 'count':
                b = agg()
                if b[3] in G.NUM and b[2] != 'count':
                    return '%s %s %s' % (a[0], cmpv, b[0]), '(bin %s %s %s)' % (cmps, a[1], b[1])
            c = self.hconst(a[2], a[3])
            return '%s %s %s' % (a[0], cmpv, G.vtl_const(c)), '(bin %s %s (const %s))' % (cmps, a[1], enc_value(c))

        x = atom()
        if r.random() < 0.3:
            y = atom()
            bo = r.choice(['and', 'or'])
            x = ('(%s) %s (%s)' % (x[0], bo, y[0]), '(bin %s %s %s)' % (bo, x[1], y[1]))
        return ' having ' + x[0], '(having (%s) %s)' % (' '.join(items), x[1]), ops

    # ------------------------------------------------------------------ cases
    def standalone(self):
        r = self.r
        fam, d, nr = self.dataset()
        meas = d['meas']
        allnum = bool(meas) and all(t in G.NUM for _, t in meas)
        if allnum:
            op = r.choice(NUM_OPS)
        elif not meas:
            op = r.choice(['count', 'count', 'min'])
        else:
            op = r.choice(ANY_OPS)
        form, gv, gsx, rids = self.grouping(d['ids'])
        while not meas and op != 'count' and not rids:
            form, gv, gsx, rids = self.grouping(d['ids'])
        hv, hsx, hops = '', '_', []
        if rids and len(meas) == 1 and r.random() < 0.35:
            hv, hsx, hops = self.having(meas)
        vtl = 'DS_r <- %s(DS_1%s%s);' % (op, gv, hv)
        sx = '(aggr (spec %s (each %s) %s) (ds DS_1))' % (gsx, op, hsx)
        if op == 'count':
            rm = [('int_var', 'Integer')]
        else:
            rm = [(n, (t if op in ('sum', 'min', 'max') else 'Number')) for n, t in meas]
        return self.finish('standalone', fam, d, nr, vtl, sx, [op], form, rids, rm, hops)

    def clause(self):
        r = self.r
        fam, d, nr = self.dataset(fam=r.choice(['num2', 'num2', 'num1', 'int1', 'strbool', 'numstr', 'num2']))
        meas = d['meas']
        nitems = r.choice([1, 1, 2, 2, 3])
        items_v, items_sx, ops, rm, used = [], [], [], [], set()
        operands = []
        same_col = r.random() < 0.5     # all items over one column -> the engine accepts a having on that column
        col0 = r.choice(meas)
        for _ in range(nitems):
            out = r.choice(['Me_1', 'Me_2', 'Me_3', 'Me_4', 'Me_5'])
            if out in used:
                continue
            used.add(out)
            n, t = col0 if same_col else r.choice(meas)
            k = r.random()
            if k < 0.12:
                items_v.append('%s := count()' % out); items_sx.append('(item %s count any)' % nsx(out))
                ops.append('count'); rm.append((out, 'Integer')); operands.append(None)
                continue
            op = r.choice(NUM_OPS if t in G.NUM else ANY_OPS)
            argv, argsx, rt = n, '(col %s)' % nsx(n), t
            if t in G.NUM and not same_col and r.random() < 0.25:
                others = [m for m in meas if m[1] in G.NUM]
                m2 = r.choice(others)
                form = r.choice(['add', 'mulc', 'sub'])
                if form == 'mulc':
                    c = r.choice([2, -1, 3])
                    argv, argsx = '%s * %d' % (n, c), '(bin mul (col %s) (const (i %d)))' % (nsx(n), c)
                else:
                    sym = '+' if form == 'add' else '-'
                    argv, argsx = '%s %s %s' % (n, sym, m2[0]), '(bin %s (col %s) (col %s))' % (form, nsx(n), nsx(m2[0]))
                    rt = 'Number' if 'Number' in (t, m2[1]) else 'Integer'
                operands.append(None)
            else:
                operands.append((n, t))
            items_v.append('%s := %s(%s)' % (out, op, argv)); items_sx.append('(item %s %s (expr %s))' % (nsx(out), op, argsx))
            ops.append(op)
            rm.append((out, 'Integer' if op == 'count' else (rt if op in ('sum', 'min', 'max') else 'Number')))
        form, gv, gsx, rids = self.grouping(d['ids'])
        hv, hsx, hops = '', '_', []
        if rids and r.random() < 0.4:
            cols = [o for o in operands if o is not None]
            common = cols[0] if cols and len(cols) == len(operands) and all(c == cols[0] for c in cols) else None
            hv, hsx, hops = self.having([common] if common else [], allow_count=True)
        vtl = 'DS_r <- DS_1[aggr %s%s%s];' % (', '.join(items_v), gv, hv)
        sx = '(aggr (spec %s (list %s) %s) (ds DS_1))' % (gsx, ' '.join(items_sx), hsx)
        return self.finish('clause', fam, d, nr, vtl, sx, ops, form, rids, rm, hops)

    def two_level(self):
        """aggregate of an aggregate (two statements)."""
        r = self.r
        fam, d, nr = self.dataset(fam=r.choice(['num2', 'num1', 'int1']), nrows=r.choice([6, 14, 40, 120]))
        ids = [n for n, _ in d['ids']]
        op1 = r.choice(['sum', 'max', 'min', 'avg', 'count'])
        op2 = r.choice(['sum', 'avg', 'max', 'count', 'median', 'var_pop'])
        keep = ids[:2]
        vtl = 'T_1 := %s(DS_1 group by %s); DS_r <- %s(T_1 group by %s);' % (op1, ', '.join(keep), op2, keep[0])
        inner = '(aggr (spec (by %s) (each %s) _) (ds DS_1))' % (' '.join(nsx(n) for n in keep), op1)
        sx = '(aggr (spec (by %s) (each %s) _) %s)' % (nsx(keep[0]), op2, inner)
        m1 = [('int_var', 'Integer')] if op1 == 'count' else d['meas']
        rm = [('int_var', 'Integer')] if op2 == 'count' else [(n, 'Number') for n, _ in m1]
        return self.finish('two-level', fam, d, nr, vtl, sx, [op1, op2], 'by', [i for i in d['ids'] if i[0] == keep[0]], rm, [])

    def filtered(self):
        """aggregate of a filtered / calculated operand (two statements)."""
        r = self.r
        fam, d, nr = self.dataset(fam=r.choice(['num2', 'num1', 'int1']))
        op = r.choice(NUM_OPS)
        form, gv, gsx, rids = self.grouping(d['ids'])
        c = r.choice([0, 1, -3, 10])
        cmpv, cmps = r.choice(CMP[:4])
        vtl = 'T_1 := DS_1[filter Me_1 %s %d]; DS_r <- %s(T_1%s);' % (cmpv, c, op, gv)
        sx = '(aggr (spec %s (each %s) _) (filter (ds DS_1) (bin %s (col "Me_1") (const (i %d)))))' % (gsx, op, cmps, c)
        rm = [('int_var', 'Integer')] if op == 'count' else [(n, (t if op in ('sum', 'min', 'max') else 'Number')) for n, t in d['meas']]
        return self.finish('filtered-operand', fam, d, nr, vtl, sx, [op], form, rids, rm, [])

    def rejected_having(self, k=None):
        """forms of `having` the engine is known to reject (kept apart: every outcome is a finding or a skip)."""
        r = self.r
        fam, d, nr = self.dataset(fam='num2', nrows=r.choice([3, 9, 25]))
        k = r.random() if k is None else k
        if k < 0.25:
            vtl = 'DS_r <- DS_1[aggr Me_3 := sum(Me_1) group by Id_1 having avg(Me_1) > count(Me_1)];'
            sx = ('(aggr (spec (by "Id_1") (list (item "Me_3" sum (expr (col "Me_1")))) '
                  '(having ((item "__h0" avg (expr (col "Me_1"))) (item "__h1" count (expr (col "Me_1")))) (bin gt (col "__h0") (col "__h1")))) (ds DS_1))')
            return self.finish('having-count-vs-aggregate', fam, d, nr, vtl, sx, ['sum'], 'by', d['ids'][:1], [('Me_3', 'Number')], ['avg', 'count'])
        if k < 0.5:
            vtl = 'DS_r <- DS_1[aggr Me_3 := sum(Me_1), Me_4 := max(Me_2) group by Id_1 having avg(Me_1) > 0];'
            sx = ('(aggr (spec (by "Id_1") (list (item "Me_3" sum (expr (col "Me_1"))) (item "Me_4" max (expr (col "Me_2")))) '
                  '(having ((item "__h0" avg (expr (col "Me_1")))) (bin gt (col "__h0") (const (i 0))))) (ds DS_1))')
            return self.finish('having-other-component', fam, d, nr, vtl, sx, ['sum', 'max'], 'by', d['ids'][:1],
                               [('Me_3', 'Number'), ('Me_4', 'Integer')], ['avg'])
        if k < 0.58:
            ids = ', '.join(n for n, _ in d['ids'])
            vtl = 'DS_r <- DS_1[aggr Me_3 := sum(Me_1) group except %s having max(Me_1) >= min(Me_1)];' % ids
            sx = ('(aggr (spec (except %s) (list (item "Me_3" sum (expr (col "Me_1")))) '
                  '(having ((item "__h0" max (expr (col "Me_1"))) (item "__h1" min (expr (col "Me_1")))) (bin ge (col "__h0") (col "__h1")))) (ds DS_1))' % ' '.join(nsx(n) for n, _ in d['ids']))
            return self.finish('having-without-result-identifiers', fam, d, nr, vtl, sx, ['sum'], 'except', [], [('Me_3', 'Number')], ['max', 'min'])
        if k < 0.7:
            fam, d, nr = self.dataset(fam='nomeas', nrows=r.choice([0, 1, 3, 9]))
            op = r.choice(['min', 'max'])
            return self.finish('minmax-no-measures-ungrouped', fam, d, nr, 'DS_r <- %s(DS_1);' % op,
                               '(aggr (spec none (each %s) _) (ds DS_1))' % op, [op], 'none', [], [], [])
        vtl = 'DS_r <- sum(DS_1 group by Id_1 having avg(Me_1) > 0);'
        sx = '(aggr (spec (by "Id_1") (each sum) (having ((item "__h0" avg (expr (col "Me_1")))) (bin gt (col "__h0") (const (i 0))))) (ds DS_1))'
        return self.finish('having-two-measures', fam, d, nr, vtl, sx, ['sum'], 'by', d['ids'][:1], list(d['meas']), ['avg'])

    def group_all(self):
        """`group all` without a time aggregation (accepted by the grammar)."""
        r = self.r
        fam, d, nr = self.dataset(fam=r.choice(['num2', 'int1']), nrows=r.choice([0, 1, 3, 9, 25]))
        if r.random() < 0.5:
            op = r.choice(['sum', 'max', 'count', 'avg'])
            vtl = 'DS_r <- %s(DS_1 group all);' % op
            sx = '(aggr (spec none (each %s) _) (ds DS_1))' % op
            rm = [('int_var', 'Integer')] if op == 'count' else [(n, (t if op in ('sum', 'max') else 'Number')) for n, t in d['meas']]
            return self.finish('group-all-standalone', fam, d, nr, vtl, sx, [op], 'all', [], rm, [])
        op = r.choice(['sum', 'max', 'avg'])
        vtl = 'DS_r <- DS_1[aggr Me_3 := %s(Me_1) group all];' % op
        sx = '(aggr (spec none (list (item "Me_3" %s (expr (col "Me_1")))) _) (ds DS_1))' % op
        return self.finish('group-all-clause', fam, d, nr, vtl, sx, [op], 'all', [], [('Me_3', 'Number')], [])

    def group_all_time(self):
        """`group all time_agg("A")` over a Time_Period identifier (quarters, months, semesters, weeks, years)."""
        r = self.r
        periods = ['%d%s' % (y, suf) for y in (2019, 2020, 2021) for suf in
                   ['Q1', 'Q2', 'Q3', 'Q4', 'M01', 'M03', 'M11', 'M12', 'S1', 'S2', 'A', 'W05', 'W33']]
        two = r.random() < 0.5
        ids = [('Id_1', 'Integer'), ('Id_t', 'Time_Period')] + ([('Id_2', 'String')] if two else [])
        fam = r.choice(['num2', 'num1', 'int1'])
        meas = list(FAMILIES[fam])
        want = r.choice([0, 1, 3, 6, 14, 40, 90])
        keys = set()
        for _ in range(want * 3):
            if len(keys) >= want:
                break
            keys.add(tuple([r.choice([1, 2, 3]), r.choice(periods)] + ([r.choice(['a', 'b'])] if two else [])))
        nr = r.choice(NULL_RATES)
        rows = [tuple(list(k) + [self.value(t, nr, True) for _, t in meas]) for k in keys]
        r.shuffle(rows)
        d = {'ids': ids, 'meas': meas, 'rows': rows}
        if r.random() < 0.5:
            op = r.choice(NUM_OPS)
            vtl = 'DS_r <- %s(DS_1 group all time_agg("A"));' % op
            sx = '(aggr (spec (all "Id_t") (each %s) _) (ds DS_1))' % op
            rm = [('int_var', 'Integer')] if op == 'count' else [(n, (t if op in ('sum', 'min', 'max') else 'Number')) for n, t in meas]
            stream = 'group-all-time-standalone'
        else:
            op = r.choice(NUM_OPS)
            vtl = 'DS_r <- DS_1[aggr Me_3 := %s(Me_1), Me_4 := count() group all time_agg("A")];' % op
            sx = '(aggr (spec (all "Id_t") (list (item "Me_3" %s (expr (col "Me_1"))) (item "Me_4" count any)) _) (ds DS_1))' % op
            rm = [('Me_3', 'Number'), ('Me_4', 'Integer')]
            stream = 'group-all-time-clause'
        c = self.finish(stream, fam, d, nr, vtl, sx, [op] + (['count'] if 'clause' in stream else []), 'all-time', ids, rm, [])
        # group sizes after the conversion of the time identifier
        sizes = collections.Counter((row[0], row[1][:4]) + tuple(row[2:len(ids)]) for row in rows)
        c.update(ngroups=len(sizes), max_group=max(sizes.values()) if sizes else 0)
        return c

    def finish(self, stream, fam, d, nr, vtl, sx, ops, form, rids, rm, hops):
        env = {'DS_1': d}
        gnames = [n for n, _ in rids]
        idx = [i for i, (n, _) in enumerate(d['ids']) if n in gnames]
        sizes = collections.Counter(tuple(row[i] for i in idx) for row in d['rows'])
        nm = len(d['meas'])
        nulls = sum(1 for row in d['rows'] for v in row[len(d['ids']):] if v is None)
        mags = [abs(float(v)) for row in d['rows'] for v in row[len(d['ids']):] if isinstance(v, (int, Fraction)) and not isinstance(v, bool)]
        return {'stream': stream, 'family': fam, 'env': env, 'vtl': vtl, 'sx': sx, 'ops': ops, 'grouping': form,
                'ids': rids, 'meas': rm, 'having_ops': hops, 'having': bool(hops), 'flat': ';' in vtl[:-1], 'depth': 1,
                'nrows': len(d['rows']), 'ngroups': len(sizes), 'max_group': max(sizes.values()) if sizes else 0,
                'null_rate_param': nr, 'null_rate': (nulls / (nm * len(d['rows']))) if nm and d['rows'] else 0.0,
                'maxabs': max(mags) if mags else 0.0}

    def case(self, kind=None):
        r = self.r
        kind = kind or r.choice(['standalone'] * 5 + ['clause'] * 5 + ['two_level', 'filtered'])
        return getattr(self, kind)()


def case_to_json(case):
    def cell(v):
        return {'q': [v.numerator, v.denominator]} if isinstance(v, Fraction) else v
    c = {k: v for k, v in case.items() if k != 'env'}
    c['ids'] = [list(x) for x in case['ids']]
    c['meas'] = [list(x) for x in case['meas']]
    c['env'] = {n: {'ids': [list(x) for x in d['ids']], 'meas': [list(x) for x in d['meas']],
                    'rows': [[cell(v) for v in row] for row in d['rows']]} for n, d in case['env'].items()}
    return c


def case_from_json(c):
    def cell(v):
        return Fraction(v['q'][0], v['q'][1]) if isinstance(v, dict) else v
    c = dict(c)
    c['ids'] = [tuple(x) for x in c['ids']]
    c['meas'] = [tuple(x) for x in c['meas']]
    c['env'] = {n: {'ids': [tuple(x) for x in d['ids']], 'meas': [tuple(x) for x in d['meas']],
                    'rows': [tuple(cell(v) for v in row) for row in d['rows']]} for n, d in c['env'].items()}
    return c


def request(case):
    return '(eval %s %s)' % (G.env_sx(case['env']), case['sx'])


def perturbed(case, eps):
    """the same request with every numeric constant of the having condition moved by a relative eps
    (float-sensitivity probe: a having threshold that sits on the exact aggregate)."""
    import re
    sx = case['sx']
    i = sx.find('(having ')
    if i < 0:
        return None
    head, tail = sx[:i], sx[i:]

    def bump_i(m):
        v = Fraction(int(m.group(1)))
        w = v + eps * max(1, abs(v))
        return '(const (q %d %d))' % (w.numerator, w.denominator)

    def bump_q(m):
        v = Fraction(int(m.group(1)), int(m.group(2)))
        w = v + eps * max(1, abs(v))
        return '(const (q %d %d))' % (w.numerator, w.denominator)
    tail = re.sub(r'\(const \(i (-?\d+)\)\)', bump_i, tail)
    tail = re.sub(r'\(const \(q (-?\d+) (\d+)\)\)', bump_q, tail)
    return '(eval %s %s)' % (G.env_sx(case['env']), head + tail)


# ---------------------------------------------------------------------- comparison
def squared_of(model_ans):
    x = parse(model_ans)
    if len(x) >= 5 and isinstance(x[4], list) and x[4] and x[4][0] == ('atom', 'squared'):
        return [a[1] for a in x[4][1:]]
    return []


def num_close(m, e, scale):
    """model value m (exact) vs engine float/int e; tolerance 1e-9 relative to max(|m|, scale, 1e-0 floor)."""
    import math
    if isinstance(e, float) and (math.isnan(e) or math.isinf(e)):
        return False
    ef = Fraction(e) if isinstance(e, int) else Fraction(repr(e))
    m = Fraction(m)
    if m == ef:
        return True
    tol = Fraction(1, 10 ** 9) * max(Fraction(1), abs(m), Fraction(scale))
    return abs(m - ef) <= tol


def compare(case, model_ans, eng_out, result='DS_r'):
    """-> (verdict, detail) like runner.compare, aware of squared (stddev) measures and of the numeric scale
    of variance-type aggregates."""
    from sem import runner as R
    a = dec_answer(model_ans)
    if a[0] == 'bad':
        return 'skip:model-bad-request', model_ans
    if eng_out[0] == 'timeout':
        return 'skip:engine-timeout', None
    if a[0] == 'err' and a[1] == 'unsupported':
        return 'skip:model-unsupported', None
    if eng_out[0] == 'vtl' and eng_out[1] in ('SemanticError', 'InputValidationException'):
        if a[0] == 'ok':
            return 'REJECT:semantic:' + str(eng_out[2]), eng_out[3]
        return 'skip:semantic-reject:' + str(eng_out[2]), eng_out[3]
    if a[0] == 'err':
        return 'skip:model-' + a[1], eng_out
    if eng_out[0] != 'ok':
        return 'DISAGREE:engine-error', eng_out
    if result not in eng_out[1]:
        return 'DISAGREE:missing-result', list(eng_out[1])
    kind, comps, rows = eng_out[1][result]
    if kind == 'ds-mismatch':
        return 'DISAGREE:columns-vs-components', {'components': [c[0] for c in comps], 'data_columns': rows}
    _, ids, meas, mrows = a
    sq = set(squared_of(model_ans))
    e_ids = [c[0] for c in comps if c[1] == 'Identifier']
    e_meas = [c[0] for c in comps if c[1] != 'Identifier']
    if sorted(e_ids) != sorted(ids):
        return 'DISAGREE:identifiers', (ids, e_ids)
    if sorted(e_meas) != sorted(meas):
        return 'DISAGREE:measures', (meas, e_meas)
    e_names = [c[0] for c in comps]
    m_names = ids + meas

    def keyed(names, rws):
        out = {}
        for r in rws:
            d = dict(zip(names, r))
            k = tuple(d[i] for i in sorted(ids))
            if k in out:
                return None
            out[k] = d
        return out
    mk = keyed(m_names, mrows)
    ek = keyed(e_names, rows)
    if ek is None:
        return 'DISAGREE:engine-duplicate-keys', {'rows': len(rows), 'first': [list(map(str, r)) for r in rows[:4]]}
    if mk is None:
        return 'skip:model-duplicate-keys', mrows[:4]
    if set(mk) != set(ek):
        return 'DISAGREE:keys', {'model_only': sorted(map(str, set(mk) - set(ek)))[:6], 'engine_only': sorted(map(str, set(ek) - set(mk)))[:6],
                                 'model_groups': len(mk), 'engine_groups': len(ek)}
    item_op = dict(zip(meas, case['ops'])) if ('clause' in case['stream'] and len(case['ops']) == len(meas)) else {m: case['ops'][-1] for m in meas}
    mx = case.get('maxabs', 0.0) or 0.0
    for k in mk:
        for m in meas:
            mv, ev = mk[k][m], ek[k][m]
            op = item_op.get(m, '')
            ok = None
            if mv is not None and ev is not None and isinstance(mv, (int, Fraction)) and not isinstance(mv, bool) \
                    and isinstance(ev, (int, float)) and not isinstance(ev, bool):
                if m in sq:
                    ev2 = float(ev) * float(ev)
                    ok = float(ev) >= 0 and num_close(mv, ev2, mx * mx)
                elif op in VARIANCE:
                    ok = num_close(mv, ev, mx * mx)
                else:
                    ok = num_close(mv, ev, mx)
            else:
                ok = R.val_eq(mv, ev)
            if not ok:
                return 'DISAGREE:value', {'key': k, 'measure': m, 'op': op, 'model': str(mv) + (' (variance; engine value is squared before comparing)' if m in sq else ''), 'engine': ev}
    return 'agree', len(mk)

"""Type-directed generator of (structures, data, VTL script, model S-expression) cases for the
value-semantics correspondence (C01 element-wise, C02 clauses, C05 set operators; reused by C10/C33).

Every random choice comes from the `rng` passed in (derived from VERIF_SEED)."""
from fractions import Fraction
import json

from .sx import enc_value

NUM = ('Integer', 'Number')
INT_POOL = [0, 1, -1, 2, 3, -3, 5, 7, 10, -12, 100, 2147483647, -2147483648]
NUM_POOL = [Fraction(0), Fraction(1), Fraction(-1), Fraction(5, 2), Fraction(-5, 2), Fraction(1, 8), Fraction(3, 2),
            Fraction(-29, 4), Fraction(1, 10), Fraction(333, 100), Fraction(1001, 1000), Fraction(12), Fraction(-1, 4),
            Fraction(9999, 10)]
STR_POOL = ['', 'a', 'B', 'ab', ' aB ', 'x€', 'abcabc', 'Zz9', '  ', 'a b', '日1', 'AbC', 'ba']   # non-ASCII only caseless (model's upper/lower are ASCII)
BOOL_POOL = [True, False]
ID_INT = [1, 2, 3, 4]
ID_STR = ['a', 'b', 'c']


def vtl_const(v):
    if v is None:
        return 'null'
    if isinstance(v, bool):
        return 'true' if v else 'false'
    if isinstance(v, int):
        return str(v) if v >= 0 else '(%d)' % v if False else str(v)
    if isinstance(v, Fraction):
        s = fmt_frac(v)
        return s
    if isinstance(v, str):
        return '"%s"' % v
    raise TypeError(v)


def fmt_frac(f):
    # exact decimal rendering (pool values have finite decimal expansions)
    neg = f < 0
    f = abs(f)
    ip = f.numerator // f.denominator
    rem = f - ip
    digs = ''
    for _ in range(12):
        if rem == 0:
            break
        rem *= 10
        d = rem.numerator // rem.denominator
        digs += str(d)
        rem -= d
    assert rem == 0, f
    s = '%d.%s' % (ip, digs or '0')
    return ('-' + s) if neg else s


def name_sx(n):
    return json.dumps(n)


class Node:
    def __init__(self, vtl, sx, ids, meas, ops=()):
        self.vtl, self.sx, self.ids, self.meas, self.ops = vtl, sx, list(ids), list(meas), tuple(ops)

    def mono(self):
        return len(self.meas) == 1

    def mtypes(self):
        return [t for _, t in self.meas]

    def allnum(self):
        return bool(self.meas) and all(t in NUM for t in self.mtypes())


class Gen:
    def __init__(self, rng, families=None, max_rows=8, null_rate=0.2, flat=False, allow=None, nary_intersect=False, shuffle_decl=False, nonnull_decl=False):
        self.nary_intersect = nary_intersect
        self.nonnull_decl = nonnull_decl      # declare some measures non-nullable (their columns then hold no null)
        self.shuffle_decl = shuffle_decl      # declare the components of some operands in another order
        self.r = rng
        self.allow = set(allow) if allow else None
        self.flat = flat          # three-address form: one dataset-level operator per statement
        self.stmts = []
        self.ntemp = 0
        self.families = families or ['num2', 'num1', 'int1', 'str1', 'bool1']
        self.max_rows = max_rows
        self.null_rate = null_rate

    # ------------------------------------------------------------------ inputs
    def pool(self, t):
        return {'Integer': INT_POOL, 'Number': NUM_POOL, 'String': STR_POOL, 'Boolean': BOOL_POOL}[t]

    def small(self, t):
        r = self.r
        if t == 'Integer':
            return r.choice([0, 1, 2, 3, -1, 5, 10, -3])
        if t == 'Number':
            return r.choice([Fraction(0), Fraction(1), Fraction(5, 2), Fraction(-3, 2), Fraction(1, 4), Fraction(2), Fraction(1, 10)])
        if t == 'String':
            return r.choice(['a', 'B', 'ab', '', ' ', 'x€', 'b'])
        return r.choice(BOOL_POOL)

    def value(self, t, nullable=True):
        r = self.r
        if nullable and r.random() < self.null_rate:
            return None
        if t == 'Integer':
            return r.choice(INT_POOL) if r.random() < 0.5 else r.randint(-20, 20)
        if t == 'Number':
            return r.choice(NUM_POOL) if r.random() < 0.6 else Fraction(r.randint(-5000, 5000), r.choice([1, 2, 4, 5, 10, 100, 1000]))
        return r.choice(self.pool(t))

    def make_inputs(self):
        r = self.r
        fam = r.choice(self.families)
        two_ids = r.random() < 0.6
        full_ids = [('Id_1', 'Integer')] + ([('Id_2', 'String')] if two_ids else [])
        meas = {'num2': [('Me_1', 'Number'), ('Me_2', 'Integer')], 'num1': [('Me_1', 'Number')],
                'int1': [('Me_1', 'Integer')], 'str1': [('Me_1', 'String')], 'bool1': [('Me_1', 'Boolean')]}[fam]
        n = r.choice([1, 2, 2, 3, 3])
        env = {}
        for k in range(1, n + 1):
            ids = full_ids if (k == 1 or not two_ids or r.random() < 0.6) else full_ids[:1]
            nrows = r.choice([0, 1, 2, 3, 4, 5, 6, self.max_rows])
            keys = set()
            for _ in range(nrows):
                keys.add(tuple(r.choice(ID_INT) if t == 'Integer' else r.choice(ID_STR) for _, t in ids))
            nn = [m for m, _ in meas if self.nonnull_decl and r.random() < 0.4]
            rows = [tuple(list(key) + [self.value(t, nullable=(m not in nn)) for m, t in meas]) for key in sorted(keys)]
            r.shuffle(rows)
            env['DS_%d' % k] = {'ids': list(ids), 'meas': list(meas), 'rows': rows}
            if nn:
                env['DS_%d' % k]['nn'] = nn
            if self.shuffle_decl and r.random() < 0.5:
                decl = [c for c, _ in list(ids) + list(meas)]
                r.shuffle(decl)
                env['DS_%d' % k]['decl'] = decl
        return fam, env

    # ------------------------------------------------------------------ component expressions
    def ccond(self, comps):
        """a component-level Boolean condition (the engine rejects if/case whose condition is a constant
        while a branch is a component)."""
        r = self.r
        n, t = r.choice(comps)
        if t == 'Boolean':
            return n, '(col %s)' % name_sx(n)
        if r.random() < 0.2:
            return 'isnull(%s)' % n, '(un isnull (col %s))' % name_sx(n)
        op, sxop = r.choice([('=', 'eq'), ('<>', 'ne'), ('<', 'lt'), ('<=', 'le'), ('>', 'gt'), ('>=', 'ge')])
        v = self.small(t)
        return '(%s %s %s)' % (n, op, vtl_const(v)), '(bin %s (col %s) (const %s))' % (sxop, name_sx(n), enc_value(v))

    def cexpr(self, comps, want, depth):
        """expression over the components of the current row of type `want` -> (vtl, sx)."""
        r = self.r
        cols = [n for n, t in comps if t == want or (want == 'Number' and t == 'Integer')]
        if depth <= 0 or r.random() < 0.3:
            if cols and r.random() < 0.75:
                n = r.choice(cols)
                return n, '(col %s)' % name_sx(n)
            v = self.small(want)
            return vtl_const(v), '(const %s)' % enc_value(v)
        if r.random() < 0.18:
            # conditional operators at component level: if-then-else / case (the engine's documented
            # priority is "last true condition wins": the model gets the equivalent nested ite)
            c1 = self.ccond(comps)
            a = self.cexpr(comps, want, depth - 1)
            b = self.cexpr(comps, want, depth - 1)
            if r.random() < 0.5:
                return ('(if %s then %s else %s)' % (c1[0], a[0], b[0]), '(tern ite %s %s %s)' % (c1[1], a[1], b[1]))
            c2 = self.ccond(comps)
            d = self.cexpr(comps, want, depth - 1)
            return ('(case when %s then %s when %s then %s else %s)' % (c1[0], a[0], c2[0], b[0], d[0]),
                    '(tern ite %s %s (tern ite %s %s %s))' % (c2[1], b[1], c1[1], a[1], d[1]))
        if want == 'Boolean' and r.random() < 0.2:
            t = r.choice([t for _, t in comps if t in ('Integer', 'Number', 'String')] or ['Integer'])
            x = self.cexpr(comps, t, depth - 1)
            if r.random() < 0.5:
                lo, hi = self.small(t), self.small(t)
                return ('between(%s, %s, %s)' % (x[0], vtl_const(lo), vtl_const(hi)),
                        '(tern between %s (const %s) (const %s))' % (x[1], enc_value(lo), enc_value(hi)))
            vs = []
            for _ in range(r.choice([1, 2, 3])):
                v = self.small(t)
                if v not in vs:
                    vs.append(v)
            neg = r.random() < 0.4
            return ('(%s %s {%s})' % (x[0], 'not_in' if neg else 'in', ', '.join(vtl_const(v) for v in vs)),
                    '(%s %s (%s))' % ('notin' if neg else 'in', x[1], ' '.join(enc_value(v) for v in vs)))
        if want in NUM:
            k = r.random()
            a = self.cexpr(comps, want, depth - 1)
            if k < 0.55:
                op, sxop = r.choice([('+', 'add'), ('-', 'sub'), ('*', 'mul')])
                b = self.cexpr(comps, want, depth - 1)
                return '(%s %s %s)' % (a[0], op, b[0]), '(bin %s %s %s)' % (sxop, a[1], b[1])
            if k < 0.7:
                f, sxop = r.choice([('abs', 'abs'), ('-', 'neg')])
                return ('%s(%s)' % (f, a[0]) if f != '-' else '(-%s)' % a[0]), '(un %s %s)' % (sxop, a[1])
            if k < 0.85 and want == 'Number':
                c = r.choice([Fraction(2), Fraction(4), Fraction(-5, 2), Fraction(10), Fraction(1, 2)])
                return '(%s / %s)' % (a[0], vtl_const(c)), '(bin div %s (const %s))' % (a[1], enc_value(c))
            d = self.small(want)
            return 'nvl(%s, %s)' % (a[0], vtl_const(d)), '(bin nvl %s (const %s))' % (a[1], enc_value(d))
        if want == 'String':
            a = self.cexpr(comps, 'String', depth - 1)
            k = r.random()
            if k < 0.4:
                b = self.cexpr(comps, 'String', depth - 1)
                return '(%s || %s)' % (a[0], b[0]), '(bin concat %s %s)' % (a[1], b[1])
            f = r.choice(['upper', 'lower', 'trim', 'ltrim', 'rtrim'])
            return '%s(%s)' % (f, a[0]), '(un %s %s)' % (f, a[1])
        if want == 'Boolean':
            k = r.random()
            if k < 0.5:
                t = r.choice([t for _, t in comps if t in ('Integer', 'Number', 'String')] or ['Integer'])
                a = self.cexpr(comps, t, depth - 1)
                b = self.cexpr(comps, t, depth - 1)
                op, sxop = r.choice([('=', 'eq'), ('<>', 'ne'), ('<', 'lt'), ('<=', 'le'), ('>', 'gt'), ('>=', 'ge')])
                return '(%s %s %s)' % (a[0], op, b[0]), '(bin %s %s %s)' % (sxop, a[1], b[1])
            if k < 0.6:
                cs = [n for n, _ in comps]
                n = r.choice(cs)
                return 'isnull(%s)' % n, '(un isnull (col %s))' % name_sx(n)
            a = self.cexpr(comps, 'Boolean', depth - 1)
            if k < 0.7:
                return '(not %s)' % a[0], '(un not %s)' % a[1]
            b = self.cexpr(comps, 'Boolean', depth - 1)
            op = r.choice(['and', 'or', 'xor'])
            return '(%s %s %s)' % (a[0], op, b[0]), '(bin %s %s %s)' % (op, a[1], b[1])
        raise ValueError(want)

    # ------------------------------------------------------------------ dataset expressions
    def leaf(self, env, like=None):
        """an input dataset (with the structure of `like` if given)."""
        names = list(env)
        self.r.shuffle(names)
        for n in names:
            d = env[n]
            if like is None or (d['ids'] == like.ids and d['meas'] == like.meas):
                return Node(n, '(ds %s)' % n, d['ids'], d['meas'])
        return None

    def partner(self, env, node, depth):
        """a dataset expression whose measures equal node's and whose ids are a sub/superset."""
        cands = []
        for n, d in env.items():
            if d['meas'] == node.meas and (set(map(tuple, d['ids'])) <= set(map(tuple, node.ids)) or set(map(tuple, node.ids)) <= set(map(tuple, d['ids']))):
                cands.append(Node(n, '(ds %s)' % n, d['ids'], d['meas']))
        if not cands:
            return None
        p = self.r.choice(cands)
        for _ in range(self.r.choice([0, 0, 1]) if depth > 0 else 0):
            q = self.step(env, p, 0, preserve=True)
            if q is not None and q.meas == node.meas:
                p = q
        return p

    def mat(self, node):
        """flat mode: materialise a non-leaf operand as its own statement `T_k := expr;`."""
        if not self.flat or node is None or not node.ops:
            return node
        if getattr(node, 'temp', None):
            return node
        self.ntemp += 1
        t = 'T_%d' % self.ntemp
        self.stmts.append('%s := %s;' % (t, node.vtl))
        n = Node(t, node.sx, node.ids, node.meas, node.ops)
        n.temp = t
        return n

    def mapm(self, node, vtl, body, meas, out=None, op=''):
        sx = '(mapm %s %s %s)' % (node.sx, body, name_sx(out) if out else '_')
        return Node(vtl, sx, node.ids, meas, node.ops + (op,))

    def step(self, env, node, depth, preserve=False, kinds=None):
        """apply one random applicable operator to `node`; `preserve` keeps measure names/types."""
        r = self.r
        choices = []
        mono = node.mono()
        mt = node.mtypes()
        if node.allnum():
            choices += ['arith_c', 'arith_c', 'unary_num', 'nvl', 'zip_arith', 'zip_arith', 'mod_c']
            if not preserve:
                choices += ['round', 'power', 'ceilfloor', 'irr']
            if mono and not preserve:
                choices += ['cmp_c', 'between', 'in', 'isnull', 'zip_cmp']
        elif mono and mt == ['String']:
            choices += ['concat_c', 'str_un', 'substr', 'replace', 'nvl', 'zip_concat']
            if not preserve:
                choices += ['cmp_c', 'length', 'in', 'isnull', 'zip_cmp']
        elif mono and mt == ['Boolean']:
            choices += ['not', 'bool_c', 'bool_c', 'zip_bool', 'zip_bool', 'nvl']
            if not preserve:
                choices += ['cmp_c', 'isnull']
        choices += ['filter', 'filter']
        if not preserve:
            choices += ['calc', 'calc', 'rename', 'keepdrop']
            if len(node.ids) > 1:
                choices += ['sub']
        choices += ['setop', 'setop', 'ifd']
        if self.allow is not None and not kinds:
            choices = [c for c in choices if c in self.allow]
            if not choices:
                return None
        if kinds:
            choices = [c for c in choices if c in kinds] or choices
        k = r.choice(choices)
        node = self.mat(node)
        ms = node.meas
        v, sx = node.vtl, node.sx

        def tnum(a, b):
            return 'Number' if 'Number' in (a, b) else 'Integer'

        if k == 'arith_c':
            op, sxop = r.choice([('+', 'add'), ('-', 'sub'), ('*', 'mul'), ('/', 'div')])
            ct = r.choice(['Integer', 'Number'])
            c = self.small(ct)
            if sxop == 'div' and c == 0 and r.random() < 0.7:
                c = Fraction(2) if ct == 'Number' else 2
            left = r.random() < 0.7
            body = '(bin %s hole (const %s))' % (sxop, enc_value(c)) if left else '(bin %s (const %s) hole)' % (sxop, enc_value(c))
            vt = '(%s %s %s)' % (v, op, vtl_const(c)) if left else '(%s %s %s)' % (vtl_const(c), op, v)
            nm = [(n, 'Number' if sxop == 'div' else tnum(t, ct)) for n, t in ms]
            return self.mapm(node, vt, body, nm, op=sxop)
        if k == 'mod_c':
            ct = r.choice(['Integer', 'Number'])
            c = r.choice([1, 2, 3, 5, -3, 0, 10]) if ct == 'Integer' else r.choice([Fraction(1, 2), Fraction(5, 2), Fraction(1, 4), Fraction(2), Fraction(-3, 2), Fraction(0)])
            nm = [(n, tnum(t, ct)) for n, t in ms]
            return self.mapm(node, 'mod(%s, %s)' % (v, vtl_const(c)), '(bin mod hole (const %s))' % enc_value(c), nm, op='mod')
        if k == 'unary_num':
            f, sxop = r.choice([('abs(%s)', 'abs'), ('(-%s)', 'neg'), ('(+%s)', 'plus')])
            return self.mapm(node, f % v, '(un %s hole)' % sxop, ms, op=sxop)
        if k == 'ceilfloor':
            f = r.choice(['ceil', 'floor'])
            nm = [(n, 'Integer') for n, _ in ms]
            out = 'int_var' if mono else None
            if out:
                nm = [('int_var', 'Integer')]
            return self.mapm(node, '%s(%s)' % (f, v), '(un %s hole)' % f, nm, out, op=f)
        if k == 'round':
            f = r.choice(['round', 'trunc'])
            p = r.choice([0, 1, 2, 3, -1])
            return self.mapm(node, '%s(%s, %d)' % (f, v, p), '(%s hole (const (i %d)))' % (f, p), [(n, 'Number') for n, _ in ms], op=f)
        if k == 'power':
            p = r.choice([0, 1, 2, 3, -1, -2])
            return self.mapm(node, 'power(%s, %d)' % (v, p), '(bin power hole (const (i %d)))' % p, [(n, 'Number') for n, _ in ms], op='power')
        if k == 'nvl':
            t = mt[0]
            if len(set(mt)) > 1:
                t = 'Integer'
            c = self.small(t)
            nm = ms
            if t == 'Integer' and all(x in NUM for x in mt) and r.random() < 0.35:
                # a Number default for Integer measures: the result takes the promoted type (Number) and keeps the fraction
                c = r.choice([Fraction(5, 2), Fraction(-3, 2), Fraction(1, 4)])
                nm = [(n, 'Number') for n, _ in ms]
            return self.mapm(node, 'nvl(%s, %s)' % (v, vtl_const(c)), '(bin nvl hole (const %s))' % enc_value(c), nm, op='nvl')
        if k == 'cmp_c':
            op, sxop = r.choice([('=', 'eq'), ('<>', 'ne'), ('<', 'lt'), ('<=', 'le'), ('>', 'gt'), ('>=', 'ge')])
            t = mt[0]
            if t == 'Boolean':
                op, sxop = r.choice([('=', 'eq'), ('<>', 'ne')])
            c = self.small(t if t != 'Integer' else r.choice(NUM))
            return self.mapm(node, '(%s %s %s)' % (v, op, vtl_const(c)), '(bin %s hole (const %s))' % (sxop, enc_value(c)),
                             [('bool_var', 'Boolean')], 'bool_var', op='cmp')
        if k == 'between':
            t = mt[0]
            a, b = self.small(t), self.small(t)
            return self.mapm(node, 'between(%s, %s, %s)' % (v, vtl_const(a), vtl_const(b)),
                             '(tern between hole (const %s) (const %s))' % (enc_value(a), enc_value(b)),
                             [('bool_var', 'Boolean')], 'bool_var', op='between')
        if k == 'in':
            t = mt[0]
            vs = []
            for _ in range(r.choice([1, 2, 3])):
                x = self.small(t)
                if x not in vs:
                    vs.append(x)
            neg = r.random() < 0.4
            return self.mapm(node, '(%s %s {%s})' % (v, 'not_in' if neg else 'in', ', '.join(vtl_const(x) for x in vs)),
                             '(%s hole (%s))' % ('notin' if neg else 'in', ' '.join(enc_value(x) for x in vs)),
                             [('bool_var', 'Boolean')], 'bool_var', op='in')
        if k == 'isnull':
            return self.mapm(node, 'isnull(%s)' % v, '(un isnull hole)', [('bool_var', 'Boolean')], 'bool_var', op='isnull')
        if k == 'concat_c':
            c = self.small('String')
            left = r.random() < 0.7
            return self.mapm(node, '(%s || %s)' % ((v, vtl_const(c)) if left else (vtl_const(c), v)),
                             '(bin concat hole (const %s))' % enc_value(c) if left else '(bin concat (const %s) hole)' % enc_value(c), ms, op='concat')
        if k == 'str_un':
            f = r.choice(['upper', 'lower', 'trim', 'ltrim', 'rtrim'])
            return self.mapm(node, '%s(%s)' % (f, v), '(un %s hole)' % f, ms, op=f)
        if k == 'length':
            return self.mapm(node, 'length(%s)' % v, '(un len hole)', [('int_var', 'Integer')], 'int_var', op='length')
        if k == 'substr':
            s, l = r.choice([1, 1, 2, 3, 5]), r.choice([0, 1, 2, 10])
            if r.random() < 0.3:
                return self.mapm(node, 'substr(%s, %d)' % (v, s), '(tern substr hole (const (i %d)) (const n))' % s, ms, op='substr')
            return self.mapm(node, 'substr(%s, %d, %d)' % (v, s, l), '(tern substr hole (const (i %d)) (const (i %d)))' % (s, l), ms, op='substr')
        if k == 'replace':
            p, q = r.choice(['a', 'b', 'ab', 'B', ' ']), r.choice(['', 'x', 'aa', 'B'])
            return self.mapm(node, 'replace(%s, "%s", "%s")' % (v, p, q), '(tern replace hole (const %s) (const %s))' % (enc_value(p), enc_value(q)), ms, op='replace')
        if k == 'not':
            return self.mapm(node, '(not %s)' % v, '(un not hole)', ms, op='not')
        if k == 'bool_c':
            op = r.choice(['and', 'or', 'xor'])
            c = r.choice([True, False])
            left = r.random() < 0.7
            return self.mapm(node, '(%s %s %s)' % ((v, op, vtl_const(c)) if left else (vtl_const(c), op, v)),
                             '(bin %s hole (const %s))' % (op, enc_value(c)) if left else '(bin %s (const %s) hole)' % (op, enc_value(c)), ms, op=op)
        if k.startswith('zip_'):
            other = self.mat(self.partner(env, node, depth))
            if other is None:
                return None
            if k == 'zip_arith':
                op, sxop = r.choice([('+', 'add'), ('-', 'sub'), ('*', 'mul'), ('/', 'div'), ('mod', 'mod')])
                nm = [(n, 'Number' if sxop == 'div' else t) for (n, t) in ms]
                out = None
            elif k == 'zip_cmp':
                op, sxop = r.choice([('=', 'eq'), ('<>', 'ne'), ('<', 'lt'), ('<=', 'le'), ('>', 'gt'), ('>=', 'ge')])
                nm, out = [('bool_var', 'Boolean')], 'bool_var'
            elif k == 'zip_concat':
                op, sxop, nm, out = '||', 'concat', ms, None
            else:
                op = sxop = r.choice(['and', 'or', 'xor'])
                nm, out = ms, None
            a, b = (node, other) if r.random() < 0.5 else (other, node)
            ids = a.ids if len(a.ids) >= len(b.ids) else b.ids
            vt = 'mod(%s, %s)' % (a.vtl, b.vtl) if op == 'mod' else '(%s %s %s)' % (a.vtl, op, b.vtl)
            sxx = '(zip %s %s (bin %s hole hole2) %s)' % (a.sx, b.sx, sxop, name_sx(out) if out else '_')
            return Node(vt, sxx, ids, nm, a.ops + b.ops + ('zip_' + sxop,))
        comps = node.ids + node.meas
        if k == 'filter':
            c = self.cexpr(comps, 'Boolean', r.choice([1, 2]))
            return Node('%s[filter %s]' % (v, c[0]), '(filter %s %s)' % (sx, c[1]), node.ids, ms, node.ops + ('filter',))
        if k == 'calc':
            items, names = [], []
            for _ in range(r.choice([1, 1, 2])):
                t = r.choice(['Integer', 'Number', 'String', 'Boolean'])
                if t == 'Number' and not any(tt in NUM for _, tt in comps):
                    t = 'Integer'
                nm = r.choice(['Me_1', 'Me_2', 'Me_3', 'Me_4'])
                if nm in names:
                    continue
                e = self.cexpr(comps, t, r.choice([1, 2]))
                rt = t
                if t == 'Integer' and ' / ' in e[0]:
                    rt = 'Number'
                items.append((nm, rt, e)); names.append(nm)
            nm2 = [(n, t) for n, t in ms if n not in names] + [(n, t) for n, t, _ in items]
            return Node('%s[calc %s]' % (v, ', '.join('%s := %s' % (n, e[0]) for n, _, e in items)),
                        '(calc %s (%s))' % (sx, ' '.join('(%s %s)' % (name_sx(n), e[1]) for n, _, e in items)), node.ids, nm2, node.ops + ('calc',))
        if k == 'keepdrop':
            if len(ms) < 2:
                return None
            n = r.choice(ms)[0]
            if r.random() < 0.5:
                return Node('%s[keep %s]' % (v, n), '(keep %s (%s))' % (sx, name_sx(n)), node.ids, [m for m in ms if m[0] == n], node.ops + ('keep',))
            return Node('%s[drop %s]' % (v, n), '(drop %s (%s))' % (sx, name_sx(n)), node.ids, [m for m in ms if m[0] != n], node.ops + ('drop',))
        if k == 'rename':
            names = [c[0] for c in comps]
            mode = r.random()
            pairs = []
            if mode < 0.25 and len(ms) >= 2:
                # swap or rotation of measure names inside ONE rename clause (simultaneous renaming)
                cyc = [m[0] for m in ms][:r.choice([2, 3])]
                pairs = [(cyc[i], cyc[(i + 1) % len(cyc)]) for i in range(len(cyc))]
            elif mode < 0.45 and len(ms) >= 2:
                # shift: Me_a -> Me_b, Me_b -> fresh (in either textual order)
                a, b = ms[0][0], ms[1][0]
                pairs = [(a, b), (b, b + 'y')]
                if r.random() < 0.5:
                    pairs.reverse()
            else:
                for old_ in r.sample(names, r.choice([1, 1, 2]) if len(names) > 1 else 1):
                    pairs.append((old_, old_ + 'x'))
            mp = dict(pairs)
            final = [mp.get(n, n) for n in names]
            if len(set(final)) != len(final):
                return None
            ren = lambda l: [(mp.get(n, n), t) for n, t in l]  # noqa: E731
            return Node('%s[rename %s]' % (v, ', '.join('%s to %s' % p_ for p_ in pairs)),
                        '(rename %s (%s))' % (sx, ' '.join('(%s %s)' % (name_sx(a_), name_sx(b_)) for a_, b_ in pairs)),
                        ren(node.ids), ren(ms), node.ops + ('rename',))
        if k == 'sub':
            i, t = r.choice(node.ids)
            val = r.choice(ID_INT) if t == 'Integer' else r.choice(ID_STR)
            return Node('%s[sub %s = %s]' % (v, i, vtl_const(val)), '(sub %s ((%s %s)))' % (sx, name_sx(i), enc_value(val)),
                        [x for x in node.ids if x[0] != i], ms, node.ops + ('sub',))
        if k == 'irr':
            # irrational numeric functions: the model evaluates the operand exactly; the harness applies the
            # function in floating point to the model's operand values (see runner.compare, case['post'])
            f = r.choice(['sqrt', 'exp', 'ln', 'log', 'powf'])
            if f == 'log':
                base = r.choice([2, 10, 3])
                vt, post = 'log(%s, %d)' % (v, base), ['log', base]
            elif f == 'powf':
                ex = r.choice([Fraction(1, 2), Fraction(3, 2), Fraction(-1, 2), Fraction(5, 2)])
                vt, post = 'power(%s, %s)' % (v, vtl_const(ex)), ['powf', float(ex)]
            else:
                vt, post = '%s(%s)' % (f, v), [f]
            n = Node(vt, sx, node.ids, [(nm, 'Number') for nm, _ in ms], node.ops + ('irr_' + f,))
            n.post = post
            return n
        if k == 'ifd':
            # dataset-level if-then-else: the condition refers to components of a condition dataset
            # (`DS#comp`, the form the engine supports); then/else are datasets with the structure of `node`
            # or scalar constants
            cands = [n for n, d in env.items() if d['ids'] == node.ids]
            if not cands or not node.meas:
                return None
            cn = r.choice(cands)
            cd = env[cn]
            mname, mtype = r.choice(cd['meas'])
            ref = '%s#%s' % (cn, mname)
            if mtype == 'Boolean' and r.random() < 0.6:
                cv, cs = ref, '(col %s)' % name_sx(mname)
            elif r.random() < 0.25:
                cv, cs = 'isnull(%s)' % ref, '(un isnull (col %s))' % name_sx(mname)
            else:
                op, sxop = r.choice([('=', 'eq'), ('<>', 'ne'), ('<', 'lt'), ('<=', 'le'), ('>', 'gt'), ('>=', 'ge')])
                if mtype == 'Boolean':
                    op, sxop = r.choice([('=', 'eq'), ('<>', 'ne')])
                c = self.small(mtype)
                cv, cs = '%s %s %s' % (ref, op, vtl_const(c)), '(bin %s (col %s) (const %s))' % (sxop, name_sx(mname), enc_value(c))
            other = self.mat(self.leaf(env, like=node))
            if other is None:
                return None
            shape = r.choice(['dd', 'dd', 'ds', 'sd'])
            mt0 = node.mtypes()
            sc_ok = len(set(mt0)) == 1
            if shape != 'dd' and not sc_ok:
                shape = 'dd'
            a, b = (node, other) if r.random() < 0.5 else (other, node)
            if shape == 'dd':
                return Node('if %s then %s else %s' % (cv, a.vtl, b.vtl), '(ifd (ds %s) %s %s %s)' % (cn, cs, a.sx, b.sx),
                            node.ids, node.meas, a.ops + b.ops + ('ifd',))
            c = self.small(mt0[0])
            if shape == 'ds':
                return Node('if %s then %s else %s' % (cv, a.vtl, vtl_const(c)), '(ifd (ds %s) %s %s (sc %s))' % (cn, cs, a.sx, enc_value(c)),
                            node.ids, node.meas, a.ops + ('ifd',))
            return Node('if %s then %s else %s' % (cv, vtl_const(c), a.vtl), '(ifd (ds %s) %s (sc %s) %s)' % (cn, cs, enc_value(c), a.sx),
                        node.ids, node.meas, a.ops + ('ifd',))
        if k == 'setop':
            other = self.leaf(env, like=node)
            if other is None:
                return None
            if r.random() < 0.4:
                o2 = self.step(env, other, 0, preserve=True, kinds=['arith_c', 'unary_num', 'concat_c', 'str_un', 'not', 'filter'])
                if o2 is not None and o2.meas == node.meas and o2.ids == node.ids:
                    other = o2
            other = self.mat(other)
            op = r.choice(['union', 'intersect', 'setdiff', 'symdiff'])
            a, b = (node, other) if r.random() < 0.5 else (other, node)
            operands = [a, b]
            if (op == 'union' or (op == 'intersect' and self.nary_intersect)) and r.random() < 0.35:      # n-ary forms the grammar allows
                for _ in range(r.choice([1, 2])):
                    extra = self.leaf(env, like=node)
                    if extra is not None:
                        operands.append(extra)
            sxx = operands[0].sx
            for o in operands[1:]:
                sxx = '(%s %s %s)' % (op, sxx, o.sx)
            allops = tuple(x for o in operands for x in o.ops)
            return Node('%s(%s)' % (op, ', '.join(o.vtl for o in operands)), sxx, a.ids, a.meas,
                        allops + ((op if len(operands) == 2 else '%s%d' % (op, len(operands))),))
        return None

    def dexpr(self, env, depth, kinds=None):
        node = self.leaf(env)
        self.max_meas = max(getattr(self, 'max_meas', 0), len(node.meas))
        for i in range(depth):
            nxt = None
            if getattr(node, 'post', None):
                break
            node = self.mat(node)
            for _ in range(6):
                nxt = self.step(env, node, depth - i - 1, kinds=kinds if i == depth - 1 else None)
                if nxt is not None:
                    break
            if nxt is None:
                break
            node = nxt
            self.max_meas = max(getattr(self, 'max_meas', 0), len(node.meas))
        return node

    # ------------------------------------------------------------------ a whole case
    def case(self, depth=None, kinds=None):
        fam, env = self.make_inputs()
        d = depth if depth is not None else self.r.choice([1, 1, 2, 2, 3, 4])
        self.stmts, self.ntemp, self.max_meas = [], 0, 0
        node = self.dexpr(env, d, kinds)
        vtl = 'DS_r <- %s;' % node.vtl
        script = ' '.join(self.stmts + [vtl])
        return {'family': fam, 'env': env, 'vtl': script, 'sx': node.sx, 'ops': list(node.ops), 'max_meas': self.max_meas,
                'post': getattr(node, 'post', None),
                'ids': node.ids, 'meas': node.meas, 'flat': self.flat, 'depth': len(node.ops)}


def env_sx(env):
    parts = []
    for n, d in env.items():
        rows = ' '.join('(' + ' '.join(enc_value(v) for v in row) + ')' for row in d['rows'])
        parts.append('(%s (%s) (%s) (%s))' % (n, ' '.join(name_sx(i) for i, _ in d['ids']), ' '.join(name_sx(m) for m, _ in d['meas']), rows))
    return '(' + ' '.join(parts) + ')'


def request(case):
    return '(eval %s %s)' % (env_sx(case['env']), case['sx'])


def structures(env):
    dss = []
    for n, d in env.items():
        comps = [{'name': i, 'type': t, 'role': 'Identifier', 'nullable': False} for i, t in d['ids']]
        comps += [{'name': m, 'type': t, 'role': 'Measure', 'nullable': m not in (d.get('nn') or ())} for m, t in d['meas']]
        if d.get('decl'):        # same components, declared in another order
            comps.sort(key=lambda c: d['decl'].index(c['name']))
        dss.append({'name': n, 'DataStructure': comps})
    return {'datasets': dss}


def dataframes(env):
    import pandas as pd
    out = {}
    for n, d in env.items():
        cols = [c for c, _ in d['ids'] + d['meas']]
        types = [t for _, t in d['ids'] + d['meas']]
        data = {}
        for j, (c, t) in enumerate(zip(cols, types)):
            vals = [row[j] for row in d['rows']]
            if t == 'Number':
                data[c] = pd.array([None if v is None else float(v) for v in vals], dtype='Float64')
            elif t == 'Integer':
                data[c] = pd.array(vals, dtype='Int64')
            elif t == 'Boolean':
                data[c] = pd.array(vals, dtype='boolean')
            else:
                data[c] = pd.array(vals, dtype='string')
        out[n] = pd.DataFrame(data, columns=d.get('decl') or cols)
    return out

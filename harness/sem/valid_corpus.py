"""Second independent oracle for the hierarchical-ruleset model (C07): the upstream test corpus
(`tests/Hierarchical`, `tests/Validation`) — scripts with ONE hierarchical ruleset and ONE hierarchy / check_hierarchy
statement over an input dataset, with the reference output stored next to them.  The script is parsed with the
repository's own `create_ast`; the rules are TRANSCRIBED (left item, comparison, signed right side, errorcode/level,
simple `when` comparisons) into the model's protocol; everything else is skipped and counted."""
import csv
import glob
import json
import os
import re
from fractions import Fraction

from . import gen as G
from .gen_valid import VGen
from .sx import enc_value

OPSYM = {'=': 'eq', '<': 'lt', '<=': 'le', '>': 'gt', '>=': 'ge', '<>': 'ne'}


class Skip(Exception):
    pass


def _flat(node, neg, out):
    cls = type(node).__name__
    if cls == 'DefIdentifier':
        if getattr(node, '_right_condition', None) is not None:
            raise Skip('right-side condition')
        out.append((neg, node.value))
    elif cls == 'HRBinOp':
        _flat(node.left, neg, out)
        _flat(node.right, neg != (node.op == '-'), out)
    elif cls == 'HRUnOp':
        _flat(node.operand, neg != (node.op == '-'), out)
    else:
        raise Skip('node ' + cls)


def _cond(node, mapping):
    """a `when` condition made of comparisons / and / or over condition components and constants."""
    cls = type(node).__name__
    if cls in ('DefIdentifier', 'VarID'):
        return '(col %s)' % G.name_sx(mapping.get(node.value, node.value))
    if cls == 'Constant':
        v = node.value
        if isinstance(v, float):
            v = Fraction(repr(v))
        return '(const %s)' % enc_value(v)
    if cls in ('HRBinOp', 'BinOp') and node.op in OPSYM:
        return '(bin %s %s %s)' % (OPSYM[node.op], _cond(node.left, mapping), _cond(node.right, mapping))
    if cls in ('HRBinOp', 'BinOp') and node.op in ('and', 'or', 'xor'):
        return '(bin %s %s %s)' % (node.op, _cond(node.left, mapping), _cond(node.right, mapping))
    if cls in ('HRUnOp', 'UnaryOp') and node.op == 'not':
        return '(un not %s)' % _cond(node.operand, mapping)
    if cls == 'ParFunction':
        return _cond(node.operand, mapping)
    raise Skip('when-condition node ' + cls)


def _lit(v):
    if isinstance(v, float):
        return Fraction(repr(v)) if v != int(v) else int(v)
    return v


def valid_order(rules):
    """the `=` rules in an order that respects their dependencies (Kahn); None when cyclic."""
    todo = list(rules)
    out = []
    while todo:
        defined = {r['left'] for r in todo}
        pick = [r for r in todo if not any(it in defined and it != r['left'] for _, it in r['right']) and
                not any(it == r['left'] for _, it in r['right'])]
        if not pick:
            return None
        out.append(pick[0])
        todo.remove(pick[0])
    return out


def _conv(t, s):
    if s is None or s == '':
        return None
    if t == 'Integer':
        return int(float(s))
    if t == 'Number':
        return Fraction(s)
    if t == 'Boolean':
        return s.strip().lower() == 'true'
    return s


def load_ds(struct_file, csv_file):
    dss = json.load(open(struct_file))['datasets']
    if len(dss) != 1:
        raise Skip('several datasets in one structure file')
    st = dss[0]['DataStructure']
    comps = [(c['name'], c.get('type') or c.get('data_type'), c['role']) for c in st]
    ids = [(n, t if t in ('Integer', 'Number', 'Boolean') else 'String') for n, t, role in comps if role == 'Identifier']
    meas = [(n, t) for n, t, role in comps if role == 'Measure']
    rows = []
    with open(csv_file, newline='') as f:
        for rec in csv.DictReader(f):
            rows.append(tuple(_conv(t, rec.get(n)) for n, t in ids + meas))
    return dss[0]['name'], {'ids': ids, 'meas': meas, 'rows': rows}


def corpus_cases(repo, limit=None):
    """-> (cases, skipped histogram).  Needs `import eng` done by the caller (real create_ast)."""
    from vtlengine.API import create_ast
    cases, skipped = [], {}
    for folder in ('Hierarchical', 'Validation'):
        base = os.path.join(repo, 'tests', folder, 'data')
        # only the cases the upstream test asserts an OUTPUT for (BaseTest); exception tests keep stale output files
        positive = set()
        for tf in glob.glob(os.path.join(repo, 'tests', folder, 'test_*.py')):
            for body in re.split(r'\n    def test_', open(tf).read())[1:]:
                m = re.search(r'code\s*=\s*"([^"]+)"', body)
                if m and 'self.BaseTest(' in body:
                    positive.add(m.group(1))
        for vtl_file in sorted(glob.glob(os.path.join(base, 'vtl', '*.vtl'))):
            code = os.path.basename(vtl_file)[:-4]
            try:
                script = open(vtl_file).read()
                if 'hierarchical ruleset' not in script:
                    raise Skip('no hierarchical ruleset')
                if code not in positive:
                    raise Skip('upstream test expects an exception (or is not a BaseTest)')
                ins = sorted(glob.glob(os.path.join(base, 'DataStructure', 'input', code + '-*.json')))
                outs = sorted(glob.glob(os.path.join(base, 'DataSet', 'output', code + '-*.csv')))
                if len(ins) != 1 or len(outs) != 1:
                    raise Skip('not one input / one reference output')
                try:
                    ast = create_ast(script)
                except BaseException as e:  # noqa: BLE001
                    raise Skip('parse: ' + type(e).__name__)
                hrs = [c for c in ast.children if type(c).__name__ == 'HRuleset']
                stmts = [c for c in ast.children if type(c).__name__ in ('Assignment', 'PersistentAssignment')]
                if len(hrs) != 1 or len(stmts) != 1 or type(stmts[0].right).__name__ != 'HROperation' or len(ast.children) != 2:
                    raise Skip('not exactly one ruleset + one HR statement')
                hr, op = hrs[0], stmts[0].right
                if type(op.dataset).__name__ != 'VarID':
                    raise Skip('operand is an expression')
                name, ds = load_ds(ins[0], os.path.join(base, 'DataSet', 'input', os.path.basename(ins[0])[:-5] + '.csv'))
                if name != op.dataset.value:
                    raise Skip('operand name differs from the input dataset')
                if len(ds['meas']) != 1:
                    raise Skip('not mono-measure (or attributes)')
                if any(c['role'] not in ('Identifier', 'Measure') for c in json.load(open(ins[0]))['datasets'][0]['DataStructure']):
                    raise Skip('attributes')
                rc = op.rule_component.value if op.rule_component is not None else None
                if rc is None or dict(ds['ids']).get(rc) != 'String':
                    raise Skip('rule component not a String identifier')
                elems = hr.element if isinstance(hr.element, list) else [hr.element]
                cond_params = [e.value for e in elems[:-1]]
                if len(cond_params) != len(op.conditions or []):
                    raise Skip('condition components not supplied')
                mapping = {p: c.value for p, c in zip(cond_params, op.conditions or [])}
                rules = []
                names = [r.name for r in hr.rules]
                for pos, r in enumerate(hr.rules, 1):
                    n = r.rule
                    cond = None
                    if type(n).__name__ == 'HRBinOp' and n.op == 'when':
                        cond = ('', _cond(n.left, mapping))
                        n = n.right
                    if n.op not in OPSYM or n.op == '<>':
                        raise Skip('comparison ' + str(n.op))
                    if getattr(n.left, '_right_condition', None) is not None:
                        raise Skip('left-side condition')
                    items = []
                    _flat(n.right, False, items)
                    rules.append({'name': r.name, 'pos': pos, 'left': n.left.value, 'cmp': (n.op, OPSYM[n.op]), 'right': items,
                                  'cond': cond, 'ec': _lit(r.erCode), 'el': _lit(r.erLevel)})
                mode = op.validation_mode.value if op.validation_mode else 'non_null'
                out_mode = op.output.value if op.output else None
                imode = op.input_mode.value if op.input_mode else None
                if op.op == 'check_hierarchy':
                    if len(set(x['name'] or str(x['pos']) for x in rules)) != len(rules):
                        raise Skip('duplicate rule names')
                    sx = '(ch %s %s %s (%s) (ds %s))' % (mode, out_mode or 'invalid', G.name_sx(rc), ' '.join(VGen.hr_rule_sx(x) for x in rules), name)
                else:
                    eqs = [x for x in rules if x['cmp'][1] == 'eq']
                    order = valid_order(eqs)
                    if order is None:
                        raise Skip('cyclic = rules')
                    sx = '(hier %s %s %d %s (%s) (ds %s))' % (mode, imode or 'rule', 1 if out_mode == 'all' else 0, G.name_sx(rc),
                                                             ' '.join(VGen.hr_rule_sx(x) for x in order), name)
                refname = os.path.basename(outs[0])[:-4]
                _, ref = load_ds(os.path.join(base, 'DataStructure', 'output', refname + '.json'), outs[0])
                cases.append({'kind': 'corpus', 'code': folder + '/' + code, 'env': {name: ds}, 'vtl': script, 'sx': sx, 'alt': {}, 'ops': [op.op],
                              'flat': False, 'depth': 1, 'ref': ref, 'named': all(n is not None for n in names),
                              'meta': {'op': 'corpus:' + op.op, 'mode': mode, 'output': out_mode or 'default', 'input': imode or 'default',
                                       'nrules': len(rules)},
                              'ids': ref['ids'], 'meas': ref['meas']})
                if limit and len(cases) >= limit:
                    return cases, skipped
            except Skip as s:
                k = re.sub(r'\d+', 'N', str(s))
                skipped[k] = skipped.get(k, 0) + 1
    return cases, skipped

"""Generator of join cases (C04): 2-3 operand inner/left/full/cross joins with or without `using`,
aliases, duplicated and distinct measure names, partial key overlap, nulls in measures, empty datasets and a
trailing body (filter / calc / keep|drop / rename in the order VTL fixes).

A case has the same shape as the cases of `sem.gen` (`env`, `vtl`) so that `sem.runner.run_engine`,
`gen.structures`, `gen.dataframes`, `gen.env_sx` apply; `request(case)` is the line for `Drivers/Join.lean`.
Every random choice comes from the `rng` passed in."""
from fractions import Fraction

from . import gen as G
from .gen import name_sx
from .sx import enc_value

JNAME = '$join'
MEAS_TYPES = {'Me_1': 'Integer', 'Me_2': 'Number', 'Me_3': 'String', 'Me_4': 'Boolean', 'Me_5': 'Integer', 'Me_6': 'String'}
ID_TYPES = {'Id_1': 'Integer', 'Id_2': 'String', 'Id_3': 'Integer'}
ID_POOL = {'Id_1': [1, 2, 3, 4], 'Id_2': ['a', 'b', 'c'], 'Id_3': [7, 8]}
KINDS = ['inner', 'left', 'full', 'cross']


def virt_names(kind, using, ops):
    """ops: [(alias, ds)] -> per operand {comp: virtual name} (the VTL rule: join columns keep their name,
    a non-join component exposed by >= 2 operands becomes alias#comp)."""
    jc = set()
    if kind != 'cross':
        for _, d in ops:
            jc |= {i for i, _ in d['ids']}
        jc |= set(using or [])
    count = {}
    for _, d in ops:
        for c, _ in d['ids'] + d['meas']:
            count[c] = count.get(c, 0) + 1
    out = []
    for al, d in ops:
        m = {}
        for c, _ in d['ids'] + d['meas']:
            m[c] = c if c in jc else ('%s#%s' % (al, c) if count[c] >= 2 else c)
        out.append(m)
    return out


class JoinGen:
    def __init__(self, rng, null_rate=0.25):
        self.r = rng
        self.g = G.Gen(rng, null_rate=null_rate)

    # ------------------------------------------------------------------ data
    def rows(self, ids, meas, keypool, nrows):
        r = self.r
        keys = set()
        for _ in range(nrows):
            keys.add(tuple(r.choice(keypool[i]) for i, _ in ids))
        rows = []
        for k in sorted(keys, key=repr):
            rows.append(tuple(list(k) + [self.g.value(t) for _, t in meas]))
        r.shuffle(rows)
        return rows

    def measures(self, shared):
        """a random measure list; `shared` = names more likely to be taken (to force duplicates)."""
        r = self.r
        names = list(MEAS_TYPES)
        k = r.choice([1, 1, 2, 2, 3])
        pick = []
        for _ in range(k):
            n = r.choice(shared) if shared and r.random() < 0.5 else r.choice(names)
            if n not in pick:
                pick.append(n)
        return [(n, MEAS_TYPES[n]) for n in pick]

    # ------------------------------------------------------------------ structure
    def operands(self, kind, struct, n):
        """-> (env, ops [(alias, name)], using)."""
        r = self.r
        env, using = {}, None
        keypool = {k: list(v) for k, v in ID_POOL.items()}
        if r.random() < 0.3:                       # narrow pools -> more matches
            keypool['Id_1'] = [1, 2]
            keypool['Id_2'] = ['a', 'b']
        full_ids = [('Id_1', 'Integer'), ('Id_2', 'String')] if r.random() < 0.7 else [('Id_1', 'Integer')]
        idsets = []
        if struct == 'equal':
            idsets = [list(full_ids) for _ in range(n)]
        elif struct == 'nested':
            full_ids = [('Id_1', 'Integer'), ('Id_2', 'String')]
            ref = 0 if kind == 'left' else r.randrange(n)
            for k in range(n):
                if k == ref:
                    idsets.append(list(full_ids))
                else:
                    idsets.append(r.choice([[full_ids[0]], [full_ids[1]], list(full_ids)]))
        elif struct == 'using-nested':
            full_ids = [('Id_1', 'Integer'), ('Id_2', 'String')]
            sub = r.choice([[full_ids[0]], [full_ids[1]]])
            idsets = [list(full_ids)] + [list(sub) for _ in range(n - 1)]
            using = [i for i, _ in sub]
        elif struct == 'using-b2':
            # disjoint identifier sets; the key is a MEASURE of the reference (first) operand
            kname, ktype = r.choice([('Id_2', 'String'), ('Id_3', 'Integer')])
            ref_ids = [('Id_1', 'Integer')]
            idsets = [ref_ids] + [[(kname, ktype)] for _ in range(n - 1)]
            using = [kname]
        elif struct == 'disjoint':                 # cross join over unrelated identifiers
            idsets = [[('Id_1', 'Integer')], [('Id_2', 'String')], [('Id_3', 'Integer')]][:n]
        elif struct == 'invalid':                  # shapes VTL rejects (reference not first / not nested)
            full_ids = [('Id_1', 'Integer'), ('Id_2', 'String')]
            idsets = [[full_ids[0]]] + [list(full_ids)] + [[full_ids[1]]] * (n - 2)
        shared = [r.choice(list(MEAS_TYPES)) for _ in range(2)]
        for k in range(n):
            name = 'DS_%d' % (k + 1)
            meas = self.measures(shared)
            if struct == 'using-b2' and k == 0:
                kname, ktype = idsets[1][0]
                meas = [(kname, ktype)] + [m for m in meas]
            nrows = r.choice([0, 1, 2, 3, 4, 5, 6, 7, 8, 4, 5, 6])
            rows = self.rows(idsets[k], [m for m in meas if m[0] not in ID_TYPES], keypool, nrows)
            if struct == 'using-b2' and k == 0:
                # insert the key-measure values (with nulls and values without partner)
                kname, ktype = idsets[1][0]
                pool = keypool[kname] + ([None, 'zz'] if ktype == 'String' else [None, 99])
                rows = [tuple(list(row[:len(idsets[k])]) + [r.choice(pool)] + list(row[len(idsets[k]):])) for row in rows]
            env[name] = {'ids': list(idsets[k]), 'meas': list(meas), 'rows': rows}
        ops = []
        for k in range(n):
            name = 'DS_%d' % (k + 1)
            alias = r.choice(['d%d' % (k + 1), 'a b c'.split()[k], None, None]) if True else None
            ops.append((alias, name))
        return env, ops, using

    # ------------------------------------------------------------------ body
    def body(self, comps, must_resolve=True, apply_aliases=None):
        """comps: [(virtual name, type, role)] -> (vtl_text, sx, clause kinds, final comps)."""
        r = self.r
        sx = '(ds %s)' % name_sx(JNAME)
        parts, kinds = [], []
        cur = list(comps)

        def typed(cs):
            return [(n, t) for n, t, _ in cs]

        if r.random() < 0.4:
            c = self.g.cexpr(typed(cur), 'Boolean', r.choice([1, 2]))
            parts.append('filter %s' % c[0])
            sx = '(filter %s %s)' % (sx, c[1])
            kinds.append('filter')
        did_apply = False
        if apply_aliases and r.random() < 0.3:
            # `apply a1 op a2`: op on every pair of measures with the same name; only those measures are kept.
            # The model side is the equivalent calc + keep.
            a1, a2 = apply_aliases
            names_now = {n for n, _, _ in cur}
            commons = []
            for n, t, ro in cur:
                if ro == 'M' and n.startswith(a1 + '#'):
                    base = n.split('#', 1)[1]
                    if '%s#%s' % (a2, base) in names_now:
                        commons.append((base, t))
            types = {t for _, t in commons}
            if commons and (types <= {'Integer', 'Number'} or types == {'String'}):
                op = ('||', 'concat') if types == {'String'} else r.choice([('+', 'add'), ('-', 'sub'), ('*', 'mul')])
                parts.append('apply %s %s %s' % (a1, op[0], a2))
                items = ' '.join('(%s (bin %s (col %s) (col %s)))' % (name_sx(b), op[1], name_sx('%s#%s' % (a1, b)), name_sx('%s#%s' % (a2, b)))
                                 for b, _ in commons)
                sx = '(keep (calc %s (%s)) (%s))' % (sx, items, ' '.join(name_sx(b) for b, _ in commons))
                cur = [c for c in cur if c[2] == 'I'] + [(b, t, 'M') for b, t in commons]
                kinds.append('apply')
                did_apply = True
        if not did_apply and r.random() < 0.4:
            items, names = [], []
            for _ in range(r.choice([1, 1, 2])):
                t = r.choice(['Integer', 'Number', 'String', 'Boolean'])
                cand = ['Me_8', 'Me_9'] + [n for n, tt, ro in cur if ro == 'M' and '#' not in n and tt == t]
                nm = r.choice(cand)
                if nm in names:
                    continue
                e = self.g.cexpr(typed(cur), t, r.choice([1, 2]))
                rt = 'Number' if (t == 'Integer' and ' / ' in e[0]) else t
                items.append((nm, rt, e))
                names.append(nm)
            parts.append('calc ' + ', '.join('%s := %s' % (n, e[0]) for n, _, e in items))
            sx = '(calc %s (%s))' % (sx, ' '.join('(%s %s)' % (name_sx(n), e[1]) for n, _, e in items))
            cur = [c for c in cur if c[0] not in names] + [(n, t, 'M') for n, t, _ in items]
            kinds.append('calc')
        # duplicated (qualified) measures must be resolved before the end of the join
        groups = {}
        for n, t, ro in cur:
            if '#' in n:
                groups.setdefault(n.split('#', 1)[1], []).append((n, t, ro))
        meas = [c for c in cur if c[2] == 'M']
        qual_meas = [c for c in meas if '#' in c[0]]
        plain_meas = [c for c in meas if '#' not in c[0]]
        mode = r.choice(['keep', 'drop', 'rename', 'keep', 'drop']) if qual_meas else r.choice(['keep', 'drop', 'none', 'none', 'rename1'])
        if not must_resolve and r.random() < 0.5:
            mode = 'none'
        renames = []
        if mode == 'keep' and meas:
            lst = []
            for base, vs in groups.items():
                vs = [v for v in vs if v[2] == 'M']
                if vs and r.random() < 0.8:
                    lst.append(r.choice(vs))
            for c in plain_meas:
                if r.random() < 0.5:
                    lst.append(c)
            if not lst:
                lst = [r.choice(meas)]
            r.shuffle(lst)
            parts.append('keep ' + ', '.join(c[0] for c in lst))
            sx = '(keep %s (%s))' % (sx, ' '.join(name_sx(c[0]) for c in lst))
            cur = [c for c in cur if c[2] == 'I'] + [c for c in meas if c in lst]
            kinds.append('keep')
        elif mode == 'drop' and meas:
            lst = []
            for base, vs in groups.items():
                vs = [v for v in vs if v[2] == 'M']
                if vs:
                    keepone = r.choice(vs)
                    lst += [v for v in vs if v != keepone]
            for c in plain_meas:
                if r.random() < 0.3:
                    lst.append(c)
            if len(lst) >= len(meas):
                lst = lst[:-1]
            if lst:
                r.shuffle(lst)
                parts.append('drop ' + ', '.join(c[0] for c in lst))
                sx = '(drop %s (%s))' % (sx, ' '.join(name_sx(c[0]) for c in lst))
                cur = [c for c in cur if c not in lst]
                kinds.append('drop')
        elif mode == 'rename':
            for base, vs in groups.items():
                vs = [v for v in vs if v[2] == 'M']
                keepone = r.choice(vs + [None]) if vs else None
                for j, v in enumerate(vs):
                    if v != keepone:
                        renames.append((v[0], 'X%d_%s' % (j + 1, base)))
        elif mode == 'rename1' and plain_meas:
            v = r.choice(plain_meas)
            renames.append((v[0], v[0] + 'x'))
        # identifiers that are still qualified (cross join) can only be renamed
        qual_ids = [c for c in cur if c[2] == 'I' and '#' in c[0]]
        idgroups = {}
        for c in qual_ids:
            idgroups.setdefault(c[0].split('#', 1)[1], []).append(c)
        for base, vs in idgroups.items():
            keepone = r.choice(vs + [None]) if (r.random() < 0.9 or not must_resolve) else vs[0]
            for j, v in enumerate(vs):
                if v != keepone or (not must_resolve and r.random() < 0.1):
                    renames.append((v[0], '%s%d' % (base.replace('_', ''), j + 1)))
        if r.random() < 0.15 and not renames:
            plain = [c for c in cur if '#' not in c[0]]
            if plain:
                v = r.choice(plain)
                renames.append((v[0], v[0] + 'y'))
        if renames:
            seen, rn = set(), []
            for o, nw in renames:
                if o not in seen:
                    seen.add(o)
                    rn.append((o, nw))
            parts.append('rename ' + ', '.join('%s to %s' % (o, nw) for o, nw in rn))
            sx = '(rename %s (%s))' % (sx, ' '.join('(%s %s)' % (name_sx(o), name_sx(nw)) for o, nw in rn))
            m = dict(rn)
            cur = [(m.get(n, n), t, ro) for n, t, ro in cur]
            kinds.append('rename')
        return ' '.join(parts), sx, kinds, cur

    # ------------------------------------------------------------------ a whole case
    def case(self, kind=None, struct=None, n=None, must_resolve=True, prefix=False):
        r = self.r
        kind = kind or r.choice(KINDS)
        if struct is None:
            struct = {'inner': r.choice(['equal', 'nested', 'nested', 'using-nested', 'using-b2', 'invalid' if r.random() < 0.3 else 'equal']),
                      'left': r.choice(['equal', 'nested', 'nested', 'using-nested', 'using-b2', 'invalid' if r.random() < 0.3 else 'equal']),
                      'full': r.choice(['equal', 'equal', 'equal', 'nested' if r.random() < 0.2 else 'equal']),
                      'cross': r.choice(['equal', 'disjoint', 'nested'])}[kind]
        n = n or r.choice([2, 2, 3])
        env, ops, using = self.operands(kind, struct, n)
        variant = 'plain'
        if struct == 'equal' and r.random() < 0.08:
            # self-join: the same dataset twice under two aliases
            ops[0] = ('a', 'DS_1')
            ops[1] = ('b', 'DS_1')
            variant = 'self-join'
        opexpr = {}
        if variant == 'plain' and r.random() < 0.1:
            # an operand that is itself an expression (needs an alias)
            k = r.randrange(n)
            al, name = ops[k]
            al = al or 'e%d' % (k + 1)
            ops[k] = (al, name)
            d = env[name]
            cnd = self.g.cexpr(d['ids'] + d['meas'], 'Boolean', 1)
            opexpr[k] = ('%s[filter %s]' % (name, cnd[0]), '(filter (ds %s) %s)' % (name, cnd[1]))
            variant = 'operand-expression'
        opl = [((al or name), env[name]) for al, name in ops]
        vn = virt_names(kind, using, opl)
        # virtual components of the join result, in operand order (identifiers once)
        comps, seen = [], set()
        demoted = set()
        if using:
            for u in using:
                if any(u in [m for m, _ in d['meas']] for _, d in opl):
                    demoted.add(u)
        for (al, d), m in zip(opl, vn):
            for c, t in d['ids']:
                if m[c] not in seen:
                    seen.add(m[c])
                    comps.append((m[c], t, 'M' if c in demoted else 'I'))
            for c, t in d['meas']:
                if m[c] not in seen:
                    seen.add(m[c])
                    comps.append((m[c], t, 'M'))
        btxt, bsx, bkinds, final = self.body(comps, must_resolve=must_resolve,
                                             apply_aliases=[a for a, _ in opl] if n == 2 and kind != 'cross' else None)
        optxt = ', '.join('%s as %s' % (opexpr[k][0] if k in opexpr else name, al) if al else name for k, (al, name) in enumerate(ops))
        utxt = (' using ' + ', '.join(using)) if using else ''
        vtl = 'DS_r <- %s_join(%s%s%s);' % (kind, optxt, utxt, (' ' + btxt) if btxt else '')
        if prefix:
            # the same operands and aliases joined once more, with another body, in an EARLIER statement of the script:
            # nothing of that statement may leak into DS_r
            b2 = self.body(comps, must_resolve=True, apply_aliases=[a for a, _ in opl] if n == 2 and kind != 'cross' else None)
            vtl = 'DS_p <- %s_join(%s%s%s); %s' % (kind, optxt, utxt, (' ' + b2[0]) if b2[0] else '', vtl)
            variant = variant + '+after-another-join'
        usx = '(%s)' % ' '.join(name_sx(u) for u in using) if using else '_'
        sx = '(join %s (%s) %s %s)' % (kind, ' '.join('(%s %s)' % (name_sx(al or name), opexpr[k][1] if k in opexpr else '(ds %s)' % name) for k, (al, name) in enumerate(ops)), usx, bsx)
        stripped = [c[0].split('#', 1)[1] if '#' in c[0] else c[0] for c in final]
        return {'env': env, 'vtl': vtl, 'sx': sx, 'kind': kind, 'struct': struct, 'nops': n, 'using': using,
                'body': bkinds, 'variant': variant, 'aliases': [al is not None for al, _ in ops], 'ops': ['%s_join' % kind] + bkinds,
                'dup_names': sorted({v for m in vn for v in m.values() if '#' in v}),
                'expect_valid': len(set(stripped)) == len(stripped) and struct != 'invalid',
                'overlap': overlap_class(kind, using, opl), 'flat': True, 'depth': 1}


def overlap_class(kind, using, opl):
    """key overlap of the first two operands on their join keys: none / partial / full / empty-operand."""
    (_, a), (_, b) = opl[0], opl[1]
    if not a['rows'] or not b['rows']:
        return 'empty-operand'
    if kind == 'cross':
        return 'product'
    an = [c for c, _ in a['ids'] + a['meas']]
    bn = [c for c, _ in b['ids'] + b['meas']]
    keys = using or [i for i, _ in a['ids'] if i in [j for j, _ in b['ids']]]
    ka = {tuple(row[an.index(k)] for k in keys) for row in a['rows']}
    kb = {tuple(row[bn.index(k)] for k in keys) for row in b['rows']}
    if not (ka & kb):
        return 'none'
    if ka == kb:
        return 'full'
    return 'partial'


def request(case):
    return '(evaljoin %s %s)' % (G.env_sx(case['env']), case['sx'])

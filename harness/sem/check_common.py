"""Shared body of the value-semantics checks (C01, C02, C05 …): generate cases, run model and engine,
compare, classify disagreements into specific finding keys, shrink, report."""
import collections
import os
import re
import sys

HARNESS = os.path.dirname(os.path.dirname(os.path.abspath(__file__)))
if HARNESS not in sys.path:
    sys.path.insert(0, HARNESS)

from sem import gen as G  # noqa: E402
from sem import runner as R  # noqa: E402

FLOAT_OPS = {'div', 'zip_div', 'power', 'round', 'trunc'}
CMP_OPS = {'cmp', 'between', 'in', 'zip_eq', 'zip_ne', 'zip_lt', 'zip_le', 'zip_gt', 'zip_ge'}
SET_OPS = {'union', 'intersect', 'setdiff', 'symdiff'}


def msg_head(eng_out):
    m = str(eng_out[-1]) if len(eng_out) > 2 else ''
    m = re.sub(r'"[^"]*"', '"_"', m)
    m = re.sub(r"'[^']*'", "'_'", m)
    m = re.sub(r'\d+', 'N', m)
    m = re.split(r'[\n!:]', m.replace('Binder Error: ', '').replace('Parser Error: ', '').replace('Conversion Error: ', ''))[0]
    return ' '.join(re.sub(r'["\'(),_]', ' ', m).split()[:5])


def classify(case, verdict, detail, eng_out):
    """-> finding key (stable, specific: what kind of script + what goes wrong)."""
    nested = (not case.get('flat')) and case.get('depth', 0) >= 2
    shape = 'nested-expression' if nested else ('multi-statement' if case.get('flat') and case.get('depth', 0) >= 2 else 'single-operator')
    ops = case.get('ops', [])
    if verdict in ('DISAGREE:engine-error', 'DISAGREE:model-divzero') and eng_out[0] == 'raw':
        cls = eng_out[1].split('.')[-1]
        if nested and cls in ('BinderException', 'ParserException', 'ConversionException', 'CatalogException'):
            # one finding per exception class: inside nested dataset expressions the transpiler's second structure
            # inference goes wrong in many ways (renamed measures, stale types, correlated subqueries …)
            return 'nested-expression:transpiler-emits-sql-duckdb-rejects:' + cls
        return '%s:%s:%s' % (shape, cls, msg_head(eng_out))
    if verdict == 'DISAGREE:engine-error' and eng_out[0] == 'vtl':
        return '%s:%s:%s' % (shape, eng_out[1], eng_out[2])
    if verdict == 'DISAGREE:columns-vs-components':
        return '%s:result-columns-differ-from-components:%s' % (shape, ops[-1] if ops else '?')
    if nested and verdict in ('DISAGREE:value', 'DISAGREE:keys') and len(case.get('meas', [])) == 1 and case.get('max_meas', 0) > 1:
        # several inner measures, one measure in the statement's result: the transpiler names every inner
        # measure after that single output measure
        return 'nested-expression:inner-measures-collapsed-onto-the-single-output-measure'
    if nested and 'ifd' in ops and ops[-1] != 'ifd' and verdict in ('DISAGREE:value', 'DISAGREE:keys', 'DISAGREE:engine-error'):
        return 'nested-expression:dataset-level-if-inside-another-operator'
    if verdict == 'DISAGREE:value' and any(o in ('floor', 'ceil', 'round', 'trunc') for o in ops):
        big = max([abs(v) for d in case.get('env', {}).values() for row in d['rows'] for v in row
                   if isinstance(v, int) and not isinstance(v, bool)] or [0])
        if big >= 2 ** 26:
            # ceil / floor / round / trunc are computed on DOUBLE: an Integer (or a product of Integers) beyond 2^53 loses its
            # low digits there (the engine's own choice of SQL type; recorded once)
            return 'integer-beyond-2^53-through-ceil-floor-round-trunc:computed-on-double'
    if verdict == 'DISAGREE:value':
        last_float = max([i for i, o in enumerate(ops) if o in FLOAT_OPS], default=-1)
        if last_float >= 0 and any(o in CMP_OPS or o in ('filter', 'mod', 'zip_mod', 'ceil', 'floor') for o in ops[last_float + 1:]):
            return 'float-sensitive'      # exact comparison after an operator the engine computes on doubles
        return '%s:wrong-value:%s' % (shape, ops[-1] if ops else '?')
    if verdict == 'DISAGREE:keys':
        return '%s:wrong-datapoints:%s' % (shape, ops[-1] if ops else '?')
    return '%s:%s:%s' % (shape, verdict.split(':', 1)[1], ops[-1] if ops else '?')


def run_stream(ck, label, n, gen_kwargs, case_kwargs=None, families=None):
    """Generate n cases, evaluate model + engine, return list of (case, verdict, detail, eng_out, model_ans)."""
    g = G.Gen(ck.rng, families=families, **gen_kwargs)
    cases = []
    for _ in range(n):
        c = g.case(**(case_kwargs or {}))
        c['stream'] = label
        cases.append(c)
    answers = ck.driver('Sem', [G.request(c) for c in cases])
    outs = R.run_engine(cases)
    res = []
    for c, a, e in zip(cases, answers, outs):
        v, d = R.compare(c, a, e)
        res.append((c, v, d, e, a))
    return res


def report(ck, results, prop_ops=None, min_agree=10):
    """Account for every case in the evidence; disagreements become known findings / violations."""
    hist = collections.Counter()
    ophist = collections.Counter()
    depth_hist = collections.Counter()
    rows_hist = collections.Counter()
    groups = collections.defaultdict(list)
    for c, v, d, e, a in results:
        hv = v if not v.startswith('skip:semantic-reject') else 'skip:semantic-reject'
        hist[hv] += 1
        if v == 'agree':
            nontrivial = d == 'divzero' or (isinstance(d, int) and d > 0)
            ck.count((c['vtl'], G.env_sx(c['env'])), nontrivial=nontrivial)
            for o in c['ops']:
                ophist[o] += 1
            depth_hist[c.get('depth', 0)] += 1
            rows_hist[min(sum(len(x['rows']) for x in c['env'].values()) // 5 * 5, 30)] += 1
            if nontrivial:
                ck.sample({'script': c['vtl'], 'model': a[:160], 'stream': c['stream']})
        else:
            ck.count(None, nontrivial=False)
        if v.startswith('DISAGREE'):
            key = classify(c, v, d, e)
            if key == 'float-sensitive':
                hist['skip:float-sensitive'] += 1
                continue
            groups[key].append((len(c['vtl']), c, v, d, e, a))
    ck.note('outcomes', dict(hist))
    ck.note('operator_histogram', dict(ophist))
    ck.note('depth_histogram', {str(k): v for k, v in depth_hist.items()})
    ck.note('input_rows_histogram', {str(k): v for k, v in rows_hist.items()})
    for key, lst in groups.items():
        lst.sort(key=lambda x: x[0])
        _, c, v, d, e, a = lst[0]
        ck.violation(key, {'script': c['vtl'], 'structures': G.structures(c['env']),
                           'data': {k: [[str(x) if x is not None else None for x in r] for r in x['rows']] for k, x in c['env'].items()},
                           'model_request': G.request(c), 'model_answer': a, 'engine': [str(x)[:600] for x in e],
                           'verdict': v, 'detail': str(d)[:600], 'occurrences': len(lst),
                           'ops': list(c.get('ops', [])), 'flat': bool(c.get('flat')), 'depth': c.get('depth', 0)},
                     '%s: %s | model %s | engine %s' % (v, c['vtl'][:140], a[:100], str(e[1:3])[:140]))
    if hist['agree'] < min_agree:
        ck.unproved('correspondence:' + ck.pid, 'only %d of %d cases could be compared (engine or model rejects the rest): %s' % (hist['agree'], len(results), dict(hist)))
    return hist


def replay(ck):
    """`./check Cxx --replay replays/<file>.json`: re-run the stored script and data on the real engine and on
    the model; report whether they (still) disagree."""
    import json
    from fractions import Fraction
    rp = json.load(open(ck.replay_path))
    r = rp.get('replay', rp)
    structs = r['structures']
    env = {}
    for d in structs['datasets']:
        ids = [(c['name'], c['type']) for c in d['DataStructure'] if c['role'] == 'Identifier']
        meas = [(c['name'], c['type']) for c in d['DataStructure'] if c['role'] != 'Identifier']
        rows = []
        for row in r['data'].get(d['name'], []):
            vals = []
            for (n, t), v in zip(ids + meas, row):
                if v is None:
                    vals.append(None)
                elif t == 'Integer':
                    vals.append(int(v))
                elif t == 'Number':
                    vals.append(Fraction(v))
                elif t == 'Boolean':
                    vals.append(v == 'True')
                else:
                    vals.append(v)
            rows.append(tuple(vals))
        env[d['name']] = {'ids': ids, 'meas': meas, 'rows': rows}
    case = {'env': env, 'vtl': r['script'], 'ops': r.get('ops', []), 'flat': r.get('flat', False), 'depth': r.get('depth', 0)}
    ans = ck.driver('Sem', [r['model_request']])[0]
    out = R.run_engine([case], jobs=1)[0]
    v, d = R.compare(case, ans, out)
    print('script :', r['script'])
    print('model  :', ans[:400])
    print('engine :', str(out)[:600])
    print('verdict:', v, str(d)[:300])
    ck.count((r['script'],), nontrivial=True)
    ck.count((r['script'], 'replay'), nontrivial=True)
    ck.sample({'replayed': ck.replay_path, 'verdict': v})
    ck.cov['rule'] = 'replay of one stored case'
    if v.startswith('DISAGREE'):
        ck.violation(rp.get('key', 'replay'), r, 'replayed case still disagrees: ' + v)


def mixed_ids_stream(ck, label, n):
    """Targeted stream: a dataset∘dataset operator whose operands have DIFFERENT identifier sets (one a subset of the
    other, either side), used inline as the operand of another dataset-level operator, and the same computation written
    as two statements.  -> results in the format of run_stream."""
    r = ck.rng
    g = G.Gen(r, families=['num1'])
    cases = []
    for i in range(n):
        mt = r.choice(['Number', 'Integer'])
        meas = [('Me_1', mt)]
        full = [('Id_1', 'Integer'), ('Id_2', 'String')]
        env = {}
        shapes = {'DS_1': full, 'DS_2': full[:1], 'DS_3': r.choice([full, full, full[:1]])}
        for nme, ids in shapes.items():
            keys = set()
            for _ in range(r.choice([2, 3, 4, 6])):
                keys.add(tuple(r.choice(G.ID_INT) if t == 'Integer' else r.choice(G.ID_STR) for _, t in ids))
            rows = [tuple(list(k) + [g.value(mt)]) for k in sorted(keys)]
            r.shuffle(rows)
            env[nme] = {'ids': list(ids), 'meas': list(meas), 'rows': rows}
        op1, sx1 = r.choice([('+', 'add'), ('-', 'sub'), ('*', 'mul')])
        a, b = ('DS_1', 'DS_2') if i % 2 == 0 else ('DS_2', 'DS_1')
        inner_vtl = '(%s %s %s)' % (a, op1, b)
        inner_sx = '(zip (ds %s) (ds %s) (bin %s hole hole2) _)' % (a, b, sx1)
        kind = r.choice(['zip', 'zip', 'zip_rev', 'unary', 'scalar'])
        flat = (i % 4 == 3)
        src_vtl, pre = (inner_vtl, []) if not flat else ('T_1', ['T_1 := %s;' % inner_vtl])
        if kind in ('zip', 'zip_rev'):
            op2, sx2 = r.choice([('+', 'add'), ('-', 'sub'), ('*', 'mul')])
            if kind == 'zip':
                vtl, sx = '(%s %s DS_3)' % (src_vtl, op2), '(zip %s (ds DS_3) (bin %s hole hole2) _)' % (inner_sx, sx2)
            else:
                vtl, sx = '(DS_3 %s %s)' % (op2, src_vtl), '(zip (ds DS_3) %s (bin %s hole hole2) _)' % (inner_sx, sx2)
            ops = ['zip_' + sx1, 'zip_' + sx2]
        elif kind == 'unary':
            f, sxop = r.choice([('abs(%s)', 'abs'), ('(-%s)', 'neg')])
            vtl, sx = f % src_vtl, '(mapm %s (un %s hole) _)' % (inner_sx, sxop)
            ops = ['zip_' + sx1, sxop]
        else:
            c = r.choice([1, 2, 3])
            vtl, sx = '(%s + %d)' % (src_vtl, c), '(mapm %s (bin add hole (const (i %d))) _)' % (inner_sx, c)
            ops = ['zip_' + sx1, 'add']
        cases.append({'family': 'num1', 'env': env, 'vtl': ' '.join(pre + ['DS_r <- %s;' % vtl]), 'sx': sx, 'ops': ops, 'max_meas': 1,
                      'post': None, 'ids': full, 'meas': meas, 'flat': flat, 'depth': 2, 'stream': label})
    answers = ck.driver('Sem', [G.request(c) for c in cases])
    outs = R.run_engine(cases)
    return [(c, ) + tuple(R.compare(c, a, e)) + (e, a) for c, a, e in zip(cases, answers, outs)]


def clause_sees_previous_stream(ck, label, n):
    """Targeted stream: a clause applied DIRECTLY to the result of another clause must see that result — a filter / calc / keep
    that names a component the previous calc OVERWROTE or the previous rename introduced.  Nested chain and two statements."""
    r = ck.rng
    g = G.Gen(r, families=['num1'])
    cases = []
    for i in range(n):
        mt = r.choice(['Number', 'Integer'])
        ids = [('Id_1', 'Integer')] + ([('Id_2', 'String')] if r.random() < 0.5 else [])
        keys = set()
        for _ in range(r.choice([3, 4, 6, 8])):
            keys.add(tuple(r.choice(G.ID_INT) if t == 'Integer' else r.choice(G.ID_STR) for _, t in ids))
        rows = [tuple(list(k) + [g.value(mt), g.value(mt)]) for k in sorted(keys)]
        r.shuffle(rows)
        env = {'DS_1': {'ids': list(ids), 'meas': [('Me_1', mt), ('Me_2', mt)], 'rows': rows}}
        k_, c_, t_ = r.choice([2, 3, 10, -1]), r.choice([0, 1, 5, -3]), r.choice([0, 2, 5, 10, 20])
        cmp_v, cmp_s = r.choice([('>', 'gt'), ('<', 'lt'), ('>=', 'ge'), ('<=', 'le'), ('=', 'eq'), ('<>', 'ne')])
        e_vtl, e_sx = 'Me_1 * %d + %d' % (k_, c_) if k_ >= 0 and c_ >= 0 else '(Me_1 * (%d)) + (%d)' % (k_, c_), \
            '(bin add (bin mul (col "Me_1") (const (i %d))) (const (i %d)))' % (k_, c_)
        first = r.choice(['calc-overwrite', 'calc-overwrite', 'rename', 'calc-swap'])
        if first == 'calc-overwrite':
            a_vtl, a_sx, name = 'calc Me_1 := %s' % e_vtl, '(calc %%s (("Me_1" %s)))' % e_sx, 'Me_1'
        elif first == 'rename':
            a_vtl, a_sx, name = 'rename Me_1 to Me_9', '(rename %s (("Me_1" "Me_9")))', 'Me_9'
        else:   # simultaneous: Me_1 gets the old Me_2 and the other way round
            a_vtl, a_sx, name = 'calc Me_1 := Me_2, Me_2 := Me_1', '(calc %s (("Me_1" (col "Me_2")) ("Me_2" (col "Me_1"))))', 'Me_1'
        second = r.choice(['filter', 'filter', 'calc', 'keep'])
        if second == 'filter':
            b_vtl, b_sx = 'filter %s %s %d' % (name, cmp_v, t_), '(filter %%s (bin %s (col "%s") (const (i %d))))' % (cmp_s, name, t_)
        elif second == 'calc':
            b_vtl, b_sx = 'calc Me_5 := %s + 1' % name, '(calc %%s (("Me_5" (bin add (col "%s") (const (i 1))))))' % name
        else:
            b_vtl, b_sx = 'keep %s' % name, '(keep %%s ("%s"))' % name
        flat = (i % 3 == 2)
        inner_sx = a_sx % '(ds DS_1)'
        sx = b_sx % inner_sx
        vtl = ('T_1 := DS_1[%s]; DS_r <- T_1[%s];' % (a_vtl, b_vtl)) if flat else ('DS_r <- DS_1[%s][%s];' % (a_vtl, b_vtl))
        cases.append({'family': 'num1', 'env': env, 'vtl': vtl, 'sx': sx, 'ops': [first.split('-')[0], second], 'max_meas': 2, 'post': None,
                      'ids': ids, 'meas': [('Me_1', mt), ('Me_2', mt)], 'flat': flat, 'depth': 2, 'stream': label})
    answers = ck.driver('Sem', [G.request(c) for c in cases])
    outs = R.run_engine(cases)
    return [(c, ) + tuple(R.compare(c, a, e)) + (e, a) for c, a, e in zip(cases, answers, outs)]

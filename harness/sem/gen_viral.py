"""Generator for the viral-propagation correspondence (C28).

Three kinds of cases, every random choice from the `rng` passed in (derived from VERIF_SEED):
  (a) fragments   — a rule + value lists for `vp_pair_sql / vp_group_sql / vp_dataset_wide_sql / vp_reduce_refs`,
  (b) scripts     — structures with `Viral Attribute` components, `define viral propagation` rules, 1-3 statements
                    (clauses, set operators, unary / dataset-scalar, dataset-dataset, aggregations),
  (c) semantics   — scripts whose viral attributes may lack a rule (error 1-3-3-6).
"""
import itertools
import json
import os
import sys
from fractions import Fraction

HARNESS = os.path.dirname(os.path.dirname(os.path.abspath(__file__)))
if HARNESS not in sys.path:
    sys.path.insert(0, HARNESS)

from sem.sx import enc_value  # noqa: E402
from sem.gen import vtl_const, name_sx  # noqa: E402

ALPHA = ['A', 'B', 'C']
EXTRA = ["it's", 'Q']            # a value with a quote (SQL literal escaping) and one no clause mentions
AGG = ['min', 'max', 'sum', 'avg']


def optstr(v):
    return 'n' if v is None else '(s %s)' % json.dumps(v)


class Rule:
    """kind 'enum': clauses [(values tuple, result)], default; kind 'agg': fn."""

    def __init__(self, kind, clauses=(), default=None, fn=None):
        self.kind, self.clauses, self.default, self.fn = kind, [(tuple(v), r) for v, r in clauses], default, fn

    def sx(self):
        if self.kind == 'agg':
            return '(agg %s)' % self.fn
        return '(enum (%s) %s)' % (' '.join('(when (%s) %s)' % (' '.join(optstr(v) for v in vs), optstr(r)) for vs, r in self.clauses),
                                    optstr(self.default))

    def vtl(self, name, target):
        if self.kind == 'agg':
            body = 'aggregate %s' % self.fn
        else:
            parts = ['when %s then %s' % (' and '.join(vtl_const(v) for v in vs), vtl_const(r)) for vs, r in self.clauses]
            if self.default is not None:
                parts.append('else %s' % vtl_const(self.default))
            body = '; '.join(parts)
        return 'define viral propagation %s (variable %s) is %s end viral propagation;' % (name, target, body)

    def registry(self, target='V'):
        from vtlengine.ViralPropagation import ViralPropagationRule
        return ViralPropagationRule(name='R', signature_type='variable', target=target,
                                    enumerated_clauses=[{'values': list(vs), 'result': r} for vs, r in self.clauses],
                                    aggregate_function=self.fn, default_value=self.default)

    def to_json(self):
        return {'kind': self.kind, 'clauses': [[list(vs), r] for vs, r in self.clauses], 'default': self.default, 'fn': self.fn}

    # --- a Python mirror of the CASE, used ONLY to classify rules (order-free or not), never as the oracle
    def case2(self, a, b):
        def inpair(v):
            return (a is None or b is None) if v is None else (a == v or b == v)
        for vs, r in [c for c in self.clauses if len(c[0]) == 2] + [c for c in self.clauses if len(c[0]) == 1]:
            if all(inpair(v) for v in vs):
                return r
        return self.default

    def fold(self, xs):
        if not xs:
            return None
        acc = xs[0]
        for x in xs[1:]:
            acc = self.case2(acc, x)
        return acc

    def domain(self):
        d = set(ALPHA + EXTRA + [None, self.default])
        for vs, r in self.clauses:
            d.update(vs); d.add(r)
        return sorted(d, key=lambda x: (x is not None, x or ''))

    def order_free(self):
        """commutative and associative on every value it can meet (so every fold order gives the same result)."""
        if self.kind == 'agg':
            return True
        dom = self.domain()
        for a, b in itertools.product(dom, dom):
            if self.case2(a, b) != self.case2(b, a):
                return False
        for a, b, c in itertools.product(dom, dom, dom):
            if self.case2(self.case2(a, b), c) != self.case2(a, self.case2(b, c)):
                return False
        return True


CONF = Rule('enum', [(('C',), 'C'), (('N',), 'N')], 'F')
PRIO = Rule('enum', [(('A',), 'A'), (('B',), 'B'), (('C',), 'C')], 'Z')
NONASSOC = Rule('enum', [(('A', 'B'), 'C'), (('C',), 'A')], 'Z')          # the Lean counter-example (Props/C28)
# order-free rules WITH two-value clauses (commutative and associative on their whole domain, checked by order_free()):
# the result of a fold does not depend on the order, but a wrong pairing of clause values and operands shows
ORDER_FREE_BINARY = [r_ for r_ in (
    Rule('enum', [(('A', 'B'), 'B'), (('A',), 'A'), (('B',), 'B')], 'Z'),
    Rule('enum', [(('A', 'B'), 'B'), (('A', 'C'), 'C'), (('B', 'C'), 'C'), (('A',), 'A'), (('B',), 'B'), (('C',), 'C')], 'Z'),
    Rule('enum', [(('A', 'B'), 'B'), (('B',), 'B'), (('A',), 'A')], None),
    Rule('enum', [(('A', 'B'), 'C'), (('C',), 'C'), (('A',), 'A'), (('B',), 'B')], 'Z'),
) if r_.order_free()]


def enum_rule(r, grammatical=True, alpha=None):
    alpha = alpha or (ALPHA + (["it's"] if r.random() < 0.3 else []))
    if r.random() < 0.25:
        return r.choice([CONF, PRIO, NONASSOC])
    n = r.choice([1, 2, 2, 3, 4]) if grammatical else r.choice([0, 1, 2, 3, 4])
    seen, clauses = set(), []
    for _ in range(n):
        if r.random() < 0.45:
            vs = tuple(r.sample(alpha + [None], 2))
        else:
            vs = (r.choice(alpha + [None, None]),)
        if frozenset(vs) in seen:
            continue
        seen.add(frozenset(vs))
        clauses.append((vs, r.choice(alpha + ['Z', None] if r.random() < 0.8 else [vs[0]])))
    if grammatical and not clauses:
        clauses = [(('A',), 'A')]
    return Rule('enum', clauses, r.choice([None, 'D', 'A', 'Z']))


def text_value(r, null_rate=0.2, alpha=None):
    if r.random() < null_rate:
        return None
    return r.choice((alpha or ALPHA) + EXTRA)


def num_value(r, t, null_rate=0.2):
    if r.random() < null_rate:
        return None
    if t == 'Integer':
        return r.randint(-3, 9)
    return Fraction(r.randint(-40, 90), r.choice([1, 2, 4, 10]))


# ---------------------------------------------------------------------------------------------- (a) fragments
def fragment_cases(r, n):
    """every aggregate function on every value type it applies to, the preset enumerated rules, and n random
    enumerated rules (some not expressible in the grammar: no clause at all, only a default)."""
    plan = [(Rule('agg', fn=fn), vt) for fn in AGG for vt in (['Integer', 'Number', 'String'] if fn in ('min', 'max') else ['Integer', 'Number'])]
    plan += [(CONF, 'String'), (PRIO, 'String'), (NONASSOC, 'String')]
    plan += [(enum_rule(r, grammatical=r.random() < 0.7), 'String') for _ in range(n)]
    out = []
    for rule, vt in plan:
        if vt == 'String':
            alpha = ALPHA + (['N'] if rule is CONF else [])
            val = lambda alpha=alpha: text_value(r, 0.25, alpha)  # noqa: E731
        else:
            val = lambda vt=vt: num_value(r, vt, 0.25)  # noqa: E731
        pairs = [(val(), val()) for _ in range(r.choice([8, 12]))]
        groups = [[val() for _ in range(k)] for k in [0, 1, 1, 2, 2, 3, 3, 4, 5, r.choice([6, 9])]]
        if r.random() < 0.3:
            groups.append([None] * r.choice([1, 2, 3]))
        refs = [[val() for _ in range(k)] for k in [1, 2, 3, 4]]
        out.append({'rule': rule, 'vtype': vt, 'pairs': pairs, 'groups': groups, 'refs': refs})
    return out


def fragment_requests(fc):
    rs = fc['rule'].sx()
    req = []
    for a, b in fc['pairs']:
        req.append('(pair %s %s %s)' % (rs, enc_value(a), enc_value(b)))
    for g in fc['groups']:
        req.append('(group %s (%s))' % (rs, ' '.join(enc_value(v) for v in g)))
    for g in fc['groups']:
        req.append('(wide %s (%s))' % (rs, ' '.join(enc_value(v) for v in g)))
    for g in fc['refs']:
        req.append('(reduce %s (%s))' % (rs, ' '.join(enc_value(v) for v in g)))
    return req


# ---------------------------------------------------------------------------------------------- (b) scripts
class Node:
    def __init__(self, name, ids, meas, viral, numeric=True):
        self.name, self.ids, self.meas, self.viral, self.numeric = name, list(ids), list(meas), list(viral), numeric

    def same_struct(self, o):
        return self.ids == o.ids and self.meas == o.meas and sorted(self.viral) == sorted(o.viral)


class ViralGen:
    def __init__(self, rng, max_rows=7, null_rate=0.2, allow=None, order_free_only=False):
        self.r, self.max_rows, self.null_rate, self.allow, self.order_free_only = rng, max_rows, null_rate, allow, order_free_only

    def make_env(self):
        r = self.r
        two_ids = r.random() < 0.65
        full_ids = [('Id_1', 'Integer')] + ([('Id_2', 'String')] if two_ids else [])
        meas = r.choice([[('Me_1', 'Number')], [('Me_1', 'Number'), ('Me_2', 'Integer')], [('Me_1', 'Integer')]])
        spec = {}
        k = r.random()
        if k < 0.5:
            rule = enum_rule(r)
            if self.order_free_only and ORDER_FREE_BINARY and r.random() < 0.5:
                rule = r.choice(ORDER_FREE_BINARY)
            elif self.order_free_only:
                for _ in range(20):
                    if rule.order_free():
                        break
                    rule = enum_rule(r)
                else:
                    rule = CONF
            spec['VAt_1'] = ('String', rule)
        else:
            spec['VAt_1'] = ('String', Rule('agg', fn=r.choice(['min', 'max'])))
        if r.random() < 0.55:
            spec['VAt_2'] = (r.choice(['Integer', 'Number']), Rule('agg', fn=r.choice(AGG)))
        alpha = ALPHA + (['N'] if spec['VAt_1'][1] is CONF else [])
        env = {}
        n = r.choice([2, 2, 3])
        for i in range(1, n + 1):
            ids = full_ids if (i == 1 or not two_ids or r.random() < 0.6) else full_ids[:1]
            if i == 1:
                vs = list(spec)
            else:
                vs = [v for v in spec if r.random() < 0.75]
            nrows = r.choice([1, 2, 3, 4, 5, self.max_rows])
            keys = set()
            for _ in range(nrows):
                keys.add(tuple(r.choice([1, 2, 3]) if t == 'Integer' else r.choice(['a', 'b', 'c']) for _, t in ids))
            rows = []
            for key in sorted(keys):
                row = list(key)
                for _, t in meas:
                    row.append(num_value(r, t, self.null_rate))
                for v in vs:
                    t = spec[v][0]
                    row.append(text_value(r, self.null_rate, alpha) if t == 'String' else num_value(r, t, self.null_rate))
                rows.append(tuple(row))
            r.shuffle(rows)
            env['DS_%d' % i] = {'ids': list(ids), 'meas': list(meas), 'viral': [(v, spec[v][0]) for v in vs], 'rows': rows}
        return spec, env

    # one operator applied to `node` -> (vtl, sx, Node-without-name, op kind) or None
    def step(self, nodes, node, last):
        r = self.r
        X, dsx = node.name, '(ds %s)' % node.name
        choices = ['assign', 'filter', 'filter', 'calc', 'rename']
        if node.ids:            # set operators match datapoints by identifiers (datasets without identifiers: C05's matter)
            choices += ['setop', 'setop']
        if node.meas:
            choices += ['keep']
        if len(node.meas) > 1:
            choices += ['drop']
        if len(node.viral) > 1:
            choices += ['dropv']
        if len(node.ids) > 1:
            choices += ['sub']
        if node.numeric and node.meas:
            choices += ['aggr', 'aggr', 'aggr', 'aggrc']
        if node.numeric and node.meas and node.ids:      # the engine rejects operators on datasets without identifiers
            choices += ['unary', 'scalar', 'scalar', 'binary', 'binary', 'binary']
            if len(node.meas) == 1 and last:
                choices += ['cmp', 'bincmp']
            if last and node.viral:
                choices += ['analytic', 'analytic', 'analytic', 'join', 'join', 'join']
        if self.allow:
            choices = [c for c in choices if c in self.allow]
            if not choices:
                return None
        k = r.choice(choices)
        N = lambda ids=None, meas=None, viral=None, numeric=None: Node(None, node.ids if ids is None else ids, node.meas if meas is None else meas,  # noqa: E731
                                                                     node.viral if viral is None else viral, node.numeric if numeric is None else numeric)
        if k == 'assign':
            return X, dsx, N(), k
        if k == 'filter':
            opts = []
            if node.numeric and node.meas:
                m = r.choice(node.meas)[0]
                c = r.choice([0, 1, 2, 5])
                op, sxop = r.choice([('>', 'gt'), ('<=', 'le'), ('<>', 'ne')])
                opts.append(('%s %s %d' % (m, op, c), '(bin %s (col %s) (const (i %d)))' % (sxop, name_sx(m), c)))
            for v, t in node.viral:
                if t == 'String':
                    c = r.choice(ALPHA)
                    opts.append(('%s = "%s"' % (v, c), '(bin eq (col %s) (const %s))' % (name_sx(v), enc_value(c))))
                opts.append(('isnull(%s)' % v, '(un isnull (col %s))' % name_sx(v)))
                opts.append(('not isnull(%s)' % v, '(un not (un isnull (col %s)))' % name_sx(v)))
            if node.ids:
                i, t = r.choice(node.ids)
                c = r.choice([1, 2]) if t == 'Integer' else r.choice(['a', 'b'])
                opts.append(('%s <> %s' % (i, vtl_const(c)), '(bin ne (col %s) (const %s))' % (name_sx(i), enc_value(c))))
            if not opts:
                return None
            cv, cs = r.choice(opts)
            return '%s[filter %s]' % (X, cv), '(filter %s %s)' % (dsx, cs), N(), k
        if k == 'calc':
            opts = []
            if node.numeric and node.meas:
                m = r.choice(node.meas)[0]
                opts.append(('%s * 2' % m, '(bin mul (col %s) (const (i 2)))' % name_sx(m), 'Number'))
            for v, t in node.viral:
                if t == 'String':
                    opts.append(('%s || "x"' % v, '(bin concat (col %s) (const (s "x")))' % name_sx(v), 'String'))
                else:
                    opts.append(('%s + 1' % v, '(bin add (col %s) (const (i 1)))' % name_sx(v), 'Number'))
            if not opts:
                return None
            ev, es, t = r.choice(opts)
            new = 'Me_9'
            if new in [m for m, _ in node.meas]:
                return None
            return ('%s[calc %s := %s]' % (X, new, ev), '(calc %s ((%s %s)))' % (dsx, name_sx(new), es),
                    N(meas=node.meas + [(new, t)], numeric=node.numeric and t != 'String'), k)
        if k == 'keep':
            m = r.choice(node.meas)
            return '%s[keep %s]' % (X, m[0]), '(keep %s (%s))' % (dsx, name_sx(m[0])), N(meas=[m]), k
        if k == 'drop':
            m = r.choice(node.meas)
            return '%s[drop %s]' % (X, m[0]), '(drop %s (%s))' % (dsx, name_sx(m[0])), N(meas=[x for x in node.meas if x != m]), k
        if k == 'dropv':
            v = r.choice(node.viral)
            return '%s[drop %s]' % (X, v[0]), '(drop %s (%s))' % (dsx, name_sx(v[0])), N(viral=[x for x in node.viral if x != v]), k
        if k == 'rename':
            if not node.meas:
                return None
            m = r.choice(node.meas)
            new = m[0] + 'x'
            return ('%s[rename %s to %s]' % (X, m[0], new), '(rename %s ((%s %s)))' % (dsx, name_sx(m[0]), name_sx(new)),
                    N(meas=[((new, t) if n == m[0] else (n, t)) for n, t in node.meas]), k)
        if k == 'sub':
            i, t = node.ids[-1]
            val = r.choice(['a', 'b']) if t == 'String' else r.choice([1, 2])
            return ('%s[sub %s = %s]' % (X, i, vtl_const(val)), '(sub %s ((%s %s)))' % (dsx, name_sx(i), enc_value(val)),
                    N(ids=[x for x in node.ids if x[0] != i]), k)
        if k == 'setop':
            cands = [o for o in nodes if o.same_struct(node)]
            if not cands:
                return None
            o = r.choice(cands)
            op = r.choice(['union', 'intersect', 'setdiff', 'symdiff'])
            a, b = (node, o) if r.random() < 0.5 else (o, node)
            return '%s(%s, %s)' % (op, a.name, b.name), '(%s (ds %s) (ds %s))' % (op, a.name, b.name), N(viral=a.viral), op
        if k == 'unary':
            f, sxop = r.choice([('abs(%s)', 'abs'), ('-%s', 'neg'), ('+%s', 'plus')])
            return f % X, '(vmapm %s (un %s hole) _)' % (dsx, sxop), N(), k
        if k == 'scalar':
            # products of products overflow the engine's DECIMAL scale (not a viral matter): multiply inputs only
            op, sxop = r.choice([('+', 'add'), ('-', 'sub'), ('*', 'mul')] if X.startswith('DS_') else [('+', 'add'), ('-', 'sub')])
            c = r.choice([1, 2, 3, Fraction(5, 2)])
            left = r.random() < 0.7
            body = '(bin %s hole (const %s))' % (sxop, enc_value(c)) if left else '(bin %s (const %s) hole)' % (sxop, enc_value(c))
            vt = '%s %s %s' % (X, op, vtl_const(c)) if left else '%s %s %s' % (vtl_const(c), op, X)
            return vt, '(vmapm %s %s _)' % (dsx, body), N(), k
        if k == 'cmp':
            op, sxop = r.choice([('>', 'gt'), ('<=', 'le'), ('=', 'eq')])
            c = r.choice([0, 1, 2, 5])
            if r.random() < 0.25:
                return 'isnull(%s)' % X, '(vmapm %s (un isnull hole) "bool_var")' % dsx, N(meas=[('bool_var', 'Boolean')], numeric=False), k
            return ('%s %s %d' % (X, op, c), '(vmapm %s (bin %s hole (const (i %d))) "bool_var")' % (dsx, sxop, c),
                    N(meas=[('bool_var', 'Boolean')], numeric=False), k)
        if k in ('binary', 'bincmp'):
            cands = [o for o in nodes if o.meas == node.meas and o.numeric and o.ids and
                     (set(o.ids) <= set(node.ids) or set(node.ids) <= set(o.ids))]
            if not cands:
                return None
            o = r.choice(cands)
            a, b = (node, o) if r.random() < 0.5 else (o, node)
            ids = a.ids if len(a.ids) >= len(b.ids) else b.ids
            names = [v for v, _ in a.viral] + [v for v, _ in b.viral if v not in [x for x, _ in a.viral]]
            viral = [(v, dict(a.viral + b.viral)[v]) for v in names]
            if k == 'binary':
                op, sxop = r.choice([('+', 'add'), ('-', 'sub'), ('*', 'mul')] if a.name.startswith('DS_') and b.name.startswith('DS_') else [('+', 'add'), ('-', 'sub')])
                return ('%s %s %s' % (a.name, op, b.name), '(vzip (ds %s) (ds %s) (bin %s hole hole2) _)' % (a.name, b.name, sxop),
                        N(ids=ids, viral=viral), k)
            op, sxop = r.choice([('=', 'eq'), ('<', 'lt'), ('>=', 'ge')])
            return ('%s %s %s' % (a.name, op, b.name), '(vzip (ds %s) (ds %s) (bin %s hole hole2) "bool_var")' % (a.name, b.name, sxop),
                    N(ids=ids, meas=[('bool_var', 'Boolean')], viral=viral, numeric=False), k)
        if k == 'analytic':
            # op(DS over (partition by …)): the model answers identifiers + viral attributes only (measures: C06)
            pick = r.sample(node.ids, r.randint(1, len(node.ids)))
            pick = [i for i in node.ids if i in pick]
            op = r.choice(['sum', 'min', 'max', 'avg'])      # analytic count over several measures: structure/data mismatch (C06's matter)
            return ('%s(%s over (partition by %s))' % (op, X, ', '.join(i for i, _ in pick)),
                    '(vpart %s (%s))' % (dsx, ' '.join(name_sx(i) for i, _ in pick)), N(meas=[]), k)
        if k == 'join':
            # inner_join of two datasets with disjoint measure names (the partner's measures renamed in a statement of its
            # own): the model answers identifiers + viral attributes only (vzip without common measures)
            cands = [o for o in nodes if o.ids and o.meas and o.viral and o.name != node.name and
                     (set(o.ids) <= set(node.ids) or set(node.ids) <= set(o.ids))]
            if not cands:
                return None
            o = r.choice(cands)
            taken = {m for m, _ in node.meas}
            ren = [(m, m + 'j') for m, _ in o.meas]
            if any(n in taken for _, n in ren):
                return None
            pre = ('%s[rename %s]' % (o.name, ', '.join('%s to %s' % p for p in ren)),
                   '(rename (ds %s) (%s))' % (o.name, ' '.join('(%s %s)' % (name_sx(a), name_sx(b)) for a, b in ren)))
            left = r.random() < 0.5
            ids = node.ids if len(node.ids) >= len(o.ids) else o.ids
            names = [v for v, _ in node.viral] + [v for v, _ in o.viral if v not in [x for x, _ in node.viral]]
            viral = [(v, dict(node.viral + o.viral)[v]) for v in names]
            a, b = (X, '%(T)s') if left else ('%(T)s', X)
            return ('inner_join(%s, %s)' % (a, b), '(vzip (ds %s) (ds %s) hole _)' % (a, b), N(ids=ids, meas=[], viral=viral), k, pre)
        if k in ('aggr', 'aggrc'):
            g = r.choice(['by', 'by', 'except', 'none'] if len(node.ids) > 1 else ['by', 'none', 'none'] if node.ids else ['none'])
            if g == 'none':
                gids, gv, gs = [], '', 'none'
            else:
                pick = r.sample(node.ids, r.randint(1, len(node.ids)))
                pick = [i for i in node.ids if i in pick]
                if g == 'by':
                    gids = pick
                else:
                    gids = [i for i in node.ids if i not in pick]
                gv = ' group %s %s' % (g, ', '.join(i for i, _ in pick))
                gs = '(%s %s)' % (g, ' '.join(name_sx(i) for i, _ in pick))
            op = r.choice(['sum', 'min', 'max', 'count', 'avg'])
            if k == 'aggr':
                meas = [('int_var', 'Integer')] if op == 'count' else [(m, 'Number' if op == 'avg' else t) for m, t in node.meas]
                return ('%s(%s%s)' % (op, X, gv), '(vaggr (spec %s (each %s) _) %s)' % (gs, op, dsx), N(ids=gids, meas=meas), k)
            if op == 'count':
                op = 'sum'
            m = r.choice(node.meas)[0]
            return ('%s[aggr Me_9 := %s(%s)%s]' % (X, op, m, gv),
                    '(vaggr (spec %s (list (item "Me_9" %s (expr (col %s)))) _) %s)' % (gs, op, name_sx(m), dsx),
                    N(ids=gids, meas=[('Me_9', 'Number')]), k)
        return None

    def case(self, nstmts=None):
        r = self.r
        spec, env = self.make_env()
        nodes = [Node(n, d['ids'], d['meas'], d['viral']) for n, d in env.items()]
        cur = nodes[0] if r.random() < 0.7 else r.choice(nodes)
        ns = nstmts or r.choice([1, 1, 2, 2, 3])
        stmts, ops = [], []
        for i in range(ns):
            last = i == ns - 1
            res = None
            for _ in range(8):
                res = self.step(nodes, cur, last)
                if res is not None:
                    break
            if res is None:
                res = (cur.name, '(ds %s)' % cur.name, Node(None, cur.ids, cur.meas, cur.viral, cur.numeric), 'assign')
            if len(res) == 5:       # an operand prepared in a statement of its own
                tname = 'T_%dj' % (i + 1)
                stmts.append((tname, res[4][0], res[4][1]))
                res = (res[0] % {'T': tname}, res[1] % {'T': tname}, res[2], res[3])
            vtl, sx, nn, op = res
            nn.name = 'DS_r' if last else 'T_%d' % (i + 1)
            stmts.append((nn.name, vtl, sx))
            ops.append(op)
            nodes.append(nn)
            cur = nn
        return finish_case(spec, env, stmts, ops, cur)


def finish_case(spec, env, stmts, ops, res):
    rules = ' '.join(rule.vtl('R_' + v, v) for v, (_, rule) in spec.items())
    body = ' '.join('%s %s %s;' % (n, '<-' if n == 'DS_r' else ':=', v) for n, v, _ in stmts)
    return {'spec': spec, 'env': env, 'stmts': stmts, 'ops': ops, 'vtl': rules + ' ' + body, 'viral_only': bool(ops) and ops[-1] in ('analytic', 'join'),
            'ids': [i for i, _ in res.ids], 'viral': [v for v, _ in res.viral], 'viral_types': dict(res.viral)}


def spec_sx(spec):
    return '(' + ' '.join('(%s %s)' % (name_sx(v), rule.sx()) for v, (_, rule) in spec.items()) + ')'


def env_sx(env):
    parts = []
    for n, d in env.items():
        rows = ' '.join('(' + ' '.join(enc_value(v) for v in row) + ')' for row in d['rows'])
        parts.append('(%s (%s) (%s) (%s))' % (n, ' '.join(name_sx(i) for i, _ in d['ids']),
                                               ' '.join(name_sx(m) for m, _ in d['meas'] + d['viral']), rows))
    return '(' + ' '.join(parts) + ')'


def request(case):
    return '(vprog %s %s (%s))' % (spec_sx(case['spec']), env_sx(case['env']),
                                   ' '.join('(%s %s)' % (n, sx) for n, _, sx in case['stmts']))


def structures(env):
    dss = []
    for n, d in env.items():
        comps = [{'name': i, 'type': t, 'role': 'Identifier', 'nullable': False} for i, t in d['ids']]
        comps += [{'name': m, 'type': t, 'role': 'Measure', 'nullable': True} for m, t in d['meas']]
        comps += [{'name': v, 'type': t, 'role': 'Viral Attribute', 'nullable': True} for v, t in d['viral']]
        dss.append({'name': n, 'DataStructure': comps})
    return {'datasets': dss}


def dataframes(env, perm_seed=None):
    import random
    import pandas as pd
    out = {}
    for n, d in env.items():
        rows = list(d['rows'])
        if perm_seed is not None:
            random.Random('%s/%s' % (perm_seed, n)).shuffle(rows)
        comps = d['ids'] + d['meas'] + d['viral']
        data = {}
        for j, (c, t) in enumerate(comps):
            vals = [row[j] for row in rows]
            if t == 'Number':
                data[c] = pd.array([None if v is None else float(v) for v in vals], dtype='Float64')
            elif t == 'Integer':
                data[c] = pd.array(vals, dtype='Int64')
            elif t == 'Boolean':
                data[c] = pd.array(vals, dtype='boolean')
            else:
                data[c] = pd.array(vals, dtype='string')
        out[n] = pd.DataFrame(data, columns=[c for c, _ in comps])
    return out


def case_to_json(case):
    def cell(v):
        return str(v) if isinstance(v, Fraction) else v
    return {'script': case['vtl'], 'structures': structures(case['env']),
            'data': {n: [[cell(v) for v in row] for row in d['rows']] for n, d in case['env'].items()},
            'rules': {v: rule.to_json() for v, (_, rule) in case['spec'].items()},
            'model_request': request(case), 'ops': case['ops']}


# ---------------------------------------------------------------------------------------------- (c) semantics
SEM_STRUCT = {
    'DS_1': {'ids': [('Id_1', 'Integer')], 'meas': [('Me_1', 'Number')], 'viral': [('VAt_1', 'String'), ('VAt_2', 'Integer')], 'rows': []},
    'DS_2': {'ids': [('Id_1', 'Integer')], 'meas': [('Me_1', 'Number')], 'viral': [('VAt_1', 'String')], 'rows': []},
    'DS_3': {'ids': [('Id_1', 'Integer')], 'meas': [('Me_1', 'Number')], 'viral': [], 'rows': []},
}


def semantic_case(r):
    def src(n):
        return '(src (%s))' % ' '.join(name_sx(v) for v, _ in SEM_STRUCT[n]['viral'])
    forms = [
        lambda a, b: (a, '(same %s)' % src(a)),
        lambda a, b: ('%s[filter Me_1 > 1]' % a, '(same %s)' % src(a)),
        lambda a, b: ('abs(%s)' % a, '(same %s)' % src(a)),
        lambda a, b: ('%s + 1' % a, '(same %s)' % src(a)),
        lambda a, b: ('sum(%s group by Id_1)' % a, '(same %s)' % src(a)),
        lambda a, b: ('%s[keep Me_1]' % a, '(same %s)' % src(a)),
        lambda a, b: ('%s[calc Me_2 := Me_1]' % a, '(same %s)' % src(a)),
        lambda a, b: ('DS_1[drop VAt_2]', '(drop %s ("VAt_2"))' % src('DS_1')),
        lambda a, b: ('DS_1[drop VAt_1, VAt_2]', '(drop %s ("VAt_1" "VAt_2"))' % src('DS_1')),
        lambda a, b: ('%s + %s' % (a, b), '(both %s %s)' % (src(a), src(b))),
        lambda a, b: ('%s * %s' % (a, b), '(both %s %s)' % (src(a), src(b))),
        lambda a, b: ('union(%s, %s)' % (a, a), '(first %s %s)' % (src(a), src(a))),
        lambda a, b: ('%s[calc viral attribute VAt_3 := "x"]' % a, '(calcv %s "VAt_3")' % src(a)),
        lambda a, b: ('DS_2[rename VAt_1 to VAt_9]', '(ren %s "VAt_1" "VAt_9")' % src('DS_2')),
    ]
    ruled = [v for v in ['VAt_1', 'VAt_2', 'VAt_3', 'VAt_9'] if r.random() < 0.6]
    stmts, shapes = [], []
    n = r.choice([1, 1, 2])
    for i in range(n):
        a, b = r.choice(list(SEM_STRUCT)), r.choice(list(SEM_STRUCT))
        v, sh = r.choice(forms)(a, b)
        stmts.append('DS_r%d <- %s;' % (i + 1, v))
        shapes.append(sh)
    rules = ' '.join(Rule('agg', fn='max').vtl('R_' + v, v) for v in ruled)
    return {'vtl': rules + ' ' + ' '.join(stmts), 'ruled': ruled, 'shapes': shapes,
            'request': '(analyse (%s) (%s))' % (' '.join(name_sx(v) for v in ruled), ' '.join(shapes))}

"""Run generated cases on the real engine (process pool, wall-clock guard) and on the Lean model
(line protocol), and compare canonicalised outcomes."""
import math
import multiprocessing as mp
import os
import signal
import sys
from fractions import Fraction

HARNESS = os.path.dirname(os.path.dirname(os.path.abspath(__file__)))
if HARNESS not in sys.path:
    sys.path.insert(0, HARNESS)

from sem import gen as G  # noqa: E402
from sem.sx import dec_answer  # noqa: E402

DIVZERO_CODES = {'2-1-15-6', '2-1-3-1'}


class _TO(KeyboardInterrupt):
    pass


def _alarm(*a):
    raise _TO()


def _init():
    import eng  # noqa: F401


def _run_one(args):
    case, budget, kw = args
    import eng
    from vtlengine import run
    signal.signal(signal.SIGALRM, _alarm)
    signal.alarm(budget)
    try:
        out = eng.outcome(run, case['vtl'], G.structures(case['env']), G.dataframes(case['env']),
                          return_only_persistent=kw.get('rop', True))
        if out[0] == 'ok':
            res = {}
            for name, ds in out[1].items():
                if hasattr(ds, 'components'):
                    comps, rows, cols = eng.canon_dataset(ds)
                    if cols is not None and [c for c in cols] != [c[0] for c in comps if c[0] in cols] or (cols is not None and len(cols) != len(comps)):
                        res[name] = ('ds-mismatch', comps, cols)
                    else:
                        res[name] = ('ds', comps, [tuple(_plain(v) for v in r) for r in (rows or [])])
                else:
                    res[name] = ('scalar', type(ds.data_type).__name__ if not isinstance(ds.data_type, type) else ds.data_type.__name__, _plain(eng.canon_value(ds.value)))
            return ('ok', res)
        if out[0] == 'raw' and 'interrupted' in str(out[-1]).lower():
            return ('timeout',)
        return out[:3] + (out[-1][:200],)
    except _TO:
        return ('timeout',)
    finally:
        signal.alarm(0)


def _plain(v):
    return v


def run_engine(cases, budget=60, jobs=None, **kw):
    jobs = jobs or min(14, max(1, (os.cpu_count() or 2) - 2))
    with mp.Pool(jobs, initializer=_init) as pool:
        return pool.map(_run_one, [(c, budget, kw) for c in cases], chunksize=4)


def val_eq(model_v, eng_v):
    if model_v is None or eng_v is None:
        return model_v is None and eng_v is None
    if isinstance(model_v, bool) or isinstance(eng_v, bool):
        return isinstance(model_v, bool) and isinstance(eng_v, (bool,)) and model_v == bool(eng_v) or (
            isinstance(eng_v, (int, float)) and not isinstance(eng_v, bool) and False)
    if isinstance(model_v, float):
        if not isinstance(eng_v, (int, float)) or isinstance(eng_v, bool):
            return False
        return abs(model_v - eng_v) <= 1e-9 * max(1.0, abs(model_v), abs(eng_v))
    if isinstance(model_v, (int, Fraction)):
        if not isinstance(eng_v, (int, float)):
            return False
        if isinstance(eng_v, float) and (math.isnan(eng_v) or math.isinf(eng_v)):
            return False
        e = Fraction(eng_v) if isinstance(eng_v, int) else Fraction(repr(eng_v))
        m = Fraction(model_v)
        if m == e:
            return True
        tol = max(Fraction(1, 10 ** 9), abs(m) / 10 ** 9)
        return abs(m - e) <= tol
    return model_v == eng_v


LAZY_DROPPERS = {'filter', 'sub', 'keep', 'drop', 'calc', 'ifd', 'union', 'intersect', 'setdiff', 'symdiff'}


def compare(case, model_ans, eng_out, result='DS_r'):
    """-> (verdict, detail); verdict in agree / skip:<why> / DISAGREE:<why>."""
    a = dec_answer(model_ans)
    if a[0] == 'bad':
        return 'skip:model-bad-request', model_ans
    if eng_out[0] == 'timeout':
        return 'skip:engine-timeout', None
    if a[0] == 'err' and a[1] == 'unsupported':
        return 'skip:model-unsupported', None
    if eng_out[0] == 'vtl' and eng_out[1] in ('SemanticError', 'InputValidationException') :
        return 'skip:semantic-reject:' + str(eng_out[2]), eng_out[3]
    if a[0] == 'err':
        if a[1] == 'divzero':
            if eng_out[0] == 'vtl' and eng_out[1] == 'RunTimeError' and eng_out[2] in DIVZERO_CODES:
                return 'agree', 'divzero'
            ops = case.get('ops', ())
            if (eng_out[0] == 'ok' and not case.get('flat') and case.get('depth', 0) >= 2
                    and any(o in LAZY_DROPPERS or o.startswith('zip_') for o in ops)):
                # one SQL statement per VTL statement: inside a nested expression DuckDB may drop the datapoint (or the
                # measure) before it evaluates the division, so the error never arises.  Which of the two orders is
                # taken is the optimiser's choice, not the operator's; division by zero itself is decided on the
                # single-operator and multi-statement streams, where every operand is materialised first.
                return 'skip:lazy-divzero-in-nested-expression', eng_out
            return 'DISAGREE:model-divzero', eng_out
        if a[1] == 'domain':
            return 'skip:model-domain', eng_out
        return 'skip:model-' + a[1], eng_out
    post = case.get('post')
    if post:
        # irrational function applied on top of the model's exact operand values
        def fn(x):
            x = float(x)
            if post[0] == 'sqrt':
                return math.sqrt(x) if x >= 0 else 'ERR'
            if post[0] == 'exp':
                return math.exp(x) if x < 700 else 'SKIP'
            if post[0] == 'ln':
                return math.log(x) if x > 0 else 'ERR'
            if post[0] == 'log':
                return math.log(x) / math.log(post[1]) if x > 0 else 'ERR'
            if post[0] == 'powf':
                if x < 0 or (x == 0 and post[1] < 0):
                    return 'SKIP'
                return x ** post[1]
            return 'SKIP'
        _, ids_, meas_, mrows_ = a
        nid = len(ids_)
        newrows, err, skip = [], False, False
        for r_ in mrows_:
            vals = []
            for v_ in r_[nid:]:
                if v_ is None:
                    vals.append(None)
                    continue
                y = fn(v_)
                if y == 'ERR':
                    err = True
                elif y == 'SKIP':
                    skip = True
                vals.append(y)
            newrows.append(tuple(r_[:nid]) + tuple(vals))
        if skip:
            return 'skip:float-domain', None
        if err:
            if eng_out[0] in ('vtl', 'raw'):
                return 'agree', 'domain-error'
            return 'DISAGREE:no-error-for-undefined-operation', eng_out
        a = ('ok', ids_, meas_, newrows)
    if eng_out[0] != 'ok':
        return 'DISAGREE:engine-error', eng_out
    if result not in eng_out[1]:
        return 'DISAGREE:missing-result', list(eng_out[1])
    kind, comps, rows = eng_out[1][result]
    if kind == 'ds-mismatch':
        return 'DISAGREE:columns-vs-components', {'components': [c[0] for c in comps], 'data_columns': rows}
    _, ids, meas, mrows = a
    e_ids = [c[0] for c in comps if c[1] == 'Identifier']
    e_meas = [c[0] for c in comps if c[1] != 'Identifier']
    if sorted(e_ids) != sorted(ids):
        return 'DISAGREE:identifiers', (ids, e_ids)
    if len(meas) == 1 and len(e_meas) == 1 and meas != e_meas:
        # the NAME of a renamed single measure (bool_var / int_var ...) is a structure question (C10);
        # values are compared position-wise here
        comps = [(meas[0],) + tuple(c[1:]) if c[0] == e_meas[0] else c for c in comps]
        e_meas = list(meas)
    if sorted(e_meas) != sorted(meas):
        return 'DISAGREE:measures', (meas, e_meas)
    e_names = [c[0] for c in comps]
    m_names = ids + meas
    def keyed(names, rws):
        out = {}
        for r in rws:
            d = dict(zip(names, r))
            k = tuple(d[i] for i in sorted(ids))
            if k in out:
                return None
            out[k] = d
        return out
    mk = keyed(m_names, mrows)
    ek = keyed(e_names, rows)
    if ek is None:
        return 'DISAGREE:engine-duplicate-keys', rows
    if mk is None:
        return 'skip:model-duplicate-keys', mrows
    if set(mk) != set(ek):
        return 'DISAGREE:keys', {'model_only': sorted(map(str, set(mk) - set(ek))), 'engine_only': sorted(map(str, set(ek) - set(mk)))}
    for k in mk:
        for m in meas:
            if not val_eq(mk[k][m], ek[k][m]):
                return 'DISAGREE:value', {'key': k, 'measure': m, 'model': str(mk[k][m]), 'engine': ek[k][m]}
    return 'agree', len(mk)

"""Generator + comparer for the analytic (window) correspondence (C06): datasets with two identifiers (partition
identifier Id_1 + ordering identifier Id_2, so that every generated ordering is TOTAL), 0-40 datapoints in
partitions of 0-8 datapoints, null measures; every analytic function x every frame shape (`data points` / `range`,
offsets 0-3, unbounded and current-data-point bounds) at dataset level (`op(DS over (…))`) and inside `calc`.

Every random choice comes from the `rng` passed in (derived from VERIF_SEED)."""
import os
import random
import sys
from fractions import Fraction

HARNESS = os.path.dirname(os.path.dirname(os.path.abspath(__file__)))
if HARNESS not in sys.path:
    sys.path.insert(0, HARNESS)

from sem import gen as G  # noqa: E402
from sem import runner as R  # noqa: E402
from sem.sx import enc_value, dec_answer, parse  # noqa: E402

AGG = ['sum', 'avg', 'count', 'min', 'max', 'median', 'stddev_pop', 'stddev_samp', 'var_pop', 'var_samp',
       'first_value', 'last_value']
NUM_ONLY = {'sum', 'avg', 'median', 'stddev_pop', 'stddev_samp', 'var_pop', 'var_samp', 'ratio_to_report'}
SQUARED = {'stddev_pop', 'stddev_samp'}
ALL_FUNCS = AGG + ['lag', 'lead', 'rank', 'ratio_to_report']
FAMILIES = {
    'num2': [('Me_1', 'Number'), ('Me_2', 'Integer')],
    'num1': [('Me_1', 'Number')],
    'int1': [('Me_1', 'Integer')],
    'str1': [('Me_1', 'String')],
}
STRS = ['', 'a', 'B', 'ab', 'aB', 'x€', 'Zz9', ' ', 'b', 'ba', 'A']
ID2_STR = ['a', 'b', 'c', 'd', 'e', 'f', 'g', 'h', 'i', 'j', 'A', 'ab']
NULL_RATES = [0.0, 0.1, 0.15, 0.3, 0.3, 0.5, 0.6, 0.8, 1.0]


def nsx(n):
    return G.name_sx(n)


# ---------------------------------------------------------------------------- frames
def bound_vtl(kind, k):
    return {'UP': 'unbounded preceding', 'UF': 'unbounded following', 'C': 'current data point',
            'P': '%d preceding' % k, 'F': '%d following' % k}[kind]


def bound_off(kind, k):
    """signed offset of the model (None = unbounded)."""
    return {'UP': None, 'UF': None, 'C': 0, 'P': -k, 'F': k}[kind]


FRAME_SHAPES = ['P-P', 'P-C', 'P-F', 'C-C', 'C-F', 'F-F', 'UP-P', 'UP-C', 'UP-F', 'UP-UF', 'P-UF', 'C-UF', 'F-UF']


def make_frame(r, shape, mode):
    a, b = shape.split('-')
    ka, kb = r.randint(0, 3), r.randint(0, 3)
    if shape == 'P-P' and ka < kb:
        ka, kb = kb, ka
    if shape == 'F-F' and ka > kb:
        ka, kb = kb, ka
    lo, hi = bound_off(a, ka), bound_off(b, kb)
    vtl = '%s between %s and %s' % ('data points' if mode == 'rows' else 'range', bound_vtl(a, ka), bound_vtl(b, kb))
    sx = '(%s %s %s)' % (mode, 'u' if lo is None else lo, 'u' if hi is None else hi)
    offsets = [k for kind, k in ((a, ka), (b, kb)) if kind in 'PF']
    return {'vtl': vtl, 'sx': sx, 'shape': '%s:%s' % (mode, shape), 'lo': lo, 'hi': hi, 'mode': mode, 'offsets': offsets}


# ---------------------------------------------------------------------------- generator
class AnGen:
    def __init__(self, rng):
        self.r = rng

    def value(self, t, null_rate):
        r = self.r
        if r.random() < null_rate:
            return None
        if t == 'Integer':
            return r.choice([0, 1, -1, 7, 100, -12]) if r.random() < 0.2 else r.randint(-30, 60)
        if t == 'Number':
            if r.random() < 0.2:
                return r.choice([Fraction(0), Fraction(1, 10), Fraction(-5, 2), Fraction(333, 100), Fraction(1001, 1000)])
            return Fraction(r.randint(-2000, 4000), r.choice([1, 2, 4, 5, 10, 100]))
        if t == 'String':
            return r.choice(STRS)
        return r.choice([True, False])

    def dataset(self, fam, id2_type, distinct_meas=False):
        """-> env, partition sizes.  Id_1 = partition identifier, Id_2 = ordering identifier (unique inside a
        partition because (Id_1, Id_2) is the dataset key)."""
        r = self.r
        meas = list(FAMILIES[fam])
        nparts = r.choice([0, 1, 1, 2, 2, 3, 3, 4, 4, 5, 6, 8])
        sizes = []
        total = 0
        for _ in range(nparts):
            s = r.choice([1, 1, 2, 3, 4, 5, 6, 7, 8])       # a partition "of size 0" is an absent Id_1 value
            if total + s > 40:
                s = 40 - total
            if s > 0:
                sizes.append(s); total += s
        null_rate = r.choice(NULL_RATES)
        rows = []
        id1_vals = r.sample(range(1, 12), len(sizes))
        for id1, s in zip(id1_vals, sizes):
            if id2_type == 'Integer':
                keys = r.sample(range(-3, 12), s)
            else:
                keys = r.sample(ID2_STR, s)
            used = set()
            for k in keys:
                vals = []
                for j, (_, t) in enumerate(meas):
                    v = self.value(t, null_rate)
                    if distinct_meas and j == 0 and v is not None:
                        for _ in range(20):
                            if v not in used:
                                break
                            v = self.value(t, 0.0)
                        used.add(v)
                    vals.append(v)
                rows.append(tuple([id1, k] + vals))
        r.shuffle(rows)
        env = {'DS_1': {'ids': [('Id_1', 'Integer'), ('Id_2', id2_type)], 'meas': meas, 'rows': rows}}
        return env, sizes, null_rate

    def const_of(self, t):
        r = self.r
        if t == 'Integer':
            return r.choice([0, -1, 5])
        if t == 'Number':
            return r.choice([Fraction(0), Fraction(5, 2), Fraction(-1)])
        if t == 'String':
            return r.choice(['x', ''])
        return True

    def case(self, fn=None, level=None, shape=None, mode=None, stream='main', nowindow=None):
        r = self.r
        fn = fn or r.choice(ALL_FUNCS)
        if fn == 'rank':
            level = 'calc'
        level = level or r.choice(['each', 'calc'])
        if fn in NUM_ONLY:
            fam = r.choice(['num2', 'num1', 'int1', 'num2'])
        else:
            fam = r.choice(['num2', 'num1', 'int1', 'str1', 'num2'])
        # ---- ordering / partitioning (always total: the dataset key (Id_1, Id_2) is covered)
        okind = r.choice(['id2', 'id2', 'id2', 'id1id2', 'meas', 'single'])
        if fn == 'ratio_to_report':
            okind = 'none'
        if fn in AGG:
            mode = mode or r.choice(['rows', 'rows', 'range'])
            shape = shape or r.choice(FRAME_SHAPES)
            if nowindow or (nowindow is None and r.random() < 0.08):
                mode, shape = None, None            # no window clause
        else:
            mode = shape = None
        id2_type = 'Integer' if (mode == 'range' or r.random() < 0.7) else 'String'
        if mode == 'range':
            needs_num = any(k in 'PF' for k in shape.split('-'))
            if needs_num and okind not in ('id2',):
                okind = 'id2'                        # an offset needs ONE numeric order component
            if okind == 'meas' and FAMILIES[fam][0][1] == 'String':
                okind = 'id2'                        # the engine documents (1-1-19-13) that RANGE windows do not order by String
        env, sizes, null_rate = self.dataset(fam, id2_type, distinct_meas=(okind == 'meas'))
        meas = env['DS_1']['meas']
        d = lambda: r.choice(['asc', 'desc', ''])    # noqa: E731
        if okind == 'id2':
            part, order = ['Id_1'], [('Id_2', d())]
        elif okind == 'id1id2':
            part, order = [], [('Id_1', d()), ('Id_2', d())]
        elif okind == 'meas':
            part, order = ['Id_1'], [(meas[0][0], d()), ('Id_2', d())]
        elif okind == 'single':
            part, order = ['Id_1', 'Id_2'], [('Id_2', d())]
        else:
            part, order = r.choice([['Id_1'], ['Id_1', 'Id_2'], ['Id_2']]), []
        frame = make_frame(r, shape, mode) if mode else None
        over = []
        if part:
            over.append('partition by ' + ', '.join(part))
        if order:
            over.append('order by ' + ', '.join(('%s %s' % (c, dd)).strip() for c, dd in order))
        if frame:
            over.append(frame['vtl'])
        over = ' '.join(over)
        order_sx = '(order %s)' % ' '.join('(%s %s)' % (nsx(c), 'desc' if dd == 'desc' else 'asc') for c, dd in order)
        part_sx = '(part %s)' % ' '.join(nsx(p) for p in part)
        frame_sx = frame['sx'] if frame else '_'
        # ---- function
        params_vtl = ''
        lag_off = r.randint(0, 3)
        lag_dflt = r.random() < 0.5

        def lag_params(t):
            """offset + optional default of the operand's type `t` (None: no default can be typed for all measures)."""
            dflt = self.const_of(t) if (lag_dflt and t is not None) else None
            return (', %d' % lag_off + (', %s' % G.vtl_const(dflt) if dflt is not None else ''),
                    '(%s %d %s)' % (fn, lag_off, enc_value(dflt)))
        if fn in ('lag', 'lead'):
            types = {t for _, t in meas}
            t_all = meas[0][1] if len(types) == 1 else ('Integer' if types <= {'Integer', 'Number'} else None)
            params_vtl, fn_sx = lag_params(t_all)
        elif fn == 'rank':
            fn_sx = 'rank'
        elif fn == 'ratio_to_report':
            fn_sx = 'ratio'
        else:
            fn_sx = '(agg %s)' % fn
        # ---- level
        if level == 'each':
            vtl = 'DS_r <- %s(DS_1%s over (%s));' % (fn, params_vtl, over)
            target_sx = 'each'
            arg_desc = 'dataset'
        else:
            out = r.choice(['Me_9', 'Me_9', meas[0][0]])
            m, t = r.choice(meas)
            if fn in NUM_ONLY:
                m, t = r.choice([x for x in meas if x[1] in ('Integer', 'Number')])
            if fn in ('lag', 'lead'):
                params_vtl, fn_sx = lag_params(t)        # the default has the operand's type
            arg_vtl, arg_sx, arg_desc = m, '(col %s)' % nsx(m), 'component'
            if t in ('Integer', 'Number') and r.random() < 0.2 and fn != 'rank':
                c = r.choice([1, 2])
                opv, ops = r.choice([('+', 'add'), ('*', 'mul')])
                arg_vtl, arg_sx, arg_desc = '%s %s %d' % (m, opv, c), '(bin %s (col %s) (const (i %d)))' % (ops, nsx(m), c), 'expression'
            if fn == 'rank':
                vtl = 'DS_r <- DS_1[calc %s := rank(over (%s))];' % (out, over)
                arg_sx = '(const n)'
            else:
                vtl = 'DS_r <- DS_1[calc %s := %s(%s%s over (%s))];' % (out, fn, arg_vtl, params_vtl, over)
            target_sx = '(calc %s %s)' % (nsx(out), arg_sx)
        spec = '(spec %s %s %s %s %s)' % (fn_sx, part_sx, order_sx, frame_sx, target_sx)
        return {'stream': stream, 'env': env, 'vtl': vtl, 'sx': '(analytic %s (ds DS_1))' % spec, 'fn': fn, 'level': level,
                'family': fam, 'order_kind': okind, 'frame_shape': frame['shape'] if frame else 'none',
                'offsets': frame['offsets'] if frame else [], 'part_sizes': sizes, 'nrows': len(env['DS_1']['rows']),
                'null_rate': null_rate, 'arg': arg_desc, 'id2_type': id2_type, 'ops': [fn], 'flat': True, 'depth': 1,
                'ids': env['DS_1']['ids'], 'meas': meas}

    # ---- side streams ----------------------------------------------------------------------------
    def no_order_each(self):
        """dataset-level invocation with `partition by` only (no order by, no window): the function over the whole
        partition (what the same invocation inside calc returns)."""
        r = self.r
        fn = r.choice(['sum', 'avg', 'count', 'min', 'max'])
        fam = r.choice(['num1', 'int1'])
        env, sizes, null_rate = self.dataset(fam, 'Integer')
        c = {'stream': 'no-order-by', 'env': env, 'vtl': 'DS_r <- %s(DS_1 over (partition by Id_1));' % fn,
             'sx': '(analytic (spec (agg %s) (part "Id_1") (order) _ each) (ds DS_1))' % fn, 'fn': fn, 'level': 'each',
             'family': fam, 'order_kind': 'none', 'frame_shape': 'none', 'offsets': [], 'part_sizes': sizes,
             'nrows': len(env['DS_1']['rows']), 'null_rate': null_rate, 'arg': 'dataset', 'id2_type': 'Integer', 'ops': [fn],
             'flat': True, 'depth': 1, 'ids': env['DS_1']['ids'], 'meas': env['DS_1']['meas']}
        return c


    def ratio_zero(self):
        """ratio_to_report over a dataset where some partition sums to zero: the VTL runtime error 2-1-3-1."""
        r = self.r
        fam = r.choice(['num1', 'int1'])
        t = FAMILIES[fam][0][1]
        env, sizes, null_rate = self.dataset(fam, 'Integer')
        vals = r.choice([[5, -5], [0], [0, 0, None], [3, -1, -2, None]])
        rows = [row for row in env['DS_1']['rows'] if row[0] != 99]
        for j, v in enumerate(vals):
            rows.append((99, j, None if v is None else (Fraction(v) if t == 'Number' else v)))
        r.shuffle(rows)
        env['DS_1']['rows'] = rows
        level = r.choice(['each', 'calc'])
        if level == 'each':
            vtl, target = 'DS_r <- ratio_to_report(DS_1 over (partition by Id_1));', 'each'
        else:
            vtl, target = 'DS_r <- DS_1[calc Me_9 := ratio_to_report(Me_1 over (partition by Id_1))];', '(calc "Me_9" (col "Me_1"))'
        return {'stream': 'ratio-zero-sum', 'env': env, 'vtl': vtl,
                'sx': '(analytic (spec ratio (part "Id_1") (order) _ %s) (ds DS_1))' % target, 'fn': 'ratio_to_report', 'level': level,
                'family': fam, 'order_kind': 'none', 'frame_shape': 'none', 'offsets': [], 'part_sizes': sizes + [len(vals)],
                'nrows': len(rows), 'null_rate': null_rate, 'arg': 'dataset' if level == 'each' else 'component', 'id2_type': 'Integer',
                'ops': ['ratio_to_report'], 'flat': True, 'depth': 1, 'ids': env['DS_1']['ids'], 'meas': env['DS_1']['meas']}


def request(case):
    return '(eval %s %s)' % (G.env_sx(case['env']), case['sx'])


def squared_of(ans):
    try:
        x = parse(ans)
    except Exception:
        return []
    if x and x[0] == ('atom', 'ok') and len(x) >= 5:
        return [a[1] for a in x[4][1:]]
    return []


def square_engine(eng_out, sq, result='DS_r'):
    """square the engine's values of the stddev measures (the model returns exact variances)."""
    if not sq or eng_out[0] != 'ok' or result not in eng_out[1] or eng_out[1][result][0] != 'ds':
        return eng_out
    kind, comps, rows = eng_out[1][result]
    idx = [i for i, c in enumerate(comps) if c[0] in sq]
    new = []
    for row in rows:
        row = list(row)
        for i in idx:
            if isinstance(row[i], (int, float)) and not isinstance(row[i], bool):
                row[i] = float(row[i]) * float(row[i])
        new.append(tuple(row))
    res = dict(eng_out[1]); res[result] = (kind, comps, new)
    return ('ok', res)


def compare(case, ans, eng_out):
    a = dec_answer(ans)
    if a[0] == 'err' and a[1] == 'divzero' and eng_out[0] == 'raw' and '2-1-3-1' in str(eng_out[-1]):
        return 'DISAGREE:engine-error', eng_out           # the VTL error escapes run() raw (C32's question) — reported
    return R.compare(case, ans, square_engine(eng_out, set(squared_of(ans))))


def permuted(case, seed):
    r = random.Random(seed)
    rows = list(case['env']['DS_1']['rows'])
    r.shuffle(rows)
    if rows == case['env']['DS_1']['rows'] and len(rows) > 1:
        rows = rows[1:] + rows[:1]
    c = dict(case)
    c['env'] = {'DS_1': dict(case['env']['DS_1'], rows=rows)}
    return c


def same_result_set(a, b, result='DS_r'):
    """two engine outcomes as SETS of datapoints (1e-9 relative on numbers) -> (bool, why)."""
    if a[0] == 'timeout' or b[0] == 'timeout':
        return None, 'timeout'
    if a[0] != b[0]:
        return False, 'outcome kinds differ: %s vs %s' % (str(a[:3])[:120], str(b[:3])[:120])
    if a[0] != 'ok':
        return (a[1:3] == b[1:3]), 'errors differ: %s vs %s' % (a[1:3], b[1:3])
    x, y = a[1].get(result), b[1].get(result)
    if x is None or y is None or x[0] != y[0]:
        return False, 'result kinds differ'
    if x[0] != 'ds':
        return (x == y), 'non-dataset results differ'
    if x[1] != y[1]:
        return False, 'components differ'
    rx, ry = x[2], y[2]
    if len(rx) != len(ry):
        return False, '%d vs %d datapoints' % (len(rx), len(ry))
    for p, q in zip(rx, ry):        # both canonically sorted (identifiers first)
        if len(p) != len(q) or not all(_veq(u, v) for u, v in zip(p, q)):
            return False, 'datapoint %r vs %r' % (p, q)
    return True, ''


def _veq(u, v, tol=1e-9):
    if u is None or v is None:
        return u is None and v is None
    if isinstance(u, bool) or isinstance(v, bool):
        return u == v
    if isinstance(u, (int, float)) and isinstance(v, (int, float)):
        return u == v or abs(u - v) <= tol * max(1.0, abs(u), abs(v))
    return u == v


# ---------------------------------------------------------------------------- reference examples as an oracle
import re  # noqa: E402

_BOUND = r'(unbounded\s+preceding|unbounded\s+following|current\s+data\s+point|-?\d+\s+preceding|-?\d+\s+following)'
_OVER = re.compile(r'^\s*(?:partition\s+by\s+(?P<part>[A-Za-z_0-9 ,]+?))?\s*(?:order\s+by\s+(?P<order>[A-Za-z_0-9 ,]+?))?\s*'
                   r'(?:(?P<mode>data\s+points|range)\s+between\s+(?P<b1>' + _BOUND.strip('()') + r')\s+and\s+(?P<b2>' + _BOUND.strip('()') + r'))?\s*$')
_FUNCS = '|'.join(AGG + ['lag', 'lead', 'ratio_to_report'])
_EACH = re.compile(r'^DS_r\s*(?::=|<-)\s*(?P<fn>' + _FUNCS + r')\s*\(\s*DS_1\s*(?:,\s*(?P<off>\d+)\s*(?:,\s*(?P<dflt>-?[0-9.]+|"[^"]*"))?\s*)?over\s*\((?P<over>.*)\)\s*\)\s*;?\s*$')
_CALC = re.compile(r'^DS_r\s*(?::=|<-)\s*DS_1\s*\[\s*calc\s+(?P<out>\w+)\s*:=\s*(?P<fn>' + _FUNCS + r')\s*\(\s*(?P<arg>\w+)\s*(?:,\s*(?P<off>\d+)\s*(?:,\s*(?P<dflt>-?[0-9.]+|"[^"]*"))?\s*)?over\s*\((?P<over>.*)\)\s*\)\s*\]\s*;?\s*$')
_RANK = re.compile(r'^DS_r\s*(?::=|<-)\s*DS_1\s*\[\s*calc\s+(?P<out>\w+)\s*:=\s*rank\s*\(\s*over\s*\((?P<over>.*)\)\s*\)\s*\]\s*;?\s*$')


def _bound(s):
    s = ' '.join(s.split())
    if s == 'unbounded preceding':
        return float('-inf')
    if s == 'unbounded following':
        return float('inf')
    if s.startswith('current'):
        return 0
    k, side = s.split()
    return -int(k) if side == 'preceding' else int(k)


def parse_simple(vtl):
    """the simple analytic forms (one invocation at dataset level / one calc item) -> model spec, or None."""
    t = ' '.join(vtl.split())
    m = _EACH.match(t) or _CALC.match(t) or _RANK.match(t)
    if not m:
        return None
    g = m.groupdict()
    o = _OVER.match(g['over'])
    if not o:
        return None
    part = [p.strip() for p in (o.group('part') or '').split(',') if p.strip()]
    order = []
    for it in (o.group('order') or '').split(','):
        it = it.split()
        if not it:
            continue
        if len(it) > 2 or (len(it) == 2 and it[1] not in ('asc', 'desc')):
            return None
        order.append((it[0], it[1] if len(it) == 2 else 'asc'))
    frame = '_'
    if o.group('mode'):
        b1, b2 = _bound(o.group('b1')), _bound(o.group('b2'))
        lo, hi = min(b1, b2), max(b1, b2)       # the engine's AST constructor orders the two bounds
        if lo == float('inf') or hi == float('-inf'):
            return None
        f = lambda b: 'u' if b in (float('inf'), float('-inf')) else str(int(b))  # noqa: E731
        frame = '(%s %s %s)' % ('rows' if o.group('mode').startswith('data') else 'range', f(lo), f(hi))
    fn = g.get('fn') or 'rank'
    if fn in ('lag', 'lead'):
        d = g.get('dflt')
        if d is None:
            dv = None
        elif d.startswith('"'):
            dv = d[1:-1]
        elif '.' in d:
            dv = Fraction(d)
        else:
            dv = int(d)
        fn_sx = '(%s %s %s)' % (fn, g.get('off') or '1', enc_value(dv))
    elif fn == 'rank':
        fn_sx = 'rank'
    elif fn == 'ratio_to_report':
        fn_sx = 'ratio'
    else:
        fn_sx = '(agg %s)' % fn
    if 'out' in g and g['out']:
        target = '(calc %s %s)' % (nsx(g['out']), '(col %s)' % nsx(g['arg']) if g.get('arg') else '(const n)')
    else:
        target = 'each'
    return '(spec %s (part %s) (order %s) %s %s)' % (fn_sx, ' '.join(nsx(p) for p in part),
                                                     ' '.join('(%s %s)' % (nsx(c), dd) for c, dd in order), frame, target)

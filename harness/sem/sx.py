"""S-expression encoding shared by the Sem correspondence (harness side)."""
from fractions import Fraction
import json


def enc_value(v):
    if v is None:
        return 'n'
    if isinstance(v, bool):
        return '(b 1)' if v else '(b 0)'
    if isinstance(v, int):
        return '(i %d)' % v
    if isinstance(v, Fraction):
        return '(q %d %d)' % (v.numerator, v.denominator)
    if isinstance(v, float):
        f = Fraction(repr(v))
        return '(q %d %d)' % (f.numerator, f.denominator)
    if isinstance(v, str):
        return '(s %s)' % json.dumps(v)
    raise TypeError(v)


def tokenize(s):
    i, n, out = 0, len(s), []
    while i < n:
        c = s[i]
        if c in ' \n\r\t':
            i += 1
        elif c in '()':
            out.append(c); i += 1
        elif c == '"':
            j = i + 1
            while s[j] != '"':
                j += 2 if s[j] == '\\' else 1
            out.append(('str', json.loads(s[i:j + 1]))); i = j + 1
        else:
            j = i
            while j < n and s[j] not in ' ()"\n':
                j += 1
            out.append(('atom', s[i:j])); i = j
    return out


def parse(s):
    toks = tokenize(s)
    stack = [[]]
    for t in toks:
        if t == '(':
            stack.append([])
        elif t == ')':
            x = stack.pop(); stack[-1].append(x)
        else:
            stack[-1].append(t)
    return stack[0][0]


def dec_value(x):
    if x == ('atom', 'n'):
        return None
    tag = x[0][1]
    if tag == 'i':
        return int(x[1][1])
    if tag == 'q':
        return Fraction(int(x[1][1]), int(x[2][1]))
    if tag == 's':
        return x[1][1]
    if tag == 'b':
        return x[1][1] == '1'
    raise ValueError(x)


def dec_answer(line):
    """-> ('ok', ids, meas, rows) | ('err', kind) | ('bad',) | ('okv', value)"""
    x = parse(line)
    head = x[0][1]
    if head == 'ok' and len(x) == 2:
        return ('okv', dec_value(x[1]))
    if head == 'ok':
        ids = [a[1] for a in x[1]]
        meas = [a[1] for a in x[2]]
        rows = [tuple(dec_value(v) for v in r) for r in x[3]]
        return ('ok', ids, meas, rows)
    if head == 'err':
        return ('err', x[1][1])
    return ('bad',)

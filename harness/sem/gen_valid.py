"""Generator of validation / hierarchy cases for C07 (check, check_datapoint, check_hierarchy, hierarchy):
(structures, data, VTL script, model S-expression).  All randomness from the `rng` passed in."""
import re
from fractions import Fraction

from . import gen as G
from .sx import enc_value

name_sx = G.name_sx
CMP = [('=', 'eq'), ('<>', 'ne'), ('<', 'lt'), ('<=', 'le'), ('>', 'gt'), ('>=', 'ge')]
HMODES = ['non_null', 'non_zero', 'partial_null', 'partial_zero', 'always_null', 'always_zero']
ITEMS = ['A', 'B', 'C', 'D', 'E', 'F', 'G', 'H']


def lit(v):
    """VTL literal of an errorcode / errorlevel / constant."""
    return G.vtl_const(v)


class VGen:
    def __init__(self, rng):
        self.r = rng

    # ------------------------------------------------------------------ data
    def keys(self, ids, n):
        r = self.r
        ks = set()
        for _ in range(n):
            ks.add(tuple(r.choice(G.ID_INT) if t == 'Integer' else r.choice(G.ID_STR) for _, t in ids))
        return sorted(ks)

    def num(self, t, null_rate=0.2):
        r = self.r
        if r.random() < null_rate:
            return None
        if t == 'Integer':
            return r.choice([0, 0, 1, 2, 3, -1, 5, 10, -3, 7])
        return r.choice([Fraction(0), Fraction(0), Fraction(1), Fraction(2), Fraction(5, 2), Fraction(-3, 2), Fraction(1, 4),
                         Fraction(3), Fraction(10), Fraction(-1), Fraction(1, 8)])

    def ec_el(self, str_levels=False):
        r = self.r
        ec = r.choice([None, 'E1', 'bad value', 'X'])
        if str_levels:
            el = r.choice([None, 'low', 'high'])
        else:
            el = r.choice([None, 1, 2, 5, 0])
        return ec, el

    @staticmethod
    def ec_el_vtl(ec, el):
        s = ''
        if ec is not None:
            s += ' errorcode %s' % lit(ec)
        if el is not None:
            s += ' errorlevel %s' % lit(el)
        return s

    # ------------------------------------------------------------------ boolean expressions over components
    def nexpr(self, comps, depth):
        """numeric expression (exact: + - and * by a small integer)."""
        r = self.r
        cols = [(n, t) for n, t in comps if t in G.NUM]
        if not cols or depth <= 0 or r.random() < 0.45:
            if cols and r.random() < 0.8:
                n, _ = r.choice(cols)
                return n, '(col %s)' % name_sx(n)
            v = r.choice([0, 1, 2, 3, -1, 5, Fraction(5, 2), Fraction(1, 2)])
            return lit(v), '(const %s)' % enc_value(v)
        k = r.random()
        a = self.nexpr(comps, depth - 1)
        if k < 0.6:
            op, sx = r.choice([('+', 'add'), ('-', 'sub')])
            b = self.nexpr(comps, depth - 1)
            return '(%s %s %s)' % (a[0], op, b[0]), '(bin %s %s %s)' % (sx, a[1], b[1])
        if k < 0.8:
            c = r.choice([2, 3, -1, 0])
            return '(%s * %s)' % (a[0], lit(c)), '(bin mul %s (const %s))' % (a[1], enc_value(c))
        if k < 0.9:
            return 'abs(%s)' % a[0], '(un abs %s)' % a[1]
        d = r.choice([0, 1])
        return 'nvl(%s, %s)' % (a[0], lit(d)), '(bin nvl %s (const %s))' % (a[1], enc_value(d))

    def bexpr(self, comps, depth):
        r = self.r
        k = r.random()
        if depth <= 0 or k < 0.5:
            strs = [n for n, t in comps if t == 'String']
            bools = [n for n, t in comps if t == 'Boolean']
            j = r.random()
            if strs and j < 0.2:
                n = r.choice(strs)
                op, sx = r.choice(CMP[:2])
                v = r.choice(G.ID_STR + ['A', 'B'])
                return '(%s %s %s)' % (n, op, lit(v)), '(bin %s (col %s) (const %s))' % (sx, name_sx(n), enc_value(v))
            if bools and j < 0.3:
                n = r.choice(bools)
                return n, '(col %s)' % name_sx(n)
            if j < 0.4:
                n = r.choice(comps)[0]
                return 'isnull(%s)' % n, '(un isnull (col %s))' % name_sx(n)
            nums = [n for n, t in comps if t in G.NUM]
            if nums and j < 0.5:
                n = r.choice(nums)
                lo, hi = r.choice([0, 1, -1]), r.choice([1, 2, 5])
                return ('between(%s, %s, %s)' % (n, lit(lo), lit(hi)),
                        '(tern between (col %s) (const %s) (const %s))' % (name_sx(n), enc_value(lo), enc_value(hi)))
            if nums and j < 0.58:
                n = r.choice(nums)
                vs = r.sample([0, 1, 2, 3, 5, -1], r.choice([1, 2, 3]))
                neg = r.random() < 0.4
                return ('(%s %s {%s})' % (n, 'not_in' if neg else 'in', ', '.join(lit(v) for v in vs)),
                        '(%s (col %s) (%s))' % ('notin' if neg else 'in', name_sx(n), ' '.join(enc_value(v) for v in vs)))
            a = self.nexpr(comps, 1)
            b = self.nexpr(comps, 1)
            op, sx = r.choice(CMP)
            return '(%s %s %s)' % (a[0], op, b[0]), '(bin %s %s %s)' % (sx, a[1], b[1])
        a = self.bexpr(comps, depth - 1)
        if k < 0.6:
            return '(not %s)' % a[0], '(un not %s)' % a[1]
        b = self.bexpr(comps, depth - 1)
        op = r.choice(['and', 'or', 'xor'])
        return '(%s %s %s)' % (a[0], op, b[0]), '(bin %s %s %s)' % (op, a[1], b[1])

    # ------------------------------------------------------------------ check
    def case_check(self):
        r = self.r
        ids = [('Id_1', 'Integer')] + ([('Id_2', 'String')] if r.random() < 0.4 else [])
        mt = r.choice(['Number', 'Integer'])
        form = r.choice(['cmp2', 'cmp2', 'cmp2_flat', 'cmpc', 'bool_imb', 'bool_imb'])
        ec, el = self.ec_el(str_levels=r.random() < 0.2)
        output = r.choice(['', ' invalid', ' all', ' invalid'])
        inv = 1 if output == ' invalid' else 0
        env = {}

        def numds(n):
            ks = self.keys(ids, r.choice([0, 1, 3, 4, 6, 8]))
            rows = [tuple(list(k) + [self.num(mt)]) for k in ks]
            r.shuffle(rows)
            return {'ids': list(ids), 'meas': [('Me_1', mt)], 'rows': rows}
        hdr = '%s %s %d' % (enc_value(ec), enc_value(el), inv)
        tail = self.ec_el_vtl(ec, el)
        imb_missing = False
        if form in ('cmp2', 'cmp2_flat'):
            env['DS_1'], env['DS_2'] = numds(1), numds(2)
            op, sx = r.choice(CMP)
            with_imb = r.random() < 0.7
            b_sx = '(zip (ds DS_1) (ds DS_2) (bin %s hole hole2) "bool_var")' % sx
            i_sx = '(zip (ds DS_1) (ds DS_2) (bin sub hole hole2) _)' if with_imb else '_'
            if form == 'cmp2':
                vtl = 'DS_r <- check(DS_1 %s DS_2%s%s%s);' % (op, tail, ' imbalance DS_1 - DS_2' if with_imb else '', output)
            else:
                vtl = 'T_1 := DS_1 %s DS_2; ' % op
                if with_imb:
                    vtl += 'T_2 := DS_1 - DS_2; '
                vtl += 'DS_r <- check(T_1%s%s%s);' % (tail, ' imbalance T_2' if with_imb else '', output)
        elif form == 'cmpc':
            env['DS_1'] = numds(1)
            op, sx = r.choice(CMP)
            c = r.choice([0, 1, 2, Fraction(5, 2)])
            with_imb = r.random() < 0.5
            b_sx = '(mapm (ds DS_1) (bin %s hole (const %s)) "bool_var")' % (sx, enc_value(c))
            i_sx = '(mapm (ds DS_1) (bin sub hole (const %s)) _)' % enc_value(c) if with_imb else '_'
            vtl = 'DS_r <- check(DS_1 %s %s%s%s%s);' % (op, lit(c), tail, (' imbalance DS_1 - %s' % lit(c)) if with_imb else '', output)
        else:
            ks = self.keys(ids, r.choice([1, 3, 5, 8]))
            rows = [tuple(list(k) + [r.choice([True, False, False, None])]) for k in ks]
            r.shuffle(rows)
            bname = 'bool_var' if r.random() < 0.8 else 'Me_1'
            env['DS_1'] = {'ids': list(ids), 'meas': [(bname, 'Boolean')], 'rows': rows}
            with_imb = r.random() < 0.8
            if with_imb:
                # the imbalance operand covers the datapoints of the Boolean operand only partly, sometimes
                ks2 = [k for k in ks if r.random() < 0.8] if r.random() < 0.5 else list(ks)
                extra = [k for k in self.keys(ids, 2) if k not in ks]
                rows2 = [tuple(list(k) + [self.num(mt)]) for k in ks2 + extra]
                r.shuffle(rows2)
                env['DS_2'] = {'ids': list(ids), 'meas': [('Me_1', mt)], 'rows': rows2}
                imb_missing = len(ks2) < len(ks)
            b_sx, i_sx = '(ds DS_1)', '(ds DS_2)' if with_imb else '_'
            vtl = 'DS_r <- check(DS_1%s%s%s);' % (tail, ' imbalance DS_2' if with_imb else '', output)
        sx = '(check %s 0 %s %s)' % (hdr, b_sx, i_sx)
        alt = {'inner-join': '(check %s 1 %s %s)' % (hdr, b_sx, i_sx)} if i_sx != '_' else {}
        return {'kind': 'check', 'env': env, 'vtl': vtl, 'sx': sx, 'alt': alt, 'ops': ['check'], 'flat': form == 'cmp2_flat', 'depth': 1,
                'meta': {'op': 'check', 'form': form, 'output': output.strip() or 'default', 'imbalance': i_sx != '_',
                         'imbalance_partial': imb_missing, 'nrules': 0, 'mode': '-',
                         'bool_measure': env['DS_1']['meas'][0][0] if form == 'bool_imb' else 'bool_var'},
                'ids': ids, 'meas': [(m, '') for m in ['bool_var', 'imbalance', 'errorcode', 'errorlevel']]}

    # ------------------------------------------------------------------ check_datapoint
    def case_dp(self):
        r = self.r
        ids = [('Id_1', 'Integer')] + ([('Id_2', 'String')] if r.random() < 0.6 else [])
        meas = r.choice([[('Me_1', 'Number'), ('Me_2', 'Integer')], [('Me_1', 'Number')], [('Me_1', 'Integer'), ('Me_2', 'Number'), ('Me_3', 'Boolean')],
                         [('Me_1', 'Number'), ('Me_2', 'String')]])
        ks = self.keys(ids, r.choice([0, 1, 3, 5, 8, 10]))
        rows = []
        for k in ks:
            vals = []
            for _, t in meas:
                if t in G.NUM:
                    vals.append(self.num(t))
                elif t == 'Boolean':
                    vals.append(r.choice([True, False, None]))
                else:
                    vals.append(r.choice(['a', 'b', 'A', None]))
            rows.append(tuple(list(k) + vals))
        r.shuffle(rows)
        env = {'DS_1': {'ids': list(ids), 'meas': list(meas), 'rows': rows}}
        comps = ids + meas
        nrules = r.choice([1, 2, 2, 3, 3, 4, 5])
        named = r.random() < 0.5
        str_levels = r.random() < 0.15
        # signature: the components the rules may use, some under an alias
        sig = [c for c in comps if r.random() < 0.85] or [comps[-1]]
        alias = {}
        if r.random() < 0.25:
            for n, _ in sig:
                if r.random() < 0.4:
                    alias[n] = 'X' + n.replace('_', '')
        sigtype = 'variable' if (alias or r.random() < 0.8) else 'valuedomain'
        rules_vtl, rules_sx = [], []
        nwhen = 0
        for i in range(nrules):
            name = ('r%d' % (i + 1)) if named else None
            ante = self.bexpr(sig, r.choice([0, 0, 1])) if r.random() < 0.55 else None
            cons = self.bexpr(sig, r.choice([0, 1, 1, 2]))
            ec, el = self.ec_el(str_levels)
            nwhen += ante is not None
            txt = ('%s : ' % name if named else '') + ('when %s then ' % ante[0] if ante else '') + cons[0] + self.ec_el_vtl(ec, el)
            for n, a in alias.items():
                txt = re.sub(r'\b%s\b' % n, a, txt)
            rules_vtl.append(txt)
            rules_sx.append('(rule %s %s %s %s %s)' % (name_sx(name or str(i + 1)), ante[1] if ante else '_', cons[1], enc_value(ec), enc_value(el)))
        output = r.choice(['', ' invalid', ' all', ' all_measures', ' all', ' invalid'])
        out_sx = {'': 'invalid', ' invalid': 'invalid', ' all': 'all', ' all_measures': 'all_measures'}[output]
        sig_vtl = ', '.join(('%s as %s' % (n, alias[n])) if n in alias else n for n, _ in sig)
        comps_clause = ''
        if sigtype == 'valuedomain' or r.random() < 0.2:
            comps_clause = ' components ' + ', '.join(n for n, _ in sig)
        vtl = ('define datapoint ruleset dpr1 (%s %s) is %s end datapoint ruleset; DS_r <- check_datapoint(DS_1, dpr1%s%s);'
               % (sigtype, sig_vtl, '; '.join(rules_vtl), comps_clause, output))
        sx = '(dp %s (%s) (ds DS_1))' % (out_sx, ' '.join(rules_sx))
        return {'kind': 'dp', 'env': env, 'vtl': vtl, 'sx': sx, 'alt': {}, 'ops': ['check_datapoint'], 'flat': False, 'depth': 1,
                'meta': {'op': 'check_datapoint', 'output': out_sx, 'nrules': nrules, 'named': named, 'when_rules': nwhen,
                         'aliases': len(alias), 'signature': sigtype, 'mode': '-'},
                'ids': ids + [('ruleid', 'String')], 'meas': []}

    # ------------------------------------------------------------------ hierarchical rulesets
    def hr_data(self, items, two_ids, mt):
        r = self.r
        ids = [('Id_1', 'Integer'), ('Id_2', 'String')] + ([('Id_3', 'String')] if two_ids else [])
        groups = [(g,) for g in r.sample([1, 2, 3, 4, 5], r.choice([1, 2, 3, 4]))]
        if two_ids:
            groups = [(g[0], s) for g in groups for s in r.sample(['x', 'y'], r.choice([1, 2]))]
        rows = []
        style = r.choice(['mixed', 'mixed', 'dense', 'sparse', 'zeros'])
        p_present = {'mixed': 0.65, 'dense': 0.95, 'sparse': 0.35, 'zeros': 0.7}[style]
        for g in groups:
            for it in items + ['Z']:
                if r.random() < p_present:
                    if style == 'zeros':
                        v = r.choice([0, 0, 0, None, 1]) if mt == 'Integer' else r.choice([Fraction(0), Fraction(0), None, Fraction(1)])
                    else:
                        v = self.num(mt, 0.15)
                    rows.append((g[0], it) + tuple(g[1:]) + (v,))
        r.shuffle(rows)
        return ids, {'DS_1': {'ids': ids, 'meas': [('Me_1', mt)], 'rows': rows}}

    def hr_rules(self, for_hierarchy):
        """rules over an acyclic item graph; returns (rules in TEXT order, index of each in a valid order).
        A rule: dict(name, left, cmp(vtl, sx), right [(neg, item)], cond (vtl, sx)|None, ec, el, rank)."""
        r = self.r
        n = r.choice([1, 2, 2, 3, 3, 4, 5])
        nleaf = r.choice([1, 2, 3])
        pool = r.sample(ITEMS, min(len(ITEMS), n + nleaf))
        defs = pool[:n]            # defs[i] may use pool[j], j > i  =>  valid order: descending i
        rules = []
        str_levels = r.random() < 0.1
        cond_comp = 'Id_1' if r.random() < 0.35 else None
        for i in range(n):
            cands = pool[i + 1:]
            k = min(len(cands), r.choice([1, 2, 2, 3]))
            right = [(r.random() < (0.3 if j else 0.04), it) for j, it in enumerate(r.sample(cands, k))]
            cmpop = ('=', 'eq') if (for_hierarchy and r.random() < 0.85) or r.random() < 0.6 else r.choice([c for c in CMP if c[1] not in ('eq', 'ne')])
            rules.append({'left': defs[i], 'cmp': cmpop, 'right': right, 'rank': i})
        # extra comparison rules, possibly on an item that an `=` rule already defines
        for _ in range(r.choice([0, 0, 1]) if len(rules) < 5 else 0):
            i = r.randrange(n)
            cands = pool[i + 1:]
            right = [(r.random() < (0.3 if j else 0.04), it) for j, it in enumerate(r.sample(cands, min(len(cands), r.choice([1, 2]))))]
            rules.append({'left': defs[i], 'cmp': r.choice([c for c in CMP if c[1] not in ('eq', 'ne')]), 'right': right, 'rank': i})
        # `=` rules must define distinct items; signatures must be distinct (identification after the engine's sort)
        seen, out = set(), []
        for ru in rules:
            sig = (ru['left'], ru['cmp'][1], tuple(ru['right']))
            if sig in seen:
                continue
            seen.add(sig)
            out.append(ru)
        rules = out
        named = r.random() < 0.5
        r.shuffle(rules)
        for pos, ru in enumerate(rules):
            ru['name'] = ('R%d0' % (pos + 1)) if named else None
            ru['pos'] = pos + 1
            ru['ec'], ru['el'] = self.ec_el(str_levels)
            ru['cond'] = None
            if cond_comp and r.random() < 0.6:
                op, sx = r.choice(CMP)
                c = r.choice([1, 2, 3, 4])
                ru['cond'] = ('%s %s %d' % (cond_comp, op, c), '(bin %s (col "%s") (const (i %d)))' % (sx, cond_comp, c))
        return rules, named, cond_comp, pool

    @staticmethod
    def hr_rule_vtl(ru):
        rhs = ''
        for j, (neg, it) in enumerate(ru['right']):
            rhs += (' - ' if neg else (' + ' if j else ' ')) + it
        s = ('%s : ' % ru['name']) if ru['name'] else ''
        if ru['cond']:
            s += 'when %s then ' % ru['cond'][0]
        return s + '%s %s%s%s' % (ru['left'], ru['cmp'][0], rhs, VGen.ec_el_vtl(ru['ec'], ru['el']))

    @staticmethod
    def hr_rule_sx(ru, name=None):
        return '(hrule %s %s %s (%s) %s %s %s)' % (name_sx(name or ru['name'] or str(ru['pos'])), name_sx(ru['left']), ru['cmp'][1],
                                                  ' '.join('(%d %s)' % (1 if neg else 0, name_sx(it)) for neg, it in ru['right']),
                                                  ru['cond'][1] if ru['cond'] else '_', enc_value(ru['ec']), enc_value(ru['el']))

    def case_hr(self, op):
        r = self.r
        rules, named, cond_comp, pool = self.hr_rules(op == 'hierarchy')
        mt = r.choice(['Number', 'Number', 'Integer'])
        ids, env = self.hr_data(pool, r.random() < 0.3, mt)
        mode = r.choice(HMODES + [''])
        sig = '(variable %srule Id_2)' % ('condition %s ' % cond_comp if cond_comp else '')
        call = '%srule Id_2' % ('condition %s ' % cond_comp if cond_comp else '')
        defn = 'define hierarchical ruleset hr1 %s is %s end hierarchical ruleset; ' % (sig, '; '.join(self.hr_rule_vtl(x) for x in rules))
        mode_sx = mode or 'non_null'
        canon = sorted(rules, key=lambda x: (-x['rank'], x['pos']))      # a valid dependency order
        alt = {}
        if op == 'check_hierarchy':
            output = r.choice(['', ' invalid', ' all', ' all_measures', ' all'])
            out_sx = {'': 'invalid', ' invalid': 'invalid', ' all': 'all', ' all_measures': 'all_measures'}[output]
            imode = r.choice(['', '', ' dataset'])
            vtl = defn + 'DS_r <- check_hierarchy(DS_1, hr1 %s%s%s%s);' % (call, ' ' + mode if mode else '', imode, output)
            sx = '(ch %s %s "Id_2" (%s) (ds DS_1))' % (mode_sx, out_sx, ' '.join(self.hr_rule_sx(x) for x in rules))
            meta = {'op': 'check_hierarchy', 'mode': mode_sx, 'output': out_sx, 'input': imode.strip() or 'default'}
            kind = 'ch'
        else:
            eqs = [x for x in canon if x['cmp'][1] == 'eq']
            if not eqs:
                return self.case_hr(op)          # `hierarchy` needs at least one `=` rule (1-1-10-5)
            output = r.choice(['', ' computed', ' all', ' all'])
            imode = r.choice(['', ' rule', ' dataset', ' rule_priority', ' rule_priority'])
            im_sx = imode.strip() or 'rule'
            vtl = defn + 'DS_r <- hierarchy(DS_1, hr1 %s%s%s%s);' % (call, ' ' + mode if mode else '', imode, output)
            body = ' '.join(self.hr_rule_sx(x) for x in canon)
            sx = '(hier %s %s %d "Id_2" (%s) (ds DS_1))' % (mode_sx, im_sx, 1 if output == ' all' else 0, body)
            if im_sx == 'dataset':
                alt['dataset-as-rule'] = '(hier %s rule %d "Id_2" (%s) (ds DS_1))' % (mode_sx, 1 if output == ' all' else 0, body)
            meta = {'op': 'hierarchy', 'mode': mode_sx, 'output': output.strip() or 'computed', 'input': im_sx}
            kind = 'hier'
        meta.update({'nrules': len(rules), 'named': named, 'when_rules': sum(1 for x in rules if x['cond']),
                     'non_eq_rules': sum(1 for x in rules if x['cmp'][1] != 'eq'),
                     'dup_left': len(rules) - len({x['left'] for x in rules}),
                     'leading_sign': any(x['right'] and x['right'][0][0] for x in rules)})
        return {'kind': kind, 'env': env, 'vtl': vtl, 'sx': sx, 'alt': alt, 'ops': [op], 'flat': False, 'depth': 1, 'meta': meta,
                'rules': rules, 'named': named, 'mode_sx': mode_sx, 'ids': ids, 'meas': []}

    def case(self, kind=None):
        k = kind or self.r.choice(['check', 'dp', 'dp', 'ch', 'ch', 'hier', 'hier'])
        if k == 'check':
            return self.case_check()
        if k == 'dp':
            return self.case_dp()
        return self.case_hr('check_hierarchy' if k == 'ch' else 'hierarchy')


def request(case, sx=None):
    return '(eval %s %s)' % (G.env_sx(case['env']), sx or case['sx'])


def rules_request(rules):
    return '(validorder (%s))' % ' '.join(VGen.hr_rule_sx(x) for x in rules)

"""Type-directed generator for the clause operators the core C02 stream does not reach: `unpivot`, `pivot`, the
`aggr` clause, `calc` with an explicit role (identifier / measure / attribute) and keep / drop / rename / filter
applied to datasets that carry ATTRIBUTES (C02 extension).

A case = input datasets (identifiers + measures, with nulls), a script of 1-3 statements and the request for the
Lean driver `Drivers/ClauseExt.lean`.  Attributes come into being inside the script (`calc attribute …`,
`aggr attribute …`), so the inputs keep the two-role format the shared engine runner (`sem/runner.py`) understands.
The generator tracks the role of every component; where VTL treats measures and attributes differently the request
says so explicitly (`(unpivot (<attributes>) …)`, `(drop … (<attributes>))` below an element-wise operator).

Every random choice comes from the `rng` passed in (derived from VERIF_SEED)."""
import os
import sys
from fractions import Fraction

HARNESS = os.path.dirname(os.path.dirname(os.path.abspath(__file__)))
if HARNESS not in sys.path:
    sys.path.insert(0, HARNESS)

from sem import gen as G  # noqa: E402
from sem.sx import enc_value  # noqa: E402

NUM = G.NUM
EXT_OPS = {'unpivot', 'pivot', 'calcrole', 'aggrc', 'keep_att', 'drop_att', 'rename_att', 'filter_att'}
FAMILIES = {
    'int2': [('Me_1', 'Integer'), ('Me_2', 'Integer')],
    'num2': [('Me_1', 'Number'), ('Me_2', 'Number')],
    'numint': [('Me_1', 'Number'), ('Me_2', 'Integer')],
    'intnum': [('Me_1', 'Integer'), ('Me_2', 'Number')],       # Integer measure first, Number second
    'int3': [('Me_1', 'Integer'), ('Me_2', 'Integer'), ('Me_3', 'Integer')],
    'str2': [('Me_1', 'String'), ('Me_2', 'String')],
    'bool2': [('Me_1', 'Boolean'), ('Me_2', 'Boolean')],
    'int1': [('Me_1', 'Integer')],
    'str1': [('Me_1', 'String')],
    'intstr': [('Me_1', 'Integer'), ('Me_2', 'String')],
}
FAMILY_WEIGHTS = ['int2', 'int2', 'num2', 'numint', 'intnum', 'int3', 'str2', 'bool2', 'int1', 'str1', 'intstr', 'intstr']
AGG_NUM = ['sum', 'avg', 'min', 'max', 'count']
AGG_ANY = ['min', 'max', 'count']


def nsx(n):
    return G.name_sx(n)


class XNode:
    """a dataset expression with the role of every component."""

    def __init__(self, vtl, sx, ids, meas, atts, ops=(), stmt_ops=0):
        self.vtl, self.sx = vtl, sx
        self.ids, self.meas, self.atts = list(ids), list(meas), list(atts)
        self.ops = tuple(ops)
        self.stmt_ops = stmt_ops        # operators applied inside the current statement
        self.final = False              # structure depends on the data (pivot): nothing can follow
        self.facts = {}                 # what the classifier needs to know about the script
        self.stmt_roles = []            # components given the role identifier / attribute by a calc of the current statement

    def comps(self):
        return self.ids + self.meas + self.atts

    def names(self):
        return [n for n, _ in self.comps()]

    def att_names(self):
        return [n for n, _ in self.atts]


class XGen(G.Gen):
    def __init__(self, rng, max_rows=8, null_rate=0.25):
        super().__init__(rng, max_rows=max_rows, null_rate=null_rate)

    # ------------------------------------------------------------------ inputs
    def make_inputs_x(self, fam=None):
        r = self.r
        fam = fam or r.choice(FAMILY_WEIGHTS)
        nid = r.choice([1, 2, 2, 2, 3])
        ids = [('Id_1', 'Integer'), ('Id_2', 'String'), ('Id_3', 'Integer')][:nid]
        meas = list(FAMILIES[fam])
        nrows = r.choice([0, 1, 2, 3, 4, 5, 6, self.max_rows])
        keys = set()
        for _ in range(nrows):
            keys.add(tuple(r.choice(G.ID_INT) if t == 'Integer' else r.choice(G.ID_STR) for _, t in ids))
        rows = [tuple(list(k) + [self.value(t) for _, t in meas]) for k in sorted(keys)]
        r.shuffle(rows)
        return fam, {'DS_1': {'ids': ids, 'meas': meas, 'rows': rows}}

    # ------------------------------------------------------------------ helpers
    def fresh(self, node, pool):
        used = set(node.names())
        c = [p for p in pool if p not in used]
        return self.r.choice(c) if c else None

    def mk(self, node, vtl, sx, ids, meas, atts, op, **facts):
        n = XNode(vtl, sx, ids, meas, atts, node.ops + (op,), node.stmt_ops + 1)
        n.facts = dict(node.facts)
        n.facts.update(facts)
        n.stmt_roles = list(node.stmt_roles)
        return n

    # ------------------------------------------------------------------ the new operators
    def unpivot(self, node, allow_empty=False):
        r = self.r
        if not node.ids:
            return None
        types = [t for _, t in node.meas]
        if not types and not allow_empty:
            return None
        if len(set(types)) > 1 and not set(types) <= set(NUM):
            return None                     # measures of different types: not a well-typed unpivot
        t = 'Number' if 'Number' in types else (types[0] if types else 'String')
        idn = self.fresh(node, ['Id_u', 'Id_4', 'Id_5'])
        cands = ['Me_u', 'Me_9'] + [n for n, _ in node.meas] + [n for n, _ in node.atts]
        mn = r.choice(cands)
        if idn is None or mn in [n for n, _ in node.ids] or mn == idn:
            return None
        sx = '(unpivot (%s) %s %s %s)' % (' '.join(nsx(a) for a in node.att_names()), nsx(idn), nsx(mn), node.sx)
        n = self.mk(node, '%s[unpivot %s, %s]' % (node.vtl, idn, mn), sx, node.ids + [(idn, 'String')], [(mn, t)], [], 'unpivot',
                       operand_measures=bool(types),
                       attributes_before_unpivot=sorted(set(node.facts.get('attributes_before_unpivot', [])) | set(node.att_names())),
                       nested_role_calc_before_unpivot=sorted(set(node.facts.get('nested_role_calc_before_unpivot', [])) | set(node.stmt_roles)),
                       unpivot_types=types,
                       unpivot_integer_before_number=bool(node.facts.get('unpivot_integer_before_number')) or
                       ('Integer' in types and 'Number' in types and types.index('Integer') < types.index('Number')))
        # three recorded engine defects end the script: what follows them would only repeat them under other keys
        if n.facts['unpivot_integer_before_number'] or not types or node.stmt_roles:
            n.final = True
        return n

    def pivot(self, node):
        sids = [n for n, t in node.ids if t == 'String']
        if not sids or len(node.ids) < 2 or not node.meas:
            return None
        idn = self.r.choice(sids)
        mn, t = self.r.choice(node.meas)
        n = self.mk(node, '%s[pivot %s, %s]' % (node.vtl, idn, mn), '(pivot %s %s %s)' % (nsx(idn), nsx(mn), node.sx),
                    [i for i in node.ids if i[0] != idn], [], [], 'pivot')
        n.final = True
        return n

    def calcrole(self, node, force_role=None):
        r = self.r
        comps = node.comps()
        items, names = [], []
        for k in range(r.choice([1, 1, 2, 3])):
            role = force_role if (force_role and k == 0) else r.choice(['identifier', 'identifier', 'measure', 'attribute', 'attribute'])
            over = [n for n, _ in node.meas + node.atts]
            if role == 'identifier':
                nm = r.choice(over) if (over and r.random() < 0.15) else self.fresh(node, ['Id_3', 'Id_4', 'Id_c'])
                t = r.choice(['Integer', 'String', 'Integer'])
                if r.random() < 0.7:
                    e = self.cexpr(list(node.ids), t, r.choice([0, 1, 1, 2]))      # identifiers are never null
                else:
                    # over all components: semantic analysis refuses an identifier whose expression is nullable
                    # (1-1-1-16, a static rule), so the expression is closed with nvl
                    x = self.cexpr(comps, t, r.choice([1, 1, 2]))
                    dflt = self.small(t)
                    e = ('nvl(%s, %s)' % (x[0], G.vtl_const(dflt)), '(bin nvl %s (const %s))' % (x[1], enc_value(dflt)))
            else:
                pool = (['Me_3', 'Me_4'] if role == 'measure' else ['At_1', 'At_2']) + (over if r.random() < 0.3 else [])
                nm = r.choice(pool)
                t = r.choice(['Integer', 'Number', 'String', 'Boolean'])
                if t == 'Number' and not any(tt in NUM for _, tt in comps):
                    t = 'Integer'
                e = self.cexpr(comps, t, r.choice([0, 1, 2]))
                if t == 'Integer' and ' / ' in e[0]:
                    t = 'Number'
            if nm is None or nm in names or nm in [n for n, _ in node.ids]:
                continue
            items.append((role, nm, t, e))
            names.append(nm)
        if not items:
            return None
        if not any(role != 'measure' for role, *_ in items) and force_role is None:
            return None                        # plain calc is the core stream's business
        vt = ', '.join('%s%s := %s' % ('' if role == 'measure' and r.random() < 0.5 else role + ' ', nm, e[0]) for role, nm, t, e in items)
        idit = ' '.join('(%s %s)' % (nsx(nm), e[1]) for role, nm, t, e in items if role == 'identifier')
        oth = ' '.join('(%s %s)' % (nsx(nm), e[1]) for role, nm, t, e in items if role != 'identifier')
        ids = node.ids + [(nm, t) for role, nm, t, e in items if role == 'identifier']
        meas = [m for m in node.meas if m[0] not in names] + [(nm, t) for role, nm, t, e in items if role == 'measure']
        atts = [a for a in node.atts if a[0] not in names] + [(nm, t) for role, nm, t, e in items if role == 'attribute']
        n = self.mk(node, '%s[calc %s]' % (node.vtl, vt), '(calcrole (%s) (%s) %s)' % (idit, oth, node.sx), ids, meas, atts, 'calcrole')
        n.stmt_roles = node.stmt_roles + [nm for role, nm, t, e in items if role != 'measure']
        return n

    def aggrc(self, node, over_attribute=False):
        r = self.r
        if not node.ids:
            return None
        # at least one grouping identifier: the ungrouped clause (and its empty-operand corner) is C03's business
        k = r.randint(1, len(node.ids))
        gb = r.sample([n for n, _ in node.ids], k)
        gb = [n for n, _ in node.ids if n in gb]
        mode = r.choice(['by', 'except'])
        if mode == 'by':
            gids = [i for i in node.ids if i[0] in gb]
            gtxt = (' group by ' + ', '.join(gb)) if gb else ''
            gsx = '(by %s)' % ' '.join(nsx(n) for n in gb) if gb else 'none'
        else:
            gids = [i for i in node.ids if i[0] not in gb]
            if not gb or not gids:
                return None
            gtxt = ' group except ' + ', '.join(gb)
            gsx = '(except %s)' % ' '.join(nsx(n) for n in gb)
        src = node.atts if over_attribute else node.meas
        items, names = [], []
        for _ in range(r.choice([1, 1, 2, 3])):
            out = r.choice(['Me_1', 'Me_2', 'Me_3', 'Me_4', 'At_1'])
            if out in names or out in [n for n, _ in gids]:
                continue
            role = 'attribute ' if r.random() < 0.2 else ('measure ' if r.random() < 0.2 else '')
            # `count()` only over a materialised operand: inside a nested expression the engine's count() sees other
            # measures than the three-address form does (the nested-expression family; count itself is C03's subject)
            may_count = node.stmt_ops == 0
            if not src and not may_count:
                continue
            if src and (r.random() < 0.85 or not may_count):
                m, t = r.choice(src)
                op = r.choice([o for o in (AGG_NUM if t in NUM else AGG_ANY) if o != 'count' or may_count])
                if op == 'count':
                    items.append((out, role, 'count()', '(item %s count any)' % nsx(out), 'Integer'))
                else:
                    rt = 'Number' if op == 'avg' else t
                    items.append((out, role, '%s(%s)' % (op, m), '(item %s %s (expr (col %s)))' % (nsx(out), op, nsx(m)), rt))
            else:
                items.append((out, role, 'count()', '(item %s count any)' % nsx(out), 'Integer'))
            names.append(out)
        if not items:
            return None
        has_count = any(it[2] == 'count()' for it in items)
        if over_attribute and has_count:
            return None
        # `count()` counts the datapoints with some non-null MEASURE: attributes are out of its sight
        inner = node.sx
        if node.atts and not over_attribute:
            inner = '(drop %s (%s))' % (node.sx, ' '.join(nsx(a) for a in node.att_names()))
        sx = '(aggrc %s (%s) _ %s)' % (gsx, ' '.join(it[3] for it in items), inner)
        vt = '%s[aggr %s%s]' % (node.vtl, ', '.join('%s%s := %s' % (it[1], it[0], it[2]) for it in items), gtxt)
        meas = [(it[0], it[4]) for it in items if it[1] != 'attribute ']
        atts = [(it[0], it[4]) for it in items if it[1] == 'attribute ']
        n = self.mk(node, vt, sx, gids, meas, atts, 'aggrc', aggr_over_attribute=over_attribute or bool(node.facts.get('aggr_over_attribute')))
        n.final = over_attribute
        return n

    def aggrc_att(self, node):
        return self.aggrc(node, over_attribute=True) if node.atts else None

    def unpivot_any(self, node):
        return self.unpivot(node, allow_empty=True)

    # ------------------------------------------------------------------ the modelled clauses, over datasets with attributes
    def filter(self, node):
        c = self.cexpr(node.comps(), 'Boolean', self.r.choice([1, 2]))
        uses_att = any(a in c[0] for a in node.att_names())
        return self.mk(node, '%s[filter %s]' % (node.vtl, c[0]), '(filter %s %s)' % (node.sx, c[1]), node.ids, node.meas, node.atts,
                       'filter_att' if uses_att else 'filter')

    def keepdrop(self, node):
        r = self.r
        non = node.meas + node.atts
        if len(non) < 2:
            return None
        k = r.choice([1, 1, 2]) if len(non) > 2 else 1
        pick = r.sample(non, k)
        if node.atts and r.random() < 0.4 and not any(p in node.atts for p in pick):
            pick[0] = r.choice(node.atts)
        pn = [n for n, _ in pick]
        # `_att`: the operand carries attributes (listed in the clause or not: keep must leave the unlisted ones behind,
        # drop must retain them)
        on_att = bool(node.atts)
        if r.random() < 0.5:
            return self.mk(node, '%s[keep %s]' % (node.vtl, ', '.join(pn)), '(keep %s (%s))' % (node.sx, ' '.join(nsx(n) for n in pn)),
                           node.ids, [m for m in node.meas if m[0] in pn], [a for a in node.atts if a[0] in pn], 'keep_att' if on_att else 'keep')
        return self.mk(node, '%s[drop %s]' % (node.vtl, ', '.join(pn)), '(drop %s (%s))' % (node.sx, ' '.join(nsx(n) for n in pn)),
                       node.ids, [m for m in node.meas if m[0] not in pn], [a for a in node.atts if a[0] not in pn], 'drop_att' if on_att else 'drop')

    def rename(self, node):
        r = self.r
        comps = node.comps()
        cand = node.atts if (node.atts and r.random() < 0.6) else comps
        old = r.choice(cand)[0]
        new = old + 'x'
        if new in node.names():
            return None
        ren = lambda l: [(new if n == old else n, t) for n, t in l]  # noqa: E731
        return self.mk(node, '%s[rename %s to %s]' % (node.vtl, old, new), '(rename %s ((%s %s)))' % (node.sx, nsx(old), nsx(new)),
                       ren(node.ids), ren(node.meas), ren(node.atts), 'rename_att' if old in node.att_names() else 'rename')

    def sub(self, node):
        if len(node.ids) < 2:
            return None
        i, t = self.r.choice(node.ids)
        if t not in ('Integer', 'String'):
            return None
        val = self.r.choice(G.ID_INT if t == 'Integer' else G.ID_STR + ['Me_1', 'Me_2'])
        return self.mk(node, '%s[sub %s = %s]' % (node.vtl, i, G.vtl_const(val)), '(sub %s ((%s %s)))' % (node.sx, nsx(i), enc_value(val)),
                       [x for x in node.ids if x[0] != i], node.meas, node.atts, 'sub')

    def arith(self, node):
        """an element-wise operator: it applies to the measures; attributes are not propagated."""
        if not node.meas or not all(t in NUM for _, t in node.meas):
            return None
        op, sxop = self.r.choice([('+', 'add'), ('-', 'sub'), ('*', 'mul')])
        c = self.r.choice([1, 2, 3, 10])
        inner = node.sx if not node.atts else '(drop %s (%s))' % (node.sx, ' '.join(nsx(a) for a in node.att_names()))
        return self.mk(node, '(%s %s %d)' % (node.vtl, op, c), '(mapm %s (bin %s hole (const (i %d))) _)' % (inner, sxop, c),
                       node.ids, node.meas, [], 'arith')

    # ------------------------------------------------------------------ scripts
    def step_x(self, node, want_ext):
        r = self.r
        if want_ext:
            ks = ['unpivot', 'unpivot', 'calcrole', 'calcrole', 'calcrole', 'aggrc', 'aggrc']
            if node.atts:
                ks += ['keepdrop', 'keepdrop', 'keepdrop', 'filter', 'rename', 'unpivot', 'aggrc', 'aggrc_att', 'unpivot_any']
        else:
            ks = ['unpivot', 'calcrole', 'calcrole', 'aggrc', 'filter', 'keepdrop', 'rename', 'sub', 'arith']
        k = r.choice(ks)
        return getattr(self, k)(node)

    def mat(self, node, stmts):
        t = 'T_%d' % (len(stmts) + 1)
        stmts.append('%s := %s;' % (t, node.vtl))
        n = XNode(t, node.sx, node.ids, node.meas, node.atts, node.ops, 0)
        n.facts = dict(node.facts)
        return n

    def case_x(self, nops=None, per_stmt=None, fam=None, last=None):
        """`nops` operators; a new statement is started after `per_stmt` operators (1 = three-address form)."""
        r = self.r
        fam, env = self.make_inputs_x(fam)
        d = env['DS_1']
        node = XNode('DS_1', '(ds DS_1)', d['ids'], d['meas'], [])
        nops = nops or r.choice([1, 1, 2, 2, 3, 3, 4])
        per_stmt = per_stmt or r.choice([1, 1, 1, 2, 3])
        stmts = []
        nested = False
        for i in range(nops):
            if node.final:
                break
            if node.stmt_ops >= per_stmt and len(stmts) < 2:
                node = self.mat(node, stmts)
            have_ext = any(o in EXT_OPS for o in node.ops)
            nxt = None
            for _ in range(8):
                if last and i == nops - 1:
                    nxt = getattr(self, last)(node)
                else:
                    nxt = self.step_x(node, want_ext=(not have_ext and i >= nops - 2) or r.random() < 0.5)
                if nxt is not None:
                    break
            if nxt is None:
                break
            node = nxt
            nested = nested or node.stmt_ops >= 2
        if not any(o in EXT_OPS for o in node.ops):
            return None
        return self.finish(fam, env, stmts, node, nested)

    def finish(self, fam, env, stmts, node, nested, special=None, expect=None):
        script = ' '.join(stmts + ['DS_r <- %s;' % node.vtl])
        nonid = node.meas + node.atts
        return {'family': fam, 'env': env, 'vtl': script, 'sx': node.sx, 'ops': list(node.ops), 'max_meas': 0, 'post': None,
                'ids': node.ids, 'meas': nonid, 'roles': {'measures': [n for n, _ in node.meas], 'attributes': [n for n, _ in node.atts]},
                'flat': not nested, 'depth': len(node.ops), 'special': special, 'expect': expect, 'data_dependent': node.final,
                'facts': dict(node.facts)}


def request(case):
    return '(eval %s %s)' % (G.env_sx(case['env']), case['sx'])


# ---------------------------------------------------------------------- fixed cases (always run)
def _ds(ids, meas, rows):
    return {'DS_1': {'ids': ids, 'meas': meas, 'rows': rows}}


def fixed_cases(rng):
    """deterministic scripts for the corners the random plan reaches only now and then."""
    g = XGen(rng)
    out = []

    def add(special, env, build, expect=None, facts=None):
        d = env['DS_1']
        node = XNode('DS_1', '(ds DS_1)', d['ids'], d['meas'], [])
        stmts = []
        node, nested = build(node, stmts)
        node.facts = dict(facts or {})
        c = g.finish('fixed', env, stmts, node, nested, special=special, expect=expect)
        out.append(c)

    I, S, N = 'Integer', 'String', 'Number'
    two = [('Id_1', I), ('Id_2', S)]
    # unpivot: Integer measure declared before a Number measure (the result measure must be Number)
    env = _ds(two, [('Me_1', I), ('Me_2', N)], [(1, 'a', 10, None), (1, 'b', None, None), (2, 'a', 3, Fraction(9, 2)), (3, 'c', None, Fraction(1, 4))])
    add('unpivot-integer-then-number', env,
        lambda n, s: (XNode('DS_1[unpivot Id_3, Me_3]', '(unpivot () "Id_3" "Me_3" (ds DS_1))', n.ids + [('Id_3', S)], [('Me_3', N)], [], ('unpivot',), 1), False),
        facts={'operand_measures': True, 'unpivot_types': [I, N], 'unpivot_integer_before_number': True})
    env = _ds(two, [('Me_1', N), ('Me_2', I)], [(1, 'a', Fraction(5, 2), 7), (2, 'a', None, 4), (3, 'c', Fraction(1, 4), None)])
    add('unpivot-number-then-integer', env,
        lambda n, s: (XNode('DS_1[unpivot Id_3, Me_3]', '(unpivot () "Id_3" "Me_3" (ds DS_1))', n.ids + [('Id_3', S)], [('Me_3', N)], [], ('unpivot',), 1), False))
    # unpivot of a dataset without measures: no datapoint at all
    env = _ds(two, [('Me_1', I), ('Me_2', I)], [(1, 'a', 10, 1), (1, 'b', None, None), (2, 'a', 3, 4)])

    def nomeas(n, s):
        s.append('T_1 := DS_1[calc attribute At_1 := Me_1];')
        s.append('T_2 := T_1[keep At_1];')
        sx = '(unpivot ("At_1") "Id_3" "Me_3" (keep (calcrole () (("At_1" (col "Me_1"))) (ds DS_1)) ("At_1")))'
        return XNode('T_2[unpivot Id_3, Me_3]', sx, n.ids + [('Id_3', S)], [('Me_3', S)], [], ('calcrole', 'keep_att', 'unpivot'), 1), False
    add('unpivot-no-measures', env, nomeas, facts={'operand_measures': False, 'attributes_before_unpivot': ['At_1']})
    # unpivot leaves attributes behind (three-address form and nested form)
    def att_flat(n, s):
        s.append('T_1 := DS_1[calc attribute At_1 := Me_1 + 1];')
        sx = '(unpivot ("At_1") "Id_3" "Me_3" (calcrole () (("At_1" (bin add (col "Me_1") (const (i 1))))) (ds DS_1)))'
        return XNode('T_1[unpivot Id_3, Me_3]', sx, n.ids + [('Id_3', S)], [('Me_3', I)], [], ('calcrole', 'unpivot'), 1), False

    def att_nested(n, s):
        sx = '(unpivot ("At_1") "Id_3" "Me_3" (calcrole () (("At_1" (bin add (col "Me_1") (const (i 1))))) (ds DS_1)))'
        return XNode('DS_1[calc attribute At_1 := Me_1 + 1][unpivot Id_3, Me_3]', sx, n.ids + [('Id_3', S)], [('Me_3', I)], [], ('calcrole', 'unpivot'), 2), True
    add('unpivot-after-calc-attribute', env, att_flat, facts={'operand_measures': True, 'attributes_before_unpivot': ['At_1']})
    add('unpivot-after-calc-attribute', env, att_nested, facts={'operand_measures': True, 'attributes_before_unpivot': ['At_1'], 'nested_role_calc_before_unpivot': ['At_1']})
    # keep / drop of measures while the operand carries an attribute the clause does not list
    def kd(clause, keepm, keepa):
        def build(n, s):
            s.append('T_1 := DS_1[calc attribute At_1 := Me_1 + 1];')
            inner = '(calcrole () (("At_1" (bin add (col "Me_1") (const (i 1))))) (ds DS_1))'
            names = clause.split(' ', 1)[1].split(', ')
            sx = '(%s %s (%s))' % (clause.split(' ')[0], inner, ' '.join(nsx(x) for x in names))
            return XNode('T_1[%s]' % clause, sx, n.ids, [m for m in n.meas if m[0] in keepm], [('At_1', I)] if keepa else [],
                         ('calcrole', clause.split(' ')[0] + '_att'), 1), False
        return build
    add('keep-measure-attribute-unlisted', env, kd('keep Me_1', ['Me_1'], False))
    add('keep-attribute-only', env, kd('keep At_1', [], True))
    add('drop-measure-attribute-unlisted', env, kd('drop Me_2', ['Me_1'], True))
    add('drop-attribute', env, kd('drop At_1', ['Me_1', 'Me_2'], False))
    # calc identifier: a null value must be refused; a non-null one extends the key
    add('calc-identifier-null', env,
        lambda n, s: (XNode('DS_1[calc identifier Id_3 := Me_1]', '(calcrole (("Id_3" (col "Me_1"))) () (ds DS_1))', n.ids + [('Id_3', I)], n.meas, [], ('calcrole',), 1), False),
        expect='error')
    add('calc-identifier-overwrites-measure', env,
        lambda n, s: (XNode('DS_1[calc identifier Me_2 := Id_2 || "z"]', '(calcrole (("Me_2" (bin concat (col "Id_2") (const (s "z"))))) () (ds DS_1))',
                            n.ids + [('Me_2', S)], [('Me_1', I)], [], ('calcrole',), 1), False))
    # aggregate over an attribute inside the aggr clause
    def agg_att(n, s):
        s.append('T_1 := DS_1[calc attribute At_1 := Me_1];')
        sx = '(aggrc (by "Id_1") ((item "Me_3" max (expr (col "At_1")))) _ (calcrole () (("At_1" (col "Me_1"))) (ds DS_1)))'
        return XNode('T_1[aggr Me_3 := max(At_1) group by Id_1]', sx, n.ids[:1], [('Me_3', I)], [], ('calcrole', 'aggrc'), 1), False
    add('aggr-over-attribute', env, agg_att, facts={'aggr_over_attribute': True})
    # aggr clause = aggregation operator on the same grouping
    add('aggr-clause-vs-operator', env,
        lambda n, s: (XNode('DS_1[aggr Me_1 := sum(Me_1), Me_2 := sum(Me_2) group by Id_1]',
                            '(aggrc (by "Id_1") ((item "Me_1" sum (expr (col "Me_1"))) (item "Me_2" sum (expr (col "Me_2")))) _ (ds DS_1))',
                            n.ids[:1], n.meas, [], ('aggrc',), 1), False))
    # pivot: the Reference Manual example
    env = _ds(two, [('Me_1', I)], [(1, 'A', 5), (1, 'B', 2), (1, 'C', 7), (2, 'A', 3), (2, 'B', 4), (2, 'C', 9)])

    def piv(n, s):
        x = XNode('DS_1[pivot Id_2, Me_1]', '(pivot "Id_2" "Me_1" (ds DS_1))', n.ids[:1], [('A', I), ('B', I), ('C', I)], [], ('pivot',), 1)
        x.final = True
        return x, False
    add('pivot-reference-manual', env, piv)
    return out

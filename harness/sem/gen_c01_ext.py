"""Generator for the C01 extension streams: dataset-level `case`, `nvl` (dataset/scalar default), `between` / `in` /
`not_in` / `isnull`, the string operators over several String measures, `instr`, `||` between datasets, and
`=` / `<>` over Date / Time_Period / Duration measures.

A case is (input datasets, VTL script, model request for Drivers/C01Ext.lean).  The model request is ALWAYS a
statement list `(evalx <env> ((<name> <stmt>)…) DS_r)`: one model statement per dataset-level operator, whether the
VTL script spells the composition as several statements (`T_k := …;`, most cases) or as one nested expression
(a small share: the engine's nested expressions are broadly broken and recorded under coarse keys).
Every random choice comes from the `rng` passed in."""
from fractions import Fraction

from .gen import vtl_const, name_sx, env_sx
from .sx import enc_value

STR_POOL = ['', 'a', 'B', 'ab', ' aB ', 'x€', 'abcabc', 'Zz9', '  ', 'a b', '日1', 'AbC', 'ba', 'aaa', 'ababab', 'bab', ' a', 'b ']
PATS = ['a', 'b', 'ab', 'aa', 'B', ' ', 'ba', 'abc', 'c']
INT_POOL = [0, 1, -1, 2, 3, -3, 5, 7, 10, -12, 100]
NUM_POOL = [Fraction(0), Fraction(1), Fraction(-1), Fraction(5, 2), Fraction(-5, 2), Fraction(1, 8), Fraction(3, 2), Fraction(2),
            Fraction(1, 10), Fraction(333, 100), Fraction(12), Fraction(-1, 4), Fraction(5), Fraction(3)]
DATE_POOL = ['2020-01-01', '2020-02-29', '2019-12-31', '2021-06-15', '2000-01-01']
TP_POOL = ['2020Q1', '2020-Q2', '2020M01', '2020-M02', '2020A', '2021S1', '2020W05', '2020D060', '2020-03']
DUR_POOL = ['A', 'S', 'Q', 'M', 'W', 'D']
TP_CANON = {'2020Q1': '2020-Q1', '2020-Q2': '2020-Q2', '2020M01': '2020-M01', '2020-M02': '2020-M02', '2020A': '2020A',
            '2021S1': '2021-S1', '2020W05': '2020-W05', '2020D060': '2020-D060', '2020-03': '2020-M03'}
NULL_RATES = [0.0, 0.1, 0.25, 0.5, 0.8]

FAMILIES = {
    'num2': [('Me_1', 'Number'), ('Me_2', 'Number')],
    'int2': [('Me_1', 'Integer'), ('Me_2', 'Integer')],
    'int1': [('Me_1', 'Integer')], 'num1': [('Me_1', 'Number')], 'bool1': [('Me_1', 'Boolean')],
    'str1': [('Me_1', 'String')], 'str2': [('Me_1', 'String'), ('Me_2', 'String')],
    'str3': [('Me_1', 'String'), ('Me_2', 'String'), ('Me_3', 'String')],
    'date1': [('Me_1', 'Date')], 'tp1': [('Me_1', 'Time_Period')], 'dur1': [('Me_1', 'Duration')],
    'date2': [('Me_1', 'Date'), ('Me_2', 'Date')],
}


class Node:
    def __init__(self, vtl, ref, ids, meas, ops=()):
        self.vtl, self.ref, self.ids, self.meas, self.ops = vtl, ref, list(ids), list(meas), tuple(ops)


class GenX:
    def __init__(self, rng):
        self.r = rng

    # ------------------------------------------------------------------ inputs
    def value(self, t, rate):
        r = self.r
        if r.random() < rate:
            return None
        if t == 'Integer':
            return r.choice(INT_POOL)
        if t == 'Number':
            return r.choice(NUM_POOL)
        if t == 'String':
            return r.choice(STR_POOL)
        if t == 'Boolean':
            return r.random() < 0.6
        if t == 'Date':
            return r.choice(DATE_POOL)
        if t == 'Time_Period':
            return r.choice(TP_POOL)
        if t == 'Duration':
            return r.choice(DUR_POOL)
        raise ValueError(t)

    def dataset(self, ids, meas, rate, nkeys=None):
        r = self.r
        universe = [(i,) for i in (1, 2, 3, 4, 5, 6)] if len(ids) == 1 else [(i, s) for i in (1, 2, 3) for s in ('a', 'b')]
        n = nkeys if nkeys is not None else r.choice([0, 2, 3, 4, 5, 6, 6])
        keys = r.sample(universe, min(n, len(universe)))
        rows = [tuple(list(k) + [self.value(t, rate) for _, t in meas]) for k in keys]
        return {'ids': list(ids), 'meas': list(meas), 'rows': rows}

    def ids(self, two=None):
        two = self.r.random() < 0.4 if two is None else two
        return [('Id_1', 'Integer')] + ([('Id_2', 'String')] if two else [])

    def small(self, t):
        r = self.r
        if t == 'Integer':
            return r.choice([0, 1, 2, 3, -1, 5, 10, -3])
        if t == 'Number':
            return r.choice([Fraction(0), Fraction(1), Fraction(5, 2), Fraction(-3, 2), Fraction(1, 4), Fraction(2), Fraction(1, 10)])
        if t == 'String':
            return r.choice(['a', 'B', 'ab', '', ' ', 'x€', 'b', 'aaa'])
        if t == 'Boolean':
            return r.random() < 0.5
        if t == 'Date':
            return r.choice(DATE_POOL)
        raise ValueError(t)

    # ------------------------------------------------------------------ script assembly
    def begin(self, nested):
        self.nested = nested
        self.vstmts, self.mstmts, self.nm, self.nt = [], [], 0, 0

    def emit(self, vtl, mstmt, ids, meas, ops):
        """one dataset-level operator: a model statement; a VTL statement of its own unless the script is nested."""
        self.nm += 1
        ref = 'M_%d' % self.nm
        self.mstmts.append('(%s %s)' % (ref, mstmt))
        return Node(vtl, '(ds %s)' % ref, ids, meas, ops)

    def mat(self, node):
        """multi-statement scripts: an operator result used as an operand becomes `T_k := …;`."""
        if self.nested or not node.ops or getattr(node, 'temp', False):
            return node
        self.nt += 1
        t = 'T_%d' % self.nt
        self.vstmts.append('%s := %s;' % (t, node.vtl))
        n = Node(t, node.ref, node.ids, node.meas, node.ops)
        n.temp = True
        return n

    def finish(self, env, node, stream, extra=None):
        # the model's last statement is renamed to DS_r
        last = self.mstmts[-1]
        self.mstmts[-1] = '(DS_r ' + last.split(' ', 1)[1]
        script = ' '.join(self.vstmts + ['DS_r <- %s;' % node.vtl])
        nops = len(node.ops)
        c = {'env': env, 'vtl': script, 'mreq': '(evalx %s (%s) DS_r)' % (env_sx(env), ' '.join(self.mstmts)),
             'ops': list(node.ops), 'ids': node.ids, 'meas': node.meas, 'flat': not self.nested, 'depth': nops,
             'max_meas': max(len(d['meas']) for d in env.values()), 'stream': stream, 'family': stream}
        if extra:
            c.update(extra)
        return c

    # ------------------------------------------------------------------ operators (one step each)
    def leafnode(self, name, d):
        return Node(name, '(ds %s)' % name, d['ids'], d['meas'])

    def mapm(self, node, vtl, body, meas, out, op):
        node_ref = node.ref
        return self.emit(vtl, '(mapm %s %s %s)' % (node_ref, body, name_sx(out) if out else '_'), node.ids, meas, node.ops + (op,))

    def post_step(self, node):
        """a second/third operator over a result (type-directed, measure-preserving where possible)."""
        r = self.r
        node = self.mat(node)
        mt = [t for _, t in node.meas]
        v = node.vtl
        if all(t in ('Integer', 'Number') for t in mt):
            k = r.choice(['add', 'nvl', 'neg'])
            if k == 'add':
                c = r.choice([1, 2, -3])
                return self.mapm(node, '(%s + %d)' % (v, c), '(bin add hole (const (i %d)))' % c, node.meas, None, 'add')
            if k == 'neg':
                return self.mapm(node, '(-%s)' % v, '(un neg hole)', node.meas, None, 'neg')
            if len(set(mt)) == 1:
                c = self.small(mt[0])
                return self.mapm(node, 'nvl(%s, %s)' % (v, vtl_const(c)), '(bin nvl hole (const %s))' % enc_value(c), node.meas, None, 'nvl')
            return self.mapm(node, '(-%s)' % v, '(un neg hole)', node.meas, None, 'neg')
        if all(t == 'String' for t in mt):
            return self.str_step(node)
        if mt == ['Boolean']:
            k = r.choice(['not', 'nvl', 'and'])
            if k == 'not':
                return self.mapm(node, '(not %s)' % v, '(un not hole)', node.meas, None, 'not')
            if k == 'nvl':
                c = r.random() < 0.5
                return self.mapm(node, 'nvl(%s, %s)' % (v, vtl_const(c)), '(bin nvl hole (const %s))' % enc_value(c), node.meas, None, 'nvl')
            c = r.random() < 0.5
            return self.mapm(node, '(%s and %s)' % (v, vtl_const(c)), '(bin and hole (const %s))' % enc_value(c), node.meas, None, 'and')
        return None

    def str_step(self, node, kinds=None):
        """one string operator over a dataset whose measures are all String (any number of measures)."""
        r = self.r
        node = self.mat(node)
        v, ms = node.vtl, node.meas
        mono = len(ms) == 1
        choices = ['substr', 'substr', 'replace', 'replace', 'trim', 'upperlower', 'concat_c', 'nvl']
        if mono and not getattr(self, 'preserve', False):
            choices += ['instr', 'instr', 'instr', 'length']      # these rename/retype the measure
        if kinds:
            choices = [c for c in choices if c in kinds] or choices
        k = r.choice(choices)
        if k == 'substr':
            s, l = r.choice([1, 1, 2, 3, 5, 9]), r.choice([0, 1, 2, 3, 10])
            form = r.random()
            if form < 0.25:
                return self.mapm(node, 'substr(%s, %d)' % (v, s), '(tern substr hole (const (i %d)) (const n))' % s, ms, None, 'substr')
            if form < 0.4:
                return self.mapm(node, 'substr(%s, _, %d)' % (v, l), '(tern substr hole (const n) (const (i %d)))' % l, ms, None, 'substr')
            return self.mapm(node, 'substr(%s, %d, %d)' % (v, s, l), '(tern substr hole (const (i %d)) (const (i %d)))' % (s, l), ms, None, 'substr')
        if k == 'replace':
            p, q = r.choice(PATS + ['']), r.choice(['', 'x', 'aa', 'B', 'ab'])
            if r.random() < 0.25:
                return self.mapm(node, 'replace(%s, "%s")' % (v, p), '(tern replace hole (const %s) (const (s "")))' % enc_value(p), ms, None, 'replace')
            return self.mapm(node, 'replace(%s, "%s", "%s")' % (v, p, q),
                             '(tern replace hole (const %s) (const %s))' % (enc_value(p), enc_value(q)), ms, None, 'replace')
        if k == 'trim':
            f = r.choice(['trim', 'ltrim', 'rtrim'])
            return self.mapm(node, '%s(%s)' % (f, v), '(un %s hole)' % f, ms, None, f)
        if k == 'upperlower':
            f = r.choice(['upper', 'lower'])
            return self.mapm(node, '%s(%s)' % (f, v), '(un %s hole)' % f, ms, None, f)
        if k == 'concat_c':
            c = r.choice(['!', '', ' ', 'ab'])
            if r.random() < 0.6:
                return self.mapm(node, '(%s || "%s")' % (v, c), '(bin concat hole (const %s))' % enc_value(c), ms, None, 'concat')
            return self.mapm(node, '("%s" || %s)' % (c, v), '(bin concat (const %s) hole)' % enc_value(c), ms, None, 'concat')
        if k == 'nvl':
            c = r.choice(['z', '', 'ab'])
            return self.mapm(node, 'nvl(%s, "%s")' % (v, c), '(bin nvl hole (const %s))' % enc_value(c), ms, None, 'nvl')
        if k == 'length':
            return self.mapm(node, 'length(%s)' % v, '(un len hole)', [('int_var', 'Integer')], 'int_var', 'length')
        if k == 'instr':
            p = r.choice(PATS + ([''] if r.random() < 0.3 else []))
            st = r.choice([None, None, 1, 2, 3, 4, 7])
            oc = r.choice([None, None, 1, 2, 2, 3])
            if p == '':
                oc = r.choice([None, 1])       # an empty pattern "occurs" at every position, also past the end: first occurrence only
            args = ['"%s"' % p]
            if st is not None or oc is not None:
                args.append('_' if st is None else str(st))
            if oc is not None:
                args.append(str(oc))
            vtl = 'instr(%s, %s)' % (v, ', '.join(args))
            m = '(instr %s %s %s %s "int_var")' % (node.ref, enc_value(p), enc_value(st), enc_value(oc))
            return self.emit(vtl, m, node.ids, [('int_var', 'Integer')], node.ops + ('instr',))
        raise ValueError(k)

    def zipnode(self, a, b, vtl, sxop, meas, out, op):
        ids = a.ids if len(a.ids) >= len(b.ids) else b.ids
        return self.emit(vtl, '(zip %s %s (bin %s hole hole2) %s)' % (a.ref, b.ref, sxop, name_sx(out) if out else '_'),
                         ids, meas, a.ops + b.ops + (op,))

    # ------------------------------------------------------------------ streams
    def shape(self):
        """-> (number of dataset-level operators, nested?)"""
        x = self.r.random()
        if x < 0.58:
            return 1, False
        if x < 0.80:
            return 2, False
        if x < 0.92:
            return 3, False
        return 2, True

    def case_case(self):
        """dataset-level case: 1-3 arms, conditions `DS_c` (one Boolean measure) or comparisons / isnull of a component
        `DS#Me`, then/else operands datasets or scalars; identifiers unmatched between all operands."""
        r = self.r
        nops, nested = self.shape()
        self.begin(nested)
        rate = r.choice(NULL_RATES[:4])
        ids = self.ids()
        fam = r.choice(['int2', 'num2', 'int1', 'num1', 'str1', 'str2', 'bool1'])
        meas = FAMILIES[fam]
        env = {}
        # overlap mode: conditions that are mostly TRUE together and operands that lack datapoints (which arm wins and
        # what happens when the winner has no datapoint is decided here)
        overlap = r.random() < 0.3
        nb = r.choice([2, 3]) if overlap else r.choice([1, 2, 3])
        for k in range(1, nb + 1):
            env['DS_%d' % k] = self.dataset(ids, meas, rate, nkeys=r.choice([2, 3, 4]) if overlap else r.choice([3, 4, 5, 6, 6]))
        nc = 2 if overlap else r.choice([1, 2, 2])
        for k in range(1, nc + 1):
            env['DS_c%d' % k] = self.dataset(ids, [('Me_1', 'Boolean')], 0.05 if overlap else r.choice([0.0, 0.15, 0.3]),
                                             nkeys=6 if overlap else r.choice([4, 5, 6, 6]))
            if overlap:
                env['DS_c%d' % k]['rows'] = [row[:-1] + (None if row[-1] is None else r.random() < 0.85,) for row in env['DS_c%d' % k]['rows']]
        if not overlap and r.random() < 0.5:
            env['DS_m'] = self.dataset(ids, [('Me_1', 'Integer'), ('Me_2', 'String')], rate, nkeys=r.choice([4, 6, 6]))
        narms = r.choice([2, 3]) if overlap else r.choice([1, 2, 2, 2, 3, 3])
        mt = [t for _, t in meas]
        scalar_ok = len(set(mt)) == 1

        def condition(first):
            # -> (vtl, cond sx, condition dataset name)
            x = r.random()
            if x < 0.45 or overlap:
                cn = 'DS_c%d' % r.randint(1, nc)
                if r.random() < 0.6:
                    return cn, '(col "Me_1")', cn
                return '%s#Me_1' % cn, '(col "Me_1")', cn
            cands = [n for n in env if n.startswith('DS_') and not n.startswith('DS_c')]
            cn = r.choice(cands)
            mname, mtype = r.choice(env[cn]['meas'])
            if mtype == 'Boolean' and r.random() < 0.5:
                return '%s#%s' % (cn, mname), '(col %s)' % name_sx(mname), cn
            if r.random() < 0.2:
                return 'isnull(%s#%s)' % (cn, mname), '(un isnull (col %s))' % name_sx(mname), cn
            op, sxop = r.choice([('=', 'eq'), ('<>', 'ne'), ('<', 'lt'), ('<=', 'le'), ('>', 'gt'), ('>=', 'ge')])
            if mtype == 'Boolean':
                op, sxop = r.choice([('=', 'eq'), ('<>', 'ne')])
            c = self.small(mtype)
            return ('%s#%s %s %s' % (cn, mname, op, vtl_const(c)),
                    '(bin %s (col %s) (const %s))' % (sxop, name_sx(mname), enc_value(c)), cn)

        def branch(force_ds):
            if force_ds or not scalar_ok or r.random() < 0.6:
                bn = 'DS_%d' % r.randint(1, nb)
                node = self.leafnode(bn, env[bn])
                if nops >= 2 and not self.pre_used and r.random() < 0.5:
                    # an operand that is itself an operator result (measure-preserving: the operands of case must agree)
                    self.pre_used = True
                    self.preserve = True
                    node = self.mat(self.post_step(node) or node)
                    self.preserve = False
                return node.vtl, node.ref, node.ops
            if r.random() < 0.15:
                return 'null', '(sc n)', ()
            c = self.small(mt[0])
            return vtl_const(c), '(sc %s)' % enc_value(c), ()

        self.pre_used = False
        arms, ops = [], ()
        ds_seen = False
        for i in range(narms):
            cv, cs, cn = condition(i == 0)
            last = i == narms - 1
            tv, tm, to = branch(False)
            ds_seen = ds_seen or not tm.startswith('(sc')
            arms.append((cv, cs, cn, tv, tm))
            ops += to
        ev, em, eo = branch(not ds_seen)
        ops += eo
        src = arms[0][2]
        vtl = 'case ' + ' '.join('when %s then %s' % (a[0], a[3]) for a in arms) + ' else ' + ev
        m = '(cased (ds %s) (%s) %s)' % (src, ' '.join('(%s (ds %s) %s)' % (a[1], a[2], a[4]) for a in arms), em)
        if self.nested:
            vtl = '(%s)' % vtl
        node = self.emit(vtl, m, ids, meas, ops + ('case',))
        used = 1 + (1 if self.pre_used else 0)
        while used < nops:
            nxt = self.post_step(node)
            if nxt is None:
                break
            node, used = nxt, used + 1
        return self.finish(env, node, 'case', {'narms': narms})

    def nvl_case(self):
        r = self.r
        nops, nested = self.shape()
        self.begin(nested)
        rate = r.choice(NULL_RATES[1:])
        fam = r.choice(['int2', 'num2', 'int1', 'num1', 'str1', 'str2', 'str3', 'bool1'])
        meas = FAMILIES[fam]
        two = r.random() < 0.5
        full = self.ids(two)
        env = {'DS_1': self.dataset(full, meas, rate)}
        env['DS_2'] = self.dataset(full if r.random() < 0.6 else full[:1], meas, r.choice(NULL_RATES), nkeys=r.choice([2, 4, 6]))
        if len(env['DS_2']['ids']) == 1 and len(full) == 2:
            # the smaller operand's keys must be unique on its own identifiers
            seen, rows = set(), []
            for row in env['DS_2']['rows']:
                if row[0] not in seen:
                    seen.add(row[0]); rows.append(row)
            env['DS_2']['rows'] = rows
        a = self.leafnode('DS_1', env['DS_1'])
        b = self.leafnode('DS_2', env['DS_2'])
        used = 1
        if nops >= 2 and r.random() < 0.5:
            self.preserve = True            # the two operands of nvl must keep the same measures
            a = self.mat(self.post_step(a) or a)
            self.preserve = False
            used += 1 if a.ops else 0
        mt = [t for _, t in meas]
        if r.random() < 0.5:
            c = None if r.random() < 0.1 else self.small(mt[0])
            a = self.mat(a)
            node = self.mapm(a, 'nvl(%s, %s)' % (a.vtl, vtl_const(c)), '(bin nvl hole (const %s))' % enc_value(c), meas, None, 'nvl')
        else:
            x, y = (a, b) if r.random() < 0.6 else (b, a)
            if len(x.ids) < len(y.ids) and r.random() < 0.6:
                x, y = y, x            # keep a share of "first operand has fewer identifiers" (known engine defect)
            x, y = self.mat(x), self.mat(y)
            node = self.zipnode(x, y, 'nvl(%s, %s)' % (x.vtl, y.vtl), 'nvl', meas, None, 'zip_nvl')
        while used < nops:
            nxt = self.post_step(node)
            if nxt is None:
                break
            node, used = nxt, used + 1
        return self.finish(env, node, 'nvl')

    def member_case(self):
        """between / in / not_in / isnull over a dataset with ONE measure (the engine rejects several measures:
        a share of two-measure operands checks the rejection)."""
        r = self.r
        nops, nested = self.shape()
        self.begin(nested)
        rate = r.choice(NULL_RATES[1:])
        fam = r.choice(['int1', 'int1', 'num1', 'num1', 'str1', 'str1', 'bool1', 'int2', 'str2'])
        meas = FAMILIES[fam]
        env = {'DS_1': self.dataset(self.ids(), meas, rate)}
        node = self.leafnode('DS_1', env['DS_1'])
        used = 1
        if nops >= 3:
            node = self.mat(self.post_step(node) or node)
            used += 1 if node.ops else 0
        node = self.mat(node)
        t = meas[0][1]
        v = node.vtl
        kinds = ['between', 'in', 'in', 'isnull'] if t != 'Boolean' else ['in', 'isnull']
        k = r.choice(kinds)
        out = [('bool_var', 'Boolean')]
        if k == 'between':
            bt = t if t != 'Integer' or r.random() < 0.6 else 'Number'
            lo, hi = self.small(bt), self.small(bt)
            if r.random() < 0.12:
                lo = None
            elif r.random() < 0.12:
                hi = None
            node = self.mapm(node, 'between(%s, %s, %s)' % (v, vtl_const(lo), vtl_const(hi)),
                             '(tern between hole (const %s) (const %s))' % (enc_value(lo), enc_value(hi)), out, 'bool_var', 'between')
        elif k == 'in':
            st = t if t not in ('Integer', 'Number') or r.random() < 0.6 else ('Number' if t == 'Integer' else 'Integer')
            vs = []
            for _ in range(r.choice([1, 2, 3, 4])):
                x = self.small(st)
                if x not in vs:
                    vs.append(x)
            neg = r.random() < 0.45
            node = self.mapm(node, '(%s %s {%s})' % (v, 'not_in' if neg else 'in', ', '.join(vtl_const(x) for x in vs)),
                             '(%s hole (%s))' % ('notin' if neg else 'in', ' '.join(enc_value(x) for x in vs)), out, 'bool_var',
                             'not_in' if neg else 'in')
        else:
            node = self.mapm(node, 'isnull(%s)' % v, '(un isnull hole)', out, 'bool_var', 'isnull')
        while used < nops:
            nxt = self.post_step(node)
            if nxt is None:
                break
            node, used = nxt, used + 1
        return self.finish(env, node, 'member')

    def string_case(self):
        r = self.r
        nops, nested = self.shape()
        self.begin(nested)
        rate = r.choice(NULL_RATES[:4])
        fam = r.choice(['str1', 'str1', 'str2', 'str2', 'str3'])
        meas = FAMILIES[fam]
        two = r.random() < 0.5
        full = self.ids(two)
        env = {'DS_1': self.dataset(full, meas, rate), 'DS_2': self.dataset(full if r.random() < 0.6 else full[:1], meas, rate)}
        if len(env['DS_2']['ids']) < len(full):
            seen, rows = set(), []
            for row in env['DS_2']['rows']:
                if row[0] not in seen:
                    seen.add(row[0]); rows.append(row)
            env['DS_2']['rows'] = rows
        node = self.leafnode('DS_1', env['DS_1'])
        used = 0
        while used < nops:
            if r.random() < 0.25 and all(t == 'String' for _, t in node.meas) and node.meas == meas:
                other = self.leafnode('DS_2', env['DS_2'])
                a, b = (node, other) if r.random() < 0.5 else (other, node)
                a, b = self.mat(a), self.mat(b)
                node = self.zipnode(a, b, '(%s || %s)' % (a.vtl, b.vtl), 'concat', meas, None, 'zip_concat')
            elif all(t == 'String' for _, t in node.meas):
                node = self.str_step(node)
            else:
                nxt = self.post_step(node)
                if nxt is None:
                    break
                node = nxt
            used += 1
        return self.finish(env, node, 'string')

    INSTR_PARAMS = [(None, None), (1, None), (2, None), (3, None), (4, 1), (None, 2), (1, 2), (2, 2), (3, 2), (None, 3), (2, 3), (7, None)]

    def instr_case(self):
        """instr on a one-measure String dataset rich in repeated / overlapping patterns; (start, occurrence) walk through
        every combination of omitted / 1 / larger."""
        r = self.r
        self.k_instr = getattr(self, 'k_instr', -1) + 1
        st, oc = self.INSTR_PARAMS[self.k_instr % len(self.INSTR_PARAMS)]
        self.begin(False)
        ids = self.ids()
        rows_pool = ['abcabc', 'ababab', 'aaa', 'bab', 'a b', 'ba', '', 'aaaa', 'xabab', 'AbC', ' aB ', 'abcab']
        d = self.dataset(ids, FAMILIES['str1'], r.choice([0.0, 0.2]), nkeys=6)
        d['rows'] = [row[:-1] + (None if row[-1] is None else r.choice(rows_pool),) for row in d['rows']]
        env = {'DS_1': d}
        node = self.leafnode('DS_1', d)
        p = r.choice(['a', 'b', 'ab', 'aa', 'ba', 'abc', 'c', 'aba'])
        args = ['"%s"' % p]
        if st is not None or oc is not None:
            args.append('_' if st is None else str(st))
        if oc is not None:
            args.append(str(oc))
        node = self.emit('instr(%s, %s)' % (node.vtl, ', '.join(args)),
                         '(instr %s %s %s %s "int_var")' % (node.ref, enc_value(p), enc_value(st), enc_value(oc)),
                         node.ids, [('int_var', 'Integer')], ('instr',))
        if r.random() < 0.25:
            node = self.post_step(node)
        return self.finish(env, node, 'instr')

    def time_case(self):
        """`=` / `<>` over Date / Time_Period / Duration measures (dataset-scalar and dataset-dataset): the values pass
        through the comparison unchanged; the model compares the canonical spellings as strings."""
        r = self.r
        self.begin(False)
        rate = r.choice(NULL_RATES[:4])
        fam = r.choice(['date1', 'tp1', 'dur1', 'date1'])
        meas = FAMILIES[fam]
        t = meas[0][1]
        ids = self.ids()
        env = {'DS_1': self.dataset(ids, meas, rate), 'DS_2': self.dataset(ids, meas, rate)}
        a, b = self.leafnode('DS_1', env['DS_1']), self.leafnode('DS_2', env['DS_2'])
        op, sxop = r.choice([('=', 'eq'), ('<>', 'ne')])
        out = [('bool_var', 'Boolean')]
        if r.random() < 0.5:
            node = self.zipnode(a, b, '(%s %s %s)' % (a.vtl, op, b.vtl), sxop, out, 'bool_var', 'zip_' + sxop)
        else:
            pool = {'Date': DATE_POOL, 'Time_Period': TP_POOL, 'Duration': DUR_POOL}[t]
            c = r.choice(pool)
            cc = TP_CANON.get(c, c) if t == 'Time_Period' else c
            lit = 'cast("%s", %s)' % (c, {'Date': 'date', 'Time_Period': 'time_period', 'Duration': 'duration'}[t])
            node = self.mapm(a, '(%s %s %s)' % (a.vtl, op, lit), '(bin %s hole (const %s))' % (sxop, enc_value(cc)), out, 'bool_var', 'cmp_time')
        c = self.finish(env, node, 'time')
        # the model sees the canonical spelling of every Time_Period value
        menv = {n: {'ids': d['ids'], 'meas': d['meas'],
                    'rows': [tuple(TP_CANON.get(x, x) if isinstance(x, str) and t == 'Time_Period' and j >= len(d['ids']) else x
                                   for j, x in enumerate(row)) for row in d['rows']]} for n, d in env.items()}
        c['mreq'] = '(evalx %s (%s) DS_r)' % (env_sx(menv), ' '.join(self.mstmts))
        return c

    def case(self, stream):
        return {'case': self.case_case, 'nvl': self.nvl_case, 'member': self.member_case, 'string': self.string_case, 'instr': self.instr_case,
                'time': self.time_case}[stream]()

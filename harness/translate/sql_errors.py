"""Translator for C32.

Reads, from the source text under ``$VERIF_REPO/src/vtlengine/duckdb_transpiler`` (nothing is imported):

* every ``error(<expr>)`` in ``sql/*.sql`` and in the string literals / f-strings of the transpiler and loader
  Python that end up in SQL: the argument is split at top-level ``||`` into SQL string literals (``lit``) and
  anything else (``hole``); Python ``{…}`` substitutions are holes too (named local string variables such as
  ``err`` / ``error_msg`` are inlined first);
* the ordered decision list of every duckdb-error mapper (``_map_query_error``, ``map_duckdb_error``): the
  top-level ``if`` chain over the lower-cased message, each branch with every ``return Cls("code", kw=…)`` it
  can reach (helper functions followed);
* every call into DuckDB in ``io/*.py`` with its phase (load / stmt / repr / fetch / write / other) and the
  handler, if any, that turns a ``duckdb.Error`` raised there into something else.

Unknown shapes raise ``vlib.ShapeError``.
"""
from __future__ import annotations

import ast
import os
import re

try:
    from vlib import ShapeError
except Exception:  # pragma: no cover
    class ShapeError(RuntimeError):
        pass

import catalogue as catmod

HOLE = '\x00'
PHASES = {'load': 0, 'stmt': 1, 'repr': 2, 'fetch': 3, 'write': 4, 'other': 5}
PHASE_NAMES = {v: k for k, v in PHASES.items()}

# function -> phase of the DuckDB calls it contains (io/*.py).  A function with a DuckDB call that is not listed
# here is a shape the translator does not know.
FUNC_PHASE = {
    '_io.py': {
        '_validate_loaded_table': 'load', '_normalize_time_period_columns': 'load', '_detect_csv_format': 'load',
        '_read_parquet_columns': 'load', 'load_datapoints_duckdb': 'load', '_create_empty_table': 'load',
        '_load_parquet': 'load', 'register_dataframes': 'load', 'save_datapoints_duckdb': 'write',
    },
    '_validation.py': {'validate_no_duplicates': 'load', 'validate_temporal_columns': 'load'},
    '_time_handling.py': {'apply_time_period_representation': 'repr'},
    '_execution.py': {'_build_dataset_fetch_select': 'fetch', 'fetch_result': 'fetch', 'execute_queries': 'stmt',
                      'cleanup_scheduled_datasets': 'other', 'load_scheduled_datasets': 'load'},
}
# Python file (relative to duckdb_transpiler) -> phase in which the SQL text it authors is executed
FILE_PHASE = [
    (re.compile(r'^Transpiler/'), 'stmt'),
    (re.compile(r'^io/_time_handling\.py$'), 'repr'),
    (re.compile(r'^io/_io\.py$'), 'load'),
    (re.compile(r'^io/_validation\.py$'), 'load'),
]
DB_METHODS = {'execute', 'executemany', 'sql', 'query', 'fetchdf', 'fetchone', 'fetchall', 'fetchmany', 'fetch_df',
              'df', 'arrow', 'register', 'unregister', 'table', 'from_df', 'append'}


def tdir(repo):
    return os.path.join(repo, 'src', 'vtlengine', 'duckdb_transpiler')


# ------------------------------------------------------------------------------------------ SQL side
def strip_sql_comments(sql):
    out, i, n = [], 0, len(sql)
    while i < n:
        c = sql[i]
        if c == "'":
            j = i + 1
            while j < n:
                if sql[j] == "'":
                    if j + 1 < n and sql[j + 1] == "'":
                        j += 2; continue
                    break
                j += 1
            out.append(sql[i:j + 1]); i = j + 1; continue
        if sql.startswith('--', i):
            j = sql.find('\n', i)
            j = n if j < 0 else j
            out.append(' ' * (j - i)); i = j; continue
        if sql.startswith('/*', i):
            j = sql.find('*/', i)
            j = n if j < 0 else j + 2
            out.append(re.sub(r'[^\n]', ' ', sql[i:j])); i = j; continue
        out.append(c); i += 1
    return ''.join(out)


def find_error_calls(sql):
    """-> [(offset, argument text)] for every `error(` call (word boundary, any case) outside string literals."""
    res, i, n = [], 0, len(sql)
    while i < n:
        c = sql[i]
        if c == "'":
            j = i + 1
            while j < n:
                if sql[j] == "'":
                    if j + 1 < n and sql[j + 1] == "'":
                        j += 2; continue
                    break
                j += 1
            i = j + 1; continue
        m = re.compile(r'error\s*\(', re.I).match(sql, i)
        if m and (i == 0 or not (sql[i - 1].isalnum() or sql[i - 1] in '_.')):
            j, depth = m.end(), 1
            start = j
            while j < n and depth:
                ch = sql[j]
                if ch == "'":
                    k = j + 1
                    while k < n:
                        if sql[k] == "'":
                            if k + 1 < n and sql[k + 1] == "'":
                                k += 2; continue
                            break
                        k += 1
                    j = k + 1; continue
                if ch == '(': depth += 1
                elif ch == ')': depth -= 1
                j += 1
            if depth:
                raise ShapeError('unbalanced error( call in SQL text: %r' % sql[i:i + 80])
            res.append((i, sql[start:j - 1]))
            i = j; continue
        i += 1
    return res


def split_concat(arg):
    """SQL expression -> pieces [('lit', text) | ('hole',)], splitting at top-level `||`."""
    parts, depth, i, n, cur = [], 0, 0, len(arg), []
    while i < n:
        ch = arg[i]
        if ch == "'":
            k = i + 1
            while k < n:
                if arg[k] == "'":
                    if k + 1 < n and arg[k + 1] == "'":
                        k += 2; continue
                    break
                k += 1
            cur.append(arg[i:k + 1]); i = k + 1; continue
        if ch == '(': depth += 1
        elif ch == ')': depth -= 1
        if depth == 0 and arg.startswith('||', i):
            parts.append(''.join(cur)); cur = []; i += 2; continue
        cur.append(ch); i += 1
    parts.append(''.join(cur))
    pieces = []
    for p in parts:
        p = p.strip()
        if len(p) >= 2 and p[0] == "'" and p[-1] == "'" and _single_literal(p):
            text = p[1:-1].replace("''", "'")
            # Python substitutions inside the literal are holes
            segs = text.split(HOLE)
            for k, s in enumerate(segs):
                if k: pieces.append(('hole',))
                if s: pieces.append(('lit', s))
        else:
            pieces.append(('hole',))
    # merge adjacent literals / holes
    out = []
    for p in pieces:
        if out and out[-1][0] == 'lit' and p[0] == 'lit':
            out[-1] = ('lit', out[-1][1] + p[1])
        elif out and out[-1][0] == 'hole' and p[0] == 'hole':
            continue
        else:
            out.append(p)
    return out


def _single_literal(p):
    k = 1
    while k < len(p) - 1:
        if p[k] == "'":
            if p[k + 1] == "'" and k + 1 < len(p) - 1:
                k += 2; continue
            return False
        k += 1
    return True


MACRO_HDR = re.compile(r'CREATE\s+(?:OR\s+REPLACE\s+)?(?:MACRO|TYPE)\s+([A-Za-z_]\w*)', re.I)
VTL_REF = re.compile(r'\bvtl_[a-z_][a-z0-9_]*\b')


def read_sql_files(repo):
    """-> (errors [dict(file, unit, line, pieces)], macro deps {name: set(names)})."""
    d = os.path.join(tdir(repo), 'sql')
    errors, deps = [], {}
    for f in sorted(os.listdir(d)):
        if not f.endswith('.sql'):
            continue
        raw = open(os.path.join(d, f), encoding='utf-8').read()
        sql = strip_sql_comments(raw)
        hdrs = [(m.start(), m.group(1)) for m in MACRO_HDR.finditer(sql)]
        bounds = hdrs + [(len(sql), None)]
        for k, (pos, name) in enumerate(hdrs):
            body = sql[pos:bounds[k + 1][0]]
            deps.setdefault(name, set()).update(x for x in VTL_REF.findall(body) if x != name)
        for off, arg in find_error_calls(sql):
            unit = '<top>'
            for pos, name in hdrs:
                if pos <= off: unit = name
            errors.append({'file': 'sql/' + f, 'unit': unit, 'line': sql.count('\n', 0, off) + 1,
                           'pieces': split_concat(arg), 'origin': 'macro'})
    return errors, deps


def users_of(macro, deps):
    """macros whose transitive closure contains `macro` (including itself)."""
    users = {macro}
    changed = True
    while changed:
        changed = False
        for m, ds in deps.items():
            if m not in users and ds & users:
                users.add(m); changed = True
    return users


# ------------------------------------------------------------------------------------------ Python side
def _py_files(repo):
    root = tdir(repo)
    for dp, dn, fn in os.walk(root):
        dn.sort()
        for f in sorted(fn):
            if f.endswith('.py'):
                p = os.path.join(dp, f)
                yield os.path.relpath(p, root), p


class _Funcs(ast.NodeVisitor):
    """function stack helper"""
    def __init__(self):
        self.stack = []

    def visit_FunctionDef(self, node):
        self.stack.append(node); self.generic_visit(node); self.stack.pop()

    visit_AsyncFunctionDef = visit_FunctionDef


def _flatten_str(e, func, depth=0):
    """Python string expression -> text with HOLE for everything unknown; local string variables are inlined."""
    if isinstance(e, ast.Constant) and isinstance(e.value, str):
        return e.value
    if isinstance(e, ast.JoinedStr):
        out = []
        for part in e.values:
            if isinstance(part, ast.Constant):
                out.append(str(part.value))
            else:
                v = part.value
                if isinstance(v, ast.Name) and func is not None and depth < 3:
                    srcs = _local_string_assignments(func, v.id)
                    if len(srcs) == 1:
                        out.append(_flatten_str(srcs[0], func, depth + 1)); continue
                out.append(HOLE)
        return ''.join(out)
    if isinstance(e, ast.BinOp) and isinstance(e.op, ast.Add):
        return _flatten_str(e.left, func, depth) + _flatten_str(e.right, func, depth)
    return HOLE


def _local_string_assignments(func, name):
    out = []
    for n in ast.walk(func):
        if isinstance(n, ast.Assign) and any(isinstance(t, ast.Name) and t.id == name for t in n.targets):
            out.append(n.value)
        elif isinstance(n, ast.AnnAssign) and isinstance(n.target, ast.Name) and n.target.id == name and n.value is not None:
            out.append(n.value)
    if out and all(isinstance(v, (ast.Constant, ast.JoinedStr)) for v in out):
        return out
    return []


def read_py_sql_errors(repo):
    """error(...) calls inside the string literals / f-strings of the duckdb_transpiler Python."""
    res = []
    for rel, p in _py_files(repo):
        tree = ast.parse(open(p, encoding='utf-8').read())

        class V(_Funcs):
            def __init__(s):
                super().__init__(); s.inner = set()

            def visit_JoinedStr(s, node):
                s._string(node)
                # do not descend: the constants inside belong to this f-string

            def visit_Constant(s, node):
                if isinstance(node.value, str):
                    s._string(node)

            def _string(s, node):
                func = s.stack[-1] if s.stack else None
                text = _flatten_str(node, func)
                if not re.search(r'error\s*\(', text, re.I):
                    return
                for off, arg in find_error_calls(text):
                    res.append({'file': rel, 'unit': '.'.join(f.name for f in s.stack) or '<module>', 'line': node.lineno,
                                'pieces': split_concat(arg), 'origin': 'python'})
        V().visit(tree)
    return res


def macro_mentions(repo, names):
    """{macro name: set(phase)} from string constants of the duckdb_transpiler Python (install-only mentions in
    execute_queries are not uses)."""
    out = {n: set() for n in names}
    pat = re.compile(r'\b(' + '|'.join(re.escape(n) for n in sorted(names, key=len, reverse=True)) + r')\b') if names else None
    for rel, p in _py_files(repo):
        phase = None
        for rx, ph in FILE_PHASE:
            if rx.search(rel): phase = ph
        tree = ast.parse(open(p, encoding='utf-8').read())

        class V(_Funcs):
            def visit_Constant(s, node):
                if isinstance(node.value, str) and pat is not None:
                    for m in pat.findall(node.value):
                        ph = phase
                        if rel == 'io/_execution.py':
                            fn = s.stack[-1].name if s.stack else None
                            if fn == 'execute_queries':
                                continue         # names handed to initialize_time_types(sql_fragments=…): install only
                            ph = FUNC_PHASE['_execution.py'].get(fn)
                        if ph is None:
                            if rel.startswith('sql/') or rel.startswith('Config/'):
                                continue
                            raise ShapeError('%s:%d mentions macro %s in a file with no phase' % (rel, node.lineno, m))
                        out[m].add(ph)
        V().visit(tree)
    return out


# ------------------------------------------------------------------------------------------ mappers
def _str_points(s):
    return [ord(c) for c in s]


def _cond(test, lowered, where):
    if isinstance(test, ast.BoolOp):
        cs = [_cond(v, lowered, where) for v in test.values]
        op = 'and' if isinstance(test.op, ast.And) else 'or'
        acc = cs[-1]
        for c in reversed(cs[:-1]):
            acc = (op, c, acc)
        return acc
    if isinstance(test, ast.UnaryOp) and isinstance(test.op, ast.Not):
        return ('not', _cond(test.operand, lowered, where))
    if (isinstance(test, ast.Compare) and len(test.ops) == 1 and isinstance(test.ops[0], (ast.In, ast.NotIn))
            and isinstance(test.left, ast.Constant) and isinstance(test.left.value, str)
            and isinstance(test.comparators[0], ast.Name) and test.comparators[0].id == lowered):
        c = ('has', test.left.value)
        return ('not', c) if isinstance(test.ops[0], ast.NotIn) else c
    raise ShapeError('%s: condition of the error mapper is not a substring test on the lower-cased message: %s'
                     % (where, ast.unparse(test)[:120]))


def _outcomes(body, module_funcs, classes, err_param, where, depth=0):
    outs = []
    for st in body:
        for n in ast.walk(st):
            if isinstance(n, ast.Return):
                outs += _outcome_of(n.value, module_funcs, classes, err_param, where, depth)
    return outs


def _outcome_of(v, module_funcs, classes, err_param, where, depth):
    if isinstance(v, ast.Call):
        fn = v.func.id if isinstance(v.func, ast.Name) else None
        if fn in classes:
            info = classes[fn]
            bound = {}
            for i, a in enumerate(v.args):
                bound[info['params'][i]] = a
            kws = {k.arg: k.value for k in v.keywords if k.arg is not None}
            for k in list(kws):
                if k in info['named']:
                    bound[k] = kws[k]
            code = bound.get('code')
            if not (isinstance(code, ast.Constant) and isinstance(code.value, str)):
                raise ShapeError('%s: mapper returns %s with a non-literal code' % (where, fn))
            return [{'cls': fn, 'code': code.value, 'kwargs': sorted(k for k in kws if k not in info['named']),
                     'star': any(k.arg is None for k in v.keywords)}]
        if fn in module_funcs and depth < 2:
            return _outcomes(module_funcs[fn].body, module_funcs, classes, err_param, where, depth + 1)
    if isinstance(v, ast.Name) and v.id == err_param:
        return [{'raw': True}]
    raise ShapeError('%s: mapper returns something unknown: %s' % (where, ast.unparse(v)[:100] if v is not None else None))


def read_mapper(func, module_funcs, classes, where):
    """FunctionDef of a duckdb-error mapper -> dict(name, rules=[dict(cond, outs)], total=bool)."""
    if not func.args.args:
        raise ShapeError('%s: mapper without parameters' % where)
    err_param = func.args.args[0].arg
    lowered = None
    rules = []
    total = False
    for i, st in enumerate(func.body):
        if isinstance(st, ast.Expr) and isinstance(st.value, ast.Constant):
            continue  # docstring
        if isinstance(st, ast.Assign) and len(st.targets) == 1 and isinstance(st.targets[0], ast.Name):
            v = st.value
            if (isinstance(v, ast.Call) and isinstance(v.func, ast.Attribute) and v.func.attr == 'lower' and not v.args):
                base = v.func.value
                is_str = (isinstance(base, ast.Call) and isinstance(base.func, ast.Name) and base.func.id == 'str'
                          and len(base.args) == 1 and isinstance(base.args[0], ast.Name) and base.args[0].id == err_param)
                is_msg = isinstance(base, ast.Name) and base.id in getattr(read_mapper, '_msgvars', set())
                if not (is_str or is_msg):
                    raise ShapeError('%s: lower() of something that is not str(%s)' % (where, err_param))
                if rules:
                    raise ShapeError('%s: message variable re-assigned inside the chain' % where)
                lowered = st.targets[0].id
                continue
            if (isinstance(v, ast.Call) and isinstance(v.func, ast.Name) and v.func.id == 'str' and len(v.args) == 1
                    and isinstance(v.args[0], ast.Name) and v.args[0].id == err_param):
                read_mapper._msgvars = {st.targets[0].id}
                continue
            raise ShapeError('%s: unexpected assignment in mapper: %s' % (where, ast.unparse(st)[:100]))
        if isinstance(st, ast.If):
            if lowered is None:
                raise ShapeError('%s: if-chain before the lower-cased message is defined' % where)
            node = st
            while True:
                if not isinstance(node.body[-1], ast.Return):
                    raise ShapeError('%s: branch at line %d does not end in return' % (where, node.lineno))
                outs = _outcomes(node.body, module_funcs, classes, err_param, where)
                if any(o.get('raw') for o in outs):
                    raise ShapeError('%s: branch at line %d can return the raw error' % (where, node.lineno))
                rules.append({'cond': _cond(node.test, lowered, where), 'outs': outs, 'line': node.lineno})
                if len(node.orelse) == 1 and isinstance(node.orelse[0], ast.If):
                    node = node.orelse[0]; continue
                if node.orelse:
                    raise ShapeError('%s: else branch in the mapper chain at line %d' % (where, node.lineno))
                break
            continue
        if isinstance(st, ast.Return):
            if i != len(func.body) - 1:
                raise ShapeError('%s: return before the end of the mapper' % where)
            outs = _outcome_of(st.value, module_funcs, classes, err_param, where, 0)
            if any(o.get('raw') for o in outs):
                total = False
            else:
                rules.append({'cond': ('tt',), 'outs': outs, 'line': st.lineno}); total = True
            continue
        raise ShapeError('%s: unexpected statement in mapper at line %d: %s' % (where, st.lineno, type(st).__name__))
    if lowered is None:
        raise ShapeError('%s: no lower-cased message variable' % where)
    return {'name': func.name, 'rules': rules, 'total': total}


# ------------------------------------------------------------------------------------------ DuckDB call sites
def _root_name(e):
    while True:
        if isinstance(e, ast.Attribute): e = e.value
        elif isinstance(e, ast.Call): e = e.func
        elif isinstance(e, ast.Subscript): e = e.value
        else: break
    return e.id if isinstance(e, ast.Name) else None


def _catches_duckdb(h):
    t = h.type
    if t is None:
        return True
    ts = t.elts if isinstance(t, ast.Tuple) else [t]
    for x in ts:
        s = ast.unparse(x)
        if s in ('duckdb.Error', 'Exception', 'BaseException', 'duckdb.Error'):
            return True
    return False


def read_io(repo, classes):
    """-> dict(mappers=[...], db_sites=[...])."""
    iod = os.path.join(tdir(repo), 'io')
    trees = {}
    for f in sorted(os.listdir(iod)):
        if f.endswith('.py'):
            trees[f] = ast.parse(open(os.path.join(iod, f), encoding='utf-8').read())
    funcs = {}          # name -> (file, FunctionDef)
    for f, t in trees.items():
        for n in t.body:
            if isinstance(n, ast.FunctionDef):
                if n.name in funcs:
                    raise ShapeError('function %s defined in two io modules' % n.name)
                funcs[n.name] = (f, n)
    # mapper functions: first parameter annotated duckdb.Error
    mappers, mapper_idx = [], {}
    for name, (f, n) in funcs.items():
        a = n.args.args
        if a and a[0].annotation is not None and ast.unparse(a[0].annotation) == 'duckdb.Error':
            module_funcs = {k: v[1] for k, v in funcs.items() if v[0] == f}
            read_mapper._msgvars = set()
            m = read_mapper(n, module_funcs, classes, 'io/%s:%s' % (f, name))
            m['file'] = 'io/' + f
            mapper_idx[name] = len(mappers); mappers.append(m)
    if not mappers:
        raise ShapeError('no duckdb-error mapper found in io/')

    def handler_kind(h, where):
        """-> mapper id (1 = swallow, k+2 = mappers[k]) or 0 when the handler re-raises the raw error only."""
        calls = [c for st in h.body for c in ast.walk(st) if isinstance(c, ast.Call)]
        for c in calls:
            fn = c.func.id if isinstance(c.func, ast.Name) else None
            if fn in mapper_idx:
                return mapper_idx[fn] + 2
        raises = [r for st in h.body for r in ast.walk(st) if isinstance(r, ast.Raise)]
        coded = []
        for r in raises:
            if isinstance(r.exc, ast.Call) and isinstance(r.exc.func, ast.Name) and r.exc.func.id in classes:
                coded += _outcome_of(r.exc, {}, classes, None, where, 0)
        if coded and len(coded) == len(raises):
            key = '<raise %s>' % '/'.join(sorted(o['code'] for o in coded))
            if key not in mapper_idx:
                mapper_idx[key] = len(mappers)
                mappers.append({'name': key, 'file': where.split(':')[0], 'rules': [{'cond': ('tt',), 'outs': coded, 'line': h.lineno}], 'total': True})
            return mapper_idx[key] + 2
        if not raises:
            return 1
        if all(r.exc is None for r in raises):
            return 0
        raise ShapeError('%s: handler at line %d neither maps, swallows nor re-raises' % (where, h.lineno))

    # per function: DuckDB calls with their lexical wrapping; calls to other io functions with theirs
    db_calls, fn_calls = [], []     # (file, func, line, wrap) / (file, caller, callee, wrap)

    for f, t in trees.items():
        for top in t.body:
            if not isinstance(top, ast.FunctionDef):
                continue
            conn_names = {a.arg for a in top.args.args if a.arg == 'conn'}
            for n in ast.walk(top):
                if isinstance(n, ast.Assign) and isinstance(n.value, ast.Call) and _root_name(n.value) in conn_names:
                    for tg in n.targets:
                        if isinstance(tg, ast.Name): conn_names.add(tg.id)

            def walk(node, wrap):
                if isinstance(node, ast.Try):
                    hs = [h for h in node.handlers if _catches_duckdb(h)]
                    inner = wrap
                    if hs:
                        inner = handler_kind(hs[0], 'io/%s:%s' % (f, top.name))
                        if inner == 0:
                            inner = wrap
                    for st in node.body: walk(st, inner)
                    for h in node.handlers:
                        for st in h.body: walk(st, wrap)
                    for st in node.orelse + node.finalbody: walk(st, wrap)
                    return
                if isinstance(node, ast.Call):
                    if isinstance(node.func, ast.Attribute) and node.func.attr in DB_METHODS and _root_name(node.func.value) in conn_names:
                        db_calls.append((f, top.name, node.lineno, wrap, node.func.attr))
                    elif isinstance(node.func, ast.Name) and node.func.id in funcs:
                        fn_calls.append((f, top.name, node.func.id, wrap))
                for ch in ast.iter_child_nodes(node):
                    walk(ch, wrap)

            for st in top.body:
                walk(st, 0)

    # interprocedural: a function's "outer wrap" = common wrap of all its call sites (0 if none / differing)
    outer_cache = {}

    def outer(fn, seen=()):
        if fn in outer_cache: return outer_cache[fn]
        if fn in seen: return 0
        sites = [(caller, w) for (_, caller, callee, w) in fn_calls if callee == fn]
        if not sites:
            outer_cache[fn] = 0; return 0
        ws = set()
        for caller, w in sites:
            ws.add(w if w else outer(caller, seen + (fn,)))
        r = ws.pop() if len(ws) == 1 else 0
        outer_cache[fn] = r
        return r

    sites = []
    seen = set()
    for f, fn, line, wrap, meth in db_calls:
        table = FUNC_PHASE.get(f, {})
        if fn not in table:
            raise ShapeError('io/%s:%s calls DuckDB but has no phase assigned in the translator' % (f, fn))
        eff = wrap if wrap else outer(fn)
        key = (f, fn, line)
        if key in seen:   # conn.execute(...).fetchone(): one site
            continue
        seen.add(key)
        sites.append({'file': 'io/' + f, 'func': fn, 'line': line, 'phase': PHASES[table[fn]], 'mapper': eff, 'method': meth})
    sites.sort(key=lambda s: (s['file'], s['line']))
    return {'mappers': mappers, 'db_sites': sites}


# ------------------------------------------------------------------------------------------ everything
def read_all(repo):
    classes = catmod.read_exception_classes(repo)
    sql_errs, deps = read_sql_files(repo)
    py_errs = read_py_sql_errors(repo)
    macros = {e['unit'] for e in sql_errs}
    users = {m: users_of(m, deps) for m in macros}
    allusers = set().union(*users.values()) if users else set()
    mentions = macro_mentions(repo, allusers)
    for e in sql_errs:
        # every macro can be reached from a transpiled statement (macro names are also built dynamically there:
        # f"vtl_{method}", f"vtl_period_{suffix}"), so `stmt` is always included; other phases by mention.
        ph = {'stmt'}
        for u in users[e['unit']]:
            ph |= mentions.get(u, set())
        e['phases'] = sorted(PHASES[p] for p in ph)
    for e in py_errs:
        ph = None
        for rx, p in FILE_PHASE:
            if rx.search(e['file']): ph = p
        if ph is None:
            raise ShapeError('%s authors a SQL error() but has no phase' % e['file'])
        e['phases'] = [PHASES[ph]]
    io = read_io(repo, classes)
    return {'errors': sql_errs + py_errs, 'mappers': io['mappers'], 'db_sites': io['db_sites'], 'classes': classes, 'deps': deps}


# ---- Python twins of the Lean definitions (certificates) -----------------------------------------
def lower_ascii(s):
    return ''.join(chr(ord(c) + 32) if 'A' <= c <= 'Z' else c for c in s)


def cond_static(c, pieces):
    k = c[0]
    if k == 'has':
        return any(p[0] == 'lit' and c[1] in lower_ascii(p[1]) for p in pieces)
    if k == 'and': return cond_static(c[1], pieces) and cond_static(c[2], pieces)
    if k == 'or': return cond_static(c[1], pieces) or cond_static(c[2], pieces)
    if k == 'not': return False
    return True


def cond_eval(c, text):
    k = c[0]
    if k == 'has': return c[1] in text
    if k == 'and': return cond_eval(c[1], text) and cond_eval(c[2], text)
    if k == 'or': return cond_eval(c[1], text) or cond_eval(c[2], text)
    if k == 'not': return not cond_eval(c[1], text)
    return True


def phase_wrapped(db_sites, p):
    return all(s['phase'] != p or s['mapper'] != 0 for s in db_sites)


def phase_rules(db_sites, mappers, p):
    if not phase_wrapped(db_sites, p):
        return None
    return [mappers[s['mapper'] - 2]['rules'] for s in db_sites if s['phase'] == p and s['mapper'] >= 2]


def mapped_in(db_sites, mappers, e, p):
    rs = phase_rules(db_sites, mappers, p)
    if rs is None:
        return False
    return all(any(cond_static(r['cond'], e['pieces']) for r in rules) for rules in rs)


def unmapped(data):
    out = []
    for i, e in enumerate(data['errors']):
        for p in e['phases']:
            if p != PHASES['load'] and not mapped_in(data['db_sites'], data['mappers'], e, p):
                out.append((i, p))
    return out


def outcome_ok(o, catd):
    m = catd.get(o['code'])
    if m is None: return False
    if o['star']: return True
    return {n for k, n in m['pieces'] if k == 'ph'} <= set(o['kwargs'])


# ---- Lean emission -------------------------------------------------------------------------------
def _nl(xs):
    return '[' + ', '.join(str(x) for x in xs) + ']'


def _cond_lean(c):
    k = c[0]
    if k == 'has': return '(.has %s)' % _nl(_str_points(c[1]))
    if k in ('and', 'or'): return '(.%s %s %s)' % (k, _cond_lean(c[1]), _cond_lean(c[2]))
    if k == 'not': return '(.not %s)' % _cond_lean(c[1])
    return '.tt'


def native_unmapped(data, native):
    rules = stmt_rules(data)
    return [i for i, t in enumerate(native) if not any(cond_eval(r['cond'], lower_ascii(t)) for r in rules)]


def stmt_rules(data):
    ms = [s['mapper'] for s in data['db_sites'] if s['phase'] == PHASES['stmt'] and s['mapper'] >= 2]
    return data['mappers'][ms[0] - 2]['rules'] if ms else []


def emit(repo, intern, cls_ids, catd, native=()):
    """`intern` is the catalogue translator's Interner (shared string table: call before the catalogue text is
    finalised).  `native` = DuckDB-native error texts (produced by the installed DuckDB on a fixed probe list)."""
    data = read_all(repo)
    native = list(native)
    E = ['import VtlModel.Errors.Model', 'namespace VtlModel.Gen.SqlErrors', 'open VtlModel.Errors', '']
    rows = []
    for i, e in enumerate(data['errors']):
        for p in e['pieces']:
            if p[0] == 'lit' and any(ord(c) > 127 for c in p[1]):
                raise ShapeError('non-ASCII engine-authored SQL error text at %s:%d' % (e['file'], e['line']))
        ps = ', '.join(('.lit %s' % _nl(_str_points(p[1]))) if p[0] == 'lit' else '.hole' for p in e['pieces'])
        rows.append('  -- %d %s:%s:%d  %s\n  ⟨%d, %d, %d, %s, [%s]⟩' % (
            i, e['file'], e['unit'], e['line'], ' ++ '.join(repr(p[1]) if p[0] == 'lit' else '_' for p in e['pieces']).replace('\n', ' '),
            intern(e['file']), intern(e['unit']), e['line'], _nl(e['phases']), ps))
    E.append('def sqlErrors : List SqlError := [\n%s\n]' % ',\n'.join(rows))
    E.append('')
    E.append('/-- certificate (recomputed by the kernel in Props/C32): (error index, phase) without a guaranteed mapping -/')
    E.append('def claimedUnmapped : List (Nat × Nat) := ' + _nl('(%d, %d)' % x for x in unmapped(data)))
    E.append('')
    E.append('/-- DuckDB-native error texts: what the installed DuckDB answers to a fixed list of failing probes -/')
    E.append('def nativeErrors : List (List Nat) := [\n%s\n]' % ',\n'.join('  -- %d %s\n  %s' % (i, t.replace('\n', ' ')[:150], _nl(_str_points(t))) for i, t in enumerate(native)))
    E.append('def claimedNativeUnmapped : List Nat := ' + _nl(native_unmapped(data, native)))
    E.append('\nend VtlModel.Gen.SqlErrors\n')

    M = ['import VtlModel.Errors.Model', 'namespace VtlModel.Gen.ErrorMap', 'open VtlModel.Errors', '']
    for k, m in enumerate(data['mappers']):
        rs = []
        for r in m['rules']:
            outs = ', '.join('⟨%d, %d, %s, %s⟩' % (cls_ids[o['cls']], intern(o['code']), _nl(intern(x) for x in o['kwargs']),
                                                  'true' if o['star'] else 'false') for o in r['outs'])
            rs.append('  -- line %d: %s -> %s\n  ⟨%s, [%s]⟩' % (r['line'], _cond_txt(r['cond']), ' | '.join(o['code'] for o in r['outs']), _cond_lean(r['cond']), outs))
        M.append('/-- %s (%s)%s -/' % (m['name'], m['file'], '' if m['total'] else ' — falls through to the raw error'))
        M.append('def mapper%d : List Rule := [\n%s\n]' % (k, ',\n'.join(rs)))
        M.append('')
    M.append('def mappers : List (List Rule) := ' + _nl('mapper%d' % k for k in range(len(data['mappers']))))
    M.append('')
    rows = []
    for s in data['db_sites']:
        rows.append('  ⟨%d, %d, %d, %d, %d⟩  -- %s:%s:%d .%s phase=%s %s' % (
            intern(s['file']), intern(s['func']), s['line'], s['phase'], s['mapper'], s['file'], s['func'], s['line'], s['method'],
            PHASE_NAMES[s['phase']], 'UNWRAPPED' if s['mapper'] == 0 else ('swallowed' if s['mapper'] == 1 else data['mappers'][s['mapper'] - 2]['name'])))
    body = []
    for j, r in enumerate(rows):
        code, _, com = r.partition('  -- ')
        body.append(code + (',' if j < len(rows) - 1 else '') + '  -- ' + com)
    M.append('def dbSites : List DbSite := [\n%s\n]' % '\n'.join(body))
    M.append('')
    unw = [p for p in range(5) if not phase_wrapped(data['db_sites'], p)]
    M.append('/-- certificate (recomputed by the kernel in Props/C32): phases with an unwrapped DuckDB call -/')
    M.append('def claimedUnwrapped : List Nat := ' + _nl(unw))
    M.append('\nend VtlModel.Gen.ErrorMap\n')
    data['unmapped'] = unmapped(data)
    data['native'] = native
    data['native_unmapped'] = native_unmapped(data, native)
    data['unwrapped'] = unw
    return {'sql_errors': '\n'.join(E), 'error_map': '\n'.join(M), 'data': data}


def _cond_txt(c):
    k = c[0]
    if k == 'has': return repr(c[1])
    if k in ('and', 'or'): return '(%s %s %s)' % (_cond_txt(c[1]), k, _cond_txt(c[2]))
    if k == 'not': return 'not ' + _cond_txt(c[1])
    return 'otherwise'


if __name__ == '__main__':
    repo = os.environ.get('VERIF_REPO', '/repo')
    d = read_all(repo)
    for i, e in enumerate(d['errors']):
        print(i, e['file'], e['unit'], e['line'], [PHASE_NAMES[p] for p in e['phases']], e['pieces'])
    for m in d['mappers']:
        print('MAPPER', m['name'], 'total' if m['total'] else 'partial')
        for r in m['rules']:
            print('   ', r['line'], _cond_txt(r['cond']), '->', [(o['cls'], o['code'], o['kwargs']) for o in r['outs']])
    for s in d['db_sites']:
        print('DB', s)
    print('unmapped', unmapped(d))
    print('unwrapped phases', [PHASE_NAMES[p] for p in range(5) if not phase_wrapped(d['db_sites'], p)])

"""C27 translator: SDMX -> VTL mapping tables and the shape of `to_vtl_json`  ->  Gen/Sdmx.lean.

Reads (never interprets):
  * `VTL_DTYPES_MAPPING`, `VTL_ROLE_MAPPING` from the *source text* of src/vtlengine/Utils/__init__.py
    (Python `ast` of the two dict literals);
  * the installed `pysdmx.model.DataType` / `Role` enums;
  * the body of `to_vtl_json` in src/vtlengine/files/sdmx_handler.py (order of the `_components.extend`
    calls, the three per-component assignments, how a missing key is handled, the output dict);
  * the role table and the type table of docs/data_structures.rst.
Raises vlib.ShapeError on any shape it does not know.
"""
from __future__ import annotations

import ast
import os
import re
import sys

sys.path.insert(0, os.path.join(os.path.dirname(os.path.abspath(__file__)), '..'))
import vlib  # noqa: E402

SE = vlib.ShapeError


def _find_assign(tree, name):
    for n in tree.body:
        if isinstance(n, ast.Assign) and len(n.targets) == 1 and isinstance(n.targets[0], ast.Name) and n.targets[0].id == name:
            return n.value
        if isinstance(n, ast.AnnAssign) and isinstance(n.target, ast.Name) and n.target.id == name and n.value is not None:
            return n.value
    raise SE('no module-level assignment of %s' % name)


def read_code_maps(repo):
    p = os.path.join(repo, 'src/vtlengine/Utils/__init__.py')
    tree = ast.parse(open(p).read())
    d = _find_assign(tree, 'VTL_DTYPES_MAPPING')
    if not isinstance(d, ast.Dict):
        raise SE('VTL_DTYPES_MAPPING is not a dict literal')
    dt = []
    for k, v in zip(d.keys, d.values):
        if not (isinstance(k, ast.Constant) and isinstance(k.value, str) and isinstance(v, ast.Constant) and isinstance(v.value, str)):
            raise SE('VTL_DTYPES_MAPPING entry is not "str": "str": %s' % ast.unparse(k))
        dt.append((k.value, v.value))
    r = _find_assign(tree, 'VTL_ROLE_MAPPING')
    if not isinstance(r, ast.Dict):
        raise SE('VTL_ROLE_MAPPING is not a dict literal')
    rl = []
    for k, v in zip(r.keys, r.values):
        if not (isinstance(k, ast.Attribute) and isinstance(k.value, ast.Name) and k.value.id == 'Role'
                and isinstance(v, ast.Constant) and isinstance(v.value, str)):
            raise SE('VTL_ROLE_MAPPING entry is not Role.X: "str": %s' % ast.unparse(k))
        rl.append((k.attr, v.value))
    # which `Role` is that?  must be pysdmx's
    src = open(p).read()
    if not re.search(r'from\s+pysdmx\.model\.dataflow\s+import\s+[^\n]*\bRole\b', src) and \
       not re.search(r'from\s+pysdmx\.model\s+import\s+[^\n]*\bRole\b', src):
        raise SE('Utils/__init__.py does not import Role from pysdmx')
    return dt, rl


GROUP_ATTR = {'dimensions': 'DIMENSION', 'measures': 'MEASURE', 'attributes': 'ATTRIBUTE'}


def read_to_vtl_json(repo):
    """Transcribe the part of to_vtl_json after the Dataflow unwrapping."""
    p = os.path.join(repo, 'src/vtlengine/files/sdmx_handler.py')
    tree = ast.parse(open(p).read())
    fn = [n for n in tree.body if isinstance(n, ast.FunctionDef) and n.name == 'to_vtl_json']
    if len(fn) != 1:
        raise SE('to_vtl_json not found')
    fn = fn[0]
    consts = {}      # NAME = "name" local string constants
    groups = []
    loop = None
    comp_list_var = None
    for st in fn.body:
        if isinstance(st, ast.Assign) and len(st.targets) == 1 and isinstance(st.targets[0], ast.Name) \
                and isinstance(st.value, ast.Constant) and isinstance(st.value.value, str):
            consts[st.targets[0].id] = st.value.value
        if isinstance(st, ast.Expr) and isinstance(st.value, ast.Call) and isinstance(st.value.func, ast.Attribute) \
                and st.value.func.attr in ('extend', 'append') and isinstance(st.value.func.value, ast.Name) \
                and st.value.func.value.id == '_components':
            if st.value.func.attr != 'extend' or len(st.value.args) != 1:
                raise SE('unknown way of filling _components: ' + ast.unparse(st))
            a = st.value.args[0]
            if not (isinstance(a, ast.Attribute) and a.attr in GROUP_ATTR and ast.unparse(a.value) == 'structure.components'):
                raise SE('unknown component group: ' + ast.unparse(a))
            groups.append(GROUP_ATTR[a.attr])
        if isinstance(st, ast.For):
            if loop is not None:
                raise SE('more than one loop in to_vtl_json')
            loop = st
    if loop is None or ast.unparse(loop.iter) != '_components' or not isinstance(loop.target, ast.Name):
        raise SE('component loop not found / not over _components')
    cv = loop.target.id
    info = {'groups': groups, 'order': []}
    out_dict = None
    appended = False
    pending_guard = {}  # var -> 'iv' when an `if c.x not in MAP: raise InputValidationException` precedes

    def classify_lookup(val, mapname, attr):
        """MAP[c.attr] -> 'subscript';  anything else -> ShapeError."""
        if isinstance(val, ast.Subscript) and isinstance(val.value, ast.Name) and val.value.id == mapname \
                and ast.unparse(val.slice) == '%s.%s' % (cv, attr):
            return 'subscript'
        raise SE('unknown lookup shape: ' + ast.unparse(val))

    for st in loop.body:
        if isinstance(st, ast.If):
            # known guard shape:  if c.dtype not in VTL_DTYPES_MAPPING: raise InputValidationException(...)
            t = st.test
            if isinstance(t, ast.Compare) and len(t.ops) == 1 and isinstance(t.ops[0], ast.NotIn) \
                    and isinstance(t.comparators[0], ast.Name) and not st.orelse and len(st.body) == 1 \
                    and isinstance(st.body[0], ast.Raise) and isinstance(st.body[0].exc, ast.Call) \
                    and ast.unparse(st.body[0].exc.func) == 'InputValidationException':
                key = ast.unparse(t.left)
                m = t.comparators[0].id
                if key == cv + '.dtype' and m == 'VTL_DTYPES_MAPPING':
                    pending_guard['dtype'] = True; continue
                if key == cv + '.role' and m == 'VTL_ROLE_MAPPING':
                    pending_guard['role'] = True; continue
            raise SE('unknown statement in component loop: ' + ast.unparse(st)[:120])
        if isinstance(st, ast.Assign) and len(st.targets) == 1 and isinstance(st.targets[0], ast.Name):
            tgt, val = st.targets[0].id, st.value
            if tgt == '_type':
                classify_lookup(val, 'VTL_DTYPES_MAPPING', 'dtype')
                info['order'].append('dtype')
                continue
            if tgt == '_role':
                classify_lookup(val, 'VTL_ROLE_MAPPING', 'role')
                info['order'].append('role')
                continue
            if tgt == '_nullability':
                if not (isinstance(val, ast.Compare) and len(val.ops) == 1 and isinstance(val.ops[0], (ast.NotEq, ast.Eq))
                        and ast.unparse(val.left) == cv + '.role' and isinstance(val.comparators[0], ast.Attribute)
                        and ast.unparse(val.comparators[0].value) in ('SDMX_Role', 'Role')):
                    raise SE('unknown nullability expression: ' + ast.unparse(val))
                info['null_neq'] = isinstance(val.ops[0], ast.NotEq)
                info['null_role'] = val.comparators[0].attr
                continue
            if isinstance(val, ast.Dict):
                out_dict = (tgt, val)
                continue
        if isinstance(st, ast.Expr) and isinstance(st.value, ast.Call) and ast.unparse(st.value.func) == 'components.append' \
                and out_dict and ast.unparse(st.value.args[0]) == out_dict[0]:
            appended = True
            continue
        raise SE('unknown statement in component loop: ' + ast.unparse(st)[:120])
    if not appended or out_dict is None or 'null_neq' not in info or sorted(info['order']) != ['dtype', 'role']:
        raise SE('component loop does not have the known shape')
    fields = {}
    for k, v in zip(out_dict[1].keys, out_dict[1].values):
        kk = consts.get(k.id) if isinstance(k, ast.Name) else (k.value if isinstance(k, ast.Constant) else None)
        if kk is None:
            raise SE('unknown key in component dict: ' + ast.unparse(k))
        fields[kk] = ast.unparse(v)
    want = {'name': cv + '.id', 'role': '_role', 'type': '_type', 'nullable': '_nullability'}
    if fields != want:
        raise SE('component dict is %r, expected %r' % (fields, want))
    info['dtype_miss_iv'] = bool(pending_guard.get('dtype'))
    info['role_miss_iv'] = bool(pending_guard.get('role'))
    # the result literal: {"datasets": [{"name": dataset_name, "DataStructure": components}]}
    ret = [n for n in ast.walk(fn) if isinstance(n, ast.Assign) and ast.unparse(n.targets[0]) == 'result']
    if len(ret) != 1 or ast.unparse(ret[0].value).replace('"', "'") != "{'datasets': [{'name': dataset_name, 'DataStructure': components}]}":
        raise SE('result literal of to_vtl_json has an unknown shape')
    return info


def _list_tables(rst_text):
    """All `.. list-table::` blocks as lists of rows (list of cell strings, lines joined with a space)."""
    lines = rst_text.split('\n')
    tables, i = [], 0
    while i < len(lines):
        if lines[i].strip().startswith('.. list-table::'):
            base = len(lines[i]) - len(lines[i].lstrip())
            i += 1
            rows, cur_row, cur_cell = [], None, None
            while i < len(lines):
                ln = lines[i]
                if ln.strip() == '':
                    i += 1; continue
                ind = len(ln) - len(ln.lstrip())
                if ind <= base:
                    break
                s = ln.strip()
                if s.startswith(':'):
                    i += 1; continue
                if s.startswith('* - '):
                    if cur_row is not None:
                        cur_row.append(cur_cell); rows.append(cur_row)
                    cur_row, cur_cell = [], s[4:]
                elif s.startswith('- '):
                    cur_row.append(cur_cell); cur_cell = s[2:]
                else:
                    cur_cell += ' ' + s
                i += 1
            if cur_row is not None:
                cur_row.append(cur_cell); rows.append(cur_row)
            tables.append(rows)
        else:
            i += 1
    return tables


VARIANT_PHRASE = re.compile(r'and all reporting period variants \(([^)]*)\)')


def read_doc_tables(repo):
    p = os.path.join(repo, 'docs/data_structures.rst')
    tabs = _list_tables(open(p).read())
    role_t = [t for t in tabs if t and [c.strip() for c in t[0]] == ['SDMX role', 'VTL role', 'Nullable?']]
    type_t = [t for t in tabs if t and [c.strip() for c in t[0]] == ['SDMX data type', 'VTL type']]
    if len(role_t) != 1 or len(type_t) != 1:
        raise SE('docs/data_structures.rst: role table / type table not found exactly once')
    roles = []
    for row in role_t[0][1:]:
        m = [re.fullmatch(r'``([^`]+)``', c.strip()) for c in row]
        if len(row) != 3 or not all(m):
            raise SE('role table row has an unknown shape: %r' % row)
        r, v, nl = (x.group(1) for x in m)
        if not r.startswith('Role.') or nl not in ('true', 'false'):
            raise SE('role table row has an unknown shape: %r' % row)
        roles.append((r[5:], v, nl == 'true'))
    types = []
    for row in type_t[0][1:]:
        if len(row) != 2:
            raise SE('type table row has an unknown shape: %r' % row)
        m = re.fullmatch(r'``([^`]+)``', row[1].strip())
        if not m:
            raise SE('type table: VTL type cell %r' % row[1])
        vt = m.group(1)
        cell = row[0]
        names = re.findall(r'``([^`]+)``', cell)
        rest = re.sub(r'``[^`]+``', '', cell)
        mv = VARIANT_PHRASE.search(rest)
        if mv:
            # documented shorthand: "ReportingTimePeriod and all reporting period variants (Year, Semester, ...)"
            # is transcribed as Reporting<Variant> for each listed variant
            names += ['Reporting' + v.strip() for v in mv.group(1).split(',')]
            rest = VARIANT_PHRASE.sub('', rest)
        if rest.replace(',', '').strip() not in ('',):
            raise SE('type table: free text in SDMX cell that the translator does not know: %r' % rest.strip())
        for n in names:
            types.append((n, vt))
    return types, roles


def read_pysdmx():
    from pysdmx.model import DataType
    from pysdmx.model.dataflow import Role
    return [str(d.value) for d in DataType], [r.name for r in Role]


def read_vtl_types(repo):
    """Keys of SCALAR_TYPES in DataTypes/__init__.py (the type names the JSON loader accepts)."""
    p = os.path.join(repo, 'src/vtlengine/DataTypes/__init__.py')
    tree = ast.parse(open(p).read())
    v = _find_assign(tree, 'SCALAR_TYPES')
    if not isinstance(v, ast.Dict) or not all(isinstance(k, ast.Constant) and isinstance(k.value, str) for k in v.keys):
        raise SE('SCALAR_TYPES is not a dict literal with string keys')
    return [k.value for k in v.keys]


def translate(repo):
    dt, rl = read_code_maps(repo)
    info = read_to_vtl_json(repo)
    dtypes, roles = read_pysdmx()
    doc_types, doc_roles = read_doc_tables(repo)
    vtl_types = read_vtl_types(repo)
    S = vlib.lean_str
    pair = lambda kv: '(%s, %s)' % (S(kv[0]), S(kv[1]))
    b = lambda x: 'true' if x else 'false'
    L = []
    L.append('namespace VtlModel.Gen.Sdmx\n')
    L.append('/-- values of the installed `pysdmx.model.DataType` enum (a `str` enum: this is what the dict lookup sees) -/')
    L.append('def pysdmxDataTypes : List String := ' + vlib.lean_list(dtypes, S))
    L.append('/-- member names of the installed `pysdmx.model.dataflow.Role` enum -/')
    L.append('def pysdmxRoles : List String := ' + vlib.lean_list(roles, S))
    L.append('/-- `VTL_DTYPES_MAPPING` (Utils/__init__.py), in source order -/')
    L.append('def codeDtypeMap : List (String × String) := ' + vlib.lean_list(dt, pair))
    L.append('/-- `VTL_ROLE_MAPPING` (Utils/__init__.py); keys are `Role.<name>` -/')
    L.append('def codeRoleMap : List (String × String) := ' + vlib.lean_list(rl, pair))
    L.append('/-- docs/data_structures.rst, table "SDMX data type | VTL type" -/')
    L.append('def docDtypeMap : List (String × String) := ' + vlib.lean_list(doc_types, pair))
    L.append('/-- docs/data_structures.rst, table "SDMX role | VTL role | Nullable?" -/')
    L.append('def docRoleMap : List (String × String × Bool) := ' +
             vlib.lean_list(doc_roles, lambda t: '(%s, %s, %s)' % (S(t[0]), S(t[1]), b(t[2]))))
    L.append('/-- keys of `SCALAR_TYPES` (DataTypes/__init__.py): the type names a VTL JSON structure may use -/')
    L.append('def vtlTypeNames : List String := ' + vlib.lean_list(vtl_types, S))
    L.append('/-- `to_vtl_json`: order of the `_components.extend(structure.components.<group>)` calls -/')
    L.append('def componentGroups : List String := ' + vlib.lean_list(info['groups'], S))
    L.append('/-- `_nullability = c.role != SDMX_Role.<nullRole>` (`true` = operator `!=`, `false` = `==`) -/')
    L.append('def nullNeq : Bool := ' + b(info['null_neq']))
    L.append('def nullRole : String := ' + S(info['null_role']))
    L.append('/-- does a guard turn a dtype / role missing from the mapping into an InputValidationException? (plain subscript = KeyError) -/')
    L.append('def dtypeMissIV : Bool := ' + b(info['dtype_miss_iv']))
    L.append('def roleMissIV : Bool := ' + b(info['role_miss_iv']))
    L.append('/-- is the dtype looked up before the role inside the loop body? -/')
    L.append('def dtypeFirst : Bool := ' + b(info['order'][0] == 'dtype'))
    L.append('\nend VtlModel.Gen.Sdmx\n')
    digest = {'dtypes_in_code': len(dt), 'roles_in_code': len(rl), 'pysdmx_dtypes': len(dtypes), 'doc_types': len(doc_types),
              'doc_roles': len(doc_roles), 'to_vtl_json': info}
    return '\n'.join(L), digest, {'code_dtype': dict(dt), 'code_role': dict(rl), 'doc_dtype': dict(doc_types),
                                   'doc_role': {r: (v, n) for r, v, n in doc_roles}, 'pysdmx_dtypes': dtypes,
                                   'pysdmx_roles': roles, 'info': info}


if __name__ == '__main__':
    t, d, _ = translate(vlib.REPO)
    print(t); print(d)

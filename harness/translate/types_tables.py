"""Translators for group `Types` (C09, C11): live `vtlengine.DataTypes` / `vtlengine.Operators` objects and the
Python `ast` of the promotion / cast-check functions  ->  Lean text for `lean/VtlModel/Gen/*.lean`.

They transcribe, never interpret: tables are copied entry by entry from the live objects, the four promotion
functions (and `Cast.check_without_mask`, the rename branch of `Cast.dataset_validation`) are translated
statement by statement from their source; any construct outside the small subset below raises
`vlib.ShapeError` (-> the check reports the obligation as broken and searches for a failing input).

Python subset understood by `FnTr`:
  statements   docstring | x = <set-expr> | s.discard(T) | if/elif/else | return <expr> | raise Exc(code=..)/Exc("code", ..)
  set-expr     TABLE[t] | a.intersection(b) | set variable
  type-expr    parameter / narrowed optional parameter / global type class
  bool-expr    and / or / not | X is (not) None | optional or set variable (truthiness) | bool(s) | len(s) == n
               | t.is_included(s) | t.is_included(set_=s) | t.is_subtype(u) | issubclass(t, u)
  special      `if len(s) == 1: return s.pop()`   (the only place `pop` is accepted: the popped element is unique)
"""
from __future__ import annotations

import ast
import importlib
import inspect
import os
import pkgutil
import re
import sys
import textwrap

sys.path.insert(0, os.path.join(os.path.dirname(os.path.abspath(__file__)), '..'))
import vlib  # noqa: E402
from vlib import ShapeError  # noqa: E402

# user-facing name (key of SCALAR_TYPES)  ->  constructor of VtlModel.Ty  (order = Ty.all = interning)
TY_CTORS = [('String', 'string'), ('Number', 'number'), ('Integer', 'integer'), ('Time', 'time'), ('Date', 'date'),
            ('Time_Period', 'timePeriod'), ('Duration', 'duration'), ('Boolean', 'boolean'), ('Null', 'null')]
TY_NAMES = [n for n, _ in TY_CTORS]
CTOR = dict(TY_CTORS)
PROMO_FNS = ['binary_implicit_promotion', 'check_binary_implicit_promotion', 'unary_implicit_promotion',
             'check_unary_implicit_promotion']


class Live:
    """The live objects of the repository under test (booted through harness/eng.py)."""

    def __init__(self):
        import eng  # noqa: F401  (boots vtlengine from $VERIF_REPO under the stand-in parser)
        import vtlengine.DataTypes as DT
        import vtlengine.Operators as OPS
        for m in pkgutil.iter_modules(OPS.__path__):
            importlib.import_module('vtlengine.Operators.' + m.name)
        self.eng, self.DT, self.OPS = eng, DT, OPS
        st = DT.SCALAR_TYPES
        if list(sorted(st)) != sorted(TY_NAMES):
            raise ShapeError('SCALAR_TYPES keys changed: %r' % sorted(st))
        self.cls_of = {n: st[n] for n in TY_NAMES}              # name -> class
        self.name_of = {c: n for n, c in self.cls_of.items()}    # class -> name
        if len(self.name_of) != 9:
            raise ShapeError('SCALAR_TYPES maps two names to one class')
        for n, c in self.cls_of.items():
            if bool(c) is not True:
                raise ShapeError('type class %s is not truthy (the transcription reads `if return_type:` as `is not None`)' % n)
            for meth, body in (('is_included', 'return cls in set_'), ('is_subtype', 'return issubclass(cls, obj)'),
                               ('promotion_changed_type', 'return not issubclass(cls, promoted)')):
                f = getattr(c, meth)
                if getattr(f, '__func__', None) is not getattr(DT.ScalarType, meth).__func__:
                    raise ShapeError('%s.%s is overridden' % (n, meth))
                src = textwrap.dedent(inspect.getsource(f))
                last = [ln.strip() for ln in src.strip().split('\n')][-1]
                if last != body:
                    raise ShapeError('ScalarType.%s body changed: %r' % (meth, last))

    def ty(self, c):
        """live class or None -> Lean term of type Ty."""
        if c not in self.name_of:
            raise ShapeError('not a scalar type class: %r' % (c,))
        return 'Ty.' + CTOR[self.name_of[c]]

    def opt(self, c):
        return 'none' if c is None else '(some %s)' % self.ty(c)

    def tyset(self, s):
        if not isinstance(s, (set, frozenset)):
            raise ShapeError('table entry is not a set: %r' % (s,))
        names = [self.name_of.get(c) for c in s]
        if None in names:
            raise ShapeError('table entry holds a non-type: %r' % (s,))
        return '[' + ', '.join('Ty.' + CTOR[n] for n in TY_NAMES if n in names) + ']'

    def table_fn(self, lean_name, table, doc):
        if set(table.keys()) != set(self.cls_of.values()):
            raise ShapeError('%s: keys are not the nine scalar types' % lean_name)
        out = ['/-- %s -/' % doc, 'def %s : Ty → TySet' % lean_name]
        for n in TY_NAMES:
            out.append('  | Ty.%s => %s' % (CTOR[n], self.tyset(table[self.cls_of[n]])))
        return '\n'.join(out) + '\n'


# ------------------------------------------------------------------------------------------------ tables
def gen_promotion(L: Live) -> str:
    DT = L.DT
    out = ['import VtlModel.Types.Ty', 'namespace VtlModel.Gen.Promotion', 'open VtlModel', '']
    out.append(L.table_fn('implicit', DT.IMPLICIT_TYPE_PROMOTION_MAPPING,
                          'IMPLICIT_TYPE_PROMOTION_MAPPING: key = type, value = set of types it implicitly promotes to'))
    out.append(L.table_fn('explicitNoMask', DT.EXPLICIT_WITHOUT_MASK_TYPE_PROMOTION_MAPPING,
                          'EXPLICIT_WITHOUT_MASK_TYPE_PROMOTION_MAPPING'))
    masks = [k for k in dir(DT) if 'EXPLICIT' in k and 'WITH_MASK' in k and 'WITHOUT' not in k]
    out.append('/-- names of EXPLICIT…WITH_MASK tables found in vtlengine.DataTypes (none: cast with mask raises NotImplementedError) -/')
    out.append('def explicitWithMaskTables : List String := %s\n' % vlib.lean_list(masks, vlib.lean_str))
    out.append('/-- Python `issubclass(a, b)` on the live classes -/')
    out.append('def isSubclass : Ty → Ty → Bool')
    for a in TY_NAMES:
        sup = [b for b in TY_NAMES if issubclass(L.cls_of[a], L.cls_of[b])]
        for b in sup:
            out.append('  | Ty.%s, Ty.%s => true' % (CTOR[a], CTOR[b]))
    out.append('  | _, _ => false\n')
    cm = DT.COMP_NAME_MAPPING
    if set(cm.keys()) != set(L.cls_of.values()):
        raise ShapeError('COMP_NAME_MAPPING keys are not the nine scalar types')
    out.append('/-- COMP_NAME_MAPPING -/')
    out.append('def compName : Ty → String')
    for n in TY_NAMES:
        out.append('  | Ty.%s => %s' % (CTOR[n], vlib.lean_str(cm[L.cls_of[n]])))
    out.append('')
    out.append('/-- keys of SCALAR_TYPES in Ty.all order -/')
    out.append('def scalarTypeNames : List String := %s' % vlib.lean_list(TY_NAMES, vlib.lean_str))
    out.append('\nend VtlModel.Gen.Promotion')
    return '\n'.join(out) + '\n'


# ------------------------------------------------------------------------------------------------ function translator
class FnTr:
    """Python function (ast) -> Lean definition returning `PyRes R`."""

    TABLES = {'IMPLICIT_TYPE_PROMOTION_MAPPING': 'implicit', 'EXPLICIT_WITHOUT_MASK_TYPE_PROMOTION_MAPPING': 'explicitNoMask'}
    EXC = {'SemanticError', 'RunTimeError', 'InputValidationException', 'DataLoadError'}

    def __init__(self, L: Live, fn, ret: str):
        self.L, self.fn, self.ret = L, fn, ret
        self.globals = fn.__globals__
        src = textwrap.dedent(inspect.getsource(fn))
        mod = ast.parse(src)
        if len(mod.body) != 1 or not isinstance(mod.body[0], ast.FunctionDef):
            raise ShapeError('%s: not a plain function' % fn.__name__)
        self.node = mod.body[0]
        self.src = src

    def err(self, node, why):
        raise ShapeError('%s line %s: %s: %s' % (self.fn.__name__, getattr(node, 'lineno', '?'), why,
                                                 ast.unparse(node)[:120] if node is not None else ''))

    # ---- expressions
    def ty_expr(self, e, env):
        if isinstance(e, ast.Name):
            if e.id in env:
                k, ln = env[e.id]
                if k == 'ty': return ln
                self.err(e, 'variable of kind %s used where a type is needed (optional without None test?)' % k)
            g = self.globals.get(e.id)
            if g in self.L.name_of: return self.L.ty(g)
        self.err(e, 'unknown type expression')

    def set_expr(self, e, env):
        if isinstance(e, ast.Name) and env.get(e.id, ('', ''))[0] == 'set':
            return env[e.id][1]
        if isinstance(e, ast.Subscript) and isinstance(e.value, ast.Name) and e.value.id in self.TABLES:
            live = self.globals.get(e.value.id)
            if live is not getattr(self.L.DT, e.value.id):
                self.err(e, 'table name does not resolve to the DataTypes table')
            return '(%s %s)' % (self.TABLES[e.value.id], self.ty_expr(e.slice, env))
        if (isinstance(e, ast.Call) and isinstance(e.func, ast.Attribute) and e.func.attr == 'intersection'
                and len(e.args) == 1 and not e.keywords):
            return '(TySet.inter %s %s)' % (self.set_expr(e.func.value, env), self.set_expr(e.args[0], env))
        self.err(e, 'unknown set expression')

    def is_opt(self, e, env):
        return isinstance(e, ast.Name) and env.get(e.id, ('', ''))[0] == 'opt'

    def bool_expr(self, e, env):
        if isinstance(e, ast.BoolOp) and isinstance(e.op, ast.And):
            return self.and_chain(e.values, env)
        if isinstance(e, ast.BoolOp) and isinstance(e.op, ast.Or):
            return '(' + ' || '.join(self.bool_expr(v, env) for v in e.values) + ')'
        if isinstance(e, ast.UnaryOp) and isinstance(e.op, ast.Not):
            return '(!%s)' % self.bool_expr(e.operand, env)
        if isinstance(e, ast.Constant) and isinstance(e.value, bool):
            return 'true' if e.value else 'false'
        if isinstance(e, ast.Name) and e.id in env:
            k, ln = env[e.id]
            if k == 'opt': return '%s.isSome' % ln
            if k == 'set': return '(TySet.truthy %s)' % ln
            if k == 'ty': return 'true'      # a class object is truthy (checked in Live)
        if isinstance(e, ast.Compare) and len(e.ops) == 1:
            l, op, r = e.left, e.ops[0], e.comparators[0]
            if isinstance(r, ast.Constant) and r.value is None and isinstance(l, ast.Name) and l.id in env:
                k, ln = env[l.id]
                if k == 'opt':
                    if isinstance(op, ast.IsNot): return '%s.isSome' % ln
                    if isinstance(op, ast.Is): return '%s.isNone' % ln
                if k == 'ty':
                    if isinstance(op, ast.IsNot): return 'true'
                    if isinstance(op, ast.Is): return 'false'
            if (isinstance(op, ast.Eq) and isinstance(l, ast.Call) and isinstance(l.func, ast.Name) and l.func.id == 'len'
                    and len(l.args) == 1 and isinstance(r, ast.Constant) and isinstance(r.value, int)):
                return '(TySet.len %s == %d)' % (self.set_expr(l.args[0], env), r.value)
        if isinstance(e, ast.Call):
            f = e.func
            if isinstance(f, ast.Name) and f.id == 'bool' and len(e.args) == 1 and not e.keywords:
                return '(TySet.truthy %s)' % self.set_expr(e.args[0], env)
            if isinstance(f, ast.Name) and f.id == 'issubclass' and len(e.args) == 2 and not e.keywords:
                return '(isSubclass %s %s)' % (self.ty_expr(e.args[0], env), self.ty_expr(e.args[1], env))
            if isinstance(f, ast.Attribute) and f.attr == 'is_included':
                if len(e.args) == 1 and not e.keywords: s = e.args[0]
                elif not e.args and len(e.keywords) == 1 and e.keywords[0].arg == 'set_': s = e.keywords[0].value
                else: self.err(e, 'is_included call shape')
                return '(TySet.mem %s %s)' % (self.ty_expr(f.value, env), self.set_expr(s, env))
            if isinstance(f, ast.Attribute) and f.attr == 'is_subtype' and len(e.args) == 1 and not e.keywords:
                return '(isSubclass %s %s)' % (self.ty_expr(f.value, env), self.ty_expr(e.args[0], env))
        self.err(e, 'unknown boolean expression')

    def and_chain(self, vals, env):
        if len(vals) == 1:
            return self.bool_expr(vals[0], env)
        h = vals[0]
        if self.is_opt(h, env):
            ln = env[h.id][1]
            env2 = dict(env); env2[h.id] = ('ty', ln)
            return '(match %s with | some %s => %s | none => false)' % (ln, ln, self.and_chain(vals[1:], env2))
        return '(%s && %s)' % (self.bool_expr(h, env), self.and_chain(vals[1:], env))

    # ---- statements
    def terminates(self, stmts):
        if not stmts: return False
        s = stmts[-1]
        if isinstance(s, (ast.Return, ast.Raise)): return True
        if isinstance(s, ast.If): return bool(s.orelse) and self.terminates(s.body) and self.terminates(s.orelse)
        return False

    def stmts(self, ss, env, ind):
        pad = '  ' * ind
        if not ss:
            if self.ret == 'unit': return pad + '(.ok ())'
            raise ShapeError('%s: control can fall off the end of the function' % self.fn.__name__)
        s, rest = ss[0], ss[1:]
        if isinstance(s, ast.Expr) and isinstance(s.value, ast.Constant) and isinstance(s.value.value, str):
            return self.stmts(rest, env, ind)
        if isinstance(s, ast.Assign) and len(s.targets) == 1 and isinstance(s.targets[0], ast.Name):
            x = s.targets[0].id
            if x in env and env[x][0] != 'set': self.err(s, 'assignment to a parameter')
            v = self.set_expr(s.value, env)
            env2 = dict(env); env2[x] = ('set', x)
            return '%slet %s : TySet := %s\n%s' % (pad, x, v, self.stmts(rest, env2, ind))
        if (isinstance(s, ast.Expr) and isinstance(s.value, ast.Call) and isinstance(s.value.func, ast.Attribute)
                and s.value.func.attr == 'discard' and isinstance(s.value.func.value, ast.Name)
                and env.get(s.value.func.value.id, ('', ''))[0] == 'set' and len(s.value.args) == 1):
            x = s.value.func.value.id
            return '%slet %s : TySet := TySet.discard %s %s\n%s' % (pad, x, x, self.ty_expr(s.value.args[0], env),
                                                                   self.stmts(rest, env, ind))
        if isinstance(s, ast.Return):
            if self.ret == 'ty':
                if s.value is None: self.err(s, 'bare return in a function returning a type')
                return '%s(.ok %s)' % (pad, self.ty_expr(s.value, env))
            if self.ret == 'bool':
                return '%s(.ok %s)' % (pad, self.bool_expr(s.value, env))
            if s.value is None: return pad + '(.ok ())'
            self.err(s, 'return with a value in a procedure')
        if isinstance(s, ast.Raise):
            return '%s(.error %s)' % (pad, self.code_term(self.exc_code(s)))
        if isinstance(s, ast.If):
            def body(env_b): return self.stmts(s.body + ([] if self.terminates(s.body) else rest), env_b, ind + 1)
            def orelse(env_e): return self.stmts(s.orelse + ([] if (s.orelse and self.terminates(s.orelse)) else rest), env_e, ind + 1)
            t = s.test
            # (a) `X is not None` / `X`  with X optional: narrow by match
            x = None
            if self.is_opt(t, env): x = t.id
            if (isinstance(t, ast.Compare) and len(t.ops) == 1 and isinstance(t.ops[0], ast.IsNot) and self.is_opt(t.left, env)
                    and isinstance(t.comparators[0], ast.Constant) and t.comparators[0].value is None): x = t.left.id
            if x is not None:
                ln = env[x][1]; env2 = dict(env); env2[x] = ('ty', ln)
                return '%s(match %s with\n%s| some %s =>\n%s\n%s| none =>\n%s)' % (pad, ln, pad, ln, body(env2), pad, orelse(env))
            # (b) `X and rest` with X optional
            if isinstance(t, ast.BoolOp) and isinstance(t.op, ast.And) and self.is_opt(t.values[0], env):
                x = t.values[0].id; ln = env[x][1]; env2 = dict(env); env2[x] = ('ty', ln)
                c = self.and_chain(t.values[1:], env2)
                return '%s(match %s with\n%s| some %s =>\n%s  (if %s then\n%s\n%s  else\n%s)\n%s| none =>\n%s)' % (
                    pad, ln, pad, ln, pad, c, body(env2), pad, orelse(env2), pad, orelse(env))
            # (c) `if len(S) == 1: return S.pop()`
            if (isinstance(t, ast.Compare) and len(t.ops) == 1 and isinstance(t.ops[0], ast.Eq)
                    and isinstance(t.left, ast.Call) and isinstance(t.left.func, ast.Name) and t.left.func.id == 'len'
                    and isinstance(t.comparators[0], ast.Constant) and t.comparators[0].value == 1
                    and len(s.body) == 1 and isinstance(s.body[0], ast.Return) and isinstance(s.body[0].value, ast.Call)
                    and isinstance(s.body[0].value.func, ast.Attribute) and s.body[0].value.func.attr == 'pop'
                    and not s.body[0].value.args
                    and ast.dump(s.body[0].value.func.value) == ast.dump(t.left.args[0]) and self.ret == 'ty'):
                sv = self.set_expr(t.left.args[0], env)
                return '%s(match %s with\n%s| [the_only] => (.ok the_only)\n%s| _ =>\n%s)' % (pad, sv, pad, pad, orelse(env))
            return '%s(if %s then\n%s\n%selse\n%s)' % (pad, self.bool_expr(t, env), body(env), pad, orelse(env))
        self.err(s, 'unknown statement')

    @staticmethod
    def code_term(code):
        """'1-1-1-2' -> `[1, 1, 1, 2]` (error codes are lists of naturals in the model: fast kernel comparison)."""
        if not re.fullmatch(r'\d+(-\d+)*', code):
            raise ShapeError('error code %r is not dash-separated numbers' % code)
        return '[' + ', '.join(str(int(x)) for x in code.split('-')) + ']'

    def exc_code(self, s):
        c = s.exc
        if not (isinstance(c, ast.Call) and isinstance(c.func, ast.Name) and c.func.id in self.EXC):
            self.err(s, 'raise of something that is not a VTL exception constructor')
        for kw in c.keywords:
            if kw.arg == 'code' and isinstance(kw.value, ast.Constant): return kw.value.value
        if c.args and isinstance(c.args[0], ast.Constant) and isinstance(c.args[0].value, str): return c.args[0].value
        self.err(s, 'exception code is not a literal')

    def translate(self, lean_name, kinds):
        """kinds: ordered {python parameter name: 'ty' | 'opt'}; defaults of 'opt' parameters must be None."""
        a = self.node.args
        if a.vararg or a.kwarg or a.kwonlyargs or a.posonlyargs:
            raise ShapeError('%s: signature shape' % self.fn.__name__)
        names = [x.arg for x in a.args]
        if names and names[0] == 'cls': names = names[1:]
        if names != list(kinds):
            raise ShapeError('%s: parameters are %r, expected %r' % (self.fn.__name__, names, list(kinds)))
        sig = inspect.signature(self.fn)
        for n, k in kinds.items():
            d = sig.parameters[n].default
            if k == 'opt' and d is not None: raise ShapeError('%s: default of %s is not None' % (self.fn.__name__, n))
            if k == 'ty' and d is not inspect.Parameter.empty: raise ShapeError('%s: %s has a default' % (self.fn.__name__, n))
        env = {n: (k, n) for n, k in kinds.items()}
        R = {'ty': 'Ty', 'bool': 'Bool', 'unit': 'Unit'}[self.ret]
        params = ' '.join('(%s : %s)' % (n, 'Ty' if k == 'ty' else 'Option Ty') for n, k in kinds.items())
        body = self.stmts(self.node.body, env, 1)
        doc = '/-- transcribed from `%s` (%s) -/' % (self.fn.__qualname__, os.path.relpath(inspect.getsourcefile(self.fn), vlib.REPO))
        return '%s\ndef %s %s : PyRes %s :=\n%s\n' % (doc, lean_name, params, R, body)


def gen_promotion_fns(L: Live) -> str:
    DT = L.DT
    out = ['import VtlModel.Gen.Promotion', 'set_option linter.unusedVariables false', 'namespace VtlModel.Gen.PromotionFns', 'open VtlModel VtlModel.Gen.Promotion', '']
    bk = {'left_type': 'ty', 'right_type': 'ty', 'type_to_check': 'opt', 'return_type': 'opt'}
    out.append(FnTr(L, DT.binary_implicit_promotion, 'ty').translate('binaryPromotion', bk))
    ck = {'left': 'ty', 'right': 'ty', 'type_to_check': 'opt', 'return_type': 'opt'}
    out.append(FnTr(L, DT.check_binary_implicit_promotion, 'bool').translate('checkBinary', ck))
    uk = {'operand_type': 'ty', 'type_to_check': 'opt', 'return_type': 'opt'}
    out.append(FnTr(L, DT.unary_implicit_promotion, 'ty').translate('unaryPromotion', uk))
    out.append(FnTr(L, DT.check_unary_implicit_promotion, 'bool').translate('checkUnary', uk))
    out.append('end VtlModel.Gen.PromotionFns')
    return '\n'.join(out) + '\n'


# ------------------------------------------------------------------------------------------------ operator classes
def all_operator_classes(L: Live):
    seen = []
    def walk(c):
        for s in c.__subclasses__():
            if s not in seen:
                seen.append(s); walk(s)
    walk(L.OPS.Operator)
    return sorted(seen, key=lambda c: (c.__module__, c.__qualname__))


def class_kind(L, c):
    return 2 if issubclass(c, L.OPS.Binary) else 1 if issubclass(c, L.OPS.Unary) else 0


def class_rows(L: Live):
    rows = []
    for c in all_operator_classes(L):
        for attr in ('type_to_check', 'return_type'):
            v = getattr(c, attr)
            if v is not None and v not in L.name_of:
                raise ShapeError('%s.%s is neither None nor a scalar type: %r' % (c.__qualname__, attr, v))
        tv = [k for k in c.__mro__ if 'type_validation' in k.__dict__][0]
        vc = [k for k in c.__mro__ if 'validate_type_compatibility' in k.__dict__][0]
        generic = tv in (L.OPS.Operator, L.OPS.Binary, L.OPS.Unary) and vc in (L.OPS.Operator, L.OPS.Binary, L.OPS.Unary)
        rows.append({'cls': c, 'module': c.__module__.split('.')[-1], 'name': c.__qualname__, 'op': c.op,
                     'kind': class_kind(L, c), 'ttc': c.type_to_check, 'rt': c.return_type, 'generic_tv': generic})
    return rows


def scan_direct_sites(L: Live):
    """Every call of one of the four promotion functions in src/vtlengine (outside their own definitions):
    (file, enclosing class or '', enclosing function, line, fn index, ttc spec, rt spec);
    spec = ('none',) | ('cls',) | ('lit', TypeName) | ('dyn', source)."""
    root = os.path.join(vlib.REPO, 'src', 'vtlengine')
    sites = []
    for dp, _, fs in sorted(os.walk(root)):
        for f in sorted(fs):
            if not f.endswith('.py'): continue
            p = os.path.join(dp, f)
            rel = os.path.relpath(p, root)
            try:
                tree = ast.parse(open(p, encoding='utf-8').read())
            except SyntaxError as e:
                raise ShapeError('cannot parse %s: %s' % (rel, e))

            def spec(e, which):
                if e is None: return ('none',)
                if isinstance(e, ast.Constant) and e.value is None: return ('none',)
                if isinstance(e, ast.Attribute) and isinstance(e.value, ast.Name) and e.value.id == 'cls' and e.attr == which:
                    return ('cls',)
                if isinstance(e, ast.Name):
                    cl = getattr(L.DT, e.id, None)
                    if cl in L.name_of: return ('lit', L.name_of[cl])
                return ('dyn', ast.unparse(e))

            def visit(node, cls, fn):
                for ch in ast.iter_child_nodes(node):
                    if isinstance(ch, ast.ClassDef): visit(ch, ch.name, fn)
                    elif isinstance(ch, (ast.FunctionDef, ast.AsyncFunctionDef)): visit(ch, cls, ch.name)
                    else:
                        if isinstance(ch, ast.Call):
                            nm = ch.func.id if isinstance(ch.func, ast.Name) else ch.func.attr if isinstance(ch.func, ast.Attribute) else None
                            if nm in PROMO_FNS and not (rel == os.path.join('DataTypes', '__init__.py')):
                                i = PROMO_FNS.index(nm)
                                npos = 2 if i < 2 else 1
                                kw = {k.arg: k.value for k in ch.keywords}
                                if any(isinstance(a, ast.Starred) for a in ch.args) or None in kw:
                                    raise ShapeError('%s:%d: starred call of %s' % (rel, ch.lineno, nm))
                                args = list(ch.args)
                                ttc = args[npos] if len(args) > npos else kw.get('type_to_check')
                                rt = args[npos + 1] if len(args) > npos + 1 else kw.get('return_type')
                                sites.append({'file': rel, 'cls': cls or '', 'fn': fn or '', 'line': ch.lineno, 'which': i,
                                              'ttc': spec(ttc, 'type_to_check'), 'rt': spec(rt, 'return_type')})
                        visit(ch, cls, fn)
            visit(tree, None, None)
    return sites


def resolved_sites(L: Live, sites, rows):
    """Direct sites resolved per operator class that inherits the enclosing function (cls.* looked up on the class).
    Generic Operator/Binary/Unary methods are skipped (they are the class rows themselves)."""
    out = []
    by_name = {}
    for r in rows: by_name.setdefault(r['name'], []).append(r)
    for s in sites:
        if s['file'] == os.path.join('Operators', '__init__.py'): continue
        owners = [r for r in rows if r['name'] == s['cls'] and r['cls'].__module__.endswith(s['file'][:-3].replace(os.sep, '.'))]
        targets = []
        if owners:
            k = owners[0]['cls']
            for r in rows:
                c = r['cls']
                if issubclass(c, k):
                    d = [m for m in c.__mro__ if s['fn'] in m.__dict__]
                    if d and d[0] is k: targets.append(r)
        else:
            targets = [None]
        for r in targets:
            def res(sp, attr):
                if sp[0] == 'none': return ('some', None)
                if sp[0] == 'lit': return ('some', L.cls_of[sp[1]])
                if sp[0] == 'cls' and r is not None: return ('some', getattr(r['cls'], attr))
                return ('dyn', None)
            out.append({'site': s, 'cls': r['name'] if r else '', 'module': r['module'] if r else s['file'],
                        'ttc': res(s['ttc'], 'type_to_check'), 'rt': res(s['rt'], 'return_type')})
    return out


def cls_ident(r):
    """Lean constructor name of an operator class: <module>_<QualName> (identifier characters only)."""
    return re.sub(r'[^A-Za-z0-9_]', '_', '%s_%s' % (r['module'], r['name']))


def gen_operators(L: Live):
    rows = class_rows(L)
    sites = scan_direct_sites(L)
    rs = resolved_sites(L, sites, rows)
    ids = [cls_ident(r) for r in rows]
    if len(set(ids)) != len(ids):
        raise ShapeError('two operator classes map to one identifier')
    ops = sorted({'' if r['op'] is None else str(r['op']) for r in rows})
    out = ['import VtlModel.Types.Ty', 'namespace VtlModel.Gen.Operators', 'open VtlModel', '',
           '/-- every subclass of `vtlengine.Operators.Operator`, named <module>_<QualName> -/',
           'inductive Cls where']
    for i in range(0, len(ids), 6):
        out.append('  ' + ' '.join('| ' + x for x in ids[i:i + 6]))
    out += ['  deriving DecidableEq, Repr', '',
            '/-- the distinct `op` attributes (tokens); classes refer to them by index (`opIx`) -/',
            'def ops : List String := %s' % vlib.lean_list(ops, vlib.lean_str), '',
            '/-- one operator class: kind 2 = Binary, 1 = Unary, 0 = other;',
            '    `ttc`/`rt` = `type_to_check`/`return_type` resolved through the MRO -/',
            'structure OpClass where', '  id : Cls', '  module : String', '  name : String', '  opIx : Nat', '  kind : Nat',
            '  ttc : Option Ty', '  rt : Option Ty', '  deriving Repr', '',
            'def classes : List OpClass := [']
    lines = []
    for r, i in zip(rows, ids):
        lines.append('  ⟨.%s, %s, %s, %d, %d, %s, %s⟩' % (i, vlib.lean_str(r['module']), vlib.lean_str(r['name']),
                     ops.index('' if r['op'] is None else str(r['op'])), r['kind'], L.opt(r['ttc']), L.opt(r['rt'])))
    out.append(',\n'.join(lines) + ']\n')
    out += ['/-- a direct call of a promotion function inside an operator method, resolved for one class that inherits',
            '    the method (`cls = none`: the call is not inside an operator class);',
            '    `fn` 0 = binary_implicit_promotion, 1 = check_binary…, 2 = unary_implicit_promotion, 3 = check_unary…;',
            '    `ttc`/`rt` = `none` when the argument is not a constant of the class (the theorems then quantify over it) -/',
            'structure Site where', '  cls : Option Cls', '  func : String', '  fn : Nat', '  ttc : Option (Option Ty)',
            '  rt : Option (Option Ty)', '  deriving Repr', '', 'def sites : List Site := [']
    lines = []
    idof = {(r['module'], r['name']): i for r, i in zip(rows, ids)}
    for x in rs:
        def o(v): return 'none' if v[0] == 'dyn' else '(some %s)' % L.opt(v[1])
        c = '(some .%s)' % idof[(x['module'], x['cls'])] if x['cls'] else 'none'
        lines.append('  ⟨%s, %s, %d, %s, %s⟩' % (c, vlib.lean_str(x['site']['cls'] + '.' + x['site']['fn']),
                                                 x['site']['which'], o(x['ttc']), o(x['rt'])))
    out.append(',\n'.join(lines) + ']\n')
    mono = list(L.OPS.MONOMEASURE_CHANGED_ALLOWED)
    out.append('def monomeasureChangedAllowed : List String := %s' % vlib.lean_list([str(m) for m in mono], vlib.lean_str))
    out.append('\nend VtlModel.Gen.Operators')
    return '\n'.join(out) + '\n', rows, sites, rs


# ------------------------------------------------------------------------------------------------ cast (code side)
def gen_cast_code(L: Live) -> str:
    from vtlengine.Operators.CastOperator import Cast
    out = ['import VtlModel.Gen.Promotion', 'namespace VtlModel.Gen.CastCode', 'open VtlModel VtlModel.Gen.Promotion', '']
    f = Cast.__dict__['check_without_mask'].__func__
    out.append(FnTr(L, f, 'unit').translate('checkWithoutMask', {'from_type': 'ty', 'to_type': 'ty'}))
    # the rename branch of Cast.dataset_validation:  if <test>: measure_name = A  else: measure_name = B
    g = Cast.__dict__['dataset_validation'].__func__
    tr = FnTr(L, g, 'unit')
    cands = [n for n in ast.walk(tr.node) if isinstance(n, ast.If) and len(n.body) == 1 and len(n.orelse) == 1
             and all(isinstance(b, ast.Assign) and len(b.targets) == 1 and isinstance(b.targets[0], ast.Name)
                     and b.targets[0].id == 'measure_name' for b in (n.body[0], n.orelse[0]))]
    if len(cands) != 1:
        raise ShapeError('Cast.dataset_validation: expected exactly one if/else assigning measure_name, found %d' % len(cands))
    n = cands[0]
    env = {'from_type': ('ty', 'from_type'), 'to_type': ('ty', 'to_type')}

    def name_expr(e):
        if (isinstance(e, ast.Subscript) and isinstance(e.value, ast.Name) and e.value.id == 'COMP_NAME_MAPPING'
                and g.__globals__.get('COMP_NAME_MAPPING') is L.DT.COMP_NAME_MAPPING):
            return '(some (compName %s))' % tr.ty_expr(e.slice, env)
        if isinstance(e, ast.Attribute) and isinstance(e.value, ast.Name) and e.value.id == 'measure' and e.attr == 'name':
            return 'none'
        tr.err(e, 'unknown measure-name expression')
    # from_type must be the measure's type and the new component must get to_type
    srcg = tr.src
    if 'from_type = measure.data_type' not in srcg or 'data_type=to_type' not in srcg:
        raise ShapeError('Cast.dataset_validation: from_type / to_type plumbing changed')
    out += ['/-- transcribed from the `measure_name` branch of `Cast.dataset_validation`:',
            '    `some n` = the measure is renamed to `n`, `none` = it keeps its name -/',
            'def renameTo (from_type to_type : Ty) : Option String :=',
            '  if %s then %s else %s' % (tr.bool_expr(n.test, env), name_expr(n.body[0].value), name_expr(n.orelse[0].value)), '']
    # which branch of cast_scalar / cast_component is "implicit": not needed for the tables
    out.append('end VtlModel.Gen.CastCode')
    return '\n'.join(out) + '\n'


if __name__ == '__main__':
    L = Live()
    print(gen_promotion(L)); print(gen_promotion_fns(L)); print(gen_operators(L)[0][:3000]); print(gen_cast_code(L))

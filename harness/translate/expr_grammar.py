"""Translator: alternatives of the left-recursive rules `expr` and `exprComponent` of Vtl.g4
-> lean/VtlModel/Gen/ExprGrammar.lean.

Transcribes, never interprets: for each alternative, in grammar order, its `#label` and its flattened
symbol list (labels `x=` dropped, groups `(A|B)` flattened to their members in order, `?`/`*`/`+`
suffixes dropped).  A rule reference whose own alternatives are all single tokens (e.g.
`comparisonOperand`) is expanded to those tokens.  ShapeError when the rule has a shape this
translator does not know (e.g. an `<assoc=right>` option, which would change associativity).
"""
import os
import re
import sys

sys.path.insert(0, os.path.join(os.path.dirname(os.path.abspath(__file__)), '..'))
import vlib


def _strip_comments(src):
    src = re.sub(r'/\*.*?\*/', ' ', src, flags=re.S)
    return re.sub(r'//[^\n]*', ' ', src)


def _rule_body(src, name):
    m = re.search(r'(?m)^\s*' + re.escape(name) + r'\s*:(.*?)\n\s*;', src, re.S)
    if not m:
        raise vlib.ShapeError('rule %s not found in Vtl.g4' % name)
    return m.group(1)


def _split_alts(body):
    alts, depth, cur = [], 0, ''
    for ch in body:
        if ch == '(':
            depth += 1
        elif ch == ')':
            depth -= 1
        if ch == '|' and depth == 0:
            alts.append(cur); cur = ''
        else:
            cur += ch
    alts.append(cur)
    return alts


def _single_token_rule(src, name):
    try:
        body = _rule_body(src, name)
    except vlib.ShapeError:
        return None
    alts = [a.strip() for a in _split_alts(body)]
    alts = [re.sub(r'#\s*\w+', '', a).strip() for a in alts]
    if all(re.fullmatch(r'[A-Z_][A-Z_0-9]*', a) for a in alts):
        return alts
    return None


def read_rule(src, name):
    body = _rule_body(src, name)
    if '<' in re.sub(r'\bLT\b|\bMT\b', '', body) and 'assoc' in body:
        raise vlib.ShapeError('%s: <assoc=...> option present; associativity is no longer the default' % name)
    out = []
    for alt in _split_alts(body):
        m = re.search(r'#\s*(\w+)', alt)
        if not m:
            raise vlib.ShapeError('%s: alternative without #label: %r' % (name, alt.strip()[:60]))
        label = m.group(1)
        text = alt[:m.start()]
        text = re.sub(r'\w+\s*\+?=\s*', '', text)          # element labels  x=  x+=
        syms = re.findall(r'[A-Za-z_][A-Za-z_0-9]*', text)
        flat = []
        for s in syms:
            if s[0].islower() and s != name:
                exp = _single_token_rule(src, s)
                if exp is not None:
                    flat.extend(exp); continue
            flat.append(s)
        out.append((label, flat))
    return out


def generate(repo):
    path = os.path.join(repo, 'src/vtlengine/AST/Grammar/Vtl.g4')
    src = _strip_comments(open(path).read())
    rules = {}
    for name in ('expr', 'exprComponent'):
        rules[name] = read_rule(src, name)
        if not rules[name] or rules[name][0][1][:1] != ['LPAREN']:
            raise vlib.ShapeError('%s: first alternative is not the parenthesised expression' % name)

    def lean_alts(alts):
        return '[\n' + ',\n'.join('    (%s, %s)' % (vlib.lean_str(l), vlib.lean_list(f, vlib.lean_str)) for l, f in alts) + ']'
    txt = 'namespace VtlModel.Gen.ExprGrammar\n\n'
    txt += '/-- alternatives of `expr` in grammar order: (label, flattened symbols) -/\n'
    txt += 'def exprAlts : List (String × List String) := ' + lean_alts(rules['expr']) + '\n\n'
    txt += '/-- alternatives of `exprComponent` in grammar order -/\n'
    txt += 'def exprCompAlts : List (String × List String) := ' + lean_alts(rules['exprComponent']) + '\n\n'
    txt += 'end VtlModel.Gen.ExprGrammar\n'
    return txt, rules


if __name__ == '__main__':
    print(generate(vlib.REPO)[0])

"""C23 translator: `bindings.cpp` (+ `create_ast`)  ->  Gen/ParserState.lean.

Reads the C++ TEXT of src/vtlengine/AST/Grammar/_cpp_parser/bindings.cpp (comments stripped, small hand
tokenizer / regexes; it transcribes, never interprets):

  * the data members of `struct ParserState` (nested struct definitions skipped);
  * every file-scope `static` variable (so that a new mutable global shows up in the proof);
  * inside `do_parse`, the ORDERED list of statements, each of which must have one of the known shapes
        init_type_map();                                   -> .other
        g_state.X = text;                                  -> .assignText
        g_state.X.clear();  /  g_state.X.reset();          -> .clear / .reset
        g_state.X = std::make_unique<C>(text | g_state.Y.get(), ...);   -> .make
        g_state.X->m(...)[->m2(...)];                      -> .call X "m.m2" none
        auto* v = g_state.X->m(...);                       -> .call X "m" (some "%v")
        for (... : g_state.Y->m()) { ... g_state.X.push_back(...) ... }  -> .push X [Y]
        return py::cast(LazyParseNode(v));                 -> .ret "%v"
  * `CollectingErrorListener`: no data members; in `syntaxError` the first-error guard
    `if (g_state.E.has_value()) return;`, the single write `g_state.E = ...`, every other `g_state.F`
    it reads directly or through a file-scope function it calls, and the two column offsets
    (`charPositionInLine) + 1`, `column_1based - 1`);
  * `TAB_WIDTH`; the idempotence guard of `init_type_map`;
  * from src/vtlengine/API/__init__.py (Python `ast`): the `column=` expression of the
    `VTLSyntaxError(...)` raised by `create_ast`, which must be `error["column"] + <int>`, and that
    `create_ast` parses `text + "\\n"`.

Anything else raises vlib.ShapeError.  `srcline_cpp(repo)` returns the verbatim C++ text of
`TAB_WIDTH` + `extract_source_line_expanded` for the correspondence run.
"""
from __future__ import annotations

import ast
import os
import re
import sys

sys.path.insert(0, os.path.join(os.path.dirname(os.path.abspath(__file__)), '..'))
import vlib  # noqa: E402

SE = vlib.ShapeError
BINDINGS = 'src/vtlengine/AST/Grammar/_cpp_parser/bindings.cpp'
API = 'src/vtlengine/API/__init__.py'


def strip_cpp_comments(src: str) -> str:
    """remove // and /* */ comments, keep string and char literals and line structure"""
    out, i, n = [], 0, len(src)
    while i < n:
        c = src[i]
        if src.startswith('//', i):
            j = src.find('\n', i)
            i = n if j < 0 else j
        elif src.startswith('/*', i):
            j = src.find('*/', i + 2)
            if j < 0:
                raise SE('unterminated comment')
            out.append('\n' * src.count('\n', i, j))
            i = j + 2
        elif c in '"\'':
            j = i + 1
            while j < n and src[j] != c:
                j += 2 if src[j] == '\\' else 1
            out.append(src[i:j + 1])
            i = j + 1
        else:
            out.append(c)
            i += 1
    return ''.join(out)


def match_brace(src: str, i: int, open_='{', close='}') -> int:
    """index of the brace matching src[i] (string/char literals skipped)"""
    if src[i] != open_:
        raise SE('expected %s' % open_)
    depth, n = 0, len(src)
    while i < n:
        c = src[i]
        if c in '"\'':
            j = i + 1
            while j < n and src[j] != c:
                j += 2 if src[j] == '\\' else 1
            i = j + 1
            continue
        if c == open_:
            depth += 1
        elif c == close:
            depth -= 1
            if depth == 0:
                return i
        i += 1
    raise SE('unbalanced %s' % open_)


def body_after(src: str, header_rx: str, what: str):
    ms = list(re.finditer(header_rx, src))
    if len(ms) != 1:
        raise SE('%s: expected exactly one match, got %d' % (what, len(ms)))
    i = src.find('{', ms[0].end() - 1)
    if i < 0:
        raise SE('%s: no body' % what)
    j = match_brace(src, i)
    return src[i + 1:j], ms[0].start(), j + 1


def split_statements(body: str):
    """top-level statements of a block: `...;` or `head {...}` (for / if with braces)"""
    out, i, n = [], 0, len(body)
    cur = []
    depth = 0
    while i < n:
        c = body[i]
        if c in '"\'':
            j = i + 1
            while j < n and body[j] != c:
                j += 2 if body[j] == '\\' else 1
            cur.append(body[i:j + 1]); i = j + 1; continue
        if c in '([':
            depth += 1
        elif c in ')]':
            depth -= 1
        if c == '{' and depth == 0:
            head = ''.join(cur).strip()
            j = match_brace(body, i)
            if re.match(r'(for|if|while)\b', head):
                out.append(('block', head, body[i + 1:j]))
                cur = []
                i = j + 1
                continue
            cur.append(body[i:j + 1]); i = j + 1; continue      # brace initialiser inside a statement
        if c == ';' and depth == 0:
            s = ' '.join(''.join(cur).split())
            if s:
                out.append(('stmt', s, None))
            cur = []
            i += 1
            continue
        cur.append(c)
        i += 1
    if ''.join(cur).strip():
        raise SE('trailing text in block: %r' % ''.join(cur).strip()[:60])
    return out


def split_args(s: str):
    args, depth, cur = [], 0, []
    for c in s:
        if c in '(<[{':
            depth += 1
        elif c in ')>]}':
            depth -= 1
        if c == ',' and depth == 0:
            args.append(''.join(cur).strip()); cur = []
        else:
            cur.append(c)
    if ''.join(cur).strip():
        args.append(''.join(cur).strip())
    return args


def read_struct_fields(src: str):
    body, _, _ = body_after(src, r'\bstruct\s+ParserState\s*\{', 'struct ParserState')
    # drop nested struct definitions
    flat, i = [], 0
    while i < len(body):
        m = re.compile(r'\bstruct\s+\w+\s*\{').search(body, i)
        if not m:
            flat.append(body[i:]); break
        flat.append(body[i:m.start()])
        j = match_brace(body, m.end() - 1)
        k = body.find(';', j)
        if body[j + 1:k].strip():
            raise SE('struct ParserState: nested struct declares a member inline')
        i = k + 1
    fields = []
    for kind, s, _ in split_statements(''.join(flat)):
        if kind != 'stmt':
            raise SE('struct ParserState: unexpected block')
        if '(' in s:
            raise SE('struct ParserState: member function or initialiser: %r' % s)
        m = re.fullmatch(r'(.+?[\s>&*])(\w+)', s)
        if not m:
            raise SE('struct ParserState: cannot read member %r' % s)
        if re.search(r'\bstatic\b', m.group(1)):
            raise SE('struct ParserState: static member %r' % s)
        fields.append(m.group(2))
    if not fields:
        raise SE('struct ParserState: no members')
    return fields


def read_file_statics(src: str):
    """names of file-scope `static` variables (functions and constexpr constants excluded)"""
    names = []
    depth = 0
    for line in src.split('\n'):
        if depth == 0:
            m = re.match(r'static\s+(?!constexpr\b)(?!const\b)([^;({=]*?[\s>&*])(\w+)\s*(=[^;]*)?;', line)
            if m:
                names.append(m.group(2))
        depth += line.count('{') - line.count('}')
    return names


def read_do_parse(src: str, fields):
    body, _, _ = body_after(src, r'\bstatic\s+py::object\s+do_parse\s*\(\s*const\s+std::string\s*&\s*(\w+)\s*\)\s*\{', 'do_parse')
    param = re.search(r'do_parse\s*\(\s*const\s+std::string\s*&\s*(\w+)', src).group(1)
    steps = []
    locals_ = set()
    for kind, s, blk in split_statements(body):
        if kind == 'block':
            m = re.fullmatch(r'for \(\s*auto\s*\*\s*(\w+)\s*:\s*g_state\.(\w+)->(\w+)\(\)\s*\)', ' '.join(s.split()))
            if not m:
                raise SE('do_parse: unknown block head %r' % s)
            src_field = m.group(2)
            ment = re.findall(r'g_state\.(\w+)((?:\.|->)\w+)?', blk)
            if not ment or any(suffix != '.push_back' for _, suffix in ment) or len({f for f, _ in ment}) != 1:
                raise SE('do_parse: loop body touches g_state other than by one push_back: %r' % ment)
            if re.search(r'\b(return|break|goto|throw)\b', blk):
                raise SE('do_parse: loop body leaves the loop early')
            steps.append(('push', ment[0][0], [src_field]))
            continue
        if 'g_state' not in s:
            m = re.fullmatch(r'(\w+)\(\)', s)
            if m:
                steps.append(('other', m.group(1))); continue
            m = re.fullmatch(r'return py::cast\(LazyParseNode\((\w+)\)\)', s)
            if m and m.group(1) in locals_:
                steps.append(('ret', '%' + m.group(1))); continue
            raise SE('do_parse: unknown statement %r' % s)
        m = re.fullmatch(r'g_state\.(\w+) = (\w+)', s)
        if m and m.group(2) == param:
            steps.append(('assignText', m.group(1))); continue
        m = re.fullmatch(r'g_state\.(\w+)\.(clear|reset)\(\)', s)
        if m:
            steps.append((m.group(2), m.group(1))); continue
        m = re.fullmatch(r'g_state\.(\w+) = std::make_unique<([\w:]+)>\((.*)\)', s)
        if m:
            uses_text, deps = False, []
            for a in split_args(m.group(3)):
                if a == param:
                    uses_text = True
                else:
                    mm = re.fullmatch(r'g_state\.(\w+)\.get\(\)', a)
                    if not mm:
                        raise SE('do_parse: make_unique argument %r' % a)
                    deps.append(mm.group(1))
            steps.append(('make', m.group(1), m.group(2), uses_text, deps)); continue
        m = re.fullmatch(r'(?:auto\s*\*\s*(\w+) = )?g_state\.(\w+)((?:\s*->\s*[\w:]+(?:<[^()]*>)?\([^()]*\))+)', s)
        if m:
            if 'g_state' in m.group(3):
                raise SE('do_parse: call argument mentions g_state: %r' % s)
            meths = re.findall(r'->\s*([\w:]+)', m.group(3))
            into = None
            if m.group(1):
                locals_.add(m.group(1)); into = '%' + m.group(1)
            steps.append(('call', m.group(2), '.'.join(meths), into, re.findall(r'\(([^()]*)\)', m.group(3))[-1].strip()))
            continue
        raise SE('do_parse: unknown statement touching g_state: %r' % s)
    for st in steps:
        for f in ([st[1]] if st[0] in ('assignText', 'clear', 'reset', 'make', 'call', 'push') else []) + (st[4] if st[0] == 'make' else []) + (st[2] if st[0] == 'push' else []):
            if f not in fields:
                raise SE('do_parse: g_state.%s is not a member of ParserState' % f)
    if not steps or steps[-1][0] != 'ret':
        raise SE('do_parse: does not end in `return py::cast(LazyParseNode(tree))`')
    return steps, param


def read_listener(src: str, fields):
    body, _, _ = body_after(src, r'\bclass\s+CollectingErrorListener\s*:\s*public\s+antlr4::BaseErrorListener\s*\{', 'class CollectingErrorListener')
    mb, ms, me = body_after(body, r'\bvoid\s+syntaxError\s*\(', 'syntaxError')
    # the class body may contain only `public:` and this method
    hdr = body[:ms]
    k = body.find('{', ms)
    sig = body[ms:k]
    rest = (hdr + body[me:]).replace('public:', '').strip()
    if rest:
        raise SE('CollectingErrorListener has members other than syntaxError: %r' % rest[:80])
    if not re.search(r'size_t\s+line\s*,\s*size_t\s+charPositionInLine', ' '.join(sig.split())):
        raise SE('syntaxError: parameter list changed')
    stmts = split_statements(mb)
    guarded, guard_slot = False, None
    if stmts and stmts[0][0] == 'stmt':
        m = re.fullmatch(r'if \(g_state\.(\w+)\.has_value\(\)\) return', stmts[0][1])
        if m:
            guarded, guard_slot = True, m.group(1)
    writes = re.findall(r'g_state\.(\w+)\s*=(?!=)', mb)
    if len(writes) != 1:
        raise SE('syntaxError: expected exactly one assignment to g_state, got %r' % writes)
    err_slot = writes[0]
    if guarded and guard_slot != err_slot:
        raise SE('syntaxError: guard tests %s but the write goes to %s' % (guard_slot, err_slot))
    other_mut = re.findall(r'g_state\.(\w+)(?:\.|->)(clear|reset|push_back|emplace|emplace_back|swap|erase|insert|append|assign)\b', mb)
    if other_mut:
        raise SE('syntaxError: mutates g_state through %r' % other_mut)
    # reads: direct mentions and mentions inside file-scope static functions it calls
    reads = [f for f in re.findall(r'g_state\.(\w+)', mb) if f != err_slot]
    for fn in set(re.findall(r'\b(\w+)\s*\(', mb)):
        mm = list(re.finditer(r'\bstatic\s+[\w:<>&\s*]+?\b%s\s*\([^)]*\)\s*\{' % re.escape(fn), src))
        if len(mm) == 1:
            fb = src[mm[0].end() - 1: match_brace(src, mm[0].end() - 1) + 1]
            if re.search(r'g_state\.(\w+)\s*=(?!=)|g_state\.\w+(?:\.|->)(clear|reset|push_back)\b', fb):
                raise SE('syntaxError calls %s which writes g_state' % fn)
            reads += re.findall(r'g_state\.(\w+)', fb)
    reads = [r for i, r in enumerate(reads) if r not in reads[:i]]
    for f in [err_slot] + reads:
        if f not in fields:
            raise SE('syntaxError: g_state.%s is not a member of ParserState' % f)
    flat = ' '.join(mb.split())
    m = re.search(r'int column_1based = static_cast<int>\(charPositionInLine\) ([+-]) (\d+);', flat)
    if not m:
        raise SE('syntaxError: column_1based computation changed')
    col_in = int(m.group(1) + m.group(2))
    m = re.search(r'extract_source_line_expanded\(\s*static_cast<int>\(line\)\s*,\s*column_1based\s*\)', flat)
    if not m:
        raise SE('syntaxError: call of extract_source_line_expanded changed')
    m = re.search(r'g_state\.%s = ParserState::SyntaxErrorInfo\s*\{\s*static_cast<int>\(line\)\s*,\s*column_1based(?: ([+-]) (\d+))?\s*,\s*msg\s*,\s*text\s*,\s*src_line\s*,\s*underline_length\s*\}' % err_slot, flat)
    if not m:
        raise SE('syntaxError: SyntaxErrorInfo initialiser changed')
    col_out = int(m.group(1) + m.group(2)) if m.group(1) else 0
    return {'guarded': guarded, 'errSlot': err_slot, 'reads': reads, 'colIn': col_in, 'colOut': col_out}


def read_tab_width(src: str) -> int:
    ms = re.findall(r'static\s+constexpr\s+int\s+TAB_WIDTH\s*=\s*(\d+)\s*;', src)
    if len(ms) != 1:
        raise SE('TAB_WIDTH: expected one definition')
    return int(ms[0])


def read_init_type_map_guard(src: str) -> bool:
    body, _, _ = body_after(src, r'\bstatic\s+void\s+init_type_map\s*\(\s*\)\s*\{', 'init_type_map')
    st = split_statements(body)
    return bool(st) and st[0][0] == 'stmt' and st[0][1] == 'if (!g_type_map.empty()) return'


def read_getters(src: str, fields):
    """which g_state members the three Python-visible getters read"""
    out = {}
    for fn in ('get_input_text', 'get_syntax_error', 'get_comments'):
        body, _, _ = body_after(src, r'\bstatic\s+[\w:]+\s+%s\s*\(\s*\)\s*\{' % fn, fn)
        if re.search(r'g_state\.\w+\s*=(?!=)|g_state\.\w+(?:\.|->)(clear|reset|push_back)\b', body):
            raise SE('%s writes g_state' % fn)
        fs = re.findall(r'g_state\.(\w+)', body)
        out[fn] = [f for i, f in enumerate(fs) if f not in fs[:i]]
    return out


def srcline_cpp(repo: str) -> str:
    """C++ text (comments stripped, otherwise verbatim) from `static constexpr int TAB_WIDTH` to the end of
    extract_source_line_expanded"""
    raw = strip_cpp_comments(open(os.path.join(repo, BINDINGS), encoding='utf-8').read())
    a = raw.find('static constexpr int TAB_WIDTH')
    m = re.search(r'static\s+std::string\s+extract_source_line_expanded\s*\(\s*int\s+line_1based\s*,\s*int\s*&\s*column_in_out\s*\)\s*\{', raw)
    if a < 0 or not m or m.start() < a:
        raise SE('extract_source_line_expanded: signature / TAB_WIDTH not found')
    if raw[a:m.start()].count(';') != 1:
        raise SE('extract_source_line_expanded: unexpected declarations between TAB_WIDTH and the function')
    j = match_brace(raw, m.end() - 1)
    seg = raw[a:j + 1]
    if 'g_state.input_text' not in seg or len(re.findall(r'g_state\.', seg)) != 1:
        raise SE('extract_source_line_expanded: reads g_state other than input_text')
    return seg


def read_create_ast(repo: str):
    tree = ast.parse(open(os.path.join(repo, API), encoding='utf-8').read())
    fn = [n for n in tree.body if isinstance(n, ast.FunctionDef) and n.name == 'create_ast']
    if len(fn) != 1:
        raise SE('create_ast not found')
    fn = fn[0]
    raises = [n for n in ast.walk(fn) if isinstance(n, ast.Raise) and isinstance(n.exc, ast.Call)
              and isinstance(n.exc.func, ast.Name) and n.exc.func.id == 'VTLSyntaxError']
    if len(raises) != 1:
        raise SE('create_ast: expected one `raise VTLSyntaxError(...)`')
    kw = {k.arg: k.value for k in raises[0].exc.keywords}
    if set(kw) != {'line', 'column', 'detail', 'source_line', 'underline_length'} or raises[0].exc.args:
        raise SE('create_ast: VTLSyntaxError keyword set changed: %r' % sorted(kw))

    def is_err(node, key):
        return (isinstance(node, ast.Subscript) and isinstance(node.value, ast.Name) and node.value.id == 'error'
                and isinstance(node.slice, ast.Constant) and node.slice.value == key)
    for k, key in (('line', 'line'), ('detail', 'message'), ('source_line', 'source_line'), ('underline_length', 'underline_length')):
        if not is_err(kw[k], key):
            raise SE('create_ast: %s= is not error[%r]' % (k, key))
    c = kw['column']
    if is_err(c, 'column'):
        off = 0
    elif (isinstance(c, ast.BinOp) and isinstance(c.op, (ast.Add, ast.Sub)) and is_err(c.left, 'column')
          and isinstance(c.right, ast.Constant) and isinstance(c.right.value, int)):
        off = c.right.value if isinstance(c.op, ast.Add) else -c.right.value
    else:
        raise SE('create_ast: column= is not error["column"] + <int>')
    # text = text + "\n"
    appends_nl = any(isinstance(n, ast.Assign) and len(n.targets) == 1 and isinstance(n.targets[0], ast.Name)
                     and n.targets[0].id == 'text' and isinstance(n.value, ast.BinOp) and isinstance(n.value.op, ast.Add)
                     and isinstance(n.value.left, ast.Name) and n.value.left.id == 'text'
                     and isinstance(n.value.right, ast.Constant) and n.value.right.value == '\n' for n in fn.body)
    # error obtained from get_syntax_error right after parse(text)
    calls = [ast.unparse(n.value) for n in ast.walk(fn) if isinstance(n, ast.Assign) and isinstance(n.value, ast.Call)]
    if 'vtl_cpp_parser.parse(text)' not in calls or 'vtl_cpp_parser.get_syntax_error()' not in calls:
        raise SE('create_ast: parse / get_syntax_error calls changed')
    return {'columnOffset': off, 'appendsNewline': appends_nl}


def read(repo: str):
    raw = open(os.path.join(repo, BINDINGS), encoding='utf-8').read()
    src = strip_cpp_comments(raw)
    fields = read_struct_fields(src)
    steps, param = read_do_parse(src, fields)
    lst = read_listener(src, fields)
    info = {'fields': fields, 'steps': steps, 'listener': lst, 'tabWidth': read_tab_width(src),
            'fileStatics': read_file_statics(src), 'typeMapInitGuarded': read_init_type_map_guard(src),
            'getters': read_getters(src, fields)}
    info.update(read_create_ast(repo))
    # which objects get the collecting listener (default listeners removed first)
    att = []
    for st in steps:
        if st[0] == 'call' and st[2] == 'addErrorListener' and st[4] == '&g_collecting_listener':
            att.append(st[1])
    info['listenerAttached'] = att
    return info


def ls(x):
    return vlib.lean_str(x)


def step_lean(st):
    k = st[0]
    if k in ('assignText', 'clear', 'reset'):
        return '.%s %s' % (k, ls(st[1]))
    if k == 'make':
        return '.make %s %s %s %s' % (ls(st[1]), ls(st[2]), 'true' if st[3] else 'false', vlib.lean_list(st[4], ls))
    if k == 'call':
        return '.call %s %s %s' % (ls(st[1]), ls(st[2]), '(some %s)' % ls(st[3]) if st[3] else 'none')
    if k == 'push':
        return '.push %s %s' % (ls(st[1]), vlib.lean_list(st[2], ls))
    if k == 'ret':
        return '.ret %s' % ls(st[1])
    if k == 'other':
        return '.other %s' % ls(st[1])
    raise SE('unknown step kind %r' % (k,))


def lean_int(i):
    return str(i) if i >= 0 else '(%d)' % i


def emit(info) -> str:
    L = info['listener']
    o = ['import VtlModel.Text.ParserState',
         'namespace VtlModel.Gen.ParserState',
         'open VtlModel.Text.ParserState',
         '',
         '/-- data members of `struct ParserState` (bindings.cpp), in declaration order -/',
         'def stateFields : List String := %s' % vlib.lean_list(info['fields'], ls),
         '/-- file-scope `static` variables of bindings.cpp -/',
         'def fileStatics : List String := %s' % vlib.lean_list(info['fileStatics'], ls),
         '/-- the statements of `do_parse`, in order -/',
         'def doParseSteps : List Step := [\n  ' + ',\n  '.join(step_lean(s) for s in info['steps']) + ']',
         '/-- `CollectingErrorListener::syntaxError`: guard present?, the slot it writes, the slots it reads -/',
         'def listener : Listener := { guarded := %s, errSlot := %s, reads := %s }' % (
             'true' if L['guarded'] else 'false', ls(L['errSlot']), vlib.lean_list(L['reads'], ls)),
         '/-- objects that get `addErrorListener(&g_collecting_listener)` in `do_parse` -/',
         'def listenerAttached : List String := %s' % vlib.lean_list(info['listenerAttached'], ls),
         '/-- `init_type_map` starts with `if (!g_type_map.empty()) return;` -/',
         'def typeMapInitGuarded : Bool := %s' % ('true' if info['typeMapInitGuarded'] else 'false'),
         '/-- g_state members read by get_input_text / get_syntax_error / get_comments -/',
         'def getterReads : List String := %s' % vlib.lean_list(sorted({f for v in info['getters'].values() for f in v}), ls),
         'def tabWidth : Nat := %d' % info['tabWidth'],
         '/-- `column_1based = charPositionInLine + listenerColIn`; stored column = `column_1based + listenerColOut` -/',
         'def listenerColIn : Int := %s' % lean_int(L['colIn']),
         'def listenerColOut : Int := %s' % lean_int(L['colOut']),
         '/-- `create_ast`: `column=error["column"] + columnOffset` -/',
         'def columnOffset : Int := %s' % lean_int(info['columnOffset']),
         '/-- `create_ast` parses `text + "\\n"` -/',
         'def appendsNewline : Bool := %s' % ('true' if info['appendsNewline'] else 'false'),
         '',
         'end VtlModel.Gen.ParserState', '']
    return '\n'.join(o)


if __name__ == '__main__':
    import json
    inf = read(vlib.REPO)
    print(json.dumps(inf, indent=1))
    print(emit(inf))

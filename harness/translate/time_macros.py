"""Translator: sql/time_operators.sql + sql/init.sql + Transpiler (_TP_NEXT_PERIOD)  ->  Gen/TimeMacros.lean.

Transcribes literal tables (vtl_period_limit, vtl_period_rank, vtl_duration_to_int, the LPAD widths of
vtl_period_to_string) and recognises the *shape* of vtl_tp_shift / _TP_NEXT_PERIOD by comparing the
whitespace-normalised macro body with the texts it knows.  It never interprets: an unknown shape raises
vlib.ShapeError (the check then falls back to the failing-input search).
"""
from __future__ import annotations

import hashlib
import os
import re
import sys

sys.path.insert(0, os.path.join(os.path.dirname(os.path.abspath(__file__)), '..'))
import vlib

INDS = ['A', 'S', 'Q', 'M', 'W', 'D']


def sql_dir(repo=None):
    return os.path.join(repo or vlib.REPO, 'src', 'vtlengine', 'duckdb_transpiler', 'sql')


def read_macros(repo=None):
    """name -> (params, body) for every CREATE OR REPLACE MACRO of the two SQL files (comments stripped)."""
    out = {}
    for fn in ('init.sql', 'time_operators.sql'):
        src = open(os.path.join(sql_dir(repo), fn)).read()
        src = re.sub(r'--[^\n]*', '', src)
        for stmt in src.split(';'):
            m = re.match(r'\s*CREATE\s+OR\s+REPLACE\s+MACRO\s+(\w+)\s*\((.*?)\)\s*AS\s*\((.*)\)\s*$', stmt, re.S | re.I)
            if m:
                out[m.group(1)] = (norm(m.group(2)), norm(m.group(3)))
    return out


def norm(s):
    return re.sub(r'\s+', ' ', s).strip()


def case_table(body, what, key_type=str):
    """`CASE x WHEN k THEN v ... [ELSE e] END` with literal keys/values only."""
    m = re.fullmatch(r"CASE (\w+) ((?:WHEN (?:'\w'|\d+) THEN (?:'\w'|\d+) ?)+)(?:ELSE (\w+) )?END", body)
    if not m:
        raise vlib.ShapeError('%s: not a literal CASE table: %r' % (what, body[:200]))
    pairs = re.findall(r"WHEN ('\w'|\d+) THEN ('\w'|\d+)", m.group(2))
    lit = lambda t: t[1:-1] if t.startswith("'") else int(t)
    return [(lit(k), lit(v)) for k, v in pairs], m.group(3)


SHIFT_FIXED_LIMIT = norm("""
    CASE p.period_indicator
        WHEN 'A' THEN
            vtl_period_to_string({'year': p.year + n,
                'period_indicator': 'A', 'period_number': 1}::vtl_time_period)
        ELSE
            vtl_period_to_string({
                'year': p.year + CASE
                    WHEN p.period_number + n <= 0 THEN
                        (p.period_number + n) // vtl_period_limit(p.period_indicator) - 1
                    ELSE
                        (p.period_number + n - 1) // vtl_period_limit(p.period_indicator)
                END,
                'period_indicator': p.period_indicator,
                'period_number':
                    ((p.period_number + n - 1)
                        % vtl_period_limit(p.period_indicator)
                        + vtl_period_limit(p.period_indicator))
                    % vtl_period_limit(p.period_indicator) + 1
            }::vtl_time_period)
    END""")

# the repair proposed in findings/C08.md: weeks and days shift through the calendar
SHIFT_CALENDAR = norm("""
    CASE p.period_indicator
        WHEN 'A' THEN
            vtl_period_to_string({'year': p.year + n,
                'period_indicator': 'A', 'period_number': 1}::vtl_time_period)
        WHEN 'W' THEN
            vtl_time_agg_date(CAST(vtl_tp_start_date(p) + INTERVAL (n * 7) DAY AS DATE), 'W')
        WHEN 'D' THEN
            vtl_time_agg_date(CAST(vtl_tp_start_date(p) + INTERVAL (n) DAY AS DATE), 'D')
        ELSE
            vtl_period_to_string({
                'year': p.year + CASE
                    WHEN p.period_number + n <= 0 THEN
                        (p.period_number + n) // vtl_period_limit(p.period_indicator) - 1
                    ELSE
                        (p.period_number + n - 1) // vtl_period_limit(p.period_indicator)
                END,
                'period_indicator': p.period_indicator,
                'period_number':
                    ((p.period_number + n - 1)
                        % vtl_period_limit(p.period_indicator)
                        + vtl_period_limit(p.period_indicator))
                    % vtl_period_limit(p.period_indicator) + 1
            }::vtl_time_period)
    END""")

TO_STRING = norm("""
    CASE
        WHEN p IS NULL THEN NULL
        WHEN p.period_indicator = 'A' THEN
            CAST(p.year AS VARCHAR) || 'A'
        ELSE
            CONCAT(
                CAST(p.year AS VARCHAR), '-', p.period_indicator,
                LPAD(CAST(p.period_number AS VARCHAR),
                     @TABLE@, '0')
            )
    END""")


def translate(repo=None):
    """Returns (lean_text, info dict)."""
    mac = read_macros(repo)
    for need in ('vtl_period_limit', 'vtl_tp_shift', 'vtl_period_rank', 'vtl_period_to_string', 'vtl_duration_to_int'):
        if need not in mac:
            raise vlib.ShapeError('macro %s not found in sql/*.sql' % need)
    lim, els = case_table(mac['vtl_period_limit'][1], 'vtl_period_limit')
    if els is not None or [k for k, _ in lim] != INDS or mac['vtl_period_limit'][0] != 'indicator VARCHAR':
        raise vlib.ShapeError('vtl_period_limit: expected one literal per indicator A,S,Q,M,W,D; got %r' % (lim,))
    rank, els = case_table(mac['vtl_period_rank'][1], 'vtl_period_rank')
    if [k for k, _ in rank] != INDS:
        raise vlib.ShapeError('vtl_period_rank keys %r' % (rank,))
    dur, _ = case_table(mac['vtl_duration_to_int'][1], 'vtl_duration_to_int')
    if sorted(k for k, _ in dur) != sorted(INDS):
        raise vlib.ShapeError('vtl_duration_to_int keys %r' % (dur,))
    # LPAD widths of vtl_period_to_string
    body = mac['vtl_period_to_string'][1]
    m = re.search(r"LPAD\(CAST\(p\.period_number AS VARCHAR\), (CASE p\.period_indicator .*? END), '0'\)", body)
    if not m or norm(TO_STRING.replace('@TABLE@', m.group(1))) != body:
        raise vlib.ShapeError('vtl_period_to_string has an unknown shape')
    mw = re.fullmatch(r"CASE p\.period_indicator ((?:WHEN '\w' THEN \d+ )+)ELSE (\d+) END", m.group(1))
    if not mw:
        raise vlib.ShapeError('vtl_period_to_string: width table is not literal')
    widths = {k: int(v) for k, v in re.findall(r"WHEN '(\w)' THEN (\d+)", mw.group(1))}
    width_else = int(mw.group(2))
    # shape of vtl_tp_shift
    sp, sb = mac['vtl_tp_shift']
    if sp != 'p vtl_time_period, n INTEGER':
        raise vlib.ShapeError('vtl_tp_shift parameters: %r' % sp)
    if sb == SHIFT_FIXED_LIMIT:
        calendar_shift = False
    elif sb == SHIFT_CALENDAR:
        calendar_shift = True
    else:
        raise vlib.ShapeError('vtl_tp_shift has a body this translator does not know (neither the fixed-limit formula nor the calendar repair)')
    # _TP_NEXT_PERIOD of the transpiler (fill_time_series step)
    tsrc = open(os.path.join(repo or vlib.REPO, 'src', 'vtlengine', 'duckdb_transpiler', 'Transpiler', '__init__.py')).read()
    mt = re.search(r'_TP_NEXT_PERIOD = \((.*?)\n    \)\n', tsrc, re.S)
    if not mt:
        raise vlib.ShapeError('_TP_NEXT_PERIOD not found in the transpiler')
    nxt = norm(''.join(re.findall(r'"((?:[^"\\]|\\.)*)"', mt.group(1))))
    NEXT_FIXED = norm("CASE WHEN ep.tp.period_number + 1 > vtl_period_limit(ep.tp.period_indicator)"
                      " THEN {'year': ep.tp.year + 1, 'period_indicator': ep.tp.period_indicator,"
                      " 'period_number': 1}::vtl_time_period"
                      " ELSE {'year': ep.tp.year, 'period_indicator': ep.tp.period_indicator,"
                      " 'period_number': ep.tp.period_number + 1}::vtl_time_period END")
    next_fixed = (nxt == NEXT_FIXED)
    L = ['/-! Literal tables of sql/time_operators.sql and sql/init.sql, transcribed. -/',
         'namespace VtlModel.Gen.TimeMacros', '']
    for k, v in lim:
        L.append('def periodLimit_%s : Int := %d' % (k, v))
    for k, v in rank:
        L.append('def periodRank_%s : Int := %d' % (k, v))
    for k, v in sorted(dur):
        L.append('def durationToInt_%s : Int := %d' % (k, v))
    for k in INDS:
        L.append('def toStringWidth_%s : Nat := %d' % (k, 1 if k == 'A' else widths.get(k, width_else)))
    L.append('/-- vtl_tp_shift has the calendar-aware body (weeks/days through dates) instead of the fixed-limit formula. -/')
    L.append('def shiftIsCalendar : Bool := %s' % ('true' if calendar_shift else 'false'))
    L.append('/-- _TP_NEXT_PERIOD (fill_time_series) steps with vtl_period_limit. -/')
    L.append('def nextUsesFixedLimit : Bool := %s' % ('true' if next_fixed else 'false'))
    L += ['', 'end VtlModel.Gen.TimeMacros', '']
    info = {'period_limit': dict(lim), 'rank': dict(rank), 'widths': widths, 'calendar_shift': calendar_shift,
            'next_fixed': next_fixed,
            'digest': hashlib.sha1(repr((lim, rank, dur, widths, sb, nxt)).encode()).hexdigest()[:12]}
    return '\n'.join(L), info


if __name__ == '__main__':
    t, i = translate()
    print(t); print(i)

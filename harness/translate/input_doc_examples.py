"""Translator: the input examples of docs/data_types.rst -> Gen/InputDocExamples.lean (group Input, C19).

Transcribes (never interprets): for each basic type section the quoted example strings of the
"Input (CSV…)" cell, and the rows of the Time_Period "Accepted input formats" list-table
(row label -> indicator, the back-ticked tokens of the Formats and Examples cells)."""
from __future__ import annotations

import os
import re
import sys

sys.path.insert(0, os.path.join(os.path.dirname(os.path.abspath(__file__)), '..'))
import vlib

SECTIONS = {'String': 'string', 'Integer': 'integer', 'Number': 'number', 'Boolean': 'boolean', 'Date': 'date',
            'Time_Period': 'period', 'Time (TimeInterval)': 'interval', 'Duration': 'duration'}
ROWS = {'Annual': 'A', 'Semester': 'S', 'Quarter': 'Q', 'Monthly': 'M', 'Weekly': 'W', 'Daily': 'D'}


def chars(s):
    return '[' + ', '.join("Char.ofNat %d" % ord(c) for c in s) + ']'


def list_table_rows(lines, start):
    """rows (list of cell texts) of the list-table that starts at or after line `start`"""
    i = start
    while i < len(lines) and '.. list-table::' not in lines[i]:
        i += 1
    if i >= len(lines):
        raise vlib.ShapeError('list-table not found')
    i += 1
    rows, cur = [], None
    while i < len(lines):
        ln = lines[i]
        if ln.strip() and not ln.startswith(' '):
            break
        m = re.match(r'\s*\* - (.*)$', ln)
        m2 = re.match(r'\s{4,}- (.*)$', ln)
        if m:
            cur = [m.group(1)]; rows.append(cur)
        elif m2 and cur is not None:
            cur.append(m2.group(1))
        elif ln.strip() and cur is not None and not ln.strip().startswith(':'):
            cur[-1] += ' ' + ln.strip()
        i += 1
    return rows


def generate():
    path = os.path.join(vlib.REPO, 'docs', 'data_types.rst')
    lines = open(path, encoding='utf-8').read().split('\n')
    # section starts: a title line followed by ===== of the same length
    sec = {}
    for i in range(len(lines) - 1):
        if lines[i] in SECTIONS and set(lines[i + 1]) == {'='} and len(lines[i + 1]) >= len(lines[i]):
            sec[lines[i]] = i
    missing = [s for s in SECTIONS if s not in sec]
    if missing:
        raise vlib.ShapeError('docs/data_types.rst: sections not found: %s' % missing)
    examples = []
    for title, ty in SECTIONS.items():
        rows = list_table_rows(lines, sec[title])
        cell = None
        for r in rows:
            if r and r[0].startswith('**Input (CSV') and len(r) > 1:
                cell = r[1]
        if cell is None:
            raise vlib.ShapeError('no "Input (CSV…)" row in section %s' % title)
        for tok in re.findall(r'``"([^`]*)"``', cell):
            if 'YYYY' in tok:
                continue   # a format template, not an example
            examples.append((ty, tok))
    # Time_Period formats table
    i = next((k for k in range(sec['Time_Period'], len(lines)) if 'Accepted input formats' in lines[k]), None)
    if i is None:
        raise vlib.ShapeError('"Accepted input formats" table not found')
    rows = list_table_rows(lines, i)
    if not rows or rows[0][:3] != ['Period', 'Formats', 'Examples']:
        raise vlib.ShapeError('unexpected header of the formats table: %r' % (rows[:1],))
    pf, pe = [], []
    for r in rows[1:]:
        if r[0] not in ROWS or len(r) != 3:
            raise vlib.ShapeError('unexpected row in the formats table: %r' % (r,))
        for tok in re.findall(r'``([^`]*)``', r[1]):
            pf.append((ROWS[r[0]], tok))
        for tok in re.findall(r'``([^`]*)``', r[2]):
            pe.append((ROWS[r[0]], tok))
    if len(pe) < 10:
        raise vlib.ShapeError('too few period examples transcribed')
    out = ['import VtlModel.Input.Spec', '', 'namespace VtlModel.Input.Gen', 'open VtlModel.Input VtlModel.Time', '',
           '/-- quoted example strings of the "Input (CSV…)" cells of docs/data_types.rst -/',
           'def docExamples : List (Ty × List Char) := [']
    out.append(',\n'.join('  (Ty.%s, %s) /- %s -/' % (ty, chars(t), t.replace('-/', '- /')) for ty, t in examples) + ']')
    out += ['', '/-- Examples column of the "Accepted input formats" table (indicator of the row, example text) -/',
            'def docPeriodExamples : List (Ind × List Char) := [']
    out.append(',\n'.join('  (Ind.%s, %s) /- %s -/' % (i, chars(t), t) for i, t in pe) + ']')
    out += ['', '/-- Formats column of the same table -/', 'def docPeriodFormats : List (Ind × List Char) := [']
    out.append(',\n'.join('  (Ind.%s, %s) /- %s -/' % (i, chars(t), t) for i, t in pf) + ']')
    out += ['', 'end VtlModel.Input.Gen', '']
    return '\n'.join(out), {'examples': examples, 'period_examples': pe, 'period_formats': pf}


if __name__ == '__main__':
    t, d = generate()
    print(t)

"""Translator for C26 (and the catalogue part of C32).

Reads, from the *source text* of ``$VERIF_REPO/src/vtlengine`` (Python ``ast``; nothing is imported):

* ``Exceptions/messages.py``      -> the catalogue: (code, template pieces) via ``string.Formatter``;
* ``Exceptions/__init__.py``      -> which exception classes take a catalogue code, in which parameter, and
                                      which of their parameters are *named* (not part of ``**kwargs``);
* every ``*.py`` under the package -> every constructor call of such a class: file, enclosing function, line,
                                      class, code (literal, or the finite value set of an f-string / variable
                                      code), keyword names, ``**`` flag.

It transcribes; the only evaluation it performs is ``ast.literal_eval`` of the catalogue dictionary and the
enumeration of the constant leaves of ``a if c else b`` expressions for dynamic codes.  Anything whose shape
it does not know raises ``vlib.ShapeError``.
"""
from __future__ import annotations

import ast
import os
import re
import string

try:
    from vlib import ShapeError
except Exception:  # pragma: no cover - stand-alone use
    class ShapeError(RuntimeError):
        pass

CODE_RE = re.compile(r'^\d+(-\d+){2,3}$')
BASE = 'VTLEngineException'


def pkg_root(repo):
    return os.path.join(repo, 'src', 'vtlengine')


# --------------------------------------------------------------------------------------------- catalogue
def split_template(msg: str):
    """string.Formatter pieces -> [('lit', text) | ('ph', name)].  Conversions / format specs / attribute or
    index lookups / positional fields are shapes the model does not have: ShapeError."""
    out = []
    for lit, field, spec, conv in string.Formatter().parse(msg):
        if lit:
            out.append(('lit', lit))
        if field is None:
            continue
        if spec or conv:
            raise ShapeError('catalogue message uses a format spec / conversion: %r' % msg)
        if not field.isidentifier():
            # positional ({} / {0}) or attribute/index lookups: .format(**kwargs) cannot fill the former and the
            # latter can fail for some values; the render model knows neither.
            raise ShapeError('catalogue message uses a non-identifier field %r: %r' % (field, msg))
        out.append(('ph', field))
    return out


def read_catalogue(repo):
    """-> list of dict(code, message, pieces), in source order."""
    p = os.path.join(pkg_root(repo), 'Exceptions', 'messages.py')
    tree = ast.parse(open(p, encoding='utf-8').read())
    val = None
    for n in tree.body:
        tg = None
        if isinstance(n, ast.Assign) and len(n.targets) == 1:
            tg = n.targets[0]
        elif isinstance(n, ast.AnnAssign):
            tg = n.target
        if isinstance(tg, ast.Name) and tg.id == 'centralised_messages':
            if val is not None:
                raise ShapeError('centralised_messages assigned twice')
            val = n.value
        elif isinstance(n, (ast.Assign, ast.AnnAssign, ast.AugAssign, ast.Expr)) and not (
                isinstance(n, ast.Expr) and isinstance(n.value, ast.Constant)):
            # anything else at module level could modify the dictionary (update(), item assignment ...)
            raise ShapeError('messages.py: unexpected module-level statement at line %d' % n.lineno)
        elif isinstance(n, (ast.For, ast.If, ast.With, ast.While, ast.Try, ast.FunctionDef, ast.ClassDef)):
            raise ShapeError('messages.py: unexpected module-level statement at line %d' % n.lineno)
    if not isinstance(val, ast.Dict):
        raise ShapeError('centralised_messages is not a dict display')
    keys = []
    for k in val.keys:
        if not (isinstance(k, ast.Constant) and isinstance(k.value, str)):
            raise ShapeError('centralised_messages has a non-literal key at line %d' % getattr(k, 'lineno', 0))
        keys.append(k.value)
    if len(set(keys)) != len(keys):
        dup = sorted({k for k in keys if keys.count(k) > 1})
        raise ShapeError('centralised_messages has duplicate keys (later entry silently wins): %s' % dup)
    d = ast.literal_eval(val)
    out = []
    for code in keys:
        e = d[code]
        if not (isinstance(e, dict) and isinstance(e.get('message'), str)):
            raise ShapeError('catalogue entry %s has no string "message"' % code)
        out.append({'code': code, 'message': e['message'], 'pieces': split_template(e['message'])})
    return out


# --------------------------------------------------------------------------------------------- classes
def read_exception_classes(repo):
    """-> {class name: dict(params=[positional parameter names after self], code_index=int|None,
                            named=[...], has_kwargs=bool)} for every VTLEngineException subclass whose __init__
    indexes ``centralised_messages[code]``."""
    p = os.path.join(pkg_root(repo), 'Exceptions', '__init__.py')
    tree = ast.parse(open(p, encoding='utf-8').read())
    classes = {n.name: n for n in tree.body if isinstance(n, ast.ClassDef)}

    def derives(n, seen=()):
        for b in n.bases:
            nm = b.id if isinstance(b, ast.Name) else None
            if nm == BASE:
                return True
            if nm in classes and nm not in seen and derives(classes[nm], seen + (nm,)):
                return True
        return False

    out = {}
    for name, n in classes.items():
        if not derives(n):
            continue
        init = [f for f in n.body if isinstance(f, ast.FunctionDef) and f.name == '__init__']
        if not init:
            # inherits a constructor: find it
            base = [b.id for b in n.bases if isinstance(b, ast.Name) and b.id in out]
            if base:
                out[name] = dict(out[base[0]])
            continue
        f = init[0]
        uses = [s for s in ast.walk(f) if isinstance(s, ast.Subscript) and isinstance(s.value, ast.Name)
                and s.value.id == 'centralised_messages']
        if not uses:
            continue
        for s in uses:
            if not (isinstance(s.slice, ast.Name) and s.slice.id == 'code'):
                raise ShapeError('%s.__init__ indexes the catalogue with something other than `code`' % name)
        fmts = [c for c in ast.walk(f) if isinstance(c, ast.Call) and isinstance(c.func, ast.Attribute) and c.func.attr == 'format']
        for c in fmts:
            if c.args or len(c.keywords) != 1 or c.keywords[0].arg is not None or not (
                    isinstance(c.keywords[0].value, ast.Name) and f.args.kwarg and c.keywords[0].value.id == f.args.kwarg.arg):
                raise ShapeError('%s.__init__ formats the message with something other than **kwargs' % name)
        if not fmts:
            raise ShapeError('%s.__init__ does not .format(**kwargs) the catalogue message' % name)
        if f.args.posonlyargs or f.args.kwonlyargs:
            raise ShapeError('%s.__init__ has positional-only / keyword-only parameters' % name)
        params = [a.arg for a in f.args.args][1:]
        if 'code' not in params:
            raise ShapeError('%s.__init__ has no `code` parameter' % name)
        ndef = len(f.args.defaults)
        required = params[:len(params) - ndef] if ndef else list(params)
        out[name] = {'params': params, 'code_index': params.index('code'), 'named': list(params),
                     'has_kwargs': f.args.kwarg is not None, 'code_required': 'code' in required}
    if not out:
        raise ShapeError('no coded exception class found in Exceptions/__init__.py')
    return out


# --------------------------------------------------------------------------------------------- raise sites
class _Scan(ast.NodeVisitor):
    def __init__(self, rel, classes):
        self.rel, self.classes = rel, classes
        self.stack = []          # enclosing class / function names
        self.fstack = []         # enclosing FunctionDef nodes
        self.parents = []        # ancestor nodes of the node being visited
        self.sites = []
        self.uncoded = []
        self.other_refs = []     # references to a coded class that are not a direct call / import / except / isinstance

    def generic_visit(self, node):
        self.parents.append(node)
        super().generic_visit(node)
        self.parents.pop()

    def visit_ClassDef(self, node):
        self.stack.append(node.name); self.generic_visit(node); self.stack.pop()

    def visit_FunctionDef(self, node):
        self.stack.append(node.name); self.fstack.append(node); self.generic_visit(node); self.fstack.pop(); self.stack.pop()

    visit_AsyncFunctionDef = visit_FunctionDef

    def visit_Name(self, node):
        if node.id in self.classes:
            par = self.parents[-1] if self.parents else None
            ok = (isinstance(par, ast.Call) and par.func is node) or isinstance(par, (ast.ExceptHandler,)) \
                or (isinstance(par, ast.Tuple) and len(self.parents) > 1 and isinstance(self.parents[-2], (ast.ExceptHandler, ast.Call))) \
                or (isinstance(par, ast.Call) and isinstance(par.func, ast.Name) and par.func.id in ('isinstance', 'issubclass')) \
                or isinstance(par, (ast.FunctionDef, ast.arg, ast.Subscript, ast.AnnAssign, ast.BinOp)) \
                or (isinstance(par, ast.ClassDef))
            if not ok:
                self.other_refs.append((self.rel, node.lineno, type(par).__name__))

    def visit_Call(self, node):
        fn = node.func
        name = fn.id if isinstance(fn, ast.Name) else (fn.attr if isinstance(fn, ast.Attribute) else None)
        if name in self.classes:
            self._site(node, name)
        self.generic_visit(node)

    # ---- one constructor call
    def _site(self, node, cls):
        info = self.classes[cls]
        if any(isinstance(a, ast.Starred) for a in node.args):
            raise ShapeError('%s:%d constructor call with *args' % (self.rel, node.lineno))
        star = any(k.arg is None for k in node.keywords)
        kw = {k.arg: k.value for k in node.keywords if k.arg is not None}
        bound = {}
        for i, a in enumerate(node.args):
            if i >= len(info['params']):
                raise ShapeError('%s:%d too many positional arguments for %s' % (self.rel, node.lineno, cls))
            bound[info['params'][i]] = a
        for k, v in kw.items():
            if k in info['named']:
                if k in bound:
                    raise ShapeError('%s:%d parameter %s given twice' % (self.rel, node.lineno, k))
                bound[k] = v
        fmt_kwargs = sorted(k for k in kw if k not in info['named'])
        func = '.'.join(self.stack) or '<module>'
        base = {'file': self.rel, 'func': func, 'line': node.lineno, 'cls': cls, 'kwargs': fmt_kwargs, 'star': star,
                'text': ast.unparse(node)[:200]}
        code_expr = bound.get('code')
        if code_expr is None or (isinstance(code_expr, ast.Constant) and code_expr.value is None):
            # no code: an uncoded message.  A code-shaped *literal* in the message position is still a coded
            # raise by intent (the code never reaches the catalogue lookup): recorded as a site with in_slot=False.
            m = bound.get('message')
            if isinstance(m, ast.Constant) and isinstance(m.value, str) and CODE_RE.match(m.value):
                self.sites.append(dict(base, codes=[m.value], literal=True, in_slot=False, resolved=True))
            else:
                if info.get('code_required'):
                    raise ShapeError('%s:%d %s(...) without its required code' % (self.rel, node.lineno, cls))
                self.uncoded.append(base)
            return
        codes, literal, resolved = self._codes(code_expr, node)
        self.sites.append(dict(base, codes=codes, literal=literal, in_slot=True, resolved=resolved))

    # ---- value set of the code expression
    def _codes(self, e, call):
        if isinstance(e, ast.Constant) and isinstance(e.value, str):
            return [e.value], True, True
        try:
            vals = self._values(e, call, 0)
        except _Unresolved:
            return [], False, False
        return sorted(set(vals)), False, True

    def _values(self, e, call, depth):
        if depth > 4:
            raise _Unresolved()
        if isinstance(e, ast.Constant):
            if e.value is None:
                return [None]
            if isinstance(e.value, (str, int)) and not isinstance(e.value, bool):
                return [str(e.value)]
            raise _Unresolved()
        if isinstance(e, ast.IfExp):
            return self._values(e.body, call, depth + 1) + self._values(e.orelse, call, depth + 1)
        if isinstance(e, ast.JoinedStr):
            acc = ['']
            for part in e.values:
                if isinstance(part, ast.Constant):
                    acc = [a + str(part.value) for a in acc]
                elif isinstance(part, ast.FormattedValue) and part.format_spec is None and part.conversion == -1:
                    vs = self._values(part.value, call, depth + 1)
                    acc = [a + ('None' if v is None else v) for a in acc for v in vs]
                else:
                    raise _Unresolved()
            return acc
        if isinstance(e, ast.Name):
            return self._name_values(e.id, call, depth)
        raise _Unresolved()

    def _name_values(self, name, call, depth):
        if not self.fstack:
            raise _Unresolved()
        f = self.fstack[-1]
        if name in [a.arg for a in f.args.args + f.args.kwonlyargs]:
            raise _Unresolved()
        vals = []
        n_assign = 0
        for n in ast.walk(f):
            tgts = []
            if isinstance(n, ast.Assign):
                tgts = n.targets; v = n.value
            elif isinstance(n, ast.AnnAssign) and n.value is not None:
                tgts = [n.target]; v = n.value
            elif isinstance(n, (ast.AugAssign, ast.For, ast.With, ast.NamedExpr)):
                t = n.target if hasattr(n, 'target') else None
                if isinstance(t, ast.Name) and t.id == name:
                    raise _Unresolved()
                continue
            for t in tgts:
                if isinstance(t, ast.Name) and t.id == name:
                    n_assign += 1
                    vals += self._values(v, call, depth + 1)
                elif any(isinstance(x, ast.Name) and x.id == name for x in ast.walk(t)):
                    raise _Unresolved()
        if not n_assign:
            raise _Unresolved()
        # a None leaf is excluded when the call sits under `if <name> is not None:`
        if None in vals and self._guarded_not_none(name, call):
            vals = [v for v in vals if v is not None]
        return vals

    def _guarded_not_none(self, name, call):
        for anc in self.parents:
            if isinstance(anc, ast.If):
                t = anc.test
                if (isinstance(t, ast.Compare) and isinstance(t.left, ast.Name) and t.left.id == name and len(t.ops) == 1
                        and isinstance(t.ops[0], ast.IsNot) and isinstance(t.comparators[0], ast.Constant)
                        and t.comparators[0].value is None and any(call is x for b in anc.body for x in ast.walk(b))):
                    return True
        return False


class _Unresolved(Exception):
    pass


def scan_sites(repo, classes=None):
    """-> (sites, uncoded, other_refs).  Sites sorted by (file, line)."""
    classes = classes or read_exception_classes(repo)
    root = pkg_root(repo)
    sites, uncoded, other = [], [], []
    for dp, dn, fn in os.walk(root):
        dn.sort()
        for f in sorted(fn):
            if not f.endswith('.py'):
                continue
            p = os.path.join(dp, f)
            rel = os.path.relpath(p, root)
            try:
                tree = ast.parse(open(p, encoding='utf-8').read())
            except SyntaxError as e:
                raise ShapeError('cannot parse %s: %s' % (rel, e))
            # aliases of the class names would escape the scan
            for n in ast.walk(tree):
                if isinstance(n, (ast.ImportFrom, ast.Import)):
                    for a in n.names:
                        if a.name.split('.')[-1] in classes and a.asname and a.asname != a.name:
                            raise ShapeError('%s:%d imports %s under another name' % (rel, n.lineno, a.name))
                if isinstance(n, ast.ClassDef) and rel != os.path.join('Exceptions', '__init__.py'):
                    for b in n.bases:
                        bn = b.id if isinstance(b, ast.Name) else (b.attr if isinstance(b, ast.Attribute) else None)
                        if bn in classes or bn == BASE:
                            raise ShapeError('%s:%d subclass %s of a VTL exception outside Exceptions/' % (rel, n.lineno, n.name))
            sc = _Scan(rel, classes)
            sc.visit(tree)
            sites += sc.sites; uncoded += sc.uncoded; other += sc.other_refs
    sites.sort(key=lambda s: (s['file'], s['line']))
    return sites, uncoded, other


def site_key(s, code=None):
    return '%s:%s:%s' % (s['file'], s['func'], code if code is not None else '|'.join(s['codes']))


# --------------------------------------------------------------------------------------------- predicate (Python twin of the Lean one)
def site_problems(s, cat):
    """[(code, kind, detail)] — the same predicate `siteOkB` evaluates in Lean."""
    out = []
    if not s['resolved']:
        return [('?', 'unresolved-code', s['text'])]
    for c in s['codes']:
        if not s['in_slot']:
            out.append((c, 'code-as-message', 'code literal passed in the message position'))
            continue
        m = cat.get(c)
        if m is None:
            out.append((c, 'uncatalogued', 'code not in centralised_messages'))
            continue
        if s['star']:
            continue
        missing = sorted({n for k, n in m['pieces'] if k == 'ph'} - set(s['kwargs']))
        if missing:
            out.append((c, 'unfilled', ','.join(missing)))
    return out


# --------------------------------------------------------------------------------------------- Lean emission
class Interner:
    def __init__(self):
        self.ids, self.strs = {}, []

    def __call__(self, s):
        if s not in self.ids:
            self.ids[s] = len(self.strs); self.strs.append(s)
        return self.ids[s]


def _lean_str(s):
    out = ['"']
    for ch in s:
        o = ord(ch)
        if ch == '"': out.append('\\"')
        elif ch == '\\': out.append('\\\\')
        elif ch == '\n': out.append('\\n')
        elif ch == '\t': out.append('\\t')
        elif ch == '\r': out.append('\\r')
        elif o < 32 or o == 127: out.append('\\x%02x' % o)
        else: out.append(ch)
    out.append('"')
    return ''.join(out)


def _nl(xs):
    return '[' + ', '.join(str(x) for x in xs) + ']'


def _chunks(xs, n):
    return [xs[i:i + n] for i in range(0, len(xs), n)] or [[]]


def emit(repo, extra=None):
    """-> dict(catalogue=lean text, sites=lean text, data=python tables used by the check).
    `extra(intern, cls_ids, catd)` is called before the shared string table is written (used by sql_errors)."""
    cat = read_catalogue(repo)
    classes = read_exception_classes(repo)
    sites, uncoded, other = scan_sites(repo, classes)
    I = Interner()
    catd = {m['code']: m for m in cat}
    cls_ids = {c: i for i, c in enumerate(sorted(classes))}

    # ---- Catalogue.lean
    L = ['namespace VtlModel.Gen.Catalogue', 'open VtlModel.Errors', '']
    rows = []
    for m in cat:
        ps = ', '.join(('.lit %d' % I(t)) if k == 'lit' else ('.ph %d' % I(t)) for k, t in m['pieces'])
        rows.append('  ⟨%d, [%s]⟩' % (I(m['code']), ps))
    for ci, ch in enumerate(_chunks(rows, 60)):
        L.append('def catalogue%d : List Msg := [\n%s]' % (ci, ',\n'.join(ch)))
    nch = len(_chunks(rows, 60))
    L.append('def catalogue : List Msg := ' + ' ++ '.join('catalogue%d' % i for i in range(nch)))
    L.append('')
    cat_lean_body = L

    # ---- RaiseSites.lean
    S = ['namespace VtlModel.Gen.RaiseSites', 'open VtlModel.Errors', '']
    S.append('-- exception classes: ' + ', '.join('%d=%s' % (i, c) for c, i in cls_ids.items()))
    rows = []
    bad = []
    for idx, s in enumerate(sites):
        rows.append('  ⟨%d, %d, %d, %d, %s, %s, %s, %s, %s⟩  -- %d %s:%d' % (
            I(s['file']), I(s['func']), s['line'], cls_ids[s['cls']], _nl([I(c) for c in s['codes']]),
            'true' if s['literal'] else 'false', 'true' if s['in_slot'] else 'false',
            _nl([I(k) for k in s['kwargs']]), 'true' if s['star'] else 'false', idx, s['file'], s['line']))
        if site_problems(s, catd):
            bad.append(idx)
    # the trailing comment of the last row must not swallow the closing bracket
    chs = _chunks(rows, 50)
    for ci, ch in enumerate(chs):
        body = []
        for j, r in enumerate(ch):
            code, _, com = r.partition('  -- ')
            body.append(code + (',' if j < len(ch) - 1 else '') + '  -- ' + com)
        S.append('def raiseSites%d : List Site := [\n%s\n]' % (ci, '\n'.join(body)))
    S.append('def raiseSites : List Site := ' + ' ++ '.join('raiseSites%d' % i for i in range(len(chs))))
    S.append('')
    S.append('/-- Certificate computed by the translator with the Python twin of `siteOkB`; `Props/C26.bad_sites_exact`')
    S.append('    makes the kernel re-compute it, so nothing about it is trusted. -/')
    S.append('def claimedBad : List Nat := ' + _nl(bad))
    S.append('def uncodedSites : Nat := %d' % len(uncoded))
    S.append('')

    extra_out = extra(I, cls_ids, catd) if extra else None
    # string table goes to the catalogue file (RaiseSites imports it)
    T = ['def strs : Array String := #[']
    T.append(',\n'.join('  %s' % _lean_str(s) for s in I.strs))
    T.append(']')
    cat_text = 'import VtlModel.Errors.Model\n' + '\n'.join(cat_lean_body) + '\n' + '\n'.join(T) + '\n\nend VtlModel.Gen.Catalogue\n'
    sites_text = 'import VtlModel.Errors.Model\nimport VtlModel.Gen.Catalogue\n' + '\n'.join(S) + '\nend VtlModel.Gen.RaiseSites\n'
    return {'catalogue': cat_text, 'sites': sites_text, 'extra': extra_out,
            'data': {'cat': cat, 'catd': catd, 'classes': classes, 'sites': sites, 'uncoded': uncoded, 'other_refs': other,
                     'bad': bad, 'intern': I, 'cls_ids': cls_ids}}


if __name__ == '__main__':
    import json, sys
    repo = os.environ.get('VERIF_REPO', '/repo')
    r = emit(repo)
    d = r['data']
    print(len(d['cat']), 'codes;', len(d['sites']), 'sites;', len(d['uncoded']), 'uncoded;', d['classes'])
    for i in d['bad']:
        s = d['sites'][i]
        print(i, site_key(s), s['line'], site_problems(s, d['catd']))
    print('dynamic:', [(site_key(s), s['codes']) for s in d['sites'] if not s['literal']])
    print('other refs:', d['other_refs'])

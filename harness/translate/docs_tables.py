"""Translator: the list-tables of docs/data_types.rst  ->  lean/VtlModel/Gen/DocTables.lean  (group Types: C09, C11).

Reads the rst text only (no Sphinx).  Transcribes: the implicit-cast table, the explicit-cast (without mask) table,
the with-mask table (cells marked "defined but not implemented"), the measure-rename table of "Cast on datasets",
the "(subtype of X)" annotations of the type-hierarchy block, and three sentences whose presence is part of the
documented rules (Null compatible with every type; no rename when the source implicitly promotes to the target;
String -> Integer rejects non-integers).  Anything it cannot find raises vlib.ShapeError.
"""
from __future__ import annotations

import os
import re
import sys

sys.path.insert(0, os.path.join(os.path.dirname(os.path.abspath(__file__)), '..'))
import vlib  # noqa: E402
from vlib import ShapeError  # noqa: E402

from types_tables import CTOR, TY_NAMES  # noqa: E402

BASIC = [n for n in TY_NAMES if n != 'Null']


def rst_path():
    return os.path.join(vlib.REPO, 'docs', 'data_types.rst')


def sections(text):
    """[(title, start_line, end_line)] for every underlined title."""
    lines = text.split('\n')
    heads = []
    for i in range(1, len(lines)):
        u = lines[i]
        if len(u) >= 3 and len(set(u)) == 1 and u[0] in '#*=-^~' and lines[i - 1].strip() and len(u) >= len(lines[i - 1].rstrip()) - 1 \
                and not lines[i - 1].startswith(' '):
            heads.append((lines[i - 1].strip(), i - 1))
    out = []
    for k, (t, s) in enumerate(heads):
        e = heads[k + 1][1] if k + 1 < len(heads) else len(lines)
        out.append((t, s, e))
    return lines, out


def list_tables(lines, s, e):
    """all list-tables between lines s..e: each a list of rows, each row a list of cell strings."""
    tables, i = [], s
    while i < e:
        if lines[i].strip().startswith('.. list-table::'):
            i += 1
            rows = []
            while i < e:
                ln = lines[i]
                st = ln.strip()
                if st.startswith(':') or st == '':
                    i += 1; continue
                if not ln.startswith(' '): break
                if st.startswith('* - '):
                    rows.append([st[4:].strip()])
                elif st.startswith('- ') and rows:
                    rows[-1].append(st[2:].strip())
                elif st == '-' and rows:
                    rows[-1].append('')
                elif rows:
                    rows[-1][-1] = (rows[-1][-1] + ' ' + st).strip()
                else:
                    break
                i += 1
            tables.append(rows)
        else:
            i += 1
    return tables


def unbold(s):
    return s.replace('**', '').replace('``', '').strip()


def matrix(rows, what, marks):
    """From/To matrix -> {(from, to): mark}."""
    if not rows or unbold(rows[0][0]) != 'From / To':
        raise ShapeError('%s: header row is not "From / To": %r' % (what, rows[:1]))
    cols = [unbold(c) for c in rows[0][1:]]
    for c in cols:
        if c not in BASIC: raise ShapeError('%s: unknown column type %r' % (what, c))
    out = {}
    for r in rows[1:]:
        f = unbold(r[0])
        if f not in BASIC: raise ShapeError('%s: unknown row type %r' % (what, f))
        if len(r) != len(cols) + 1: raise ShapeError('%s: row %s has %d cells' % (what, f, len(r)))
        for c, cell in zip(cols, r[1:]):
            if cell not in marks: raise ShapeError('%s: unknown cell %r at %s->%s' % (what, cell, f, c))
            out[(f, c)] = marks[cell]
    return out, cols, [unbold(r[0]) for r in rows[1:]]


def read_docs():
    text = open(rst_path(), encoding='utf-8').read()
    lines, secs = sections(text)
    by = {t: (s, e) for t, s, e in secs}
    need = ['Implicit Casting (Automatic)', 'Supported conversions without mask', 'Supported conversions with mask',
            'Cast on datasets', 'Type Hierarchy']
    for n in need:
        if n not in by: raise ShapeError('docs/data_types.rst: section %r not found' % n)
    legend = dict(re.findall(r'^\.\. (\|\w\|) unicode:: (\S+)', text, re.M))
    if set(legend) != {'|y|', '|p|'}: raise ShapeError('legend substitutions changed: %r' % legend)
    marks = {'|y|': 'y', '|p|': 'p', '—': 'n'}
    d = {}
    t = list_tables(lines, *by['Implicit Casting (Automatic)'])
    if len(t) != 1: raise ShapeError('implicit section: %d tables' % len(t))
    d['implicit'], ic, ir = matrix(t[0], 'implicit table', marks)
    t = list_tables(lines, *by['Supported conversions without mask'])
    if len(t) != 1: raise ShapeError('explicit section: %d tables' % len(t))
    d['explicit'], ec, er = matrix(t[0], 'explicit table', marks)
    for nm, cols, rws in (('implicit', ic, ir), ('explicit', ec, er)):
        if sorted(cols) != sorted(BASIC) or sorted(rws) != sorted(BASIC):
            raise ShapeError('%s table does not cover the eight basic types' % nm)
        if 'p' in d[nm].values(): raise ShapeError('%s table has a pending cell' % nm)
    t = list_tables(lines, *by['Supported conversions with mask'])
    if len(t) != 1: raise ShapeError('with-mask section: %d tables' % len(t))
    d['mask'], _, _ = matrix(t[0], 'with-mask table', marks)
    t = list_tables(lines, *by['Cast on datasets'])
    if len(t) != 1 or [unbold(c) for c in t[0][0]] != ['Target type', 'Renamed measure']:
        raise ShapeError('rename table not found')
    d['rename'] = {}
    for r in t[0][1:]:
        k = unbold(r[0])
        if k not in BASIC or len(r) != 2: raise ShapeError('rename table row %r' % r)
        d['rename'][k] = unbold(r[1])
    if sorted(d['rename']) != sorted(BASIC): raise ShapeError('rename table does not cover the eight basic types')
    hs, he = by['Type Hierarchy']
    d['subtype'] = sorted(set(re.findall(r'(\w+)\s+\(subtype of (\w+)\)', '\n'.join(lines[hs:he]))))
    for a, b in d['subtype']:
        if a not in BASIC or b not in BASIC: raise ShapeError('hierarchy names %r' % ((a, b),))
    flat = re.sub(r'\s+', ' ', text)
    d['null_rule'] = 'Null is compatible with every type' in flat and 'is compatible with all other types for implicit promotion' in flat
    d['norename_note'] = bool(re.search(r'When the source type can be implicitly promoted to the target type .*? the measure is \*\*not\*\* renamed', flat))
    d['str_int_rule'] = bool(re.search(r'\*\*String to Integer\*\*: Must be a valid integer string \(rejects ``"3\.5"``\)', flat))
    d['bool_str_rule'] = bool(re.search(r'\*\*Boolean to String\*\*: ``true`` becomes ``"True"``, ``false`` becomes ``"False"``', flat))
    d['date_time_rule'] = bool(re.search(r'``"2020-01-15"`` becomes ``"2020-01-15/2020-01-15"``', flat))
    return d


def gen_doc_tables():
    d = read_docs()
    T = lambda n: 'Ty.' + CTOR[n]  # noqa: E731
    out = ['import VtlModel.Types.Ty', 'namespace VtlModel.Gen.DocTables', 'open VtlModel', '']

    def mat(name, m, doc):
        out.append('/-- %s -/' % doc)
        out.append('def %s : Ty → Ty → Bool' % name)
        for (f, t), v in sorted(m.items(), key=lambda kv: (TY_NAMES.index(kv[0][0]), TY_NAMES.index(kv[0][1]))):
            if v == 'y': out.append('  | %s, %s => true' % (T(f), T(t)))
        out.append('  | _, _ => false\n')
    mat('implicitCell', d['implicit'], 'docs/data_types.rst, "Implicit Casting (Automatic)": cells marked implemented (rows/columns: the 8 basic types)')
    mat('explicitCell', d['explicit'], 'docs/data_types.rst, "Supported conversions without mask": cells marked implemented')
    out.append('/-- "Supported conversions with mask": cells marked "defined in VTL 2.2 but not yet implemented" -/')
    out.append('def withMaskPending : List (Ty × Ty) := %s\n' % vlib.lean_list(
        ['(%s, %s)' % (T(f), T(t)) for (f, t), v in sorted(d['mask'].items(), key=lambda kv: (TY_NAMES.index(kv[0][0]), TY_NAMES.index(kv[0][1]))) if v == 'p']))
    out.append('/-- "Cast on datasets": target type -> renamed measure -/')
    out.append('def renameCell : Ty → Option String')
    for n in BASIC:
        out.append('  | %s => some %s' % (T(n), vlib.lean_str(d['rename'][n])))
    out.append('  | _ => none\n')
    out.append('/-- "Type Hierarchy": the `(subtype of X)` annotations (strict, direct) -/')
    out.append('def subtypeOf : Ty → Ty → Bool')
    for a, b in d['subtype']:
        out.append('  | %s, %s => true' % (T(a), T(b)))
    out.append('  | _, _ => false\n')
    for k, doc in (('null_rule', '"Null is compatible with every type" / "compatible with all other types for implicit promotion"'),
                   ('norename_note', 'note: when the source type can be implicitly promoted to the target type the measure is not renamed'),
                   ('str_int_rule', '"String to Integer: Must be a valid integer string (rejects "3.5")"'),
                   ('bool_str_rule', '"Boolean to String: true becomes "True", false becomes "False""'),
                   ('date_time_rule', '"Date to Time: "2020-01-15" becomes "2020-01-15/2020-01-15""')):
        nm = ''.join(w.capitalize() if i else w for i, w in enumerate(k.split('_')))
        out.append('/-- sentence present in the docs: %s -/' % doc)
        out.append('def %s : Bool := %s\n' % (nm, 'true' if d[k] else 'false'))
    out.append('end VtlModel.Gen.DocTables')
    return '\n'.join(out) + '\n', d


if __name__ == '__main__':
    print(gen_doc_tables()[0])

"""Translator: the statement structure of `configured_connection` (and the two helpers it calls)
in duckdb_transpiler/Config/config.py  ->  lean/VtlModel/Gen/Bracket.lean  (`pre`, `main`).

It transcribes: which primitive calls / hook events happen in which order, and which of them are before the
`try`, inside it, in the `finally`.  It never interprets what the calls do (that is `applyOp` in
VtlModel/Session/Bracket.lean).  Any statement whose shape it does not know raises vlib.ShapeError.
"""
from __future__ import annotations

import ast
import os

import vlib

CONFIG = 'src/vtlengine/duckdb_transpiler/Config/config.py'


def _src(repo):
    p = os.path.join(repo, CONFIG)
    return p, open(p).read()


def _fn(tree, name):
    for n in tree.body:
        if isinstance(n, ast.FunctionDef) and n.name == name:
            return n
    raise vlib.ShapeError('function %s not found in %s' % (name, CONFIG))


def _call_name(c):
    """dotted name of a call's function, e.g. 'conn.execute', 'shutil.rmtree', '_verif.event'."""
    f = c.func
    parts = []
    while isinstance(f, ast.Attribute):
        parts.append(f.attr)
        f = f.value
    if isinstance(f, ast.Name):
        parts.append(f.id)
    elif isinstance(f, ast.Call):
        parts.append(_call_name(f) + '()')
    else:
        parts.append('?')
    return '.'.join(reversed(parts))


PURE_CALLS = {'_temp_directory', '_max_temp_directory_size', '_duckdb_memory_limit', 'Path', 'str', '_threads',
              '_memory_limit', 'uuid.uuid4', 'statements.insert', 'statements.append', '_use_in_memory_db'}


class Tr:
    def __init__(self, tree):
        self.tree = tree
        self.inlining = []

    # ---- expressions: only "is it free of effects we model"
    def pure_expr(self, e):
        for n in ast.walk(e):
            if isinstance(n, ast.Call):
                nm = _call_name(n)
                if nm in PURE_CALLS or nm.endswith('.join') or nm.endswith('.strip') or nm.endswith('.endswith') \
                        or nm.endswith('.isdigit') or nm.endswith('.lower') or nm == 'os.getenv':
                    continue
                return False
            if isinstance(n, (ast.Yield, ast.YieldFrom, ast.Await)):
                return False
        return True

    def stmts(self, body):
        out = []
        for s in body:
            out += self.stmt(s)
        return out

    def call(self, c, target=None):
        nm = _call_name(c)
        if nm == '_verif.event':
            a = c.args[0]
            if not (isinstance(a, ast.Constant) and isinstance(a.value, str)):
                raise vlib.ShapeError('hook event with a non-literal kind at line %d' % c.lineno)
            return [('ev', a.value)]
        if nm == '_verif.access':
            return []          # shared-state access report (C17); not a C16 fault point
        if nm == 'Path().mkdir':
            return [('op', 'mkdirTemp')]
        if nm == 'session_dir.mkdir':
            return [('op', 'mkdirSession')]
        if nm == 'duckdb.connect':
            if target in (None, 'conn'):
                return [('op', 'connect')] + ([('op', 'bindConn')] if (target == 'conn' and not self.inlining) else [])
            return [('op', 'connectExtra')]
        if nm in ('create_configured_connection', 'configure_duckdb_connection', 'set_decimal_config'):
            if nm == 'set_decimal_config':
                return [('op', 'setDecimal')]
            if nm in self.inlining:
                raise vlib.ShapeError('recursive helper ' + nm)
            self.inlining.append(nm)
            fn = _fn(self.tree, nm)
            inner = self.stmts(fn.body)
            self.inlining.pop()
            if nm == 'create_configured_connection' and target not in (None, 'conn'):
                inner = [('op', 'connectExtra') if x == ('op', 'connect') else x for x in inner]
            elif nm == 'create_configured_connection' and target == 'conn' and not self.inlining:
                inner = inner + [('op', 'bindConn')]          # the caller's variable is bound only when the helper returns
            return inner
        if nm == 'conn.execute':
            a = c.args[0] if c.args else None
            txt = ast.unparse(a) if a is not None else ''
            if 'temp_directory' in txt and 'session_dir' in txt:
                return [('op', 'setTemp')]
            return [('op', 'configure')]
        if nm == 'register_regex_functions':
            return [('op', 'registerUdf')]
        if nm == 'conn.close':
            return [('op', 'closeInner' if self.inlining else 'close')]
        if nm.endswith('.close'):
            return [('op', 'closeExtra')]
        if nm == 'shutil.rmtree':
            if not (c.args and ast.unparse(c.args[0]) == 'session_dir'):
                raise vlib.ShapeError('rmtree of something else than session_dir at line %d' % c.lineno)
            ign = any(k.arg == 'ignore_errors' and isinstance(k.value, ast.Constant) and k.value.value is True for k in c.keywords)
            if not ign:
                raise vlib.ShapeError('rmtree without ignore_errors=True (can raise) at line %d' % c.lineno)
            return [('op', 'rmtree')]
        raise vlib.ShapeError('unknown call %s at line %d' % (nm, c.lineno))

    def stmt(self, s):
        if isinstance(s, ast.Expr):
            v = s.value
            if isinstance(v, ast.Constant):
                return []                                   # docstring
            if isinstance(v, ast.Yield):
                return [('body',)]
            if isinstance(v, ast.Call):
                if _call_name(v) in PURE_CALLS:
                    return []
                return self.call(v)
            raise vlib.ShapeError('unknown expression statement at line %d' % s.lineno)
        if isinstance(s, (ast.Assign, ast.AnnAssign)):
            tgt = s.targets[0] if isinstance(s, ast.Assign) else s.target
            val = s.value
            tname = tgt.id if isinstance(tgt, ast.Name) else None
            if isinstance(val, ast.Constant) and val.value is None and tname == 'conn':
                return [('op', 'bindNone')]
            if isinstance(val, ast.Call) and not self.pure_expr(val):
                return self.call(val, target=tname)
            if self.pure_expr(val):
                return []
            raise vlib.ShapeError('unknown assignment at line %d' % s.lineno)
        if isinstance(s, ast.Return):
            if s.value is None or self.pure_expr(s.value):
                return []
            raise vlib.ShapeError('return with effects at line %d' % s.lineno)
        if isinstance(s, ast.Global):
            return []
        if isinstance(s, ast.If):
            t = ast.unparse(s.test)
            if t == 'conn is not None' and not s.orelse:
                return [('ifConn', self.stmts(s.body))]
            if 'database' in t and '_use_in_memory_db' in t and not s.orelse:
                inner = self.stmts(s.body)
                if inner:
                    raise vlib.ShapeError('effects inside the database-choice `if` at line %d' % s.lineno)
                return [('op', 'chooseDb')]
            # configuration-only branches (building the list of SET statements)
            if self.pure_expr(s.test) and not self.stmts(s.body) and not self.stmts(s.orelse):
                return []
            raise vlib.ShapeError('unknown `if` at line %d: %s' % (s.lineno, t))
        if isinstance(s, ast.Try):
            if s.orelse:
                raise vlib.ShapeError('try/else at line %d' % s.lineno)
            body = self.stmts(s.body)
            if s.handlers:
                if len(s.handlers) != 1:
                    raise vlib.ShapeError('several except clauses at line %d' % s.lineno)
                h = s.handlers[0]
                ht = ast.unparse(h.type) if h.type is not None else 'BaseException'
                if ht not in ('BaseException', 'Exception'):
                    raise vlib.ShapeError('except %s at line %d' % (ht, s.lineno))
                if not (h.body and isinstance(h.body[-1], ast.Raise) and h.body[-1].exc is None):
                    raise vlib.ShapeError('except clause that does not re-raise at line %d' % s.lineno)
                body = [('tryExcept', body, self.stmts(h.body[:-1]))]
            if s.finalbody:
                return [('tryFinally', body, self.stmts(s.finalbody))]
            return body
        if isinstance(s, ast.Pass):
            return []
        raise vlib.ShapeError('unknown statement %s at line %d' % (type(s).__name__, s.lineno))


def _has_body(items):
    for it in items:
        if it[0] == 'body':
            return True
        if it[0] in ('tryFinally', 'tryExcept') and (_has_body(it[1]) or _has_body(it[2])):
            return True
        if it[0] == 'ifConn' and _has_body(it[1]):
            return True
    return False


def lean_prog(items):
    if not items:
        return '.skip'
    parts = [lean_item(i) for i in items]
    return 'seqs [' + ', '.join(parts) + ']' if len(parts) > 1 else parts[0]


def lean_item(it):
    k = it[0]
    if k == 'op': return '.op .' + it[1]
    if k == 'ev': return '.ev ' + vlib.lean_str(it[1])
    if k == 'body': return '.body'
    if k == 'tryFinally': return '(.tryFinally (%s) (%s))' % (lean_prog(it[1]), lean_prog(it[2]))
    if k == 'tryExcept': return '(.tryExcept (%s) (%s))' % (lean_prog(it[1]), lean_prog(it[2]))
    if k == 'ifConn': return '(.ifConn (%s))' % lean_prog(it[1])
    raise vlib.ShapeError('internal: ' + repr(it))


def flat_events(items):
    """names of the hook events in program order (for the harness: fault index -> event name)."""
    out = []
    for it in items:
        if it[0] == 'ev': out.append(it[1])
        elif it[0] == 'body': out.append('<body>')
        elif it[0] in ('tryFinally', 'tryExcept'): out += flat_events(it[1]) + flat_events(it[2])
        elif it[0] == 'ifConn': out += flat_events(it[1])
    return out


def translate(repo):
    path, src = _src(repo)
    tree = ast.parse(src)
    fn = _fn(tree, 'configured_connection')
    if not any(isinstance(d, ast.Name) and d.id == 'contextmanager' for d in fn.decorator_list):
        raise vlib.ShapeError('configured_connection is not a @contextmanager')
    items = Tr(tree).stmts(fn.body)
    # split at the first top-level item that contains the yield
    cut = None
    for i, it in enumerate(items):
        if _has_body([it]):
            cut = i
            break
    if cut is None:
        raise vlib.ShapeError('configured_connection has no yield')
    pre, main = items[:cut], items[cut:]
    text = ('import VtlModel.Session.Bracket\n'
            'namespace VtlModel.Gen.Bracket\nopen VtlModel.Session\n\n'
            '/-- everything `configured_connection` does before the statement that contains the `yield` -/\n'
            'def pre : Prog := %s\n\n'
            '/-- the statement that contains the `yield`, and whatever follows it -/\n'
            'def main : Prog := %s\n\n'
            'def prog : Prog := .seq pre main\n\n'
            'end VtlModel.Gen.Bracket\n') % (lean_prog(pre), lean_prog(main))
    return {'text': text, 'pre': pre, 'main': main, 'pre_events': flat_events(pre), 'main_events': flat_events(main),
            'yield_in_try': bool(main) and main[0][0] == 'tryFinally' and _has_body(main[0][1])}


if __name__ == '__main__':
    r = translate(vlib.REPO)
    print(r['text'])
    print(r['pre_events'], r['main_events'], r['yield_in_try'])

"""C22 translator `effects`: Python-`ast` alias-flow pass over src/vtlengine  ->  Gen/Effects.lean.

What is emitted is a *graph*, not a verdict: nodes are (definition of a variable, level) pairs, edges say
"the value of this definition may flow into that one", and some nodes are in-place mutation sites.  Whether
a mutation site is reachable from a parameter of a public API function is decided in Lean
(Tables/Flow.lean + Props/C22.lean), not here.  (The only graph computation done here is pruning to the
forward closure of the API parameters, re-checked in Lean by `graph_closed`.)

Abstraction
  * definition = one binding of a local name (parameter, assignment target, loop/with/comprehension target,
    weak update by a store) identified by function + name + source position; uses are connected to their
    *reaching* definitions (flow-sensitive inside a function: `data = data.fillna(...)` starts a new
    definition that the earlier `data` does not reach);
  * level n (0..3) = "n fresh containers around an object the caller owns".  level 0 = the caller's own
    object (or a mutable member of it).  projection (`x[k]`, `x.a`, iteration, `.get/.items/.values`) lowers
    the level (0 stays 0), construction of a new container around values (literals, comprehensions,
    `dict(x)`, `list(x)`, `.copy()`, constructor calls, stores `c[k] = v`) raises it.  `copy.deepcopy`,
    `json.load(s)`, `pd.DataFrame(..)`, pandas methods that return new frames (`rename`, `fillna`, `astype`,
    `drop` without inplace, ...) and every call into code outside the package return level-free values
    (= cut the flow);
  * a mutation site is an in-place operation whose *receiver* may be at level 0: assignment / deletion
    through a subscript or an attribute, augmented assignment, `.update/.append/.pop/.setdefault/.clear/
    .sort/.insert/.extend/.remove/.add/.popitem/.reverse/.discard`, any call with `inplace=True`;
  * calls to functions, classmethods, constructors and methods of the package are followed
    (arguments -> parameters, return value -> call result; `getattr(self, "visit_…")` dispatch goes to every
    `visit_*` method of the class and its subclasses; `obj.m(..)` with unknown class goes to every package
    method called `m`);  parameters annotated with immutable types only (str, int, bool, float, Path, …)
    are not tracked.
Not visible to this pass (stated in the evidence; the dynamic snapshots are the counter-measure):
  C-level mutation inside pandas / DuckDB / pysdmx / jsonschema, aliasing through module globals, closures.
"""
from __future__ import annotations

import ast
import os
import sys

sys.path.insert(0, os.path.join(os.path.dirname(os.path.abspath(__file__)), '..'))
import vlib  # noqa: E402

SE = vlib.ShapeError
MAXL = 3
API_FUNCS = ['run', 'run_sdmx', 'semantic_analysis', 'validate_dataset', 'prettify', 'generate_sdmx']
API_FILE = 'API/__init__.py'

# ---- level maps: tuple of frozensets, index = input level, value = possible output levels
EMPTY = tuple(frozenset() for _ in range(MAXL + 1))
IDENT = tuple(frozenset([n]) for n in range(MAXL + 1))
PROJ = tuple(frozenset([0]) if n == 0 else (frozenset([n - 1, n]) if n == MAXL else frozenset([n - 1])) for n in range(MAXL + 1))
WRAP = tuple(frozenset([min(n + 1, MAXL)]) for n in range(MAXL + 1))


def compose(f, g):
    """first f then g"""
    return tuple(frozenset(m2 for m in f[n] for m2 in g[m]) for n in range(MAXL + 1))


def union(f, g):
    return tuple(f[n] | g[n] for n in range(MAXL + 1))


SHALLOW = compose(PROJ, WRAP)


class Flow(dict):
    """(def id, budget) -> level map.  budget = remaining mutable depth of the level-0 object (None = unbounded):
    a parameter annotated Dict[str, str] has budget 1 — projecting a level-0 value with budget 1 yields an
    immutable value, which carries nothing."""
    def add(self, d, f, budget=None):
        k = (d, budget)
        self[k] = union(self.get(k, EMPTY), f)

    def merge(self, other):
        for (d, r), f in other.items(): self.add(d, f, r)
        return self

    def wrap(self):
        out = Flow()
        for (d, r), f in self.items(): out.add(d, compose(f, WRAP), r)
        return out

    def proj(self):
        out = Flow()
        for (d, r), f in self.items():
            f0 = tuple(frozenset([0]) if 0 in f[n] else frozenset() for n in range(MAXL + 1))
            fp = tuple(f[n] - {0} for n in range(MAXL + 1))
            if any(fp): out.add(d, compose(fp, PROJ), r)
            if any(f0):
                if r is None: out.add(d, f0, None)
                elif r - 1 > 0: out.add(d, f0, r - 1)
        return out

    def shallow(self):
        return self.proj().wrap()

    def maps(self):
        """def id -> level map (budgets forgotten)"""
        out = {}
        for (d, r), f in self.items():
            out[d] = union(out.get(d, EMPTY), f)
        return out


def mutable_depth(a):
    """how many levels of mutable containers an annotation allows: 0 = immutable, None = unknown / unbounded"""
    if a is None: return None
    if is_immutable_annotation(a): return 0
    if isinstance(a, ast.Subscript):
        base = a.value.id if isinstance(a.value, ast.Name) else (a.value.attr if isinstance(a.value, ast.Attribute) else None)
        elts = a.slice.elts if isinstance(a.slice, ast.Tuple) else [a.slice]
        if base in ('Optional', 'Union'):
            ds = [mutable_depth(e) for e in elts]
            return None if any(d is None for d in ds) else max(ds)
        if base in ('Dict', 'dict', 'Mapping'):
            d = mutable_depth(elts[-1]) if len(elts) == 2 else None
            return None if d is None else d + 1
        if base in ('List', 'list', 'Sequence', 'Set', 'set', 'Tuple', 'tuple', 'Iterable'):
            ds = [mutable_depth(e) for e in elts if not (isinstance(e, ast.Constant) and e.value is Ellipsis)]
            return None if any(d is None for d in ds) else 1 + max(ds or [0])
    return None


MUTATORS = {'update', 'append', 'pop', 'popitem', 'setdefault', 'clear', 'sort', 'insert', 'extend', 'remove', 'reverse',
            'add', 'discard', 'appendleft', 'popleft', 'difference_update', 'intersection_update', 'symmetric_difference_update'}
STORING = {'update': SHALLOW, 'extend': SHALLOW, 'append': WRAP, 'insert': WRAP, 'add': WRAP, 'setdefault': WRAP}
# methods whose result is a projection of the receiver
PROJ_METHODS = {'get': PROJ, 'pop': PROJ, 'setdefault': PROJ, 'popitem': SHALLOW, 'items': SHALLOW, 'values': SHALLOW, 'keys': SHALLOW,
                'copy': SHALLOW, '__getitem__': PROJ, 'iloc': PROJ, 'loc': PROJ}
# builtins / helpers that build a new container around the elements of their argument(s)
SHALLOW_FUNCS = {'dict', 'list', 'tuple', 'set', 'frozenset', 'sorted', 'reversed', 'enumerate', 'zip', 'iter', 'filter', 'map'}
ALIAS_FUNCS = {'cast'}             # typing.cast(T, x) is x
# external methods (pandas, str, Path, duckdb, …) that return a new object and leave the receiver alone.
# This list is an assumption about libraries outside the package and is reported in the evidence.
FRESH_METHODS = {
    'rename', 'fillna', 'astype', 'map', 'replace', 'drop', 'dropna', 'reset_index', 'duplicated', 'isnull', 'isna', 'notna',
    'any', 'all', 'tolist', 'to_dict', 'to_list', 'lower', 'upper', 'strip', 'split', 'join', 'format', 'removeprefix',
    'removesuffix', 'startswith', 'endswith', 'exists', 'is_dir', 'is_file', 'iterdir', 'read', 'readline', 'execute',
    'fetchall', 'fetchone', 'fetchdf', 'sql', 'table', 'register', 'unregister', 'count', 'index', 'capitalize', 'encode',
    'decode', 'as_posix', 'mkdir', 'open', 'write', 'writerow', 'close', 'idxmax', 'apply', 'sum', 'min', 'max', 'head',
    'sort_values', 'merge', 'groupby', 'agg', 'unique', 'nunique', 'isin', 'where', 'mask', 'round', 'abs', 'lstrip', 'rstrip',
    'zfill', 'title', 'isdigit', 'find', 'rfind', 'partition', 'rpartition', 'splitlines', 'with_suffix', 'resolve', 'glob',
    'sniff', 'check', 'cast', 'validate_duration', 'dtype', 'total_seconds', 'isoformat', 'strftime', 'date', 'item',
    'warn', 'filterwarnings', 'collect', 'validate', 'match', 'fullmatch', 'search', 'sub', 'group', 'groups', 'fromkeys',
}


def is_immutable_annotation(a):
    if a is None: return False
    if isinstance(a, ast.Constant): return a.value is None or isinstance(a.value, str) and a.value in ('str', 'int', 'bool', 'float', 'Path')
    if isinstance(a, ast.Name): return a.id in ('str', 'int', 'bool', 'float', 'bytes', 'Path', 'None', 'complex')
    if isinstance(a, ast.Attribute): return a.attr in ('Path',)
    if isinstance(a, ast.Subscript):
        base = a.value.id if isinstance(a.value, ast.Name) else (a.value.attr if isinstance(a.value, ast.Attribute) else None)
        if base == 'Literal': return True
        if base in ('Optional', 'Union'):
            elts = a.slice.elts if isinstance(a.slice, ast.Tuple) else [a.slice]
            return all(is_immutable_annotation(e) for e in elts)
        return False
    if isinstance(a, ast.BinOp) and isinstance(a.op, ast.BitOr):
        return is_immutable_annotation(a.left) and is_immutable_annotation(a.right)
    return False


class Func:
    def __init__(self, fid, node, module, cls):
        self.fid, self.node, self.module, self.cls = fid, node, module, cls
        a = node.args
        self.params = [p.arg for p in a.posonlyargs + a.args]
        self.kwonly = [p.arg for p in a.kwonlyargs]
        self.vararg = a.vararg.arg if a.vararg else None
        self.kwarg = a.kwarg.arg if a.kwarg else None
        self.annot = {p.arg: p.annotation for p in a.posonlyargs + a.args + a.kwonlyargs}
        decos = [ast.unparse(d) for d in node.decorator_list]
        self.is_classmethod = 'classmethod' in decos
        self.is_static = 'staticmethod' in decos
        self.is_property = 'property' in decos

    def tracked(self, p):
        return not is_immutable_annotation(self.annot.get(p))


class Program:
    def __init__(self, repo):
        self.root = os.path.join(repo, 'src', 'vtlengine')
        self.modules = {}     # relpath -> ast.Module
        self.funcs = {}       # fid -> Func
        self.mod_funcs = {}   # relpath -> {name: fid}
        self.classes = {}     # (relpath, clsname) -> {'methods': {name: fid}, 'bases': [names], 'node': ...}
        self.mod_classes = {} # relpath -> {name: (relpath, clsname)}
        self.imports = {}     # relpath -> {local name: ('mod', relpath) | ('sym', relpath, name) | ('ext', dotted)}
        for dp, dn, fn in os.walk(self.root):
            dn[:] = [d for d in dn if d != '__pycache__']
            for f in fn:
                if f.endswith('.py'):
                    p = os.path.join(dp, f)
                    rel = os.path.relpath(p, self.root)
                    try:
                        self.modules[rel] = ast.parse(open(p, encoding='utf-8').read())
                    except SyntaxError as e:
                        raise SE('cannot parse %s: %s' % (rel, e))
        for rel, tree in self.modules.items():
            self._index(rel, tree)
        for rel, tree in self.modules.items():
            self._imports(rel, tree)
        self.methods_by_name = {}
        for key, c in self.classes.items():
            for m, fid in c['methods'].items():
                self.methods_by_name.setdefault(m, []).append(fid)
        # attributes: which classes declare an attribute (class-body field, or `self.x = …` in one of its methods),
        # and the annotation of the declaration when there is one
        self.root_of = {k: self._root(k) for k in self.classes}
        self.fields = {}        # class key -> ordered dataclass-style fields (class-body annotated names, bases first)
        self.attr_decl = {}     # attribute name -> set of declaring class keys
        self.attr_ann = {}      # (class key, attr) -> annotation AST (class body / annotated self.x) or None
        for key, c in self.classes.items():
            c['own_fields'] = [n.target.id for n in c['node'].body if isinstance(n, ast.AnnAssign) and isinstance(n.target, ast.Name)]
            decl = {}
            for n in c['node'].body:
                if isinstance(n, ast.AnnAssign) and isinstance(n.target, ast.Name): decl[n.target.id] = n.annotation
                elif isinstance(n, ast.Assign):
                    for t in n.targets:
                        if isinstance(t, ast.Name): decl.setdefault(t.id, None)
            for m in c['node'].body:
                if isinstance(m, (ast.FunctionDef, ast.AsyncFunctionDef)):
                    for n in ast.walk(m):
                        if isinstance(n, ast.AnnAssign) and isinstance(n.target, ast.Attribute) and isinstance(n.target.value, ast.Name) \
                                and n.target.value.id == 'self':
                            if decl.get(n.target.attr) is None: decl[n.target.attr] = n.annotation
                        elif isinstance(n, ast.Attribute) and isinstance(n.value, ast.Name) and n.value.id == 'self' and isinstance(n.ctx, ast.Store):
                            decl.setdefault(n.attr, None)
                    if any(ast.unparse(d) == 'property' for d in m.decorator_list): decl.setdefault(m.name, None)
            for a_, ann in decl.items():
                self.attr_decl.setdefault(a_, set()).add(key)
                self.attr_ann[(key, a_)] = ann
        for key in self.classes:
            self.fields[key] = self._fields(key, set())

    def attr_budget(self, cls, attr):
        """0 = the declaration is annotated immutable; n = finite mutable depth; None = unknown"""
        return mutable_depth(self.attr_ann.get((cls, attr)))

    def attr_classes(self, attr, recv):
        """declaring classes whose attribute node an access `x.attr` may touch; recv = (class, exact) or None"""
        decl = self.attr_decl.get(attr, ())
        if not decl: return []
        if recv is None: return sorted(decl)
        k, exact = recv
        out = [c for c in self.mro(k) if c in decl]
        if not exact:
            out += [c for c in sorted(self.subclasses(k)) if c in decl and c not in out]
        return out

    def field_class(self, key, field):
        """class in the MRO of key whose body declares dataclass field `field`"""
        for c in self.mro(key):
            if field in self.classes[c]['own_fields']: return c
        return key

    def mro(self, key):
        out, todo = [], [key]
        while todo:
            k = todo.pop(0)
            if k in out or k not in self.classes: continue
            out.append(k)
            for b in self.classes[k]['bases']:
                r = self.resolve_symbol(k[0], b)
                if r and r[0] == 'class': todo.append(r[1])
        return out

    def _root(self, key, seen=None):
        seen = seen or set()
        if key in seen: return key
        seen.add(key)
        for b in self.classes[key]['bases']:
            r = self.resolve_symbol(key[0], b)
            if r and r[0] == 'class' and r[1] in self.classes:
                return self._root(r[1], seen)
        return key

    def _fields(self, key, seen):
        if key in seen: return []
        seen.add(key)
        out = []
        for b in self.classes[key]['bases']:
            r = self.resolve_symbol(key[0], b)
            if r and r[0] == 'class' and r[1] in self.classes:
                out += self._fields(r[1], seen)
        for f in self.classes[key]['own_fields']:
            if f not in out: out.append(f)
        return out

    def has_dispatch(self, fid):
        """does this method dispatch through getattr(self, …)?"""
        for n in ast.walk(self.funcs[fid].node):
            if isinstance(n, ast.Call) and isinstance(n.func, ast.Name) and n.func.id == 'getattr' and n.args \
                    and isinstance(n.args[0], ast.Name) and n.args[0].id == 'self':
                return True
        return False

    def _index(self, rel, tree):
        self.mod_funcs[rel], self.mod_classes[rel] = {}, {}
        for n in tree.body:
            if isinstance(n, (ast.FunctionDef, ast.AsyncFunctionDef)):
                fid = '%s:%s' % (rel, n.name)
                self.funcs[fid] = Func(fid, n, rel, None)
                self.mod_funcs[rel][n.name] = fid
            elif isinstance(n, ast.ClassDef):
                key = (rel, n.name)
                meths = {}
                for m in n.body:
                    if isinstance(m, (ast.FunctionDef, ast.AsyncFunctionDef)):
                        mname = m.name + ('.setter' if any(ast.unparse(d).endswith('.setter') for d in m.decorator_list) else '')
                        fid = '%s:%s.%s' % (rel, n.name, mname)
                        self.funcs[fid] = Func(fid, m, rel, key)
                        meths[mname] = fid
                self.classes[key] = {'methods': meths, 'bases': [ast.unparse(b).split('.')[-1] for b in n.bases], 'node': n}
                self.mod_classes[rel][n.name] = key

    def _modpath(self, dotted):
        """vtlengine.a.b -> relpath of module file, or None"""
        parts = dotted.split('.')
        if parts[0] != 'vtlengine': return None
        parts = parts[1:]
        cand = [os.path.join(*parts) + '.py' if parts else None, os.path.join(*(parts + ['__init__.py']))]
        for c in cand:
            if c and c in self.modules: return c
        return None

    def _imports(self, rel, tree):
        imp = {}
        pkg_parts = ['vtlengine'] + (os.path.dirname(rel).split(os.sep) if os.path.dirname(rel) else [])
        for n in ast.walk(tree):
            if isinstance(n, ast.ImportFrom):
                if n.level:
                    base = pkg_parts[:len(pkg_parts) - (n.level - 1)]
                    dotted = '.'.join(base + (n.module.split('.') if n.module else []))
                else:
                    dotted = n.module or ''
                mp = self._modpath(dotted)
                for al in n.names:
                    local = al.asname or al.name
                    if mp is None:
                        if dotted.startswith('vtlengine'):
                            sub = self._modpath(dotted + '.' + al.name)
                            imp[local] = ('mod', sub) if sub else ('ext', dotted + '.' + al.name)
                        else:
                            imp[local] = ('ext', dotted + '.' + al.name)
                    else:
                        sub = self._modpath(dotted + '.' + al.name)
                        imp[local] = ('mod', sub) if sub and al.name not in self.mod_funcs[mp] and al.name not in self.mod_classes[mp] else ('sym', mp, al.name)
            elif isinstance(n, ast.Import):
                for al in n.names:
                    mp = self._modpath(al.name)
                    local = al.asname or al.name.split('.')[0]
                    imp[local] = ('mod', mp) if mp and al.asname else ('ext', al.name)
        self.imports[rel] = imp

    def resolve_symbol(self, rel, name, depth=0):
        """-> ('func', fid) | ('class', key) | ('mod', relpath) | None, following re-exports"""
        if depth > 6: return None
        if name in self.mod_funcs.get(rel, {}): return ('func', self.mod_funcs[rel][name])
        if name in self.mod_classes.get(rel, {}): return ('class', self.mod_classes[rel][name])
        i = self.imports.get(rel, {}).get(name)
        if i is None: return None
        if i[0] == 'mod': return ('mod', i[1]) if i[1] else None
        if i[0] == 'sym': return self.resolve_symbol(i[1], i[2], depth + 1)
        return ('ext', i[1])

    def class_method(self, key, name, seen=None):
        """method lookup through package base classes"""
        seen = seen or set()
        if key in seen or key not in self.classes: return None
        seen.add(key)
        c = self.classes[key]
        if name in c['methods']: return c['methods'][name]
        for b in c['bases']:
            r = self.resolve_symbol(key[0], b)
            if r and r[0] == 'class':
                m = self.class_method(r[1], name, seen)
                if m: return m
        return None

    def subclasses(self, key):
        out, changed = {key}, True
        while changed:
            changed = False
            for k, c in self.classes.items():
                if k in out: continue
                for b in c['bases']:
                    r = self.resolve_symbol(k[0], b)
                    if r and r[0] == 'class' and r[1] in out:
                        out.add(k); changed = True; break
        return out


class Builder:
    """Builds the definition graph for the whole package."""
    def __init__(self, prog):
        self.p = prog
        self.edges = {}        # (def, level) -> set((def, level))
        self.def_info = {}     # def id -> description
        self.mut = {}          # mutation node id -> info dict
        self.ext_calls = {}    # (callee text) -> list of (site, Flow) : external callees that receive tracked values
        self.analysed = set()
        self.def_budget = {}   # param def -> finite mutable depth from its annotation

    # -- graph primitives
    def edge_flow(self, flow, dst):
        for d, f in flow.maps().items():
            for n in range(MAXL + 1):
                for m in f[n]:
                    self.edges.setdefault((d, n), set()).add((dst, m))

    def new_def(self, fid, name, node, kind='def'):
        d = '%s|%s|%d:%d|%s' % (fid, name, getattr(node, 'lineno', 0), getattr(node, 'col_offset', 0), kind)
        self.def_info[d] = {'func': fid, 'var': name, 'line': getattr(node, 'lineno', 0), 'kind': kind}
        return d

    def param_def(self, fid, name):
        d = '%s|%s|param' % (fid, name)
        self.def_info.setdefault(d, {'func': fid, 'var': name, 'line': self.p.funcs[fid.split('@')[0]].node.lineno, 'kind': 'param'})
        return d

    def attr_def(self, root, attr):
        d = 'ATTR|%s:%s|%s' % (root[0], root[1], attr)
        self.def_info.setdefault(d, {'func': '%s:%s' % root, 'var': '.' + attr, 'line': 0, 'kind': 'attr'})
        return d

    def ret_def(self, fid):
        d = '%s|<return>' % fid
        self.def_info.setdefault(d, {'func': fid, 'var': '<return>', 'line': self.p.funcs[fid.split('@')[0]].node.lineno, 'kind': 'return'})
        return d

    def mutation(self, fid, node, kind, flow, text):
        if not flow: return
        m = 'MUT|%s|%d:%d|%s' % (fid, node.lineno, node.col_offset, kind)
        if m not in self.mut:
            self.mut[m] = {'func': fid, 'line': node.lineno, 'kind': kind, 'text': text[:100]}
        for d, f in flow.maps().items():
            for n in range(MAXL + 1):
                if 0 in f[n]:
                    self.edges.setdefault((d, n), set()).add((m, 0))

    def request(self, fid, ctx):
        """analysis key of function fid specialised for the exact receiver class ctx (None = generic)"""
        fn = self.p.funcs[fid]
        if ctx is not None and (fn.cls is None or fn.is_static): ctx = None
        key = fid if ctx is None else '%s@%s:%s' % (fid, ctx[0], ctx[1])
        if key not in self.requested:
            self.requested[key] = (fid, ctx)
            self.worklist.append(key)
        return key

    def build_from(self, roots):
        self.requested, self.worklist = {}, []
        for fid in roots: self.request(fid, None)
        while self.worklist:
            key = self.worklist.pop()
            fid, ctx = self.requested[key]
            FuncAnalysis(self, self.p.funcs[fid], key, ctx).run()


class FuncAnalysis:
    def __init__(self, b, func, key=None, ctx=None):
        self.b, self.p, self.f = b, b.p, func
        self.fid = key or func.fid      # analysis key: node ids of this (specialised) function use it
        self.ctx = ctx                  # exact class of `self`, when the function was requested for one
        self.getattr_vars = {}   # local var bound to getattr(self, "prefix…") -> prefix
        self._pending = []
        self.local_class = {}    # local var -> class key when it is only ever bound to a constructor call of that class
        self._infer_local_classes()

    def _infer_local_classes(self):
        seen = {}
        for n in ast.walk(self.f.node):
            if isinstance(n, ast.Assign) and len(n.targets) == 1 and isinstance(n.targets[0], ast.Name):
                v, k = n.targets[0].id, None
                if isinstance(n.value, ast.Call):
                    fn = n.value.func
                    r = None
                    if isinstance(fn, ast.Name): r = self.p.resolve_symbol(self.f.module, fn.id)
                    elif isinstance(fn, ast.Attribute) and isinstance(fn.value, ast.Name):
                        rm = self.p.resolve_symbol(self.f.module, fn.value.id)
                        if rm and rm[0] == 'mod': r = self.p.resolve_symbol(rm[1], fn.attr)
                    if r and r[0] == 'class': k = r[1]
                seen.setdefault(v, set()).add(k)
            elif isinstance(n, (ast.For, ast.comprehension)):
                for t in ast.walk(n.target):
                    if isinstance(t, ast.Name): seen.setdefault(t.id, set()).add(None)
            elif isinstance(n, (ast.AugAssign, ast.AnnAssign)) and isinstance(n.target, ast.Name):
                seen.setdefault(n.target.id, set()).add(None)
            elif isinstance(n, ast.withitem) and n.optional_vars is not None:
                for t in ast.walk(n.optional_vars):
                    if isinstance(t, ast.Name): seen.setdefault(t.id, set()).add(None)
        allp = set(self.f.params + self.f.kwonly)
        for v, ks in seen.items():
            if len(ks) == 1 and None not in ks and v not in allp:
                self.local_class[v] = next(iter(ks))

    # ---- environment = var -> frozenset(def ids)
    def run(self):
        env = {}
        fn = self.f
        allp = fn.params + fn.kwonly + ([fn.vararg] if fn.vararg else []) + ([fn.kwarg] if fn.kwarg else [])
        for p in allp:
            if fn.tracked(p):
                d = self.b.param_def(self.fid, p)
                env[p] = frozenset([d])
                bd = mutable_depth(fn.annot.get(p))
                if bd is not None: self.b.def_budget[d] = bd
        self.block(fn.node.body, env)

    @staticmethod
    def join(e1, e2):
        out = dict(e1)
        for k, v in e2.items():
            out[k] = out.get(k, frozenset()) | v
        return out

    def block(self, stmts, env):
        for st in stmts:
            env = self.stmt(st, env)
        return env

    # ---- receivers / classes
    def recv_class(self, base):
        """(class key, exact?) of the object denoted by `base`, or None"""
        if isinstance(base, ast.Name):
            if base.id in ('self', 'cls') and self.f.cls and not self.f.is_static:
                return (self.ctx, True) if self.ctx is not None else (self.f.cls, False)
            if base.id in self.local_class: return (self.local_class[base.id], True)
        return None

    def attr_candidates(self, base, attr):
        return self.p.attr_classes(attr, self.recv_class(base))

    def attr_tracked(self, cls, attr):
        return self.p.attr_budget(cls, attr) != 0

    def attr_load(self, e, env):
        recv = self.expr(e.value, env)
        out = recv.proj()
        k = self.recv_class(e.value)
        for r in self.attr_candidates(e.value, e.attr):
            if self.attr_tracked(r, e.attr):
                out.add(self.b.attr_def(r, e.attr), IDENT, self.p.attr_budget(r, e.attr))
        # properties: the getter's return value
        keys = [k] if k is not None else [(c, False) for c in self.p.classes if e.attr in self.p.classes[c]['methods']]
        for c, exact in keys:
            fid = self.p.class_method(c, e.attr)
            if fid and self.p.funcs[fid].is_property:
                out.merge(self.bind_call(fid, recv, [], [], True, ctx=c if exact else None))
        return out

    def store_into(self, cont, w, env, node):
        """value flow `w` (already wrapped once) is stored inside the container denoted by expression `cont`"""
        if not w: return env
        if isinstance(cont, ast.Name):
            return self.weak_update(cont.id, w, env, node)
        if isinstance(cont, ast.Attribute):
            cands = self.attr_candidates(cont.value, cont.attr)
            if cands:
                for r in cands:
                    if self.attr_tracked(r, cont.attr): self.b.edge_flow(w, self.b.attr_def(r, cont.attr))
                return env
            return self.store_into(cont.value, w.wrap(), env, node)
        if isinstance(cont, ast.Subscript):
            return self.store_into(cont.value, w.wrap(), env, node)
        return env

    def bind(self, target, flow, env, node):
        """bind an assignment target to a value flow; returns env"""
        if isinstance(target, ast.Name):
            d = self.b.new_def(self.fid, target.id, target if hasattr(target, 'lineno') else node)
            self.b.edge_flow(flow, d)
            env = dict(env); env[target.id] = frozenset([d])
            return env
        if isinstance(target, (ast.Tuple, ast.List)):
            for el in target.elts:
                if isinstance(el, ast.Starred):
                    env = self.bind(el.value, flow, env, node)      # rest keeps container level
                else:
                    env = self.bind(el, flow.proj(), env, node)
            return env
        if isinstance(target, ast.Subscript):
            self.b.mutation(self.fid, target, 'store', self.expr(target.value, env), ast.unparse(target) + ' = …')
            self.expr(target.slice, env)
            return self.store_into(target.value, flow.wrap(), env, target)
        if isinstance(target, ast.Attribute):
            recv = self.expr(target.value, env)
            self.b.mutation(self.fid, target, 'store', recv, ast.unparse(target) + ' = …')
            cands = self.attr_candidates(target.value, target.attr)
            k = self.recv_class(target.value)
            keys = [k] if k is not None else [(c, False) for c in self.p.classes if (target.attr + '.setter') in self.p.classes[c]['methods']]
            for c, exact in keys:
                fid = self.p.class_method(c, target.attr + '.setter')
                if fid: self.bind_call(fid, recv, [flow], [], True, ctx=c if exact else None)
            if cands:
                for r in cands:
                    if self.attr_tracked(r, target.attr): self.b.edge_flow(flow, self.b.attr_def(r, target.attr))
                return env
            return self.store_into(target.value, flow.wrap(), env, target)
        if isinstance(target, ast.Starred):
            return self.bind(target.value, flow, env, node)
        raise SE('unknown assignment target %s in %s' % (ast.dump(target)[:60], self.fid))

    def weak_update(self, name, extra, env, node):
        if not extra: return env
        d = self.b.new_def(self.fid, name, node, 'upd')
        old = Flow()
        for o in env.get(name, ()): old.add(o, IDENT)
        self.b.edge_flow(old, d)
        self.b.edge_flow(extra, d)
        env = dict(env); env[name] = frozenset([d])
        return env

    def stmt(self, st, env):
        b = self.b
        if isinstance(st, ast.Assign):
            flow = self.expr(st.value, env)
            env = self._apply_pending(env)
            self.note_getattr(st)
            for t in st.targets:
                env = self.bind(t, flow, env, st)
            return env
        if isinstance(st, ast.AnnAssign):
            if st.value is None: return env
            flow = self.expr(st.value, env)
            env = self._apply_pending(env)
            return self.bind(st.target, flow, env, st)
        if isinstance(st, ast.AugAssign):
            vflow = self.expr(st.value, env)
            env = self._apply_pending(env)
            scalar_rhs = isinstance(st.value, (ast.JoinedStr, ast.Constant)) or \
                (isinstance(st.value, ast.BinOp) and isinstance(st.value.left, (ast.JoinedStr, ast.Constant)))
            if isinstance(st.target, ast.Name):
                if scalar_rhs:      # `s += "text"` / `n += 1`: str and numbers are immutable, the name is re-bound
                    return self.bind(st.target, Flow(), env, st)
                tflow = self.expr(ast.Name(id=st.target.id, ctx=ast.Load()), env)
                b.mutation(self.fid, st, 'augassign', tflow, ast.unparse(st))
                return self.weak_update(st.target.id, vflow.shallow(), env, st)
            return self.bind(st.target, vflow, env, st)
        if isinstance(st, ast.Delete):
            for t in st.targets:
                if isinstance(t, (ast.Subscript, ast.Attribute)):
                    b.mutation(self.fid, t, 'del', self.expr(t.value, env), 'del ' + ast.unparse(t))
            return self._apply_pending(env)
        if isinstance(st, ast.Expr):
            self.expr(st.value, env)
            return self._apply_pending(env)
        if isinstance(st, ast.Return):
            if st.value is not None:
                b.edge_flow(self.expr(st.value, env), b.ret_def(self.fid))
            return self._apply_pending(env)
        if isinstance(st, ast.If):
            self.expr(st.test, env)
            env = self._apply_pending(env)
            return self.join(self.block(st.body, env), self.block(st.orelse, env))
        if isinstance(st, (ast.For, ast.AsyncFor)):
            it = self.expr(st.iter, env)
            env = self._apply_pending(env)
            cur = env
            for _ in range(4):
                e1 = self.bind(st.target, it.proj(), cur, st)
                e2 = self.block(st.body, e1)
                nxt = self.join(cur, e2)
                if nxt == cur: break
                cur = nxt
                it = self.expr(st.iter, cur)
            return self.join(cur, self.block(st.orelse, cur))
        if isinstance(st, ast.While):
            cur = env
            for _ in range(4):
                self.expr(st.test, cur)
                e2 = self.block(st.body, self._apply_pending(cur))
                nxt = self.join(cur, e2)
                if nxt == cur: break
                cur = nxt
            return self.join(cur, self.block(st.orelse, cur))
        if isinstance(st, (ast.With, ast.AsyncWith)):
            for item in st.items:
                fl = self.expr(item.context_expr, env)
                env = self._apply_pending(env)
                if item.optional_vars is not None:
                    env = self.bind(item.optional_vars, fl, env, st)
            return self.block(st.body, env)
        if isinstance(st, ast.Try) or st.__class__.__name__ == 'TryStar':
            e_body = self.block(st.body, env)
            e_mid = self.join(env, e_body)
            outs = [self.block(st.orelse, e_body)]
            for h in st.handlers:
                eh = dict(e_mid)
                if h.name: eh[h.name] = frozenset()
                outs.append(self.block(h.body, eh))
            res = outs[0]
            for o in outs[1:]: res = self.join(res, o)
            if st.finalbody:
                res = self.block(st.finalbody, self.join(res, e_mid))
            return res
        if isinstance(st, ast.Raise):
            if st.exc is not None: self.expr(st.exc, env)
            return self._apply_pending(env)
        if isinstance(st, ast.Assert):
            self.expr(st.test, env)
            return self._apply_pending(env)
        if isinstance(st, (ast.FunctionDef, ast.AsyncFunctionDef, ast.ClassDef)):
            return env   # nested definitions are not followed (closures: see module docstring)
        if isinstance(st, (ast.Import, ast.ImportFrom, ast.Global, ast.Nonlocal, ast.Pass, ast.Break, ast.Continue)):
            return env
        if isinstance(st, ast.Match):
            self.expr(st.subject, env)
            res = env
            for c in st.cases:
                res = self.join(res, self.block(c.body, env))
            return res
        raise SE('unknown statement %s in %s' % (type(st).__name__, self.fid))

    # stores performed by mutator calls (`x.append(v)`) inside an expression are applied after the statement
    def _apply_pending(self, env):
        pend, self._pending = self._pending, []
        for cont, extra, node in pend:
            env = self.store_into(cont, extra, env, node)
        return env

    def note_getattr(self, st):
        v = st.value
        if isinstance(v, ast.Call) and isinstance(v.func, ast.Name) and v.func.id == 'getattr' and len(v.args) >= 2 \
                and isinstance(v.args[0], ast.Name) and v.args[0].id == 'self' and len(st.targets) == 1 and isinstance(st.targets[0], ast.Name):
            self.getattr_vars[st.targets[0].id] = self.const_prefix(v.args[1])

    def const_prefix(self, e, fnode=None):
        fnode = fnode or self.f.node
        if isinstance(e, ast.Constant) and isinstance(e.value, str): return e.value
        if isinstance(e, ast.JoinedStr) and e.values and isinstance(e.values[0], ast.Constant): return e.values[0].value
        if isinstance(e, ast.BinOp) and isinstance(e.op, ast.Add): return self.const_prefix(e.left, fnode)
        if isinstance(e, ast.Name):
            for n in ast.walk(fnode):
                if isinstance(n, ast.Assign) and len(n.targets) == 1 and isinstance(n.targets[0], ast.Name) and n.targets[0].id == e.id:
                    return self.const_prefix(n.value, fnode)
        return ''

    def dispatch_prefix_of(self, fid):
        node = self.p.funcs[fid].node
        for n in ast.walk(node):
            if isinstance(n, ast.Call) and isinstance(n.func, ast.Name) and n.func.id == 'getattr' and len(n.args) >= 2 \
                    and isinstance(n.args[0], ast.Name) and n.args[0].id == 'self':
                return self.const_prefix(n.args[1], node)
        return ''

    # ---- expressions: returns Flow of the value
    def expr(self, e, env):
        if e is None: return Flow()
        if isinstance(e, ast.Name):
            fl = Flow()
            for d in env.get(e.id, ()): fl.add(d, IDENT, self.b.def_budget.get(d))
            return fl
        if isinstance(e, ast.Constant): return Flow()
        if isinstance(e, ast.Attribute):
            return self.attr_load(e, env)
        if isinstance(e, ast.Subscript):
            self.expr(e.slice, env)
            return self.expr(e.value, env).proj()
        if isinstance(e, ast.Starred):
            return self.expr(e.value, env)
        if isinstance(e, (ast.List, ast.Tuple, ast.Set)):
            fl = Flow()
            for el in e.elts:
                if isinstance(el, ast.Starred): fl.merge(self.expr(el.value, env).shallow())
                else: fl.merge(self.expr(el, env).wrap())
            return fl
        if isinstance(e, ast.Dict):
            fl = Flow()
            for k, v in zip(e.keys, e.values):
                if k is None: fl.merge(self.expr(v, env).shallow())      # {**x}
                else:
                    self.expr(k, env)
                    fl.merge(self.expr(v, env).wrap())
            return fl
        if isinstance(e, (ast.ListComp, ast.SetComp, ast.GeneratorExp, ast.DictComp)):
            cenv = dict(env)
            for g in e.generators:
                it = self.expr(g.iter, cenv)
                cenv = self.bind(g.target, it.proj(), cenv, g.target)
                for c in g.ifs: self.expr(c, cenv)
            if isinstance(e, ast.DictComp):
                self.expr(e.key, cenv)
                return self.expr(e.value, cenv).wrap()
            return self.expr(e.elt, cenv).wrap()
        if isinstance(e, ast.BoolOp):
            fl = Flow()
            for v in e.values: fl.merge(self.expr(v, env))
            return fl
        if isinstance(e, ast.IfExp):
            self.expr(e.test, env)
            return self.expr(e.body, env).merge(self.expr(e.orelse, env))
        if isinstance(e, ast.BinOp):
            self.expr(e.left, env); self.expr(e.right, env)
            return Flow()     # a new object (str / number / Path arithmetic; list + list builds a new list)
        if isinstance(e, ast.UnaryOp):
            self.expr(e.operand, env); return Flow()
        if isinstance(e, ast.Compare):
            self.expr(e.left, env)
            for c in e.comparators: self.expr(c, env)
            return Flow()
        if isinstance(e, (ast.JoinedStr, ast.FormattedValue)):
            for v in ast.iter_child_nodes(e):
                if isinstance(v, ast.expr): self.expr(v, env)
            return Flow()
        if isinstance(e, ast.Lambda): return Flow()
        if isinstance(e, ast.NamedExpr):
            return self.expr(e.value, env)
        if isinstance(e, (ast.Await, ast.Yield, ast.YieldFrom)):
            fl = self.expr(e.value, env) if e.value is not None else Flow()
            self.b.edge_flow(fl.wrap(), self.b.ret_def(self.fid))
            return Flow()
        if isinstance(e, ast.Slice):
            for v in (e.lower, e.upper, e.step): self.expr(v, env)
            return Flow()
        if isinstance(e, ast.Call):
            return self.call(e, env)
        raise SE('unknown expression %s in %s' % (type(e).__name__, self.fid))

    # ---- calls
    def bind_call(self, fid, recv_flow, args, kwargs, skip_first, ctx=None):
        """edges from argument flows to the parameters of package function fid (specialised for the exact
        receiver class ctx when given); returns Flow of the result"""
        fn = self.p.funcs[fid]
        fid = self.b.request(fid, ctx)
        params = list(fn.params)
        if skip_first and params:
            first = params.pop(0)
            if recv_flow and fn.tracked(first):
                self.b.edge_flow(recv_flow, self.b.param_def(fid, first))
        for i, a in enumerate(args):
            if isinstance(a, tuple) and a[0] == 'star':
                for pn in params[i:]:
                    if fn.tracked(pn): self.b.edge_flow(a[1].proj(), self.b.param_def(fid, pn))
                if fn.vararg: self.b.edge_flow(a[1].shallow(), self.b.param_def(fid, fn.vararg))
                break
            if i < len(params):
                if fn.tracked(params[i]): self.b.edge_flow(a, self.b.param_def(fid, params[i]))
            elif fn.vararg:
                self.b.edge_flow(a.wrap(), self.b.param_def(fid, fn.vararg))
        for k, v in kwargs:
            if k is None:   # **kw
                for pn in params + fn.kwonly:
                    if fn.tracked(pn): self.b.edge_flow(v.proj(), self.b.param_def(fid, pn))
                if fn.kwarg: self.b.edge_flow(v.shallow(), self.b.param_def(fid, fn.kwarg))
            elif k in params or k in fn.kwonly:
                if fn.tracked(k): self.b.edge_flow(v, self.b.param_def(fid, k))
            elif fn.kwarg:
                self.b.edge_flow(v.wrap(), self.b.param_def(fid, fn.kwarg))
        out = Flow(); out.add(self.b.ret_def(fid), IDENT)
        return out

    def call_method(self, cls_key, exact, m, recv, args, kwargs):
        """call method m on an object of class cls_key (exactly that class, or possibly a subclass);
        None if there is no such method"""
        fid = self.p.class_method(cls_key, m)
        if exact:
            fids = [fid] if fid else []
        else:
            fids = ([fid] if fid else []) + [self.p.classes[k]['methods'][m] for k in sorted(self.p.subclasses(cls_key))
                                              if k != cls_key and m in self.p.classes[k]['methods']]
        if not fids: return None
        ctx = cls_key if exact else None
        out = Flow()
        for fid in fids:
            fn = self.p.funcs[fid]
            if self.p.has_dispatch(fid):
                if len(fn.node.body) > 5:      # more than a pure dispatcher: its own body matters too
                    out.merge(self.bind_call(fid, recv, args, kwargs, True, ctx=ctx))
                out.merge(self.dispatch(self.dispatch_prefix_of(fid), cls_key, exact, recv, args, kwargs))
            else:
                out.merge(self.bind_call(fid, recv if not fn.is_static else None, args, kwargs, skip_first=not fn.is_static, ctx=ctx))
        return out

    def call(self, e, env):
        args = []
        for a in e.args:
            if isinstance(a, ast.Starred): args.append(('star', self.expr(a.value, env)))
            else: args.append(self.expr(a, env))
        kwargs = [(k.arg, self.expr(k.value, env)) for k in e.keywords]
        plain_args = [a for a in args if not isinstance(a, tuple)] + [a[1] for a in args if isinstance(a, tuple)]
        allflow = Flow()
        for a in plain_args: allflow.merge(a)
        for _, v in kwargs: allflow.merge(v)
        f = e.func
        inplace = any(k.arg == 'inplace' and isinstance(k.value, ast.Constant) and k.value.value is True for k in e.keywords)

        # --- plain name
        if isinstance(f, ast.Name):
            name = f.id
            if name in self.getattr_vars and self.f.cls:
                k = self.recv_class(ast.Name(id='self', ctx=ast.Load()))
                return self.dispatch(self.getattr_vars[name], k[0], k[1], self.expr(ast.Name(id='self', ctx=ast.Load()), env), args, kwargs)
            if name == 'cls' and self.f.cls and self.f.is_classmethod:
                return self.construct(self.ctx or self.f.cls, args, kwargs)
            if name in env:
                self.ext(e, allflow); return Flow()
            r = self.p.resolve_symbol(self.f.module, name)
            if r and r[0] == 'func':
                return self.bind_call(r[1], None, args, kwargs, skip_first=False)
            if r and r[0] == 'class':
                return self.construct(r[1], args, kwargs)
            if name == 'getattr' and len(e.args) >= 2:
                fl = self.expr(e.args[0], env).proj()
                if isinstance(e.args[1], ast.Constant) and isinstance(e.args[1].value, str):
                    fl = self.attr_load(ast.Attribute(value=e.args[0], attr=e.args[1].value, ctx=ast.Load()), env)
                if len(plain_args) > 2: fl.merge(plain_args[2])
                return fl
            if name in ALIAS_FUNCS:
                return plain_args[-1] if plain_args else Flow()
            if name in SHALLOW_FUNCS:
                out = Flow()
                for a in plain_args: out.merge(a.shallow())
                return out
            if name == 'deepcopy': return Flow()
            self.ext(e, allflow)
            return Flow()

        # --- attribute call  recv.m(...)
        if isinstance(f, ast.Attribute):
            m = f.attr
            if isinstance(f.value, ast.Name) and f.value.id not in env and f.value.id not in self.local_class:
                vid = f.value.id
                r = self.p.resolve_symbol(self.f.module, vid)
                if r and r[0] == 'mod':
                    rr = self.p.resolve_symbol(r[1], m)
                    if rr and rr[0] == 'func': return self.bind_call(rr[1], None, args, kwargs, False)
                    if rr and rr[0] == 'class': return self.construct(rr[1], args, kwargs)
                if r and r[0] == 'class':
                    fid = self.p.class_method(r[1], m)
                    if fid:
                        fn = self.p.funcs[fid]
                        return self.bind_call(fid, None, args, kwargs, skip_first=not fn.is_static,
                                              ctx=r[1] if fn.is_classmethod else None)
                if vid == 'copy' and m == 'deepcopy': return Flow()
                if vid == 'copy' and m == 'copy':
                    return plain_args[0].shallow() if plain_args else Flow()
                if vid == 'cls' and self.f.cls:
                    fid = self.p.class_method(self.ctx or self.f.cls, m)
                    if fid: return self.bind_call(fid, None, args, kwargs, skip_first=not self.p.funcs[fid].is_static, ctx=self.ctx)
                if vid not in ('self', 'cls') and (r is None or r[0] == 'ext'):
                    # a module-level object of another library / a module global: outside the package
                    self.ext(e, allflow)
                    return Flow()
            recv = self.expr(f.value, env)
            # in-place mutators of containers / frames
            if m in MUTATORS or inplace:
                self.b.mutation(self.fid, e, 'call:' + m + (':inplace' if inplace else ''), recv, ast.unparse(e))
                if m in STORING:
                    w = allflow.wrap() if STORING[m] is WRAP else allflow.shallow()
                    self._pending.append((f.value, w, e))
            k = self.recv_class(f.value)
            if k is not None:
                out = self.call_method(k[0], k[1], m, recv, args, kwargs)
                if out is not None: return out
            if m in PROJ_METHODS:
                g = PROJ_METHODS[m]
                out = recv.proj() if g is PROJ else recv.shallow()
                if m in ('get', 'pop', 'setdefault') and len(plain_args) > 1: out.merge(plain_args[1])
                return out
            if m in MUTATORS: return Flow()
            # package methods with that name (receiver class unknown)
            cands = self.p.methods_by_name.get(m, [])
            if cands and m not in FRESH_METHODS and (recv or allflow):
                out = Flow()
                for fid in cands:
                    o = self.call_method(self.p.funcs[fid].cls, False, m, recv, args, kwargs)
                    if o is not None: out.merge(o)
                return out
            if m in FRESH_METHODS or not (recv or allflow):
                if recv or allflow: self.ext(e, Flow().merge(recv).merge(allflow))
                return Flow()
            # unknown external method on a tracked receiver: its result may alias the receiver / the arguments
            self.ext(e, Flow().merge(recv).merge(allflow), unknown=True)
            return Flow().merge(recv).merge(allflow)
        # --- calling the result of an expression:  getattr(self, x)(node),  f()(..)
        if isinstance(f, ast.Call) and isinstance(f.func, ast.Name) and f.func.id == 'getattr' and f.args \
                and isinstance(f.args[0], ast.Name) and f.args[0].id == 'self' and self.f.cls and len(f.args) >= 2:
            k = self.recv_class(f.args[0])
            return self.dispatch(self.const_prefix(f.args[1]), k[0], k[1], self.expr(f.args[0], env), args, kwargs)
        self.expr(f, env)
        self.ext(e, allflow)
        return Flow()

    def dispatch(self, prefix, cls_key, exact, recv, args, kwargs):
        """getattr(self, prefix + …)(args): every method with that prefix the object can have"""
        out = Flow()
        keys = list(self.p.mro(cls_key))
        if not exact:
            keys += [k for k in sorted(self.p.subclasses(cls_key)) if k not in keys]
        done = set()
        for k in keys:
            for m, fid in self.p.classes[k]['methods'].items():
                if m.startswith(prefix) and not m.endswith('.setter'):
                    if exact and m in done: continue      # overridden further down the MRO
                    done.add(m)
                    out.merge(self.bind_call(fid, recv, args, kwargs, True, ctx=cls_key if exact else None))
        return out

    def construct(self, key, args, kwargs):
        init = self.p.class_method(key, '__init__')
        post = self.p.class_method(key, '__post_init__')
        if post: self.b.request(post, key)
        if init:
            self.bind_call(init, None, args, kwargs, True, ctx=key)
        else:
            fields = self.p.fields[key]
            for i, a in enumerate(args):
                if isinstance(a, tuple):
                    for fname in fields[i:]:
                        if self.attr_tracked(self.p.field_class(key, fname), fname): self.b.edge_flow(a[1].proj(), self.b.attr_def(self.p.field_class(key, fname), fname))
                    break
                if i < len(fields) and self.attr_tracked(self.p.field_class(key, fields[i]), fields[i]): self.b.edge_flow(a, self.b.attr_def(self.p.field_class(key, fields[i]), fields[i]))
            for k, v in kwargs:
                if k is None:
                    for fname in fields:
                        if self.attr_tracked(self.p.field_class(key, fname), fname): self.b.edge_flow(v.proj(), self.b.attr_def(self.p.field_class(key, fname), fname))
                elif k in fields and self.attr_tracked(self.p.field_class(key, k), k): self.b.edge_flow(v, self.b.attr_def(self.p.field_class(key, k), k))
        return Flow()      # a new object of a package class; what it holds lives in the class's attribute nodes

    def ext(self, e, flow, unknown=False):
        if not flow: return
        key = ast.unparse(e.func)
        self.b.ext_calls.setdefault(key, []).append((self.fid, e.lineno, Flow().merge(flow), unknown))


# ---------------------------------------------------------------------------------------------------
def build(repo):
    prog = Program(repo)
    api_rel = API_FILE
    for a in API_FUNCS:
        if a not in prog.mod_funcs.get(api_rel, {}):
            raise SE('public API function %s not found in %s' % (a, api_rel))
    b = Builder(prog)
    b.build_from(['%s:%s' % (api_rel, a) for a in API_FUNCS])
    # sources: every parameter of the six API functions, level 0 (tracked or not: immutable ones have no node)
    sources = []
    for a in API_FUNCS:
        fn = prog.funcs['%s:%s' % (api_rel, a)]
        for p in fn.params + fn.kwonly:
            d = '%s|%s|param' % (fn.fid, p)
            sources.append((a, p, d if fn.tracked(p) else None))
    # forward closure from the sources
    start = [(d, 0) for _, _, d in sources if d]
    seen, stack = set(start), list(start)
    while stack:
        n = stack.pop()
        for m in b.edges.get(n, ()):
            if m not in seen:
                seen.add(m); stack.append(m)
    nodes = sorted(seen, key=lambda x: (x[0], x[1]))
    idx = {n: i for i, n in enumerate(nodes)}
    adj = [sorted(idx[m] for m in b.edges.get(n, ())) for n in nodes]
    mut_nodes = sorted(idx[n] for n in nodes if n[0] in b.mut)
    all_mut = len(b.mut)
    # external callees that receive a possibly caller-owned (level 0) value
    ext_assumed = {}
    for key, lst in b.ext_calls.items():
        for fid, line, flow, unknown in lst:
            hit = any((d, n) in seen and 0 in f[n] for d, f in flow.maps().items() for n in range(MAXL + 1))
            if hit: ext_assumed.setdefault(key, []).append('%s:%d' % (fid, line))
    return {'prog': prog, 'builder': b, 'sources': sources, 'nodes': nodes, 'idx': idx, 'adj': adj, 'mut_nodes': mut_nodes,
            'all_mut_sites_in_package': all_mut, 'ext_assumed': ext_assumed,
            'total_defs': len(b.def_info), 'total_edges': sum(len(v) for v in b.edges.values())}


def site_key(info):
    """stable identification of a mutation site: file:function:kind:normalised text (no line numbers)"""
    return '%s:%s:%s' % (info['func'], info['kind'], ' '.join(info['text'].split()))


def translate(repo):
    g = build(repo)
    b = g['builder']
    S = vlib.lean_str
    L = ['namespace VtlModel.Gen.Effects', '']
    L.append('/-- forward closure of the API parameters in the alias-flow graph of src/vtlengine; node i has successors graph[i] -/')
    L.append('def graph : List (List Nat) := [')
    rows = []
    for i, (n, a) in enumerate(zip(g['nodes'], g['adj'])):
        rows.append('  %s' % vlib.lean_list(a))
    L.append(',\n'.join(rows))
    L.append(']')
    L.append('')
    L.append('/-- (api function, parameter, node id of (parameter, level 0)); immutable-annotated parameters have no node -/')
    src_rows = []
    for a, p, d in g['sources']:
        src_rows.append('(%s, %s, %s)' % (S(a), S(p), ('some %d' % g['idx'][(d, 0)]) if d else 'none'))
    L.append('def sources : List (String × String × Option Nat) := ' + vlib.lean_list(src_rows))
    L.append('')
    L.append('/-- node ids that are in-place mutation sites -/')
    L.append('def mutationSites : List Nat := ' + vlib.lean_list(g['mut_nodes']))
    L.append('')
    L.append('/-- (node id, stable key of the site) -/')
    labels = []
    for i in g['mut_nodes']:
        info = b.mut[g['nodes'][i][0]]
        labels.append('(%d, %s)' % (i, S(site_key(info))))
    L.append('def siteKeys : List (Nat × String) := ' + vlib.lean_list(labels))
    L.append('\nend VtlModel.Gen.Effects\n')
    return '\n'.join(L), g


def describe_node(g, i):
    n = g['nodes'][i]
    b = g['builder']
    if n[0] in b.mut:
        inf = b.mut[n[0]]
        return 'MUTATION %s line %d: %s' % (inf['func'], inf['line'], inf['text'])
    inf = b.def_info.get(n[0], {})
    return '%s  %s@%s  level %d' % (inf.get('func'), inf.get('var'), inf.get('line'), n[1])


if __name__ == '__main__':
    t, g = translate(vlib.REPO)
    print('nodes', len(g['nodes']), 'edges', sum(len(a) for a in g['adj']), 'mutation sites reachable-closure', len(g['mut_nodes']),
          'all defs', g['total_defs'], 'all edges', g['total_edges'], 'all mut sites', g['all_mut_sites_in_package'])
    for i in g['mut_nodes']:
        print('  ', i, describe_node(g, i))
    print('external callees receiving level-0 values:')
    for k, v in sorted(g['ext_assumed'].items()):
        print('  ', k, v[:3], len(v))


def shortest_path(g, dst):
    """BFS path from any source to node index dst (for explanations / replays)"""
    from collections import deque
    srcs = [g['idx'][(d, 0)] for _, _, d in g['sources'] if d]
    prev = {s: None for s in srcs}
    dq = deque(srcs)
    while dq:
        n = dq.popleft()
        if n == dst: break
        for m in g['adj'][n]:
            if m not in prev:
                prev[m] = n; dq.append(m)
    if dst not in prev: return None
    path, n = [], dst
    while n is not None:
        path.append(n); n = prev[n]
    return path[::-1]

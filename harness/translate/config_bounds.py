"""C30 translator: Config/config.py (constants, `set_decimal_config`, `get_decimal_type`) and the documented
ranges of docs/environment_variables.rst  ->  Gen/ConfigBounds.lean.

`set_decimal_config` is transcribed statement by statement from the Python `ast` into a Lean function over
the pair of module globals (DECIMAL_WIDTH, DECIMAL_SCALE): an edit of a comparison, of a bound or of the
variable that is compared changes the Lean function, and with it what the theorems of Props/C30.lean say.
Unknown statement / expression shapes raise vlib.ShapeError.
"""
from __future__ import annotations

import ast
import os
import re
import sys

sys.path.insert(0, os.path.join(os.path.dirname(os.path.abspath(__file__)), '..'))
import vlib  # noqa: E402

SE = vlib.ShapeError
GLOBALS = {'DECIMAL_WIDTH': 'g.w', 'DECIMAL_SCALE': 'g.s'}
FIELD = {'DECIMAL_WIDTH': 'w', 'DECIMAL_SCALE': 's'}
CMP = {ast.Lt: '<', ast.Gt: '>', ast.LtE: '≤', ast.GtE: '≥', ast.Eq: '=', ast.NotEq: '≠'}


def read_module(repo):
    p = os.path.join(repo, 'src/vtlengine/duckdb_transpiler/Config/config.py')
    return ast.parse(open(p).read())


def read_constants(tree):
    ints, strs, alias = {}, {}, {}
    for n in tree.body:
        if isinstance(n, ast.Assign) and len(n.targets) == 1 and isinstance(n.targets[0], ast.Name):
            k, v = n.targets[0].id, n.value
            if isinstance(v, ast.UnaryOp) and isinstance(v.op, ast.USub) and isinstance(v.operand, ast.Constant) and isinstance(v.operand.value, int):
                ints[k] = -v.operand.value
            elif isinstance(v, ast.Constant) and isinstance(v.value, bool):
                pass
            elif isinstance(v, ast.Constant) and isinstance(v.value, int):
                ints[k] = v.value
            elif isinstance(v, ast.Constant) and isinstance(v.value, str):
                strs[k] = v.value
            elif isinstance(v, ast.Name):
                alias[k] = v.id
    return ints, strs, alias


class Tr:
    def __init__(self, ints, strs):
        self.ints, self.strs = ints, strs
        self.locals = set()

    def expr(self, e):
        if isinstance(e, ast.Name):
            if e.id in GLOBALS: return GLOBALS[e.id]
            if e.id in self.locals: return 'l_' + e.id
            if e.id in self.ints or e.id in self.strs: return e.id
            raise SE('unknown name in set_decimal_config: ' + e.id)
        if isinstance(e, ast.Constant) and isinstance(e.value, int) and not isinstance(e.value, bool):
            return '(%d : Int)' % e.value
        if isinstance(e, ast.Constant) and isinstance(e.value, str):
            return vlib.lean_str(e.value)
        if isinstance(e, ast.UnaryOp) and isinstance(e.op, ast.USub):
            return '(-%s)' % self.expr(e.operand)
        raise SE('unknown expression: ' + ast.unparse(e))

    def cond(self, e):
        if isinstance(e, ast.BoolOp):
            op = ' ∨ ' if isinstance(e.op, ast.Or) else ' ∧ '
            return '(' + op.join(self.cond(v) for v in e.values) + ')'
        if isinstance(e, ast.UnaryOp) and isinstance(e.op, ast.Not):
            return '(¬ %s)' % self.cond(e.operand)
        if isinstance(e, ast.Compare):
            parts, left = [], e.left
            for op, right in zip(e.ops, e.comparators):
                if type(op) not in CMP: raise SE('unknown comparison: ' + ast.unparse(e))
                parts.append('%s %s %s' % (self.expr(left), CMP[type(op)], self.expr(right)))
                left = right
            return '(' + ' ∧ '.join(parts) + ')'
        raise SE('unknown condition: ' + ast.unparse(e))


def transcribe_set_decimal_config(tree, ints, strs):
    fn = [n for n in tree.body if isinstance(n, ast.FunctionDef) and n.name == 'set_decimal_config']
    if len(fn) != 1: raise SE('set_decimal_config not found')
    fn = fn[0]
    if fn.args.args or fn.args.kwonlyargs or fn.args.vararg or fn.args.kwarg:
        raise SE('set_decimal_config now takes parameters')
    tr = Tr(ints, strs)
    lines = []
    summary = []
    body = list(fn.body)
    if body and isinstance(body[0], ast.Expr) and isinstance(body[0].value, ast.Constant):
        body = body[1:]
    for st in body:
        if isinstance(st, ast.Global):
            if sorted(st.names) != ['DECIMAL_SCALE', 'DECIMAL_WIDTH']: raise SE('global statement: ' + ast.unparse(st))
            continue
        if isinstance(st, ast.Expr) and isinstance(st.value, ast.Call) and ast.unparse(st.value.func).startswith('_verif.'):
            continue  # guarded verification hook, no effect
        if isinstance(st, ast.Assign) and len(st.targets) == 1 and isinstance(st.targets[0], ast.Tuple) and isinstance(st.value, ast.Tuple) \
                and len(st.targets[0].elts) == len(st.value.elts) and all(isinstance(t, ast.Name) for t in st.targets[0].elts):
            # simultaneous assignment  A, B = x, y : right-hand sides are evaluated first
            tmps = []
            for k, v in enumerate(st.value.elts):
                lines.append('let t_%d_%d : Int := %s' % (st.lineno, k, tr.expr(v)))
                tmps.append('t_%d_%d' % (st.lineno, k))
            for t, tmp in zip(st.targets[0].elts, tmps):
                if t.id in GLOBALS:
                    lines.append('let g : St := { g with %s := %s }' % (FIELD[t.id], tmp))
                else:
                    if t.id in ints or t.id in strs: raise SE('assignment to a constant: ' + ast.unparse(st))
                    lines.append('let l_%s : Int := %s' % (t.id, tmp))
                    tr.locals.add(t.id)
            summary.append(ast.unparse(st))
            continue
        if isinstance(st, ast.Assign) and len(st.targets) == 1 and isinstance(st.targets[0], ast.Name):
            tgt = st.targets[0].id
            v = st.value
            # X = int(os.getenv(<VAR>, <default>))   or   X = <simple expression>
            if isinstance(v, ast.Call) and ast.unparse(v.func) == 'int' and len(v.args) == 1 and not v.keywords \
                    and isinstance(v.args[0], ast.Call) and ast.unparse(v.args[0].func) in ('os.getenv', 'os.environ.get') \
                    and len(v.args[0].args) == 2 and isinstance(v.args[0].args[0], ast.Name) and v.args[0].args[0].id in strs:
                var, dflt = v.args[0].args[0].id, tr.expr(v.args[0].args[1])
                val = '(env %s).getD %s' % (var, dflt)
                summary.append('%s = int(getenv(%s, %s))' % (tgt, var, ast.unparse(v.args[0].args[1])))
            else:
                val = tr.expr(v)
                summary.append(ast.unparse(st))
            if tgt in GLOBALS:
                lines.append('let g : St := { g with %s := %s }' % (FIELD[tgt], val))
            else:
                if tgt in ints or tgt in strs: raise SE('assignment to a constant: ' + ast.unparse(st))
                lines.append('let l_%s : Int := %s' % (tgt, val))
                tr.locals.add(tgt)
            continue
        if isinstance(st, ast.If) and not st.orelse and len(st.body) == 1:
            b = st.body[0]
            if isinstance(b, ast.Assign) and len(b.targets) == 1 and isinstance(b.targets[0], ast.Name) \
                    and (b.targets[0].id in GLOBALS or b.targets[0].id in tr.locals):
                t = b.targets[0].id
                if t in GLOBALS:
                    lines.append('let g : St := if %s then { g with %s := %s } else g' % (tr.cond(st.test), FIELD[t], tr.expr(b.value)))
                else:
                    lines.append('let l_%s : Int := if %s then %s else l_%s' % (t, tr.cond(st.test), tr.expr(b.value), t))
                summary.append('if %s: %s' % (ast.unparse(st.test), ast.unparse(b)))
                continue
            if isinstance(b, ast.Raise) and isinstance(b.exc, ast.Call) and ast.unparse(b.exc.func) == 'RunTimeError' and not b.exc.args:
                kw = {k.arg: k.value for k in b.exc.keywords}
                want = ['code', 'env_var', 'value', 'min_value', 'max_value', 'disable_value']
                if sorted(kw) != sorted(want): raise SE('RunTimeError keywords: %r' % sorted(kw))
                flds = ', '.join(tr.expr(kw[k]) for k in want)
                lines.append('if %s then (g, some ⟨%s⟩) else' % (tr.cond(st.test), flds))
                summary.append('if %s: raise RunTimeError(%s)' % (ast.unparse(st.test), ', '.join('%s=%s' % (k, ast.unparse(kw[k])) for k in want)))
                continue
        raise SE('unknown statement in set_decimal_config: ' + ast.unparse(st)[:100])
    lines.append('(g, none)')
    return lines, summary


def transcribe_get_decimal_type(tree):
    fn = [n for n in tree.body if isinstance(n, ast.FunctionDef) and n.name == 'get_decimal_type']
    if len(fn) != 1: raise SE('get_decimal_type not found')
    body = [s for s in fn[0].body if not (isinstance(s, ast.Expr) and isinstance(s.value, ast.Constant))]
    if len(body) != 1 or not isinstance(body[0], ast.Return) or not isinstance(body[0].value, ast.JoinedStr):
        raise SE('get_decimal_type is not a single f-string return')
    parts = []
    for v in body[0].value.values:
        if isinstance(v, ast.Constant): parts.append(vlib.lean_str(v.value))
        elif isinstance(v, ast.FormattedValue) and isinstance(v.value, ast.Name) and v.value.id in GLOBALS and v.conversion == -1 and v.format_spec is None:
            parts.append('toString %s' % GLOBALS[v.value.id])
        else: raise SE('get_decimal_type f-string part: ' + ast.unparse(v))
    return ' ++ '.join(parts)


def read_doc_ranges(repo):
    p = os.path.join(repo, 'docs/environment_variables.rst')
    txt = open(p).read()
    out = {}
    for var in ('OUTPUT_NUMBER_SIGNIFICANT_DIGITS', 'VTL_DUCKDB_DECIMAL_WIDTH'):
        m = re.search(r'^``%s``\n=+\n' % re.escape(var), txt, re.M)
        if not m: raise SE('docs: section %s not found' % var)
        sec = txt[m.end():]
        nxt = re.search(r'^``[A-Z_]+``\n=+\n|^[^\n]+\n\*{4,}\n', sec, re.M)
        if nxt: sec = sec[:nxt.start()]
        rows = re.findall(r'^\s*\* - (.+)\n\s*- ((?:.+\n)(?:\s{6,}.+\n)*)', sec, re.M)
        d = {}
        for k, v in rows:
            k = k.strip(); v = ' '.join(v.split())
            if k == 'Value': continue
            if k == 'Not defined':
                mm = re.search(r'\*\*(\d+)\*\*\s*\(DuckDB\)', v) or re.fullmatch(r'Uses default value of \*\*(\d+)\*\*', v)
                if not mm: raise SE('docs %s: default row %r' % (var, v))
                d['default'] = int(mm.group(1))
            elif re.fullmatch(r'``(-?\d+)`` to ``(-?\d+)``', k):
                a, b = re.fullmatch(r'``(-?\d+)`` to ``(-?\d+)``', k).groups()
                d['min'], d['max'] = int(a), int(b)
            elif re.fullmatch(r'``(-?\d+)``', k):
                if 'isable' not in v: raise SE('docs %s: single value row is not a disable row: %r' % (var, v))
                d['disable'] = int(re.fullmatch(r'``(-?\d+)``', k).group(1))
                mm = re.search(r'maximum (?:scale|precision) of (\d+)', v)
                if not mm: raise SE('docs %s: disable row does not say which maximum applies: %r' % (var, v))
                d['disable_means'] = int(mm.group(1))
            else:
                raise SE('docs %s: unknown row %r' % (var, k))
        if sorted(d) != ['default', 'disable', 'disable_means', 'max', 'min']:
            raise SE('docs %s: table incomplete: %r' % (var, d))
        out[var] = d
    return out


def translate(repo):
    tree = read_module(repo)
    ints, strs, _ = read_constants(tree)
    need_i = ['DEFAULT_DECIMAL_WIDTH', 'DEFAULT_DECIMAL_SCALE', 'MAX_DECIMAL_WIDTH', 'MIN_DECIMAL_WIDTH', 'MAX_DECIMAL_SCALE',
              'MIN_DECIMAL_SCALE', 'DISABLE_VALUE']
    need_s = ['DECIMAL_WIDTH_ENV_VAR', 'DECIMAL_SCALE_ENV_VAR']
    for k in need_i:
        if k not in ints: raise SE('constant %s not found' % k)
    for k in need_s:
        if k not in strs: raise SE('constant %s not found' % k)
    # initial values of the two globals
    init = {}
    for n in tree.body:
        if isinstance(n, ast.Assign) and isinstance(n.targets[0], ast.Name) and n.targets[0].id in GLOBALS:
            if not isinstance(n.value, ast.Name) or n.value.id not in ints: raise SE('initial value of %s' % n.targets[0].id)
            init[n.targets[0].id] = n.value.id
    if sorted(init) != ['DECIMAL_SCALE', 'DECIMAL_WIDTH']: raise SE('initial values of the decimal globals not found')
    lines, summary = transcribe_set_decimal_config(tree, ints, strs)
    dtype = transcribe_get_decimal_type(tree)
    doc = read_doc_ranges(repo)
    dW, dS = doc['VTL_DUCKDB_DECIMAL_WIDTH'], doc['OUTPUT_NUMBER_SIGNIFICANT_DIGITS']
    L = ['import VtlModel.Tables.Decimal', 'namespace VtlModel.Gen.ConfigBounds', 'open VtlModel.Tables.Decimal', '']
    for k in need_s: L.append('def %s : String := %s' % (k, vlib.lean_str(strs[k])))
    for k in need_i: L.append('def %s : Int := %d' % (k, ints[k]))
    L.append('/-- module-level initial values of DECIMAL_WIDTH / DECIMAL_SCALE -/')
    L.append('def initial : St := ⟨%s, %s⟩' % (init['DECIMAL_WIDTH'], init['DECIMAL_SCALE']))
    L.append('')
    L.append('/-- `set_decimal_config`, statement by statement; `g` = (DECIMAL_WIDTH, DECIMAL_SCALE) before the call,')
    L.append('    `env` = the integer value of an environment variable when it is set.  Returns the globals after the call')
    L.append('    (also after a failing one: the assignments happen before the checks) and the raised error, if any. -/')
    L.append('def setDecimalConfig (env : String → Option Int) (g : St) : St × Option ConfigError :=')
    for ln in lines: L.append('  ' + ln)
    L.append('')
    L.append('/-- `get_decimal_type` -/')
    L.append('def decimalType (g : St) : String := ' + dtype)
    L.append('')
    L.append('/-- docs/environment_variables.rst -/')
    for nm, d in (('Width', dW), ('Scale', dS)):
        L.append('def doc%sMin : Int := %d' % (nm, d['min']))
        L.append('def doc%sMax : Int := %d' % (nm, d['max']))
        L.append('def doc%sDisable : Int := %d' % (nm, d['disable']))
        L.append('def doc%sDisableMeans : Int := %d' % (nm, d['disable_means']))
        L.append('def doc%sDefault : Int := %d' % (nm, d['default']))
    L.append('\nend VtlModel.Gen.ConfigBounds\n')
    digest = {'constants': {k: ints[k] for k in need_i}, 'set_decimal_config': summary, 'doc': doc}
    return '\n'.join(L), digest


if __name__ == '__main__':
    t, d = translate(vlib.REPO)
    print(t); print(d)
